#!/usr/bin/env python3
# validates MANIFEST.json and evidence/*.json against the given schemas (needs python3-vt's jsonschema)
import json, glob, sys, jsonschema
jsonschema.validate(json.load(open('MANIFEST.json')), json.load(open('/root/.vp/MANIFEST.schema.json')))
es = json.load(open('/root/.vp/EVIDENCE.schema.json'))
bad = 0
for f in sorted(glob.glob('evidence/*.json')):
    try:
        jsonschema.validate(json.load(open(f)), es)
    except Exception as e:
        bad += 1
        print("INVALID", f, str(e)[:300])
print("manifest ok; evidence files invalid:", bad)
sys.exit(1 if bad else 0)
