#!/usr/bin/env python3
"""Regenerates MANIFEST.json from vconfig.PROPS + manifest_meta.py (single source of truth)."""
import json, os, sys
sys.path.insert(0, os.path.dirname(os.path.abspath(__file__)))
from vconfig import PROPS
from manifest_meta import META, ENGINES, ALL_IDS, NOT_BUILT_REASON, CLAIMED

checks = []
for pid in sorted(CLAIMED):
    m = META[pid]
    checks.append({
        "property_id": pid,
        "quick_cmd": "./vcheck %s --tier quick" % pid,
        "thorough_cmd": "./vcheck %s --tier thorough" % pid,
        "evidence_file": "evidence/%s.json" % pid,
        "replay_cmd_template": "./vcheck %s --replay {path}" % pid,
        "engine": m["engine"],
        "level_claimed": {"category": PROPS[pid]["level"], "text": m["text"], "design_ref": m["design_ref"]},
        "level_note": m["note"],
        "technique": m["technique"],
    })
na = [{"property_id": pid, "reason": NOT_BUILT_REASON.get(pid, "check not built yet (see DESIGN.md section 6 build order); nothing is claimed for it")}
      for pid in ALL_IDS if pid not in CLAIMED]
man = {
    "version": 1,
    "setup_cmd": "./setup.sh",
    "hooks": {
        "guard": "verif (Go build tag)",
        "enable": "go test -tags verif -overlay <generated overlay.json> -modfile=<copy of /repo/go.mod + porcupine> — harness and hook files live in /verif/harness and are injected at build time; nothing is written under /repo",
        "baseline_off_cmd": "./baseline_off.sh",
        "source_commits": [],
        "add_only": True,
    },
    "engines": [e for e in ENGINES if any(p in CLAIMED for p in e["serves_properties"])],
    "checks": checks,
    "notes": "Runtime monitoring: every check executes the real MetalLB code under generated / hostile / concurrent workloads and decides with an oracle over what was observed. Exit 2 of a check = inconclusive (build failure, watchdog, observation threshold).",
    "not_applicable": na,
}
json.dump(man, open(os.path.join(os.path.dirname(os.path.abspath(__file__)), "MANIFEST.json"), "w"), indent=1)
print("MANIFEST.json: %d checks, %d not claimed" % (len(checks), len(na)))
