ALL_IDS = ["C%02d" % i for i in range(1, 21)]
NOT_BUILT_REASON = {}
# properties registered in MANIFEST.json (their checks are silent on the unchanged tree and validated
# against breaks); everything else is listed under not_applicable with the reason "not built yet".
CLAIMED = ["C01", "C02", "C03", "C04", "C05", "C06", "C07", "C08", "C09", "C10", "C11", "C12", "C13", "C14", "C15", "C16", "C17", "C18", "C19", "C20"]

ENGINES = [
    {"name": "config-oracle", "path": "harness/config", "serves_properties": ["C08"],
     "kind_free_text": "in-package Go harness: generated resource sets -> config.For -> interval-set oracle (math/big)"},
    {"name": "alloc-api", "path": "harness/allocator", "serves_properties": ["C01", "C02", "C11"],
     "kind_free_text": "allocator API histories (Assign/Allocate/AllocateFromPool/additional family/Unassign/SetPools) with step monitors on a snapshot of the allocator's bookkeeping"},
    {"name": "box-controller", "path": "harness/controller + harness/lib/boxkernel.go", "serves_properties": ["C01", "C02", "C03", "C06", "C07", "C11"],
     "kind_free_text": "deterministic cluster simulator: real controller + allocator + ServiceReconciler + PoolReconciler on an in-memory API store, seeded scheduler with yield points outside the Listener lock, crash points, failing status writes; reference-model oracles at handler returns and at quiescence"},
    {"name": "box-speaker", "path": "harness/speaker/sbox_*_test.go + harness/lib/boxkernel.go", "serves_properties": ["C05", "C09"],
     "kind_free_text": "deterministic cluster simulator for the speaker: real speaker controller, BGP controller with a recording session manager, layer-2 controller + announcer over in-memory responders, real Service/Config/Node reconcilers on an in-memory store under a seeded scheduler"},
    {"name": "l2-linearizability", "path": "harness/layer2", "serves_properties": ["C13"],
     "kind_free_text": "concurrent histories on the real layer-2 announcer + ARP responder over an in-memory PacketConn, checked with porcupine against a sequential model, under the race detector"},
    {"name": "direct-speaker", "path": "harness/speaker/direct_oracle_test.go c04/c10/c12", "serves_properties": ["C04", "C10", "C12"],
     "kind_free_text": "direct calls of the real layer-2 / BGP ShouldAnnounce decisions on generated and enumerated cluster views, one controller per node, eligibility / election oracle written from the statements"},
    {"name": "frr-interp", "path": "harness/lib/frrinterp.go + harness/frr/c14_test.go + harness/frrk8s/c15_test.go + harness/frrk8s/c15x_test.go + harness/controllers/c15_test.go", "serves_properties": ["C14", "C15"],
     "kind_free_text": "translation validation: interpreter of the generated FRR configuration text (prefix-lists, route-maps, networks, neighbors) and structural oracle on the FRRConfiguration resource, cross-checked against each other"},
    {"name": "bgp-wire", "path": "harness/native/c16_test.go + harness/lib/rfc4271.go", "serves_properties": ["C16"],
     "kind_free_text": "bytes written by the real sendOpen/sendKeepalive/sendUpdate/sendWithdraw decoded by an independent RFC 4271 codec; hostile OPEN inputs (valid, structure-aware mutations, random) fed to the real readOpen under recover + watchdog + sentinel bytes"},
    {"name": "bgp-session", "path": "harness/native/c17_test.go", "serves_properties": ["C17"],
     "kind_free_text": "scripted in-process BGP peer on a loopback TCP listener with fault scripts (drops idle / between / inside messages, stalls, wrong ASN, held OPEN); table comparison with the last requested route set, under the race detector"},
    {"name": "race-replay", "path": "harness/controller/c20_test.go + harness/speaker/c20_test.go", "serves_properties": ["C20"],
     "kind_free_text": "real goroutines through the real k8s.Listener + concurrent status fetchers under the Go race detector; serial replay of the effective handler order (logged inside the Listener lock) on fresh instances"},
    {"name": "conversion", "path": "harness/controllers/c18_test.go", "serves_properties": ["C18"],
     "kind_free_text": "toConfig on all pool permutations x shuffles x repetitions; real Config/Pool reconcilers on a fake client counting handler calls"},
    {"name": "debounce", "path": "harness/frr/c19_test.go + harness/controllers/c19_test.go", "serves_properties": ["C19"],
     "kind_free_text": "offline checker over submit/apply event logs of the real debouncers (frr and frr-k8s) with enumerated failure patterns, under the race detector"},
]

_BOX_NOTE = ("Trusted: the box's model of controller-runtime (queues, one worker per reconciler, retry, reload key) and of the API server "
             "(resourceVersion conflicts, status+annotation writes); the reference model in harness/lib/allocmodel.go. Held on the histories and "
             "interleavings observed; MetalLB-internal map iteration order is not controlled.")

META = {
    "C01": {
        "engine": "box-controller",
        "text": "Invariant monitor: after every allocator operation (API histories) and after every handler return (controller box) the snapshot of the allocator's memory is checked pairwise per address (key, backend, ports, coherence of the four maps); at every quiescent point the statuses in the store are checked pairwise against the statement's sharing relation with the live specs, and memory == statuses.",
        "design_ref": "DESIGN.md 2/C01",
        "note": _BOX_NOTE,
        "technique": "runtime monitoring: invariant over hooked allocator state after every step + store at quiescence, under a seeded scheduler",
    },
    "C02": {
        "engine": "box-controller",
        "text": "Reference-model oracle: every placement (allocator return values; statuses at quiescence) must lie in exactly one pool of the oracle's own parse of the pool CRs, be usable, admitted by the pool's selectors, obey the family rule, the pool annotation and explicit requests; every automatic allocation event is judged against the pre-state (auto-assign, pinned before unpinned, ascending priority).",
        "design_ref": "DESIGN.md 2/C02",
        "note": _BOX_NOTE,
        "technique": "runtime monitoring: reference-model oracle at allocation events and at quiescence",
    },
    "C03": {
        "engine": "box-controller",
        "text": "Frame-condition oracle between consecutive quiescent points: an untouched service whose addresses stayed admissible under every delivered configuration version keeps its set (PreferDualStack gain allowed unless the service pins exactly the address it holds), is written at most once per configuration version, and the second of two forced re-syncs at the end writes nothing; the statuses the store starts with are judged over the boot window.",
        "design_ref": "DESIGN.md 2/C03",
        "note": _BOX_NOTE,
        "technique": "runtime monitoring: frame-condition oracle over recorded status writes between quiescent points",
    },
    "C04": {
        "engine": "direct-speaker",
        "text": "One real layer2Controller per node is fed the same generated / enumerated view; the set of announcers must be a singleton iff the oracle's eligible set is non-empty, the announcer must be eligible and be the sha256 argmin, and services sharing the address must elect the same node. Thorough tier enumerates the bounded 3-node space completely (16.7 M views) plus random 4-6 node views. Second run (controller box): at every quiescent point Services whose statuses share an address must list the same first address, the key of the speakers' election. Third run (speaker box): the real speaker controller + layer-2 announcer under event histories; this node must hold a Service's addresses iff it is the eligible node with the smallest sha256(node#first address), eligibility computed from the resources.",
        "design_ref": "DESIGN.md 2/C04",
        "note": "The membership view is an input (memberlist is not run). Exhaustive only for the bounded space; quick tier samples it.",
        "technique": "runtime monitoring: eligibility/election oracle over decisions of the real controllers on enumerated views",
    },
    "C05": {
        "engine": "box-speaker",
        "text": "After every handler return each live session must carry exactly the advertisements of the services the BGP controller holds (route withdrawn as soon as no service produces it, one live session per peer); at every quiescent point the routes, attributes (aggregate, local preference, communities), the set of live sessions and PeersForService are compared with the expectation computed from the resources (pools by the oracle's own parse, advertisement attachment and node / peer selection, eligibility rule, endpoints). One history in three carries one injected fault (the k-th NewSession call fails once); the step monitor keeps judging every handler return, the history ends at the next quiescent point.",
        "design_ref": "DESIGN.md 2/C05",
        "note": "Trusted: the speaker box (watch predicates, queues), the expectation oracle in harness/speaker/sbox_monitor_test.go. Endpoint addresses are unique per node (the Local-policy ambiguity of C10 is kept out).",
        "technique": "runtime monitoring: expected-route oracle vs recording session manager after every step and at quiescence, with injected session-creation failures",
    },
    "C06": {
        "engine": "box-controller",
        "text": "Crash-point x fault-plan enumeration: each base history is executed crash-free to enumerate its crash points (scheduler yields, before/after every status write, after every event), then re-executed with a crash at selected points (all status-write boundaries first) and failing status writes; after the restarted controller is quiescent the oracle checks that recorded admissible addresses were kept, nothing recorded was taken by an unrecorded service, exclusivity and pool policy hold and memory == statuses; thefts are classified from the allocator memory log (who took the address, in which phase, from a service visited earlier or later by the first full sync).",
        "design_ref": "DESIGN.md 2/C06",
        "note": _BOX_NOTE + " Crash indices are sampled in the quick tier (10 per history) and more densely in the thorough tier (60 per history), not all.",
        "technique": "runtime monitoring with fault injection: crash points and failing writes, restart, state oracle",
    },
    "C07": {
        "engine": "box-controller",
        "text": "Admissibility oracle at every quiescent point: for every pending LoadBalancer service the oracle searches by brute force over the tiny pools for an admissible assignment (explicit addresses / explicit pool / auto-assign pools; free or certainly shareable addresses); finding one is a violation, named after the event that made it admissible. A third of the histories inject failing status writes throughout (before / after apply) with user events aimed at the service whose write just failed.",
        "design_ref": "DESIGN.md 2/C07",
        "note": _BOX_NOTE,
        "technique": "runtime monitoring: brute-force admissibility oracle at quiescence",
    },
    "C08": {
        "engine": "config-oracle",
        "text": "Generated resource sets (address-string grammar incl. IPv4-mapped, mixed-family, ranges crossing alignment, /31 /32 /127 /128; advertisements, multi-homed nodes, 3 validators) are parsed by the real config.For; every accepted configuration is judged by an independent interval-set oracle (exact pool sets, pairwise disjointness, node IPs, advertisement attachment and node selection, aggregate containment, local-preference collisions). Held on the configurations observed; not a proof over all inputs.",
        "design_ref": "DESIGN.md 2/C08",
        "note": "Trusted: the oracle's own parser (net/netip + math/big), Kubernetes label-selector matching (shared library). Over-rejection is not judged.",
        "technique": "runtime monitoring: reference-model oracle over generated inputs executed on the real parser",
    },
    "C09": {
        "engine": "box-speaker",
        "text": "At every quiescent point of a speaker history (service / endpoint / node / configuration / membership events, overlapping re-syncs) the announcements - layer-2 holdings and the answer decision per (address, interface), routes on every live session, PeersForService - are compared with two freshly booted speakers on a copy of the store (which must also agree with each other).",
        "design_ref": "DESIGN.md 2/C09",
        "note": "The reference speakers hear of the nodes first; the real speaker's dependence on the start order is listed as a known finding (first event of a node asks for no re-sync).",
        "technique": "runtime monitoring: differential oracle (history instance vs fresh instances) at quiescence",
    },
    "C10": {
        "engine": "direct-speaker",
        "text": "The real bgpController.ShouldAnnounce is evaluated on enumerated (thorough: all layouts of <= 3 endpoint entries x slice splits x node flags x policies, 10.3 M decisions) and random endpoint layouts and compared with the iff rule of the statement (per-address conjunction over entries, disjunction over addresses).",
        "design_ref": "DESIGN.md 2/C10",
        "note": "Ambiguous Local cross-node conflicts are counted, not judged.",
        "technique": "runtime monitoring: iff oracle over decisions of the real controller on enumerated endpoint layouts",
    },
    "C11": {
        "engine": "box-controller",
        "text": "After every allocator operation / handler return: the bookkeeping must equal that of a fresh allocator rebuilt from the surviving assignments; per pool the counters must equal the distinct in-use addresses and assigned+available the oracle's usable count (math/big, saturating), never negative (pool layouts that list an address twice are submitted too: refused by the loader today, counted once should they ever be accepted); every released address is probed (assign + unassign of a probe service must succeed and leave no trace); the real PoolStatusReconciler writes IPAddressPool.status, which must equal the counters at quiescence, and the counters read at the moment of a pool's last change notification must be the final ones.",
        "design_ref": "DESIGN.md 2/C11",
        "note": _BOX_NOTE,
        "technique": "runtime monitoring: rebuild-and-compare + counting oracle + release probes on hooked allocator state",
    },
    "C12": {
        "engine": "direct-speaker",
        "text": "Metamorphic relation between a view and perturbed views: every removed / added subset is realised through 7 mechanisms (speaker death, NetworkUnavailable, exclude label, advertisement deselect, lost local endpoint, node removed, mixed); the announcer may change only on owner loss or when a newcomer wins, never between two surviving nodes; identical across speakers, services on the address and listing orders; 6-step histories with reused controllers vs fresh ones; every decision is also asked of one long-lived controller per node name and must equal the fresh one (node names and addresses ambiguous as plain concatenation are in the palette).",
        "design_ref": "DESIGN.md 2/C12",
        "note": "Thorough covers every subset for all pairs with |E| <= 5.",
        "technique": "runtime monitoring: metamorphic oracle over decisions of the real controllers",
    },
    "C13": {
        "engine": "l2-linearizability",
        "text": "Concurrent histories (3 mutators, 2 requesters, 1 gratuitous spammer) on the real Announce + arpResponder.processRequest over an in-memory PacketConn are recorded at the boundary with one logical clock and checked with porcupine against a sequential model (who holds which address with which interface scope); never-answer frames, reads that fail once with ENETDOWN on an open socket (the responder must keep reading), refcounts at quiescent points and silence after the last withdraw are checked directly; all under the race detector. Second run (speaker box): the real speaker controller + layer-2 announcer driven by event histories; at every quiescent point every held (service, address) must be an address the Service has, with the interface scope the selecting L2Advertisements ask for, and the per-interface answer must be exactly 'some held scope covers it'.",
        "design_ref": "DESIGN.md 2/C13",
        "note": "Trusted: porcupine v1.3.0; the harness's ARP codec. NDP only through the shouldAnnounce decision; the real spamLoop cadence is not waited for.",
        "technique": "runtime monitoring: linearizability checking of recorded concurrent histories (porcupine) + race detector",
    },
    "C14": {
        "engine": "frr-interp",
        "text": "Translation validation: for generated session sets (1-4 sessions over 1-2 VRFs, numbered / unnumbered, iBGP / eBGP / dynamic ASN, all session parameters, 0-6 advertisements from overlapping prefixes with different communities and local preferences) the text produced by the real createConfig + templates is parsed and interpreted with FRR's documented prefix-list / route-map / network semantics; per neighbor the offered prefixes, local preference and communities must equal the request, every other prefix must be denied outbound, everything inbound, networks per router must equal the union, parameters must sit on the right neighbor (a statement for a neighbor that is never declared is a violation), and the text must not depend on creation order.",
        "design_ref": "DESIGN.md 2/C14",
        "note": "Trusted base: harness/lib/frrinterp.go (my reading of FRR semantics; no FRR binary in the sandbox). Session sets the real FRR-mode validator rejects are skipped.",
        "technique": "translation validation: interpreter of the generated configuration text vs the requested routes",
    },
    "C15": {
        "engine": "frr-interp",
        "text": "Structural oracle on the FRRConfiguration handed to the config-changed callback (allowed prefixes sorted / de-duplicated, communities and local preferences listed for exactly their requesters, router prefixes == union, node selector == this node, session parameters, password xor secret, order independence) and agreement of the per-neighbor map prefix -> (local preference, communities) with the C14 interpretation of the FRR text rendered from the same sessions. Second run (reconciler): the real FRRK8sReconciler against a fake API that already stores metallb-<node> in one of 12 states (absent, equal, one difference inside or outside spec.bgp: node selector, raw section, router, neighbor, password, BFD profile, prefixes); the stored spec must equal the desired one, the desired configuration must stay untouched (also when dumped at debug level) and a second Reconcile must not write. Third run (concurrent, race detector): one goroutine per session calls Set on one session manager against a callback consumer that is sometimes slow before it stores and keeps only the last resource; the resource held after all calls returned must equal the one a fresh manager produces sequentially for the final session set.",
        "design_ref": "DESIGN.md 2/C15",
        "note": "SourceAddress is not demanded. Cross-check skipped for session sets FRR mode refuses.",
        "technique": "translation validation: structural oracle + cross-check against the interpreted FRR text; runtime monitor of the resource delivered last under concurrent Set calls (race detector on)",
    },
    "C16": {
        "engine": "bgp-wire",
        "text": "Every message the real encoder writes (exhaustive prefix lengths 0..32, ASNs across the 2/4-byte boundary, 0..63 communities, iBGP/eBGP x 4-byte capable or not, withdraws up to several thousand prefixes) is decoded by an independent strict RFC 4271 decoder and compared with the intended content; readOpen is fed valid OPENs from the harness's encoder, structure-aware mutations and random bytes, each call under recover + goroutine watchdog with trailing sentinel bytes (never panics / hangs / over-consumes; well-formed OPENs yield ASN, hold time, capabilities).",
        "design_ref": "DESIGN.md 2/C16",
        "note": "Trusted: harness/lib/rfc4271.go. MP capabilities with a non-zero reserved octet and IPv6 next hops are not judged.",
        "technique": "runtime monitoring: independent decoder as oracle over emitted bytes + hostile inputs under recover/watchdog",
    },
    "C17": {
        "engine": "bgp-session",
        "text": "The real native session (run / connect / sendUpdates / abort / Close) talks over loopback TCP to a scripted peer that decodes every message into a routing table and injects faults at scripted points (drop idle, between messages, inside a message, during OPEN; stall reading; wrong ASN for the first attempts; held OPEN reply). Caller scripts include flip-backs (a change and, in the next call, exactly the set the peer already holds). Oracle: bounded-progress convergence of the table to the last requested set, every announced route was requested by an earlier Set, each new connection starts with a full re-send, a wrong-ASN peer (also AS_TRANS without capability) receives nothing after its OPEN, nothing happens after Close returned; the four-octet capability is scripted per connection and every connection is decoded in the form its OPEN asked for. Under the race detector.",
        "design_ref": "DESIGN.md 2/C17",
        "note": "Eventually is decided as bounded progress with the starvation canary and a canary-clean confirmation period; expiry under starvation is inconclusive.",
        "technique": "runtime monitoring with fault injection: scripted peer, table comparison, race detector",
    },
    "C18": {
        "engine": "conversion",
        "text": "For generated snapshots (3-5 objects per kind, several pools pinned to one namespace by name and by selector) toConfig is evaluated on every pool permutation x seeded shuffles of all other kinds and 20 repetitions; all values must be reflect.DeepEqual and acceptance identical; the real ConfigReconciler / PoolReconciler reconcile an unchanged store with shuffled List order and must call the handler exactly once per distinct snapshot. The controller and speaker boxes count handler calls for unchanged resources over whole event histories (a consumer that writes into the shared configuration makes every event look like a change); native sessions are run against the scripted peer and must leave what their parameters point to untouched.",
        "design_ref": "DESIGN.md 2/C18",
        "note": "Trusted: reflect.DeepEqual as the notion of equality (it is the reconcilers' own). Error texts are not compared.",
        "technique": "runtime monitoring: metamorphic (permutation / repetition) equality oracle + handler-call counting",
    },
    "C19": {
        "engine": "debounce",
        "text": "The real debouncers (frr: 20 ms / 15 ms retry; frr-k8s variant with the real FRRK8sReconciler on a fake client) are driven with submission scripts (new / identical / revert / re-apply, gaps around the debounce interval, concurrent re-apply requests) and enumerated failure patterns of length <= 6 (reload-step failures and, in the file variant, write-step failures through a missing directory); an offline checker over the stamped event log decides: applied config within the submission window, never backwards, retry after failure without new submission, last success == last submission (bounded progress with starvation canary), submitters return, identical resubmission causes no reload, bursts coalesce. Session-manager variant: the real FRR sessionManager (Set / SyncBFDProfiles / Close) feeds the real debouncer; at every idle point the text applied last must equal a fresh render of the submitted state and identical re-submissions must not reload.",
        "design_ref": "DESIGN.md 2/C19",
        "note": "Eventually is decided as bounded progress (100x the interval; inconclusive if the canary saw starvation). reloadValidator's status file path is a constant and is not exercised.",
        "technique": "runtime monitoring: offline trace checker over recorded submit/apply events with injected reload failures + race detector",
    },
    "C20": {
        "engine": "race-replay",
        "text": "4-6 driver goroutines deliver service / pool (controller) and service / configuration / node (speaker) events through the real k8s.Listener while fetchers call CountersForPool, Announce.GetStatus (reading the advertisements the way the Layer2StatusReconciler does) and PeersForService (iterating the set) and consumers drain the callbacks; the Go race detector watches; panics and deadlocks are caught; the effective handler order, logged from inside the Listener lock, is replayed serially on fresh instances and allocator state, status writes, layer-2 announcements, sessions and PeersForService must be equal; the per-address sequence of requests for gratuitous announcements must be the one of the serial order. Third run (layer2): the real periodic interface scan runs twice on an announcer that still holds responders of vanished interfaces while handlers and fetchers run; the stale responders must be closed and dropped, nothing may panic or stay parked. Controller rounds also judge what the concurrent readers see: each fetcher snapshot of a pool's counters must conserve assigned + available = usable size in one configuration version of the round, the counters last fetched by the callback consumer must equal the allocator's once every notification is consumed, and a fetch made at the last notification of a pool inside a handler must return the counters that handler leaves behind.",
        "design_ref": "DESIGN.md 2/C20",
        "note": "Race-detector silence covers the executed interleavings only. Deadlock = no progress within 60 s with drivers parked inside MetalLB behind a Listener handler (violation, with the goroutine dump); no progress without that picture is inconclusive.",
        "technique": "sanitizer (Go race detector) + serial replay in recorded lock order + conservation monitor over concurrent counter snapshots",
    },
}
