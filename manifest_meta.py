ALL_IDS = ["C%02d" % i for i in range(1, 21)]
NOT_BUILT_REASON = {}
CLAIMED = ["C08"]
ENGINES = [
    {"name": "config-oracle", "path": "harness/config", "serves_properties": ["C08"],
     "kind_free_text": "in-package Go harness: generated resource sets -> config.For -> interval-set oracle (math/big)"},
]
META = {
    "C08": {
        "engine": "config-oracle",
        "text": "Generated resource sets (address-string grammar incl. IPv4-mapped, mixed-family, ranges crossing alignment, /31 /32 /127 /128; advertisements, nodes, 3 validators) are parsed by the real config.For; every accepted configuration is judged by an independent interval-set oracle (exact pool sets, pairwise disjointness, node IPs, advertisement attachment and node selection, aggregate containment, local-preference collisions). Held on the configurations observed; not a proof over all inputs.",
        "design_ref": "DESIGN.md 2/C08",
        "note": "Trusted: the oracle's own parser (net/netip + math/big), Kubernetes label-selector matching (shared library). Over-rejection is not judged.",
        "technique": "runtime monitoring: reference-model oracle over generated inputs executed on the real parser",
    },
}
