//go:build verif

package main

import (
	"fmt"
	"net"
	"sort"
	"strings"

	"github.com/go-kit/log"
	metallbv1beta1 "go.universe.tf/metallb/api/v1beta1"
	metallbv1beta2 "go.universe.tf/metallb/api/v1beta2"
	"go.universe.tf/metallb/internal/bgp"
	"go.universe.tf/metallb/internal/config"
	"go.universe.tf/metallb/internal/k8s"
	"go.universe.tf/metallb/internal/k8s/controllers"
	k8snodes "go.universe.tf/metallb/internal/k8s/nodes"
	"go.universe.tf/metallb/internal/layer2"
	"go.universe.tf/metallb/internal/speakerlist"
	v1 "k8s.io/api/core/v1"
	discovery "k8s.io/api/discovery/v1"
	"k8s.io/apimachinery/pkg/labels"
	"k8s.io/apimachinery/pkg/types"
	"k8s.io/apimachinery/pkg/util/sets"
	ctrl "sigs.k8s.io/controller-runtime"
	"sigs.k8s.io/controller-runtime/pkg/client"
	"sigs.k8s.io/controller-runtime/pkg/event"
)

const sboxMyNode = "n1"

var sboxReloadReq = ctrl.Request{NamespacedName: types.NamespacedName{Namespace: "metallbreload", Name: "reload"}}

// ---------------------------------------------------------------- recording BGP backend

type sboxSession struct {
	name   string
	params bgp.SessionParameters
	ads    []*bgp.Advertisement
	sets   int
	closed bool
	gen    int
}

func (s *sboxSession) Set(advs ...*bgp.Advertisement) error {
	s.sets++
	s.ads = nil
	for _, a := range advs {
		cp := *a
		cp.Prefix = &net.IPNet{IP: append(net.IP(nil), a.Prefix.IP...), Mask: append(net.IPMask(nil), a.Prefix.Mask...)}
		cp.Communities = append(cp.Communities[:0:0], a.Communities...)
		cp.Peers = append([]string(nil), a.Peers...)
		s.ads = append(s.ads, &cp)
	}
	return nil
}

func (s *sboxSession) Close() error {
	s.closed = true
	return nil
}

type sboxSM struct {
	sessions []*sboxSession
	created  int
	// injected fault: the failAt-th NewSession call of the history (counted across restarts in *calls)
	// fails once; *faulted records that it fired.
	calls   *int
	failAt  int
	faulted *bool
}

func (m *sboxSM) NewSession(l log.Logger, args bgp.SessionParameters) (bgp.Session, error) {
	if m.calls != nil {
		*m.calls++
		if m.failAt > 0 && *m.calls == m.failAt {
			*m.faulted = true
			return nil, fmt.Errorf("injected: session to %s could not be created", args.SessionName)
		}
	}
	m.created++
	s := &sboxSession{name: args.SessionName, params: args, gen: m.created}
	m.sessions = append(m.sessions, s)
	return s, nil
}
func (m *sboxSM) SyncBFDProfiles(profiles map[string]*config.BFDProfile) error { return nil }
func (m *sboxSM) SyncExtraInfo(extras string) error                          { return nil }
func (m *sboxSM) SetEventCallback(func(interface{}))                         {}

// live sessions by peer name (a peer has at most one live session)
func (m *sboxSM) live() map[string]*sboxSession {
	out := map[string]*sboxSession{}
	for _, s := range m.sessions {
		if !s.closed {
			out[s.name] = s
		}
	}
	return out
}

func (m *sboxSM) duplicates() []string {
	seen := map[string]int{}
	for _, s := range m.sessions {
		if !s.closed {
			seen[s.name]++
		}
	}
	var out []string
	for n, k := range seen {
		if k > 1 {
			out = append(out, n)
		}
	}
	sort.Strings(out)
	return out
}

// ---------------------------------------------------------------- speaker list

type sboxSList struct {
	disabled bool
	members  map[string]bool
}

func (s *sboxSList) UsableSpeakers() speakerlist.SpeakerListInfo {
	m := map[string]bool{}
	for k, v := range s.members {
		if v {
			m[k] = true
		}
	}
	return speakerlist.SpeakerListInfo{Nodes: m, Disabled: s.disabled}
}
func (s *sboxSList) Rejoin() {}

type sboxSvcClient struct{}

func (sboxSvcClient) UpdateStatus(svc *v1.Service) error                                 { return nil }
func (sboxSvcClient) Infof(svc *v1.Service, desc, msg string, args ...interface{})       {}
func (sboxSvcClient) Errorf(svc *v1.Service, desc, msg string, args ...interface{})      {}

// ---------------------------------------------------------------- the box

type sbox struct {
	c   *vfCase
	k   *boxKernel
	ignoreExcludeLB bool

	slist *sboxSList // shared across instances of one box (it is cluster state, not speaker state)

	// instance
	ctl    *controller
	bgpc   *bgpController
	l2     *layer2.VerifL2
	sm     *sboxSM
	lis    *k8s.Listener
	reload chan event.GenericEvent

	handlerCalls int
	processedAt  map[string]int // service -> handler index of its last SetBalancer
	lastFirstNodeEvent int      // handler index of the latest SetNode for a node the speaker did not know yet
	configsDelivered int
	configsRefused int
	plainAdvs      bool // no advertisement of this history carries node selectors
	// C05 only: the failSessionAt-th NewSession call fails once (0 = never); after it fired only the
	// step monitor judges (a failed SetConfig is not retried by design, so quiescent expectations stop applying)
	failSessionAt  int
	sessionCalls   int
	sessionFaulted bool
	mon sboxMon
	cfgSeen     map[string]string // what the config reconciler listed in its current reconcile, by kind
	lastCfgKey  string
	lastCfgOK   bool
}

type sboxMon struct{ c05, c09, c20, c18, c13, c04 bool }

func newSbox(c *vfCase, schedSeed uint64, mon sboxMon) *sbox {
	sb := &sbox{c: c, mon: mon, slist: &sboxSList{disabled: true, members: map[string]bool{}}}
	sb.k = newBoxKernel(c, schedSeed)
	sb.k.Route = sb.route
	sb.k.Boot = sb.boot
	sb.k.AfterStep = sb.drain
	sb.cfgSeen = map[string]string{}
	sb.k.OnList = func(rec, kind string, items []client.Object) {
		if rec != "config" {
			return
		}
		var l []string
		for _, o := range items {
			o2 := o.DeepCopyObject().(client.Object)
			o2.SetResourceVersion("")
			o2.SetGeneration(0)
			if n, ok := o2.(*v1.Node); ok {
				n.Status = v1.NodeStatus{} // only labels matter to the configuration
			}
			if p, ok := o2.(*metallbv1beta1.IPAddressPool); ok {
				p.Status = metallbv1beta1.IPAddressPoolStatus{}
			}
			l = append(l, vfJSON(o2))
		}
		sort.Strings(l)
		sb.cfgSeen[kind] = strings.Join(l, "\n")
	}
	return sb
}

func sboxNodeUnavailable(o client.Object) bool {
	n, ok := o.(*v1.Node)
	return ok && k8snodes.IsNetworkUnavailable(n)
}

// route: watch event -> queue additions with the predicates of the three reconcilers.
func (sb *sbox) route(kind string, key types.NamespacedName, old, new client.Object) []boxEnq {
	cfgReq := boxEnq{Rec: "config", Req: ctrl.Request{NamespacedName: key}}
	switch kind {
	case "Service":
		return []boxEnq{{Rec: "svc", Req: ctrl.Request{NamespacedName: key}}}
	case "EndpointSlice":
		var o client.Object = new
		if o == nil {
			o = old
		}
		name := o.GetLabels()[discovery.LabelServiceName]
		if name == "" {
			return nil
		}
		return []boxEnq{{Rec: "svc", Req: ctrl.Request{NamespacedName: types.NamespacedName{Namespace: o.GetNamespace(), Name: name}}}}
	case "Node":
		var out []boxEnq
		labelsChanged := old == nil || new == nil || !labels.Equals(labels.Set(old.GetLabels()), labels.Set(new.GetLabels()))
		if labelsChanged {
			out = append(out, cfgReq) // filterNodeEvent
		}
		if new != nil { // NodeReconcilerPredicate: creations, label changes, NetworkUnavailable changes (a delete
			// reaches the reconciler too but its Get fails with NotFound and is ignored)
			if old == nil || labelsChanged || sboxNodeUnavailable(old) != sboxNodeUnavailable(new) {
				out = append(out, boxEnq{Rec: "node", Req: ctrl.Request{NamespacedName: key}})
			}
		}
		return out
	case "Namespace":
		if old != nil && new != nil && labels.Equals(labels.Set(old.GetLabels()), labels.Set(new.GetLabels())) {
			return nil
		}
		return []boxEnq{cfgReq}
	case "IPAddressPool", "L2Advertisement", "BGPAdvertisement", "BGPPeer", "Community", "BFDProfile", "Secret":
		return []boxEnq{cfgReq}
	}
	return nil
}

func (sb *sbox) drain(k *boxKernel) {
	for {
		select {
		case <-sb.reload:
			k.Enqueue("svc", sboxReloadReq)
		default:
			goto spam
		}
	}
spam:
	if sb.l2 != nil {
		sb.l2.DrainSpam()
	}
}

// build constructs one speaker instance (what newController does, with the recording BGP backend and the
// goroutine-free announcer).
func (sb *sbox) build() {
	logger := log.NewNopLogger()
	l2, err := layer2.VerifNewAnnounce(logger, "eth0", "eth1")
	if err != nil {
		panic(err)
	}
	sb.l2 = l2
	sb.sm = &sboxSM{}
	if sb.failSessionAt > 0 {
		sb.sm.calls, sb.sm.failAt, sb.sm.faulted = &sb.sessionCalls, sb.failSessionAt, &sb.sessionFaulted
	}
	sb.bgpc = &bgpController{
		logger:             logger,
		myNode:             sboxMyNode,
		svcAds:             make(map[string][]*bgp.Advertisement),
		activeAds:          make(map[string]sets.Set[string]),
		adsChangedCallback: func(string) {},
		bgpType:            bgpFrr,
		sessionManager:     sb.sm,
		ignoreExcludeLB:    sb.ignoreExcludeLB,
	}
	l2c := &layer2Controller{
		announcer:       l2.A,
		myNode:          sboxMyNode,
		sList:           sb.slist,
		ignoreExcludeLB: sb.ignoreExcludeLB,
		onStatusChange:  func(types.NamespacedName) {},
	}
	sb.ctl = &controller{
		myNode:           sboxMyNode,
		bgpType:          bgpFrr,
		protocolHandlers: map[config.Proto]Protocol{config.BGP: sb.bgpc, config.Layer2: l2c},
		announced:        map[config.Proto]map[string]bool{config.BGP: {}, config.Layer2: {}},
		svcIPs:           map[string][]net.IP{},
		protocols:        []config.Proto{config.BGP, config.Layer2},
		nodes:            map[string]*v1.Node{},
		client:           sboxSvcClient{},
		bgpPeersFetcher:  sb.bgpc.PeersForService,
		layer2StatusFetchFunc: l2.A.GetStatus,
	}
	sb.lis = &k8s.Listener{ServiceChanged: sb.ctl.SetBalancer, ConfigChanged: sb.ctl.SetConfig, NodeChanged: sb.ctl.SetNode}
}

func (sb *sbox) boot(k *boxKernel) {
	logger := log.NewNopLogger()
	sb.build()
	sb.reload = make(chan event.GenericEvent, 4096)
	sb.processedAt = map[string]int{}
	sb.lastCfgKey, sb.lastCfgOK = "", false
	sb.lastFirstNodeEvent = 0
	sb.handlerCalls = 0
	lis := sb.lis
	reload := func() { k.Enqueue("svc", sboxReloadReq) }
	svcRec := &controllers.ServiceReconciler{
		Client:    k.ClientFor("svc"),
		Logger:    logger,
		Endpoints: true,
		Reload:    sb.reload,
		Handler: func(l log.Logger, name string, svc *v1.Service, eps []discovery.EndpointSlice) controllers.SyncState {
			k.Yield("svc", "before-handler")
			res := lis.ServiceHandler(l, name, svc, eps)
			sb.handlerCalls++
			sb.processedAt[name] = sb.handlerCalls
			sb.c.Logf("   SetBalancer(%s) -> %v  %s", name, res, sb.stateLine())
			sb.stepMonitor("svc:" + name)
			k.Yield("svc", "after-handler")
			return res
		},
	}
	cfgRec := &controllers.ConfigReconciler{
		Client:         k.ClientFor("config"),
		Logger:         logger,
		Namespace:      "metallb-system",
		ValidateConfig: config.DontValidate,
		ForceReload:    reload,
		Handler: func(l log.Logger, cfg *config.Config) controllers.SyncState {
			k.Yield("config", "before-handler")
			if sb.mon.c18 {
				key := vfJSON(sb.cfgSeen)
				sb.c.Eval()
				sb.c.Count("config-deliveries")
				if sb.lastCfgOK && key == sb.lastCfgKey {
					sb.c.Violation("handler-recalled:ConfigReconciler:unchanged-resources", "SetConfig was called again although none of the listed resources changed since the previous (accepted) call: an unrelated event looked like a configuration change and re-syncs every Service", sb.dump())
				} else if sb.lastCfgKey != "" {
					sb.c.Nontrivial(key)
				}
				sb.lastCfgKey = key
			}
			res := lis.ConfigHandler(l, cfg)
			sb.lastCfgOK = res != controllers.SyncStateError
			sb.handlerCalls++
			if res == controllers.SyncStateError {
				sb.configsRefused++
			} else {
				sb.configsDelivered++
			}
			sb.c.Logf("   SetConfig(pools=%d peers=%d) -> %v  %s", len(cfg.Pools.ByName), len(cfg.Peers), res, sb.stateLine())
			sb.stepMonitor("config")
			k.Yield("config", "after-handler")
			return res
		},
	}
	nodeRec := &controllers.NodeReconciler{
		Client:      k.ClientFor("node"),
		Logger:      logger,
		NodeName:    sboxMyNode,
		ForceReload: reload,
		Handler: func(l log.Logger, n *v1.Node) controllers.SyncState {
			k.Yield("node", "before-handler")
			_, known := sb.ctl.nodes[n.Name]
			res := lis.NodeHandler(l, n)
			sb.handlerCalls++
			if !known {
				sb.lastFirstNodeEvent = sb.handlerCalls
			}
			sb.c.Logf("   SetNode(%s labels=%v unavailable=%v) -> %v  %s", n.Name, n.Labels, k8snodes.IsNetworkUnavailable(n), res, sb.stateLine())
			sb.stepMonitor("node:" + n.Name)
			k.Yield("node", "after-handler")
			return res
		},
	}
	k.AddReconciler("svc", svcRec.Reconcile)
	k.AddReconciler("config", cfgRec.Reconcile)
	k.AddReconciler("node", nodeRec.Reconcile)
}

// ---------------------------------------------------------------- observed state

type sboxRoute struct {
	Prefix      string
	LocalPref   uint32
	Communities string
}

type sboxObserved struct {
	L2       map[string][]string            // service -> sorted "ip|all|if1,if2"
	Answers  map[string]bool                // "ip@intf" -> answers
	Sessions map[string][]sboxRoute         // live session (peer name) -> sorted distinct routes
	Peers    map[string][]string            // service -> PeersForService
	Announced map[string][]string           // protocol -> services the controller says it announces
}

func sboxRoutesOf(ads []*bgp.Advertisement) []sboxRoute {
	seen := map[sboxRoute]bool{}
	for _, a := range ads {
		var cs []string
		for _, c := range a.Communities {
			cs = append(cs, c.String())
		}
		sort.Strings(cs)
		seen[sboxRoute{Prefix: a.Prefix.String(), LocalPref: a.LocalPref, Communities: strings.Join(cs, ",")}] = true
	}
	var out []sboxRoute
	for r := range seen {
		out = append(out, r)
	}
	sort.Slice(out, func(i, j int) bool {
		if out[i].Prefix != out[j].Prefix {
			return out[i].Prefix < out[j].Prefix
		}
		if out[i].LocalPref != out[j].LocalPref {
			return out[i].LocalPref < out[j].LocalPref
		}
		return out[i].Communities < out[j].Communities
	})
	return out
}

func (sb *sbox) observe(addresses []string) *sboxObserved {
	o := &sboxObserved{L2: map[string][]string{}, Answers: map[string]bool{}, Sessions: map[string][]sboxRoute{}, Peers: map[string][]string{}, Announced: map[string][]string{}}
	st := sb.l2.A.VerifSnapshot()
	for svc, advs := range st.IPs {
		var l []string
		for _, a := range advs {
			l = append(l, fmt.Sprintf("%s|all=%v|%s", a.IP, a.AllInterfaces, strings.Join(a.Interfaces, ",")))
		}
		sort.Strings(l)
		o.L2[svc] = l
	}
	for _, ip := range addresses {
		for _, intf := range []string{"eth0", "eth1"} {
			if sb.l2.ShouldAnnounce(net.ParseIP(ip), intf) == layer2.VerifDropNone {
				o.Answers[ip+"@"+intf] = true
			}
		}
	}
	for name, s := range sb.sm.live() {
		o.Sessions[name] = sboxRoutesOf(s.ads)
	}
	for _, key := range vfSortedKeys(sb.k.Store.Services) {
		if ps := sb.bgpc.PeersForService(key); ps.Len() > 0 {
			l := ps.UnsortedList()
			sort.Strings(l)
			o.Peers[key] = l
		}
	}
	for proto, m := range sb.ctl.announced {
		var l []string
		for s, ok := range m {
			if ok {
				l = append(l, s)
			}
		}
		sort.Strings(l)
		if len(l) > 0 {
			o.Announced[string(proto)] = l
		}
	}
	return o
}

// staleSinceNodeEvent: some service the speaker announces (or should announce) was last processed before
// the speaker first heard of some node (own node included): the known weakness of SetNode, which
// asks for no re-sync on the first event of a node.
func (sb *sbox) staleSinceNodeEvent() bool {
	if sb.lastFirstNodeEvent == 0 {
		return false
	}
	for _, k := range vfSortedKeys(sb.k.Store.Services) {
		if sb.processedAt[k] < sb.lastFirstNodeEvent {
			return true
		}
	}
	return false
}

func (sb *sbox) causeSuffix() string {
	if sb.staleSinceNodeEvent() {
		return ":service-not-reprocessed-after-first-event-of-a-node"
	}
	return ""
}

func (sb *sbox) stateLine() string {
	var parts []string
	st := sb.l2.A.VerifSnapshot()
	for _, svc := range vfSortedKeys(st.IPs) {
		for _, a := range st.IPs[svc] {
			scope := "all"
			if !a.AllInterfaces {
				scope = strings.Join(a.Interfaces, "+")
			}
			parts = append(parts, fmt.Sprintf("l2:%s=%s@%s", svc, a.IP, scope))
		}
	}
	live := sb.sm.live()
	for _, n := range vfSortedKeys(live) {
		var rs []string
		for _, r := range sboxRoutesOf(live[n].ads) {
			rs = append(rs, fmt.Sprintf("%s/lp%d/%s", r.Prefix, r.LocalPref, r.Communities))
		}
		parts = append(parts, fmt.Sprintf("bgp:%s=[%s]", n, strings.Join(rs, " ")))
	}
	return strings.Join(parts, " ")
}

// resource lists of the store (sorted by name)
func sboxPools(s *boxStore) []metallbv1beta1.IPAddressPool {
	var out []metallbv1beta1.IPAddressPool
	for _, k := range vfSortedKeys(s.Pools) {
		out = append(out, *s.Pools[k])
	}
	return out
}

func sboxPeers(s *boxStore) []metallbv1beta2.BGPPeer {
	var out []metallbv1beta2.BGPPeer
	for _, k := range vfSortedKeys(s.Peers) {
		out = append(out, *s.Peers[k])
	}
	return out
}
