//go:build verif

// C12 — layer-2 failover is minimal: only the owner's loss (or a winning newcomer) moves an address.
// Metamorphic relation between the announcer of a view and the announcer of perturbed views. Every view is
// decided by one layer2Controller per node name (8 names); the eligible set of a view is produced through
// concrete mechanisms (speaker list, node conditions, labels, advertisement selection, endpoints), never
// handed to the code directly.
package main

import (
	"fmt"
	"math/bits"
	"testing"
)

// (worker-1 / worker-11 and the 10.0.0.x / 110.0.0.x addresses below: node name + address is ambiguous as plain
// concatenation, "worker-1"+"110.0.0.3" == "worker-11"+"10.0.0.3")
var c12Names = [8]string{"n1", "n2", directLongC, "worker-1", "worker-11", "worker-10", directLongA, directLongB}

const (
	c12Eligible = "eligible"
	c12Absent   = "absent" // the view does not mention the node at all

	c12Dead  = "speaker-death"          // memberlist no longer lists the node (memberlist on)
	c12NetUn = "network-unavailable"    // NetworkUnavailable condition True
	c12Excl  = "exclude-label"          // exclude-from-external-load-balancers label (label not ignored)
	c12Desel = "advertisement-deselect" // no L2 advertisement of the pool selects the node any more
	c12NoEP  = "lost-local-endpoint"    // Local policy: no ready/serving endpoint on the node any more
	c12Gone  = "node-object-removed"    // memberlist off: the Node object is not known
	c12Mixed = "mixed"                  // every node through its own mechanism

	c12NAddrs       = 64
	c12EnumThorough = 840
	c12SampThorough = 300
	c12Quick        = 1000
)

var c12Mechanisms = []string{c12Dead, c12NetUn, c12Excl, c12Desel, c12NoEP, c12Gone, c12Mixed}

// c12Addr returns address list number i of the fixed 64-address palette: 24 IPv4, 24 IPv6, 8 dual-stack
// IPv4-first, 8 dual-stack IPv6-first.
func c12Addr(i int) []string {
	v4 := func(k int) string {
		switch k % 6 {
		case 2:
			return fmt.Sprintf("10.0.0.%d", 1+k/6%5)
		case 5:
			return fmt.Sprintf("110.0.0.%d", 1+k/6%5)
		}
		return fmt.Sprintf("192.168.%d.%d", 10+k%7, 1+(k*37)%250)
	}
	v6 := func(k int) string { return fmt.Sprintf("fc00:f853:ccd:e799::%x", 0x10+k*7) }
	switch {
	case i < 24:
		return []string{v4(i)}
	case i < 48:
		return []string{v6(i - 24)}
	case i < 56:
		return []string{v4(100 + i), v6(100 + i)}
	}
	return []string{v6(200 + i), v4(200 + i)}
}

// c12Sets lists the eligible sets (bit masks over c12Names) with lo <= size <= hi, in ascending mask order.
func c12Sets(lo, hi int) []int {
	var out []int
	for m := 0; m < 256; m++ {
		if n := bits.OnesCount(uint(m)); n >= lo && n <= hi {
			out = append(out, m)
		}
	}
	return out
}

var c12SetsExh = c12Sets(2, 5) // 210 sets
var c12SetsAll = c12Sets(2, 6) // 238 sets

func c12MaskNames(mask int) []string {
	var out []string
	for i, n := range c12Names {
		if mask&(1<<i) != 0 {
			out = append(out, n)
		}
	}
	return out
}

// c12Submasks lists the non-empty sub-masks of mask.
func c12Submasks(mask int) []int {
	var out []int
	for s := mask; s > 0; s = (s - 1) & mask {
		out = append(out, s)
	}
	return out
}

type c12Spec struct {
	Addr          []string  `json:"addr"`
	Policy        string    `json:"policy"`
	Memberlist    bool      `json:"memberlist"`
	IgnoreExclude bool      `json:"ignore_exclude"`
	State         [8]string `json:"state"`
}

func (sp *c12Spec) eligibleMask() int {
	m := 0
	for i, s := range sp.State {
		if s == c12Eligible {
			m |= 1 << i
		}
	}
	return m
}

func c12Compatible(mech string, sp *c12Spec) bool {
	switch mech {
	case c12Dead:
		return sp.Memberlist
	case c12Gone:
		return !sp.Memberlist
	case c12Excl:
		return !sp.IgnoreExclude
	case c12NoEP:
		return sp.Policy == directLocal
	}
	return true
}

// c12Flags picks view flags under which mechanism mech can make a node ineligible.
func c12Flags(r *vfRand, sp *c12Spec, mech string) {
	sp.Memberlist = r.Bool()
	sp.Policy = vfPick(r, []string{directCluster, directLocal})
	sp.IgnoreExclude = r.Chance(1, 3)
	switch mech {
	case c12Dead:
		sp.Memberlist = true
	case c12Gone:
		sp.Memberlist = false
	case c12Excl:
		sp.IgnoreExclude = false
	case c12NoEP:
		sp.Policy = directLocal
	}
}

func c12PickMech(r *vfRand, sp *c12Spec) string {
	var ok []string
	for _, m := range c12Mechanisms[:6] {
		if c12Compatible(m, sp) {
			ok = append(ok, m)
		}
	}
	return vfPick(r, ok)
}

// c12Assign sets the state of the nodes in mask to the mechanism (mixed: one compatible mechanism each).
func c12Assign(r *vfRand, sp *c12Spec, mask int, mech string) {
	for i := range sp.State {
		if mask&(1<<i) == 0 {
			continue
		}
		if mech == c12Mixed {
			sp.State[i] = c12PickMech(r, sp)
		} else {
			sp.State[i] = mech
		}
	}
}

// c12Fill gives every node in mask a state that keeps it ineligible: absent, or a compatible mechanism.
func c12Fill(r *vfRand, sp *c12Spec, mask int) {
	for i := range sp.State {
		if mask&(1<<i) == 0 {
			continue
		}
		if r.Bool() {
			sp.State[i] = c12Absent
		} else {
			sp.State[i] = c12PickMech(r, sp)
		}
	}
}

// c12Build turns a spec into a view. All incidental choices are drawn from a PRNG seeded with seed, the same
// number of draws per node whatever its state, so that two specs built with the same seed differ only
// where their states differ.
func c12Build(seed uint64, sp *c12Spec) *directView {
	r := vfNewRand(seed)
	v := &directView{MemberlistOn: sp.Memberlist, IgnoreExclude: sp.IgnoreExclude, IPs: sp.Addr}
	v.Svc = directService{Name: "svc1", Policy: sp.Policy}
	nsl := r.Range(1, 3)
	slices := make([]directSlice, nsl)
	for i := range slices {
		slices[i].Name = fmt.Sprintf("svc1-%c", 'a'+i)
	}
	advs := []directAdv{{}, {}}
	twoAdvs := r.Bool()
	nilNodeEP := r.Chance(1, 3)
	order := vfShuffled(r, []int{0, 1, 2, 3, 4, 5, 6, 7})
	type dice struct {
		benign        string
		exclVal       string
		harmlessExcl  bool
		memberIfOff   bool
		advPick       int
		listedFalse   bool
		epKind        int
		noepKind      int
		otherCond     bool
		unknownMember bool
		slice         int
	}
	var ds [8]dice
	for i := range ds {
		ds[i] = dice{
			benign:        vfPick(r, []string{"", "", "False", "Unknown"}),
			exclVal:       vfPick(r, []string{"empty", "true"}),
			harmlessExcl:  r.Chance(1, 3),
			memberIfOff:   r.Bool(),
			advPick:       r.Intn(3),
			listedFalse:   r.Bool(),
			epKind:        r.Intn(6),
			noepKind:      r.Intn(3),
			otherCond:     r.Bool(),
			unknownMember: r.Chance(1, 16),
			slice:         r.Intn(nsl),
		}
	}
	for _, i := range order {
		st, d, name := sp.State[i], ds[i], c12Names[i]
		if st == c12Absent {
			continue
		}
		n := directNode{Name: name, Known: true, Member: true, NetCond: d.benign, OtherCond: d.otherCond}
		if !sp.Memberlist {
			n.Member = d.memberIfOff
		}
		if sp.IgnoreExclude && d.harmlessExcl {
			n.Exclude = d.exclVal
		}
		selected := true
		serving := true // hosts a ready/serving endpoint (always under Local for eligible nodes)
		switch st {
		case c12Dead:
			n.Member = false
		case c12NetUn:
			n.NetCond = "True"
		case c12Excl:
			n.Exclude = d.exclVal
		case c12Desel:
			selected = false
		case c12NoEP:
			serving = false
		case c12Gone:
			n.Known = false
		case c12Eligible:
			if sp.Memberlist && d.unknownMember {
				// a live, selected speaker whose Node object is not (yet) known: nothing is known against it
				n.Known = false
			}
		}
		v.Nodes = append(v.Nodes, n)
		if selected {
			switch {
			case !twoAdvs || d.advPick == 0:
				advs[0].Nodes = append(advs[0].Nodes, name)
			case d.advPick == 1:
				advs[1].Nodes = append(advs[1].Nodes, name)
			default:
				advs[0].Nodes = append(advs[0].Nodes, name)
				advs[1].Nodes = append(advs[1].Nodes, name)
			}
		} else if d.listedFalse {
			advs[0].Unselected = append(advs[0].Unselected, name)
		}
		ip := fmt.Sprintf("10.244.%d.", i)
		var eps []directEndpoint
		if serving {
			kind := d.epKind
			if sp.Policy != directLocal && st != c12Eligible && kind >= 4 {
				kind = 6 // nodes that are ineligible for another reason may or may not host endpoints
			}
			switch kind {
			case 0, 4:
				eps = []directEndpoint{{Node: name, Addrs: []string{ip + "2"}, Ready: directTrue, Serving: directTrue}}
			case 1:
				eps = []directEndpoint{{Node: name, Addrs: []string{ip + "2"}, Ready: directFalse, Serving: directTrue, Terminating: directTrue}}
			case 2:
				eps = []directEndpoint{{Node: name, Addrs: []string{ip + "2"}, Ready: directFalse, Serving: directFalse},
					{Node: name, Addrs: []string{ip + "3"}, Ready: directNil, Serving: directNil}}
			case 3, 5:
				eps = []directEndpoint{{Node: name, Addrs: []string{ip + "2"}, Ready: directTrue},
					{Node: name, Addrs: []string{ip + "3"}, Ready: directFalse, Serving: directNil, Terminating: directTrue}}
			}
			if sp.Policy != directLocal && st == c12Eligible && d.epKind == 5 {
				eps = nil // under Cluster an eligible node needs no endpoint of its own
			}
		} else {
			switch d.noepKind {
			case 1:
				eps = []directEndpoint{{Node: name, Addrs: []string{ip + "2"}, Ready: directFalse, Serving: directFalse, Terminating: directTrue}}
			case 2:
				eps = []directEndpoint{{Node: name, Addrs: []string{ip + "2"}, Ready: directFalse},
					{Node: name, Addrs: []string{ip + "3"}, Ready: directFalse, Serving: directFalse}}
			}
		}
		slices[d.slice].Endpoints = append(slices[d.slice].Endpoints, eps...)
	}
	if sp.Policy != directLocal || nilNodeEP {
		// under Cluster the service must have a ready endpoint somewhere; it may be one without a node name
		// or on a node that is no speaker at all
		e := directEndpoint{Addrs: []string{"10.244.99.9"}, Ready: directTrue}
		if nilNodeEP {
			e.NilNode = true
		} else {
			e.Node = "ghost"
		}
		slices[0].Endpoints = append(slices[0].Endpoints, e)
	}
	if twoAdvs {
		v.L2Advs = advs
	} else {
		v.L2Advs = advs[:1]
	}
	v.Svc.Slices = slices
	return v
}

type c12Run struct {
	c  *vfCase
	tl directTally
	r  *vfRand
}

var c12AllNames = append(c12Names[:], "ghost")

// eval decides the view on every node and checks it on its own (exactly one announcer, eligible, election);
// it returns the announcer ("" = none) and ok=false when the view already produced a violation.
func (x *c12Run) eval(v *directView, svc *directService, intended int, what string) (string, bool) {
	c := x.c
	w := directMaterialize(v)
	so := directMaterializeSvc(v, svc)
	ann, dec := directL2Decide(w, v, so, c12AllNames)
	elig := directL2Eligible(v, svc, c12AllNames)
	firstIP := directFirstIP(v)
	c.Eval()
	x.tl["views-decided"]++
	if diffs := directTakeHistoryDiffs(); len(diffs) > 0 {
		c.Violation("l2:decision-depends-on-process-history", fmt.Sprintf("%s: %s", what, diffs[0]), directDetail(c, map[string]any{"view": v, "service": svc, "differences": diffs}))
		return "", false
	}
	detail := func() map[string]any {
		return directDetail(c, map[string]any{"view": v, "service": svc, "decisions": dec, "oracle_eligible": elig, "announcers": ann, "first_ip": firstIP, "step": what})
	}
	if intended >= 0 && directSetKey(elig) != directSetKey(c12MaskNames(intended)) {
		c.Violation("harness:generator-oracle-mismatch", fmt.Sprintf("%s: generator meant %v eligible, oracle says %v", what, c12MaskNames(intended), elig), detail())
		return "", false
	}
	want := directElect(elig, firstIP)
	switch {
	case len(ann) == 0 && len(elig) > 0:
		c.Violation("l2:no-announcer-with-eligible-nodes", fmt.Sprintf("%s: nobody announces %s, eligible %v", what, firstIP, elig), detail())
		return "", false
	case len(ann) > 1:
		c.Violation("l2:multiple-announcers", fmt.Sprintf("%s: %v all announce %s", what, ann, firstIP), detail())
		return "", false
	case len(ann) == 1 && !directHas(elig, ann[0]):
		why := directL2Why(v, svc, ann[0])
		c.Violation("l2:announcer-not-eligible:"+why, fmt.Sprintf("%s: %s announces %s but is not eligible (%s)", what, ann[0], firstIP, why), detail())
		return "", false
	case len(ann) == 1 && ann[0] != want:
		// documented election (concepts/layer2.md): first of the list sorted by hash of node+VIP
		// The relational checks go on (they do not depend on which total order the election uses).
		c.Violation("l2:announcer-not-sha256-argmin", fmt.Sprintf("%s: %s announces %s, smallest sha256(node#ip) among %v is %s", what, ann[0], firstIP, elig, want), detail())
		return ann[0], true
	}
	if len(ann) == 1 {
		return ann[0], true
	}
	return "", true
}

// invariance: the announcer of v must not depend on listing orders, on the slicing of the endpoints, nor on
// which of several services using the address is asked.
func (x *c12Run) invariance(v *directView, a string, intended int) {
	c, r := x.c, x.r
	for _, resplit := range []bool{false, true} {
		p := directPermuted(r, v, resplit)
		x.tl["permutations-compared"]++
		if b, ok := x.eval(p, &p.Svc, intended, "permuted view"); ok && b != a {
			c.Violation("failover:depends-on-listing-order", fmt.Sprintf("announcer %q becomes %q when only listing orders (resplit=%v) change", a, b, resplit),
				directDetail(c, map[string]any{"view": v, "permuted": p, "announcer": a, "announcer_permuted": b}))
		}
	}
	sib := &directService{Name: "svc2", Policy: v.Svc.Policy}
	if v.Svc.Policy == directLocal {
		sib.Slices = directPermuteSlices(r, v.Svc.Slices, "svc2", true)
	} else {
		// any endpoints at all, as long as one is ready
		sib.Slices = directRandSlices(r, "svc2", c12Names[:], 2)
		sib.Slices = append(sib.Slices, directSlice{Name: "svc2-z", Endpoints: []directEndpoint{{NilNode: r.Bool(), Node: "ghost", Addrs: []string{"10.244.77.7"}, Serving: directTrue}}})
		if sib.Slices[len(sib.Slices)-1].Endpoints[0].NilNode {
			sib.Slices[len(sib.Slices)-1].Endpoints[0].Node = ""
		}
	}
	x.tl["sibling-services-compared"]++
	if b, ok := x.eval(v, sib, intended, "second service on the address"); ok && b != a {
		c.Violation("failover:differs-across-services", fmt.Sprintf("service svc1 is announced by %q, service svc2 on the same address by %q", a, b),
			directDetail(c, map[string]any{"view": v, "sibling": sib, "announcer": a, "announcer_sibling": b}))
	}
}

// relation checks the C12 relation between (E, a0) and (E2, a1).
func (x *c12Run) relation(kind, mech string, e, e2 int, a0, a1 string, base, pert *directView) {
	c := x.c
	in := func(mask int, name string) bool { return name != "" && directHas(c12MaskNames(mask), name) }
	removed, added := e&^e2, e2&^e
	x.tl[kind+":"+mech]++
	switch {
	case a0 == a1:
		x.tl["announcer-kept"]++
	case in(removed, a0):
		x.tl["announcer-changed:owner-loss"]++
	case in(added, a1):
		x.tl["announcer-changed:newcomer-wins"]++
	}
	if a0 != a1 && in(e2, a0) && (a1 == "" || in(e, a1)) {
		sig := "failover:moved-between-surviving-nodes:" + kind + ":" + mech
		c.Violation(sig, fmt.Sprintf("%s via %s: eligible %v -> %v, announcer %q -> %q although %q stayed eligible and %q is no newcomer",
			kind, mech, c12MaskNames(e), c12MaskNames(e2), a0, a1, a0, a1),
			directDetail(c, map[string]any{"base": base, "perturbed": pert, "announcer_before": a0, "announcer_after": a1,
				"eligible_before": c12MaskNames(e), "eligible_after": c12MaskNames(e2), "mechanism": mech}))
	}
}

func c12Sample(r *vfRand, xs []int, n int) []int {
	if len(xs) <= n {
		return xs
	}
	return vfShuffled(r, xs)[:n]
}

// pair runs every check for one (eligible set, address) pair. exhaustive: all removed / added subsets.
func (x *c12Run) pair(e int, addrIdx int, exhaustive bool) {
	c, r := x.c, x.r
	addr := c12Addr(addrIdx)
	rest := 255 &^ e
	x.tl["pairs"]++
	c.Distinct("eligible-set|address", fmt.Sprintf("%d|%d", e, addrIdx))
	c.Nontrivial(fmt.Sprintf("%d|%d", e, addrIdx))

	// base variants: same eligible set through different flags and fillers -> same announcer
	a0, have := "", false
	var baseView *directView
	for k := 0; k < 4; k++ {
		sp := &c12Spec{Addr: addr, Memberlist: k&1 != 0, Policy: []string{directCluster, directLocal}[k>>1], IgnoreExclude: r.Chance(1, 3)}
		c12Assign(r, sp, e, c12Eligible)
		c12Fill(r, sp, rest)
		v := c12Build(r.U64(), sp)
		a, ok := x.eval(v, &v.Svc, e, "base view")
		if !ok {
			return
		}
		x.tl["base-variants"]++
		if !have {
			a0, have, baseView = a, true, v
		} else if a != a0 {
			c.Violation("failover:depends-on-more-than-eligible-set-and-address",
				fmt.Sprintf("eligible %v, address %v: announcer %q in one view, %q in another", c12MaskNames(e), addr, a0, a),
				directDetail(c, map[string]any{"view_a": baseView, "view_b": v, "announcer_a": a0, "announcer_b": a}))
			return
		}
		x.invariance(v, a, e)
	}

	// step: base view with the nodes in `flip` eligible, perturbed view with them made ineligible through mech
	// (removal) or the other way round (addition); both built from the same seed.
	step := func(kind, mech string, flip int, from int) {
		sp := &c12Spec{Addr: addr}
		c12Flags(r, sp, mech)
		var spElig, spInel c12Spec
		c12Assign(r, sp, from|flip, c12Eligible)
		c12Fill(r, sp, 255&^(from|flip))
		spElig = *sp
		c12Assign(r, sp, flip, mech)
		spInel = *sp
		seed := r.U64()
		spBase, spPert := &spElig, &spInel
		if kind == "addition" {
			spBase, spPert = &spInel, &spElig
		}
		base, pert := c12Build(seed, spBase), c12Build(seed, spPert)
		eb, ep := spBase.eligibleMask(), spPert.eligibleMask()
		ab, ok1 := x.eval(base, &base.Svc, eb, kind+" base")
		ap, ok2 := x.eval(pert, &pert.Svc, ep, kind+" perturbed")
		if !ok1 || !ok2 {
			return
		}
		if eb == e && ab != a0 {
			c.Violation("failover:depends-on-more-than-eligible-set-and-address",
				fmt.Sprintf("eligible %v, address %v: announcer %q in one view, %q in another", c12MaskNames(e), addr, a0, ab),
				directDetail(c, map[string]any{"view_a": baseView, "view_b": base, "announcer_a": a0, "announcer_b": ab}))
			return
		}
		x.relation(kind, mech, eb, ep, ab, ap, base, pert)
		if r.Chance(1, 16) {
			x.invariance(pert, ap, ep)
		}
	}

	nsub := 6
	removals, additions := c12Submasks(e), c12Submasks(rest)
	if !exhaustive {
		removals, additions = c12Sample(r, removals, nsub), c12Sample(r, additions, nsub)
	}
	for _, rm := range removals {
		for _, mech := range c12Mechanisms {
			step("removal", mech, rm, e&^rm)
		}
	}
	for _, ad := range additions {
		for _, mech := range c12Mechanisms {
			step("addition", mech, ad, e)
		}
	}

	// simultaneous removals and additions, each node through its own mechanism
	ncomb := 8
	if exhaustive {
		ncomb = 24
	}
	for k := 0; k < ncomb; k++ {
		rm := vfPick(r, c12Submasks(e))
		ad := vfPick(r, c12Submasks(rest))
		sp := &c12Spec{Addr: addr}
		c12Flags(r, sp, c12Mixed)
		c12Assign(r, sp, e, c12Eligible)
		c12Assign(r, sp, ad, c12Mixed)
		c12Fill(r, sp, rest&^ad)
		spBase := *sp
		c12Assign(r, sp, rm, c12Mixed)
		c12Assign(r, sp, ad, c12Eligible)
		spPert := *sp
		seed := r.U64()
		base, pert := c12Build(seed, &spBase), c12Build(seed, &spPert)
		ab, ok1 := x.eval(base, &base.Svc, e, "combined base")
		ap, ok2 := x.eval(pert, &pert.Svc, spPert.eligibleMask(), "combined perturbed")
		if ok1 && ok2 {
			x.relation("combined", c12Mixed, e, spPert.eligibleMask(), ab, ap, base, pert)
		}
	}

	// a history: the eligible set drifts step by step; the relation must hold between consecutive views and
	// the same controller instances are kept over the whole history
	x.history(e, addr)
}

func (x *c12Run) history(e int, addr []string) {
	c, r := x.c, x.r
	sp := &c12Spec{Addr: addr}
	c12Flags(r, sp, c12Mixed)
	c12Assign(r, sp, e, c12Eligible)
	c12Fill(r, sp, 255&^e)
	seed := r.U64()
	sl := &directSpeakerList{}
	ctls := map[string]*layer2Controller{}
	for _, n := range c12AllNames {
		ctls[n] = &layer2Controller{myNode: n, ignoreExcludeLB: sp.IgnoreExclude, sList: sl}
	}
	decide := func(v *directView) (string, bool) {
		w := directMaterialize(v)
		sl.info = w.sl.info
		so := directMaterializeSvc(v, &v.Svc)
		var ann []string
		for _, n := range c12AllNames {
			if ctls[n].ShouldAnnounce(directLogger, so.key, w.ips, w.pool, so.svc, so.eps, w.nodes) == "" {
				ann = append(ann, n)
			}
		}
		c.Eval()
		if len(ann) > 1 {
			c.Violation("l2:multiple-announcers", fmt.Sprintf("history step: %v all announce", ann), directDetail(c, map[string]any{"view": v, "announcers": ann}))
			return "", false
		}
		if len(ann) == 1 {
			return ann[0], true
		}
		return "", true
	}
	prevV := c12Build(seed, sp)
	prevE := e
	prevA, ok := decide(prevV)
	if !ok {
		return
	}
	for stepN := 0; stepN < 6; stepN++ {
		// flip 1-2 nodes
		for k := r.Range(1, 2); k > 0; k-- {
			i := r.Intn(8)
			if sp.State[i] == c12Eligible {
				sp.State[i] = c12PickMech(r, sp)
			} else {
				sp.State[i] = c12Eligible
			}
		}
		v := c12Build(seed, sp)
		em := sp.eligibleMask()
		a, ok := decide(v)
		if !ok {
			return
		}
		// cross-check the reused instances against fresh ones
		if fresh, ok2 := x.eval(v, &v.Svc, em, "history step"); ok2 && fresh != a {
			c.Violation("failover:history-dependent-decision", fmt.Sprintf("controllers that decided earlier views elect %q, fresh controllers elect %q", a, fresh),
				directDetail(c, map[string]any{"view": v, "announcer_reused": a, "announcer_fresh": fresh}))
			return
		}
		x.tl["history-steps"]++
		x.relation("history", c12Mixed, prevE, em, prevA, a, prevV, v)
		prevV, prevE, prevA = v, em, a
	}
}

var c12Covered int

func TestVerif_C12(t *testing.T) {
	rule := "(eligible set of 2-6 of 8 node names, address of a 64-address palette) pairs; for each pair removed / added subsets realised through " +
		"speaker death, NetworkUnavailable, exclude label, advertisement deselect, lost local endpoint, node object removal and mixtures, decided by one " +
		"layer2Controller per node before and after; non-trivial = distinct (eligible set, address) pair"
	thorough := vfTier() == "thorough"
	shard := directShard()
	npairs := len(c12SetsExh) * c12NAddrs
	vfMain(t, "C12", vfSizes{Quick: c12Quick, Thorough: c12EnumThorough + c12SampThorough}, rule, func(c *vfCase) {
		x := &c12Run{c: c, tl: directTally{}, r: c.R}
		defer x.tl.flush(c)
		nsh := directNShards(c)
		if thorough && c.Idx < c12EnumThorough {
			pairs := directBlock(npairs, nsh, shard, c12EnumThorough, c.Idx)
			for _, p := range pairs {
				x.pair(c12SetsExh[p/c12NAddrs], p%c12NAddrs, true)
			}
			c12Covered += len(pairs)
			if c.Idx == c12EnumThorough-1 && !c.Replaying {
				mine := 0
				if shard < npairs {
					mine = (npairs - shard + nsh - 1) / nsh
				}
				if c12Covered == mine {
					directSetExtra(c, "c12_subsets_exhaustive", map[string]any{
						"space":         "eligible sets of 2-5 of 8 names x 64 addresses: every non-empty removed subset and every non-empty added subset, each through 7 mechanisms",
						"pairs_total":   npairs,
						"pairs_covered": c12Covered, "shard": shard, "nshards": nsh,
					})
				}
			}
			return
		}
		// sampled pair; thorough samples concentrate on the 6-node sets that are not enumerated
		sets := c12SetsAll
		if thorough {
			sets = c12Sets(6, 6)
		}
		x.pair(vfPick(c.R, sets), c.R.Intn(c12NAddrs), false)
		if c.WantSample() {
			sp := &c12Spec{Addr: c12Addr(c.Idx % c12NAddrs), Memberlist: true, Policy: directLocal}
			c12Assign(c.R, sp, 0x0b, c12Eligible)
			c12Fill(c.R, sp, 255&^0x0b)
			c.Sample(map[string]any{"spec": sp, "view": c12Build(c.R.U64(), sp)})
		}
	})
}
