//go:build verif

package main

import (
	"fmt"
	"reflect"
	"sort"
	"strings"
	"testing"

	"go.universe.tf/metallb/internal/config"
	v1 "k8s.io/api/core/v1"
	"sigs.k8s.io/controller-runtime/pkg/client"
)

const sboxMaxSteps = 8000

const sboxRule = "speaker box: the real speaker controller, BGP controller (recording session manager), layer-2 controller + announcer (in-memory responders) and the real Service/Config/Node reconcilers on an in-memory API store under a seeded scheduler; histories of service add/update/delete, status address changes (the generator plays the controller), endpoint-slice changes, node label/condition changes, node add/delete, pool / advertisement / peer edits, membership changes and forced re-syncs; "

// sboxAddresses: every address any pool block starts with (the universe of addresses asked about)
func sboxAddresses(s *boxStore) []string {
	seen := map[string]bool{}
	for _, l := range sboxPoolAddrs(s) {
		for _, a := range l {
			seen[a] = true
		}
	}
	for _, k := range vfSortedKeys(s.Services) {
		for _, ing := range s.Services[k].Status.LoadBalancer.Ingress {
			if c, _, ok := vfCanonIP(ing.IP); ok {
				seen[c] = true
			}
		}
	}
	out := vfSortedKeys(seen)
	sort.Strings(out)
	return out
}

// sboxFresh boots a new speaker on a copy of the store (same membership view) and settles it.
func sboxFresh(c *vfCase, from *sbox, seed uint64) *sbox {
	f := newSbox(c, seed, sboxMon{})
	f.ignoreExcludeLB = from.ignoreExcludeLB
	f.plainAdvs = from.plainAdvs
	f.slist = &sboxSList{disabled: from.slist.disabled, members: map[string]bool{}}
	for k, v := range from.slist.members {
		f.slist.members[k] = v
	}
	// The reference speaker learns about the nodes first: the order in which a starting speaker hears of
	// nodes, configuration and services must not matter, but it does in one known way (see
	// known_findings.json, "first event of a node"), which the history instance's own random start
	// order already exposes; the reference must not depend on it.
	for _, o := range from.k.Store.all() {
		if _, ok := o.(*v1.Node); ok {
			f.k.Store.Put(o.DeepCopyObject().(client.Object))
		}
	}
	f.k.Start()
	if !f.k.Settle(false, sboxMaxSteps) {
		return nil
	}
	for _, o := range vfShuffled(f.k.sched, from.k.Store.all()) {
		if _, ok := o.(*v1.Node); !ok {
			f.k.Store.Put(o.DeepCopyObject().(client.Object))
		}
	}
	if !f.k.Settle(false, sboxMaxSteps) {
		return nil
	}
	f.k.Kill()
	return f
}

func sboxDiff(a, b *sboxObserved) (string, string) {
	switch {
	case !reflect.DeepEqual(a.L2, b.L2):
		// classify: extra services / different scope
		for svc := range a.L2 {
			if _, ok := b.L2[svc]; !ok {
				return "l2:stale-announcement", fmt.Sprintf("layer-2 announcements %v vs %v", a.L2, b.L2)
			}
		}
		for svc := range b.L2 {
			if _, ok := a.L2[svc]; !ok {
				return "l2:missing-announcement", fmt.Sprintf("layer-2 announcements %v vs %v", a.L2, b.L2)
			}
		}
		return "l2:announcement-differs", fmt.Sprintf("layer-2 announcements %v vs %v", a.L2, b.L2)
	case !reflect.DeepEqual(a.Answers, b.Answers):
		return "l2:answers-differ", fmt.Sprintf("answered (address@interface) %v vs %v", vfSortedKeys(a.Answers), vfSortedKeys(b.Answers))
	case !reflect.DeepEqual(vfSortedKeys(a.Sessions), vfSortedKeys(b.Sessions)):
		return "bgp:session-set-differs", fmt.Sprintf("live sessions %v vs %v", vfSortedKeys(a.Sessions), vfSortedKeys(b.Sessions))
	}
	for _, p := range vfSortedKeys(a.Sessions) {
		x, y := a.Sessions[p], b.Sessions[p]
		if len(x) == 0 && len(y) == 0 {
			continue
		}
		if !reflect.DeepEqual(x, y) {
			sig := "bgp:routes-differ"
			if len(x) > len(y) {
				sig = "bgp:stale-route"
			} else if len(x) < len(y) {
				sig = "bgp:missing-route"
			}
			return sig, fmt.Sprintf("peer %s: %v vs %v", p, x, y)
		}
	}
	if !reflect.DeepEqual(a.Peers, b.Peers) {
		return "bgp:peers-for-service-differ", fmt.Sprintf("%v vs %v", a.Peers, b.Peers)
	}
	return "", ""
}

// sboxHistory runs one history with the monitors of mon.
func sboxHistory(c *vfCase, mon sboxMon, events, epochMax int) *sbox {
	sb := newSbox(c, c.R.U64(), mon)
	sb.ignoreExcludeLB = c.R.Chance(1, 4)
	sb.plainAdvs = c.R.Chance(1, 3)
	if mon == (sboxMon{c05: true}) && c.R.Chance(1, 3) {
		sb.failSessionAt = c.R.Range(1, 4)
	}
	g := &sboxGen{r: vfNewRand(c.R.U64()), sb: sb}
	g.seed()
	c.Logf("initial: %s", vfJSON(sb.dump()))
	sb.k.Start()
	lastNonEmpty := ""
	quiet := func(kinds []string) bool {
		if !sb.k.Settle(true, sboxMaxSteps) {
			if !sb.k.Fatal {
				c.Violation("no-quiescence", fmt.Sprintf("the speaker did not reach quiescence within %d scheduler steps after %v", sboxMaxSteps, kinds), sb.dump())
			}
			return false
		}
		if sb.sessionFaulted {
			// the injected NewSession failure fired: every handler return up to here was judged by the
			// step monitor (live sessions carry exactly the held advertisements); the history ends here
			c.Count("histories-ended-by-session-creation-fault")
			return false
		}
		if mon.c05 {
			sb.quiescentC05()
		}
		if mon.c13 {
			sb.quiescentC13()
		}
		if mon.c04 {
			sb.quiescentC04()
		}
		if mon.c09 {
			if sb.ctl.config == nil {
				c.Count("quiescent-points-without-config")
				return true
			}
			addrs := sboxAddresses(sb.k.Store)
			obs := sb.observe(addrs)
			f1 := sboxFresh(c, sb, c.R.U64())
			f2 := sboxFresh(c, sb, c.R.U64())
			if f1 == nil || f2 == nil {
				c.Inconclusive("a fresh speaker did not settle")
				return true
			}
			o1, o2 := f1.observe(addrs), f2.observe(addrs)
			c.Eval()
			c.Count("fresh-comparisons")
			if sig, d := sboxDiff(o1, o2); sig != "" {
				c.Violation("fresh-speakers-disagree:"+sig, fmt.Sprintf("two freshly started speakers on the same cluster state announce differently after %v: %s", kinds, d), sb.dump())
				return true
			}
			if sig, d := sboxDiff(obs, o1); sig != "" {
				det := sb.dump()
				det["history_instance"] = map[string]any{"announced": obs.Announced, "known_nodes": sboxKnownNodes(sb), "l2": obs.L2, "sessions": obs.Sessions}
				det["fresh_instance"] = map[string]any{"announced": o1.Announced, "known_nodes": sboxKnownNodes(f1), "l2": o1.L2, "sessions": o1.Sessions, "configs_delivered": f1.configsDelivered, "configs_refused": f1.configsRefused, "steps": f1.k.Steps, "has_config": f1.ctl.config != nil, "pools_in_store": len(f1.k.Store.Pools), "config_error": sboxCfgErr(f1.k.Store), "config_error_history_store": sboxCfgErr(sb.k.Store)}
				c.Violation("history-dependent:"+sig+sb.causeSuffix(), fmt.Sprintf("after %v the speaker announces differently from a freshly started one (history vs fresh): %s", kinds, d), det)
			}
			key := fmt.Sprintf("%v|%v", obs.L2, obs.Sessions)
			if len(obs.L2) > 0 || sboxAnyRoutes(obs) {
				c.Count("quiescent-points-with-announcements")
				if key != lastNonEmpty {
					c.Nontrivial(key)
				}
				lastNonEmpty = key
			} else if lastNonEmpty != "" {
				c.Count("withdrawals-to-nothing")
				lastNonEmpty = ""
			}
		}
		return true
	}
	if !quiet([]string{"boot"}) {
		sb.k.Kill()
		return sb
	}
	left := events
	for left > 0 {
		n := c.R.Range(1, epochMax)
		if n > left {
			n = left
		}
		left -= n
		var kinds []string
		for i := 0; i < n; i++ {
			ev := g.event()
			kinds = append(kinds, ev.Kind)
			sb.k.Pending = append(sb.k.Pending, ev)
			if strings.HasPrefix(ev.Kind, "cfg-") {
				// the controller reacts to pool changes (statuses that left every pool are cleared / re-assigned)
				sb.k.Pending = append(sb.k.Pending, g.reactEvent())
			}
		}
		if !quiet(kinds) {
			sb.k.Kill()
			return sb
		}
	}
	sb.k.Pending = append(sb.k.Pending, g.reactEvent())
	quiet([]string{"controller-react"})
	sb.k.Kill()
	c.Distinct("schedules", sb.k.ScheduleSignature())
	c.CountN("handler-calls", sb.handlerCalls)
	c.CountN("configs-delivered", sb.configsDelivered)
	c.CountN("configs-refused", sb.configsRefused)
	c.CountN("scheduler-steps", sb.k.Steps)
	c.CountN("sessions-created", sb.sm.created)
	c.Count("histories")
	if c.WantSample() && c.Idx >= 1 {
		tr := c.Trace()
		if len(tr) > 30 {
			tr = tr[1:30]
		}
		c.Sample(map[string]any{"history_prefix": tr, "scheduler_steps": sb.k.Steps})
	}
	return sb
}

func sboxAnyRoutes(o *sboxObserved) bool {
	for _, r := range o.Sessions {
		if len(r) > 0 {
			return true
		}
	}
	return false
}

// sboxCause compresses the event kinds of an epoch into a signature fragment.
func sboxCause(kinds []string) string {
	seen := map[string]bool{}
	for _, k := range kinds {
		seen[k] = true
	}
	return strings.Join(vfSortedKeys(seen), "+")
}

func TestVerif_C05(t *testing.T) {
	vfMain(t, "C05", vfSizes{Quick: 600, Thorough: 3000}, sboxRule+"after every handler return the sessions must carry exactly the advertisements of the services currently held; at every quiescent point routes, attributes, live sessions and PeersForService are compared with the expectation computed from the resources; non-trivial = distinct expected (peer -> routes) constellation with at least one route",
		func(c *vfCase) { sboxHistory(c, sboxMon{c05: true}, 30, 3) })
}

func TestVerif_C09(t *testing.T) {
	vfMain(t, "C09", vfSizes{Quick: 100, Thorough: 1500}, sboxRule+"at every quiescent point the announcements (layer-2 holdings and answers per address/interface, routes per live session, PeersForService) are compared with two freshly booted speakers on a copy of the store; non-trivial = distinct non-empty announcement state reached",
		func(c *vfCase) { sboxHistory(c, sboxMon{c09: true}, 24, 2) })
}

func TestVerif_C04box(t *testing.T) {
	vfMain(t, "C04", vfSizes{Quick: 150, Thorough: 2000}, sboxRule+"at every quiescent point, for every Service, this node holds its addresses in the layer-2 announcer iff it is the eligible node with the smallest sha256(node#first address), eligibility being computed from the resources by the statement of C04; non-trivial = distinct (eligible set of >= 2 nodes, first address, policy)",
		func(c *vfCase) { sboxHistory(c, sboxMon{c04: true}, 26, 2) })
}

func TestVerif_C13(t *testing.T) {
	vfMain(t, "C13", vfSizes{Quick: 150, Thorough: 2000}, sboxRule+"at every quiescent point every (service, address) the node's layer-2 announcer holds must be an address the Service has, with the interface scope the L2Advertisements selecting the address's pool and this node ask for, and the responder's per-interface decision must be exactly 'some held scope covers it'; non-trivial = distinct (pool, scope) compared",
		func(c *vfCase) { sboxHistory(c, sboxMon{c13: true}, 26, 2) })
}

func sboxKnownNodes(sb *sbox) []string {
	var out []string
	for n := range sb.ctl.nodes {
		out = append(out, n)
	}
	sort.Strings(out)
	return out
}

func sboxCfgErr(s *boxStore) string {
	_, err := config.For(sboxResources(s), config.DontValidate)
	return fmt.Sprint(err)
}

func TestVerif_C18(t *testing.T) {
	vfMain(t, "C18", vfSizes{Quick: 60, Thorough: 1500}, sboxRule+"every call of the speaker's configuration handler is compared with the previous accepted one: the resources the reconciler listed (by value, order-free, status fields blanked) must have changed; non-trivial = distinct delivered resource set",
		func(c *vfCase) { sboxHistory(c, sboxMon{c18: true}, 30, 3) })
}
