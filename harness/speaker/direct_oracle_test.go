//go:build verif

// Shared helpers of the three "direct call" harnesses of the speaker (C04, C10, C12): a JSON-able
// description of a cluster view, its materialisation into the arguments of the protocol handlers'
// ShouldAnnounce, and the reference oracle (layer-2 eligibility, election, BGP iff rule) written from
// the property statements over sets and tables rather than the code's maps and filters.
package main

import (
	"sync"
	"crypto/sha256"
	"encoding/hex"
	"encoding/json"
	"fmt"
	"net"
	"net/netip"
	"os"
	"sort"
	"strings"

	"github.com/go-kit/log"
	v1 "k8s.io/api/core/v1"
	discovery "k8s.io/api/discovery/v1"
	metav1 "k8s.io/apimachinery/pkg/apis/meta/v1"

	"go.universe.tf/metallb/internal/config"
	"go.universe.tf/metallb/internal/speakerlist"
)

// ---------------------------------------------------------------- view description

// directTri is an optional boolean: 0 = nil, 1 = true, 2 = false.
type directTri int8

const (
	directNil   directTri = 0
	directTrue  directTri = 1
	directFalse directTri = 2
)

func (t directTri) ptr() *bool {
	switch t {
	case directTrue:
		b := true
		return &b
	case directFalse:
		b := false
		return &b
	}
	return nil
}

func (t directTri) String() string { return [...]string{"nil", "true", "false"}[t] }

func (t directTri) MarshalJSON() ([]byte, error) { return []byte(`"` + t.String() + `"`), nil }

func (t *directTri) UnmarshalJSON(b []byte) error {
	switch string(b) {
	case `"true"`, "1":
		*t = directTrue
	case `"false"`, "2":
		*t = directFalse
	default:
		*t = directNil
	}
	return nil
}

const (
	directCluster = "Cluster"
	directLocal   = "Local"
)

// directNode is one node name of the view together with everything the view says about it.
type directNode struct {
	Name string `json:"name"`
	// Known: a Node object with this name is in the nodes map handed to the speakers.
	Known bool `json:"known"`
	// Member: memberlist lists the node's speaker as alive (meaningful with MemberlistOn only).
	Member bool `json:"member"`
	// NetCond: status of the NetworkUnavailable condition: "" (no such condition), "True", "False", "Unknown".
	NetCond string `json:"netcond,omitempty"`
	// Exclude: "" = no exclude-from-external-load-balancers label, otherwise "empty" or the label value.
	Exclude string `json:"exclude,omitempty"`
	// OtherCond adds unrelated conditions (Ready, MemoryPressure) that must not influence anything.
	OtherCond bool `json:"othercond,omitempty"`
}

type directEndpoint struct {
	// Node is the endpoint's node name; NilNode means the entry carries no node name at all.
	Node        string    `json:"node,omitempty"`
	NilNode     bool      `json:"nilnode,omitempty"`
	Addrs       []string  `json:"addrs"`
	Ready       directTri `json:"ready"`
	Serving     directTri `json:"serving"`
	Terminating directTri `json:"terminating"`
}

type directSlice struct {
	Name      string           `json:"name"`
	Endpoints []directEndpoint `json:"endpoints"`
}

// directAdv is an advertisement (layer-2 or BGP) as the speaker sees it inside config.Pool: the set of
// selected node names. Unselected lists names that are present in the map with the value false.
type directAdv struct {
	Name       string   `json:"name,omitempty"`
	Nodes      []string `json:"nodes"`
	Unselected []string `json:"unselected,omitempty"`
}

type directService struct {
	Name   string        `json:"name"`
	Policy string        `json:"policy"`
	Slices []directSlice `json:"slices"`
}

type directView struct {
	Nodes         []directNode  `json:"nodes"`
	MemberlistOn  bool          `json:"memberlist_on"`
	IgnoreExclude bool          `json:"ignore_exclude"`
	L2Advs        []directAdv   `json:"l2advs"`
	BGPAdvs       []directAdv   `json:"bgpadvs,omitempty"`
	IPs           []string      `json:"ips"`
	V4AsFourBytes bool          `json:"v4_as_4_bytes,omitempty"`
	Svc           directService `json:"svc"`
}

func (v *directView) clone() *directView {
	b, _ := json.Marshal(v)
	var out directView
	_ = json.Unmarshal(b, &out)
	return &out
}

func (v *directView) node(name string) *directNode {
	for i := range v.Nodes {
		if v.Nodes[i].Name == name {
			return &v.Nodes[i]
		}
	}
	return nil
}

// directUniverse lists every node name the view mentions anywhere, sorted: one speaker is asked per name.
func directUniverse(v *directView, svcs ...*directService) []string {
	set := map[string]bool{}
	for _, n := range v.Nodes {
		set[n.Name] = true
	}
	for _, advs := range [][]directAdv{v.L2Advs, v.BGPAdvs} {
		for _, a := range advs {
			for _, n := range a.Nodes {
				set[n] = true
			}
			for _, n := range a.Unselected {
				set[n] = true
			}
		}
	}
	all := append([]*directService{&v.Svc}, svcs...)
	for _, s := range all {
		if s == nil {
			continue
		}
		for _, sl := range s.Slices {
			for _, e := range sl.Endpoints {
				if !e.NilNode {
					set[e.Node] = true
				}
			}
		}
	}
	out := make([]string, 0, len(set))
	for n := range set {
		out = append(out, n)
	}
	sort.Strings(out)
	return out
}

// ---------------------------------------------------------------- materialisation

type directSpeakerList struct {
	info speakerlist.SpeakerListInfo
}

func (s *directSpeakerList) UsableSpeakers() speakerlist.SpeakerListInfo {
	if s.info.Disabled {
		return speakerlist.SpeakerListInfo{Disabled: true}
	}
	// the real list builds a new map per call
	m := make(map[string]bool, len(s.info.Nodes))
	for k, b := range s.info.Nodes {
		m[k] = b
	}
	return speakerlist.SpeakerListInfo{Nodes: m}
}

func (s *directSpeakerList) Rejoin() {}

type directWorld struct {
	nodes map[string]*v1.Node
	sl    *directSpeakerList
	pool  *config.Pool
	ips   []net.IP
}

type directSvcObjs struct {
	key string
	svc *v1.Service
	eps []discovery.EndpointSlice
}

var directLogger = log.NewNopLogger()

func directNodeObj(n *directNode) *v1.Node {
	o := &v1.Node{ObjectMeta: metav1.ObjectMeta{Name: n.Name, Labels: map[string]string{"kubernetes.io/hostname": n.Name}}}
	switch n.Exclude {
	case "":
	case "empty":
		o.Labels[v1.LabelNodeExcludeBalancers] = ""
	default:
		o.Labels[v1.LabelNodeExcludeBalancers] = n.Exclude
	}
	if n.OtherCond {
		o.Status.Conditions = append(o.Status.Conditions,
			v1.NodeCondition{Type: v1.NodeReady, Status: v1.ConditionTrue},
			v1.NodeCondition{Type: v1.NodeMemoryPressure, Status: v1.ConditionTrue})
	}
	if n.NetCond != "" {
		o.Status.Conditions = append(o.Status.Conditions, v1.NodeCondition{Type: v1.NodeNetworkUnavailable, Status: v1.ConditionStatus(n.NetCond)})
	}
	if n.OtherCond {
		o.Status.Conditions = append(o.Status.Conditions, v1.NodeCondition{Type: v1.NodeDiskPressure, Status: v1.ConditionTrue})
	}
	return o
}

func directAdvNodes(a directAdv) map[string]bool {
	m := map[string]bool{}
	for _, n := range a.Unselected {
		m[n] = false
	}
	for _, n := range a.Nodes {
		m[n] = true
	}
	return m
}

func directMaterialize(v *directView) *directWorld {
	w := &directWorld{nodes: map[string]*v1.Node{}, sl: &directSpeakerList{}}
	var members map[string]bool
	if v.MemberlistOn {
		members = map[string]bool{}
	}
	for i := range v.Nodes {
		n := &v.Nodes[i]
		if n.Known {
			w.nodes[n.Name] = directNodeObj(n)
		}
		if v.MemberlistOn && n.Member {
			members[n.Name] = true
		}
	}
	w.sl.info = speakerlist.SpeakerListInfo{Nodes: members, Disabled: !v.MemberlistOn}
	w.pool = &config.Pool{Name: "pool-direct", AutoAssign: true}
	for _, a := range v.L2Advs {
		w.pool.L2Advertisements = append(w.pool.L2Advertisements, &config.L2Advertisement{Nodes: directAdvNodes(a), AllInterfaces: true})
	}
	for i, a := range v.BGPAdvs {
		name := a.Name
		if name == "" {
			name = fmt.Sprintf("bgpadv%d", i)
		}
		w.pool.BGPAdvertisements = append(w.pool.BGPAdvertisements, &config.BGPAdvertisement{
			Name: name, AggregationLength: 32, AggregationLengthV6: 128, Nodes: directAdvNodes(a)})
	}
	for _, s := range v.IPs {
		ip := net.ParseIP(s)
		if ip == nil {
			panic("direct harness: bad address " + s)
		}
		if v.V4AsFourBytes {
			if ip4 := ip.To4(); ip4 != nil {
				ip = ip4
			}
		}
		w.ips = append(w.ips, ip)
		bits := 32
		if ip.To4() == nil {
			bits = 128
		}
		w.pool.CIDR = append(w.pool.CIDR, &net.IPNet{IP: ip, Mask: net.CIDRMask(bits, bits)})
	}
	return w
}

func directMaterializeSvc(v *directView, s *directService) *directSvcObjs {
	o := &directSvcObjs{key: "ns/" + s.Name}
	svc := &v1.Service{ObjectMeta: metav1.ObjectMeta{Name: s.Name, Namespace: "ns"}}
	svc.Spec.Type = v1.ServiceTypeLoadBalancer
	svc.Spec.ExternalTrafficPolicy = v1.ServiceExternalTrafficPolicyType(s.Policy)
	svc.Spec.Ports = []v1.ServicePort{{Name: "p", Port: 80, Protocol: v1.ProtocolTCP}}
	for _, ip := range v.IPs {
		svc.Status.LoadBalancer.Ingress = append(svc.Status.LoadBalancer.Ingress, v1.LoadBalancerIngress{IP: ip})
	}
	o.svc = svc
	for _, sl := range s.Slices {
		es := discovery.EndpointSlice{
			ObjectMeta:  metav1.ObjectMeta{Name: sl.Name, Namespace: "ns", Labels: map[string]string{discovery.LabelServiceName: s.Name}},
			AddressType: discovery.AddressTypeIPv4,
		}
		for _, e := range sl.Endpoints {
			ep := discovery.Endpoint{
				Addresses:  append([]string(nil), e.Addrs...),
				Conditions: discovery.EndpointConditions{Ready: e.Ready.ptr(), Serving: e.Serving.ptr(), Terminating: e.Terminating.ptr()},
			}
			if !e.NilNode {
				nn := e.Node
				ep.NodeName = &nn
			}
			es.Endpoints = append(es.Endpoints, ep)
		}
		o.eps = append(o.eps, es)
	}
	return o
}

var (
	directOldMu    sync.Mutex
	directOldCtl   = map[string]*layer2Controller{}
	directOldDiffs []string
	directOldCalls int
)

// directTakeHistoryDiffs returns (and forgets) the disagreements between fresh and long-lived controllers.
func directTakeHistoryDiffs() []string {
	directOldMu.Lock()
	defer directOldMu.Unlock()
	d := directOldDiffs
	directOldDiffs = nil
	return d
}

// directL2Decide asks one fresh layer-2 controller per name; returns the names that decided to announce
// (sorted) and every decision.
func directL2Decide(w *directWorld, v *directView, so *directSvcObjs, names []string) ([]string, map[string]string) {
	dec := make(map[string]string, len(names))
	var ann []string
	for _, n := range names {
		ctl := &layer2Controller{myNode: n, ignoreExcludeLB: v.IgnoreExclude, sList: w.sl}
		d := ctl.ShouldAnnounce(directLogger, so.key, w.ips, w.pool, so.svc, so.eps, w.nodes)
		dec[n] = d
		// the same question to the long-lived controller of that name (a speaker process that has decided every
		// earlier view of this run): the choice depends on the view only, never on what the process saw before
		directOldMu.Lock()
		old := directOldCtl[n]
		if old == nil {
			old = &layer2Controller{myNode: n}
			directOldCtl[n] = old
		}
		old.ignoreExcludeLB, old.sList = v.IgnoreExclude, w.sl
		if d2 := old.ShouldAnnounce(directLogger, so.key, w.ips, w.pool, so.svc, so.eps, w.nodes); d2 != d {
			directOldDiffs = append(directOldDiffs, fmt.Sprintf("node %s, addresses %v: a fresh controller decides %q, the controller that decided %d earlier views decides %q", n, v.IPs, d, directOldCalls, d2))
		}
		directOldCalls++
		directOldMu.Unlock()
		if d == "" {
			ann = append(ann, n)
		}
	}
	return ann, dec
}

func directBGPDecide(w *directWorld, v *directView, so *directSvcObjs, me string) string {
	ctl := &bgpController{logger: directLogger, myNode: me, ignoreExcludeLB: v.IgnoreExclude}
	return ctl.ShouldAnnounce(directLogger, so.key, w.ips, w.pool, so.svc, so.eps, w.nodes)
}

// ---------------------------------------------------------------- oracle (from the statements)

// directServeTable[ready][serving]: an entry is usable when it is ready (an unset ready flag means ready,
// Kubernetes API convention) or serving.
var directServeTable = [3][3]bool{
	directNil:   {directNil: true, directTrue: true, directFalse: true},
	directTrue:  {directNil: true, directTrue: true, directFalse: true},
	directFalse: {directNil: false, directTrue: true, directFalse: false},
}

func directServes(e *directEndpoint) bool { return directServeTable[e.Ready][e.Serving] }

func directIsNetUnavailable(n *directNode) bool { return n != nil && n.Known && n.NetCond == "True" }
func directIsExcluded(n *directNode) bool       { return n != nil && n.Known && n.Exclude != "" }

func directSelected(advs []directAdv, name string) bool {
	for _, a := range advs {
		for _, n := range a.Nodes {
			if n == name {
				return true
			}
		}
	}
	return false
}

// directL2Why returns "" when name is eligible to answer for the address of svc in view v, otherwise the
// first eligibility clause of the C04 statement that fails.
func directL2Why(v *directView, svc *directService, name string) string {
	n := v.node(name)
	if v.MemberlistOn {
		if n == nil || !n.Member {
			return "no-live-speaker"
		}
	} else if n == nil || !n.Known {
		return "no-live-speaker"
	}
	if !directSelected(v.L2Advs, name) {
		return "not-selected-by-l2-advertisement"
	}
	if directIsNetUnavailable(n) {
		return "network-unavailable"
	}
	if !v.IgnoreExclude && directIsExcluded(n) {
		return "excluded-from-load-balancers"
	}
	anyServing, local := false, false
	for i := range svc.Slices {
		for j := range svc.Slices[i].Endpoints {
			e := &svc.Slices[i].Endpoints[j]
			if directServes(e) {
				anyServing = true
				if !e.NilNode && e.Node == name {
					local = true
				}
			}
		}
	}
	if !anyServing {
		return "no-serving-endpoint"
	}
	if svc.Policy == directLocal && !local {
		return "no-local-serving-endpoint"
	}
	return ""
}

func directL2Eligible(v *directView, svc *directService, names []string) []string {
	var out []string
	for _, n := range names {
		if directL2Why(v, svc, n) == "" {
			out = append(out, n)
		}
	}
	return out
}

// directFirstIP is the canonical text of the first address of the view (netip, not net.IP).
func directFirstIP(v *directView) string {
	return netip.MustParseAddr(v.IPs[0]).String()
}

// directElect is the documented election: smallest sha256(node + "#" + first address).
func directElect(names []string, firstIP string) string {
	best, bestH := "", ""
	for _, n := range names {
		sum := sha256.Sum256([]byte(n + "#" + firstIP))
		h := hex.EncodeToString(sum[:])
		if bestH == "" || h < bestH {
			best, bestH = n, h
		}
	}
	return best
}

// directBGPExpect evaluates the C10 iff rule for node me. whyNot names the first failing clause
// (""= all hold). r1 / r2 are the two readings of "ready endpoint on that node" when an address is repeated
// on different nodes with conflicting conditions: r1 judges an address by every entry carrying it anywhere,
// r2 by the entries on this node only. For the Cluster policy r1 == r2.
func directBGPExpect(v *directView, svc *directService, me string) (whyNot string, r1, r2 bool, conflict bool) {
	n := v.node(me)
	all := map[string]bool{}   // address -> every entry carrying it can serve
	mine := map[string]bool{}  // address -> every entry on me carrying it can serve
	seenT := map[string]bool{} // address seen with a usable entry
	seenF := map[string]bool{} // address seen with an unusable entry
	for i := range svc.Slices {
		for j := range svc.Slices[i].Endpoints {
			e := &svc.Slices[i].Endpoints[j]
			ok := directServes(e)
			for _, a := range e.Addrs {
				if prev, seen := all[a]; seen {
					all[a] = prev && ok
				} else {
					all[a] = ok
				}
				if ok {
					seenT[a] = true
				} else {
					seenF[a] = true
				}
				if !e.NilNode && e.Node == me {
					if prev, seen := mine[a]; seen {
						mine[a] = prev && ok
					} else {
						mine[a] = ok
					}
				}
			}
		}
	}
	for a := range seenT {
		if seenF[a] {
			conflict = true
		}
	}
	if svc.Policy == directLocal {
		for a := range mine {
			if all[a] {
				r1 = true
			}
			if mine[a] {
				r2 = true
			}
		}
	} else {
		for _, ok := range all {
			if ok {
				r1 = true
			}
		}
		r2 = r1
	}
	switch {
	case !directSelected(v.BGPAdvs, me):
		whyNot = "not-selected-by-bgp-advertisement"
	case directIsNetUnavailable(n):
		whyNot = "network-unavailable"
	case !v.IgnoreExclude && directIsExcluded(n):
		whyNot = "excluded-from-load-balancers"
	case !r1 && !r2:
		if svc.Policy == directLocal {
			whyNot = "no-ready-local-endpoint"
		} else {
			whyNot = "no-ready-endpoint"
		}
	}
	return whyNot, r1, r2, conflict
}

// ---------------------------------------------------------------- generators

// long names (Kubernetes allows 253 octets): directLongA/B share their first 64 octets, so anything that
// truncates the election key "node#address" cannot tell them apart; directLongC is a 45-octet FQDN (with an
// IPv6 address the key passes 64 octets), directLongD has the maximum length.
var (
	directLongA = "prod-eu-west-1-cluster-0007-pool-generic-workers-large-0123456789-aaaa"
	directLongB = "prod-eu-west-1-cluster-0007-pool-generic-workers-large-0123456789-bbbb"
	directLongC = "ip-10-20-30-40.eu-west-1.compute.example.corp"
	directLongD = strings.Repeat("node-with-a-very-long-name.", 9) + "example.io"
)

var directNamePalette = []string{"n1", "n2", "n3", "iris1", "iris2", "worker-a", "worker-b", "worker-10", "worker-2", "cp-0", "edge.example.com", "N1",
	directLongA, directLongB, directLongC, directLongD}

var directNetConds = []string{"", "", "", "False", "False", "Unknown", "True", "True"}

func directRandV4(r *vfRand) string {
	return fmt.Sprintf("%d.%d.%d.%d", vfPick(r, []int{10, 172, 192, 198}), r.Intn(256), r.Intn(256), r.Intn(256))
}

func directRandV6(r *vfRand) string {
	s := fmt.Sprintf("%s:%x::%x", vfPick(r, []string{"fc00", "2001:db8", "fd12:3456"}), r.Intn(65536), r.Intn(65536))
	return netip.MustParseAddr(s).String()
}

// directAddrs returns the address list of the given shape: 0 = v4, 1 = v6, 2 = dual v4 first, 3 = dual v6 first.
func directAddrs(r *vfRand, shape int) []string {
	switch shape {
	case 0:
		return []string{directRandV4(r)}
	case 1:
		return []string{directRandV6(r)}
	case 2:
		return []string{directRandV4(r), directRandV6(r)}
	default:
		return []string{directRandV6(r), directRandV4(r)}
	}
}

func directRandTri(r *vfRand, pTrue, pFalse, den int) directTri {
	x := r.Intn(den)
	switch {
	case x < pTrue:
		return directTrue
	case x < pTrue+pFalse:
		return directFalse
	}
	return directNil
}

// directRandSlices generates 0-3 slices with 0-3 endpoints each over the given node names.
func directRandSlices(r *vfRand, svcName string, nodeNames []string, maxSlices int) []directSlice {
	var out []directSlice
	ns := r.Intn(maxSlices + 1)
	if ns == 0 && r.Chance(3, 4) {
		ns = 1
	}
	ctr := 0
	for i := 0; i < ns; i++ {
		sl := directSlice{Name: fmt.Sprintf("%s-%c", svcName, 'a'+i)}
		ne := vfPick(r, []int{0, 1, 1, 2, 2, 3})
		for j := 0; j < ne; j++ {
			ctr++
			e := directEndpoint{Addrs: []string{fmt.Sprintf("10.244.%d.%d", r.Intn(3), 1+r.Intn(6))}}
			switch x := r.Intn(10); {
			case x == 0:
				e.NilNode = true
			case x == 1:
				e.Node = "ghost"
			default:
				e.Node = vfPick(r, nodeNames)
			}
			e.Ready = directRandTri(r, 5, 4, 10)
			e.Serving = directRandTri(r, 3, 4, 10)
			e.Terminating = directRandTri(r, 2, 4, 10)
			sl.Endpoints = append(sl.Endpoints, e)
		}
		out = append(out, sl)
	}
	return out
}

// directRandomView builds a 4-6-node view with up to 2 layer-2 advertisements, unknown-node members and
// multi-slice endpoint layouts.
func directRandomView(r *vfRand) *directView {
	v := &directView{}
	names := vfShuffled(r, directNamePalette)[:r.Range(4, 6)]
	v.MemberlistOn = r.Bool()
	v.IgnoreExclude = r.Chance(1, 3)
	for _, nm := range names {
		n := directNode{Name: nm, Known: true, Member: r.Chance(4, 5)}
		n.NetCond = vfPick(r, directNetConds)
		n.Exclude = vfPick(r, []string{"", "", "", "", "", "", "empty", "true"})
		n.OtherCond = r.Bool()
		if r.Chance(1, 12) {
			n.Known = false // a member (or an advertisement target) whose Node object the speakers do not have
		}
		v.Nodes = append(v.Nodes, n)
	}
	if r.Chance(1, 5) {
		// a member that is neither a known node nor (usually) selected
		v.Nodes = append(v.Nodes, directNode{Name: "stranger", Known: false, Member: true})
		names = append(names, "stranger")
	}
	nadv := vfPick(r, []int{0, 1, 1, 1, 2, 2, 2, 2})
	for i := 0; i < nadv; i++ {
		a := directAdv{}
		pnum := vfPick(r, []int{1, 2, 3, 4})
		for _, nm := range names {
			if r.Chance(pnum, 4) {
				a.Nodes = append(a.Nodes, nm)
			} else if r.Bool() {
				a.Unselected = append(a.Unselected, nm)
			}
		}
		v.L2Advs = append(v.L2Advs, a)
	}
	v.IPs = directAddrs(r, r.Intn(4))
	v.V4AsFourBytes = r.Chance(1, 4)
	v.Svc = directService{Name: "svc1", Policy: vfPick(r, []string{directCluster, directLocal})}
	v.Svc.Slices = directRandSlices(r, "svc1", names, 3)
	return v
}

// directPermuted returns the same view with every listing order changed: nodes, advertisements and their
// node lists, slices, endpoints inside slices; with resplit the endpoints are also redistributed over a
// different number of slices (the multiset of endpoints is unchanged).
func directPermuted(r *vfRand, v *directView, resplit bool) *directView {
	p := v.clone()
	vfShuffle(r, p.Nodes)
	vfShuffle(r, p.L2Advs)
	for i := range p.L2Advs {
		vfShuffle(r, p.L2Advs[i].Nodes)
		vfShuffle(r, p.L2Advs[i].Unselected)
	}
	p.Svc.Slices = directPermuteSlices(r, p.Svc.Slices, p.Svc.Name, resplit)
	return p
}

func directPermuteSlices(r *vfRand, slices []directSlice, svcName string, resplit bool) []directSlice {
	if !resplit {
		out := append([]directSlice(nil), slices...)
		vfShuffle(r, out)
		for i := range out {
			out[i].Endpoints = vfShuffled(r, out[i].Endpoints)
		}
		return out
	}
	var all []directEndpoint
	for _, s := range slices {
		all = append(all, s.Endpoints...)
	}
	vfShuffle(r, all)
	k := r.Range(1, 3)
	out := make([]directSlice, k)
	for i := range out {
		out[i].Name = fmt.Sprintf("%s-r%d", svcName, i)
	}
	for _, e := range all {
		i := r.Intn(k)
		out[i].Endpoints = append(out[i].Endpoints, e)
	}
	return out
}

// ---------------------------------------------------------------- misc

// directTally collects counters locally (one lock per case instead of one per view).
type directTally map[string]int

func (t directTally) flush(c *vfCase) {
	for _, k := range vfSortedKeys(t) {
		c.CountN(k, t[k])
	}
}

// directNShards is the shard count the case list was partitioned with. A replay runs as a single
// process, so the count of the original run is taken from the replay file.
func directNShards(c *vfCase) int {
	if c != nil && c.Replaying {
		if f := os.Getenv("VERIF_REPLAY_FILE"); f != "" {
			if b, err := os.ReadFile(f); err == nil {
				var rp struct {
					Detail struct {
						NShards int `json:"nshards"`
					} `json:"detail"`
				}
				if json.Unmarshal(b, &rp) == nil && rp.Detail.NShards > 0 {
					return rp.Detail.NShards
				}
			}
		}
	}
	n := vfEnvInt("VERIF_NSHARDS", 1)
	if n < 1 {
		n = 1
	}
	return n
}

func directShard() int { return vfEnvInt("VERIF_SHARD", 0) }

// directBlock splits the index range [0,total) first over shards (index mod nshards == shard) and then
// into nblocks consecutive blocks; it returns the indices of block b of this shard.
func directBlock(total, nshards, shard, nblocks, b int) []int {
	mine := 0
	if shard < total {
		mine = (total - shard + nshards - 1) / nshards
	}
	per := (mine + nblocks - 1) / nblocks
	var out []int
	for k := b * per; k < (b+1)*per && k < mine; k++ {
		out = append(out, shard+k*nshards)
	}
	return out
}

// directSetExhaustive marks the run as having covered its whole bounded space (vf.go has no setter; the
// result struct is reachable because the runtime is compiled into the same package).
func directSetExhaustive(c *vfCase, info map[string]any) {
	c.run.mu.Lock()
	c.run.res.Exhaustive = true
	c.run.res.Extra["exhaustive_space"] = info
	c.run.mu.Unlock()
}

func directSetExtra(c *vfCase, key string, val any) {
	c.run.mu.Lock()
	c.run.res.Extra[key] = val
	c.run.mu.Unlock()
}

func directDetail(c *vfCase, kv map[string]any) map[string]any {
	kv["nshards"] = directNShards(c)
	return kv
}

func directSetKey(xs []string) string {
	s := append([]string(nil), xs...)
	sort.Strings(s)
	return strings.Join(s, ",")
}

func directHas(xs []string, x string) bool {
	for _, y := range xs {
		if y == x {
			return true
		}
	}
	return false
}
