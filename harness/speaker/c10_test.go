//go:build verif

// C10 — BGP announcement eligibility follows node state and traffic policy.
// bgpController.ShouldAnnounce is called directly on generated endpoint layouts and compared with the
// iff rule of the statement (directBGPExpect).
package main

import (
	"fmt"
	"testing"
)

const (
	c10Me    = "me"
	c10Other = "other"

	c10PerEntry     = 54 // node {me, other, nil} x address {a, b} x ready {nil,T,F} x serving {nil,T,F}
	c10Layouts      = 1 + c10PerEntry + c10PerEntry*c10PerEntry + c10PerEntry*c10PerEntry*c10PerEntry
	c10Combos       = 32 // NetworkUnavailable x exclude label x ignoreExcludeLB x advertisement selects me x policy
	c10EnumThorough = 512
	c10RandThorough = 16000
	c10EnumQuick    = 400
	c10RandQuick    = 300
	c10QuickLayouts = 64
	c10RandPerCase  = 100
)

var c10Covered int

// c10Entry decodes one of the 54 entry codes.
func c10Entry(code int, r *vfRand) directEndpoint {
	e := directEndpoint{}
	switch code % 3 {
	case 0:
		e.Node = c10Me
	case 1:
		e.Node = c10Other
	default:
		e.NilNode = true
	}
	code /= 3
	e.Addrs = []string{[]string{"10.244.0.1", "10.244.0.2"}[code%2]}
	code /= 2
	e.Ready = directTri(code % 3)
	code /= 3
	e.Serving = directTri(code % 3)
	e.Terminating = directTri(r.Intn(3))
	return e
}

// c10LayoutEntries decodes a layout index of the bounded space into 0..3 entries.
func c10LayoutEntries(idx int, r *vfRand) []directEndpoint {
	switch {
	case idx == 0:
		return nil
	case idx < 1+c10PerEntry:
		return []directEndpoint{c10Entry(idx-1, r)}
	case idx < 1+c10PerEntry+c10PerEntry*c10PerEntry:
		k := idx - 1 - c10PerEntry
		return []directEndpoint{c10Entry(k%c10PerEntry, r), c10Entry(k/c10PerEntry, r)}
	}
	k := idx - 1 - c10PerEntry - c10PerEntry*c10PerEntry
	return []directEndpoint{c10Entry(k%c10PerEntry, r), c10Entry(k/c10PerEntry%c10PerEntry, r), c10Entry(k/c10PerEntry/c10PerEntry, r)}
}

// c10Split distributes the entries over slices: way 0 = one slice with everything, way 1 = the first entry
// alone in one slice and the rest in a second one (an empty second slice when there is nothing left).
func c10Split(entries []directEndpoint, way int) []directSlice {
	if way == 0 {
		if len(entries) == 0 {
			return nil
		}
		return []directSlice{{Name: "svc1-a", Endpoints: entries}}
	}
	if len(entries) == 0 {
		return []directSlice{{Name: "svc1-a"}}
	}
	return []directSlice{{Name: "svc1-a", Endpoints: entries[:1]}, {Name: "svc1-b", Endpoints: entries[1:]}}
}

func c10ComboView(r *vfRand, combo int, slices []directSlice) *directView {
	v := &directView{IPs: []string{"192.0.2.10"}}
	me := directNode{Name: c10Me, Known: true, Member: true, OtherCond: r.Bool()}
	if combo&1 != 0 {
		me.NetCond = "True"
	} else {
		me.NetCond = vfPick(r, []string{"", "", "False", "Unknown"})
	}
	if combo&2 != 0 {
		me.Exclude = vfPick(r, []string{"empty", "true"})
	}
	v.IgnoreExclude = combo&4 != 0
	// the other node's own state must not matter
	other := directNode{Name: c10Other, Known: r.Chance(3, 4), Member: true, NetCond: vfPick(r, directNetConds)}
	if r.Chance(1, 3) {
		other.Exclude = "true"
	}
	v.Nodes = []directNode{me, other}
	if r.Bool() {
		v.Nodes[0], v.Nodes[1] = v.Nodes[1], v.Nodes[0]
	}
	adv := directAdv{Name: "adv1"}
	if combo&8 != 0 {
		adv.Nodes = append(adv.Nodes, c10Me)
	} else if r.Bool() {
		adv.Unselected = append(adv.Unselected, c10Me)
	}
	if r.Bool() {
		adv.Nodes = append(adv.Nodes, c10Other)
	}
	v.BGPAdvs = []directAdv{adv}
	policy := directCluster
	if combo&16 != 0 {
		policy = directLocal
	}
	v.Svc = directService{Name: "svc1", Policy: policy, Slices: slices}
	return v
}

// c10RandomView: 4-6 entries over {me, other, third, nil} and 3 addresses, entries with two addresses,
// several advertisements, me possibly without a Node object.
func c10RandomView(r *vfRand) *directView {
	v := &directView{IPs: directAddrs(r, r.Intn(4)), IgnoreExclude: r.Chance(1, 3)}
	me := directNode{Name: c10Me, Known: !r.Chance(1, 10), Member: true, NetCond: vfPick(r, directNetConds), OtherCond: r.Bool()}
	me.Exclude = vfPick(r, []string{"", "", "", "empty", "true"})
	v.Nodes = []directNode{me}
	for _, nm := range []string{c10Other, "third"} {
		n := directNode{Name: nm, Known: r.Chance(4, 5), Member: true, NetCond: vfPick(r, directNetConds)}
		n.Exclude = vfPick(r, []string{"", "", "true"})
		v.Nodes = append(v.Nodes, n)
	}
	vfShuffle(r, v.Nodes)
	nadv := vfPick(r, []int{0, 1, 1, 2, 2, 3})
	for i := 0; i < nadv; i++ {
		a := directAdv{Name: fmt.Sprintf("adv%d", i)}
		for _, nm := range []string{c10Me, c10Other, "third"} {
			if r.Chance(2, 3) {
				a.Nodes = append(a.Nodes, nm)
			} else if r.Bool() {
				a.Unselected = append(a.Unselected, nm)
			}
		}
		v.BGPAdvs = append(v.BGPAdvs, a)
	}
	v.Svc = directService{Name: "svc1", Policy: vfPick(r, []string{directCluster, directLocal})}
	ne := r.Range(4, 6)
	addrs := []string{"10.244.0.1", "10.244.0.2", "10.244.1.7"}
	var entries []directEndpoint
	for i := 0; i < ne; i++ {
		e := directEndpoint{Addrs: []string{vfPick(r, addrs)}}
		if r.Chance(1, 6) {
			e.Addrs = append(e.Addrs, vfPick(r, addrs))
		}
		switch x := r.Intn(8); {
		case x < 3:
			e.Node = c10Me
		case x < 5:
			e.Node = c10Other
		case x < 6:
			e.Node = "third"
		default:
			e.NilNode = true
		}
		e.Ready = directRandTri(r, 5, 3, 10)
		e.Serving = directRandTri(r, 3, 4, 10)
		e.Terminating = directTri(r.Intn(3))
		entries = append(entries, e)
	}
	k := r.Range(1, 3)
	sl := make([]directSlice, k)
	for i := range sl {
		sl[i].Name = fmt.Sprintf("svc1-%c", 'a'+i)
	}
	for _, e := range entries {
		i := r.Intn(k)
		sl[i].Endpoints = append(sl[i].Endpoints, e)
	}
	v.Svc.Slices = sl
	return v
}

func c10Check(c *vfCase, tl directTally, v *directView, kind string) {
	w := directMaterialize(v)
	so := directMaterializeSvc(v, &v.Svc)
	got := directBGPDecide(w, v, so, c10Me)
	whyNot, r1, r2, conflict := directBGPExpect(v, &v.Svc, c10Me)
	c.Eval()
	tl["decisions:"+kind]++
	if got == "" {
		tl["decision:announce:"+v.Svc.Policy]++
	} else {
		tl["decision:refuse:"+got]++
	}
	if conflict {
		tl["layouts-with-conflicting-repeated-address"]++
	}
	detail := func() map[string]any {
		return directDetail(c, map[string]any{"view": v, "node": c10Me, "decision": got, "oracle_refusal": whyNot,
			"ready_endpoint_reading_all_entries": r1, "ready_endpoint_reading_own_entries": r2})
	}
	nodeClausesHold := whyNot == "" || whyNot == "no-ready-local-endpoint" || whyNot == "no-ready-endpoint"
	if !nodeClausesHold {
		// advertisement selection / node state forbid announcing whatever the endpoints are
		tl["expected:refuse:"+whyNot]++
		if got == "" {
			c.Violation("bgp:announces-although:"+whyNot,
				fmt.Sprintf("node %s announces the service although: %s", c10Me, whyNot), detail())
		}
		return
	}
	if r1 != r2 {
		// the same address on different nodes with conflicting conditions: both readings are accepted
		tl["ambiguous-local-cross-node-conflict"]++
		return
	}
	if r1 {
		tl["expected:announce"]++
		c.Nontrivial(fmt.Sprintf("announce|%s|%s", v.Svc.Policy, vfJSON(v.Svc.Slices)))
		if got != "" {
			c.Violation("bgp:refuses-eligible-node:"+got,
				fmt.Sprintf("node %s refuses (%s) although an advertisement selects it, its state allows it and a ready endpoint exists (%s policy)", c10Me, got, v.Svc.Policy), detail())
		}
		return
	}
	tl["expected:refuse:"+whyNot]++
	if conflict {
		c.Nontrivial(fmt.Sprintf("refuse-conflict|%s|%s", v.Svc.Policy, vfJSON(v.Svc.Slices)))
	}
	if got == "" {
		c.Violation("bgp:announces-although:"+whyNot,
			fmt.Sprintf("node %s announces the service although: %s (%s policy)", c10Me, whyNot, v.Svc.Policy), detail())
	}
}

func TestVerif_C10(t *testing.T) {
	rule := "endpoint layouts (entries on me / another node / no node, repeated addresses with conflicting ready/serving flags, 1-3 slices) x " +
		"NetworkUnavailable x exclude label x ignoreExcludeLB x advertisement selection x traffic policy decided by bgpController.ShouldAnnounce; " +
		"non-trivial = decision where the endpoint clause decides (announce expected, or refusal expected with a conflicting repeated address), distinct by (policy, layout)"
	thorough := vfTier() == "thorough"
	nEnum := c10EnumQuick
	if thorough {
		nEnum = c10EnumThorough
	}
	shard := directShard()
	vfMain(t, "C10", vfSizes{Quick: c10EnumQuick + c10RandQuick, Thorough: c10EnumThorough + c10RandThorough}, rule, func(c *vfCase) {
		tl := directTally{}
		defer tl.flush(c)
		r := c.R
		nsh := directNShards(c)
		runLayout := func(li int, kind string) {
			entries := c10LayoutEntries(li, r)
			for way := 0; way < 2; way++ {
				slices := c10Split(entries, way)
				for combo := 0; combo < c10Combos; combo++ {
					c10Check(c, tl, c10ComboView(r, combo, slices), kind)
				}
			}
		}
		switch {
		case c.Idx < nEnum && thorough:
			layouts := directBlock(c10Layouts, nsh, shard, nEnum, c.Idx)
			for _, li := range layouts {
				runLayout(li, "enumerated")
			}
			c10Covered += len(layouts)
			if c.Idx == nEnum-1 && !c.Replaying {
				mine := 0
				if shard < c10Layouts {
					mine = (c10Layouts - shard + nsh - 1) / nsh
				}
				if c10Covered == mine {
					directSetExhaustive(c, map[string]any{
						"space":           "0-3 endpoint entries x (node me/other/nil, address a/b, ready nil/T/F, serving nil/T/F) x 2 slice splits x NetworkUnavailable x exclude label x ignoreExcludeLB x advertisement selects me x policy",
						"decisions_total": c10Layouts * 2 * c10Combos,
						"layouts_covered": c10Covered, "shard": shard, "nshards": nsh,
					})
				}
			}
		case c.Idx < nEnum:
			for k := 0; k < c10QuickLayouts; k++ {
				runLayout(r.Intn(c10Layouts), "enumerated-sample")
			}
		default:
			for k := 0; k < c10RandPerCase; k++ {
				v := c10RandomView(r)
				c10Check(c, tl, v, "random")
				if c.WantSample() && len(v.BGPAdvs) > 0 {
					why, r1, r2, _ := directBGPExpect(v, &v.Svc, c10Me)
					c.Sample(map[string]any{"view": v, "oracle_refusal": why, "r1": r1, "r2": r2})
				}
			}
		}
	})
}
