//go:build verif

package main

import (
	"crypto/sha256"
	"encoding/hex"
	"fmt"
	"net"
	"net/netip"
	"reflect"
	"sort"
	"strings"

	metallbv1beta1 "go.universe.tf/metallb/api/v1beta1"
	"go.universe.tf/metallb/internal/bgp"
	"go.universe.tf/metallb/internal/config"
	"go.universe.tf/metallb/internal/layer2"
	v1 "k8s.io/api/core/v1"
	discovery "k8s.io/api/discovery/v1"
	metav1 "k8s.io/apimachinery/pkg/apis/meta/v1"
	"k8s.io/apimachinery/pkg/labels"
)

// ---------------------------------------------------------------- step monitor (after every handler)

// stepMonitor checks what must hold after every single handler return, whatever is still queued:
// every live session carries exactly the advertisements of the services the BGP controller currently
// holds (nothing of a withdrawn service stays, equal aggregates are one route) and one live session per
// peer. (PeersForService is judged at quiescence only: it is refreshed by the re-sync a configuration change requests.)
func (sb *sbox) stepMonitor(label string) {
	if !sb.mon.c05 {
		return
	}
	c := sb.c
	c.Eval()
	if d := sb.sm.duplicates(); len(d) > 0 {
		c.Violation("bgp:two-live-sessions-for-one-peer", fmt.Sprintf("after %s peers %v have more than one live session", label, d), nil)
	}
	var all []*bgp.Advertisement
	for _, ads := range sb.bgpc.svcAds {
		all = append(all, ads...)
	}
	live := sb.sm.live()
	for name, s := range live {
		var want []*bgp.Advertisement
		for _, a := range all {
			if len(a.Peers) == 0 || sboxHas(a.Peers, name) {
				want = append(want, a)
			}
		}
		got, exp := sboxRoutesOf(s.ads), sboxRoutesOf(want)
		if !reflect.DeepEqual(got, exp) {
			sig := "bgp:session-differs-from-held-advertisements"
			if len(got) > len(exp) {
				sig = "bgp:route-not-withdrawn"
			}
			c.Violation(sig, fmt.Sprintf("after %s session %s carries %v but the services currently held produce %v", label, name, got, exp), nil)
		}
		if len(got) > 0 {
			c.Count("step-checks-with-routes")
		}
	}
}

func sboxHas(xs []string, x string) bool {
	for _, y := range xs {
		if y == x {
			return true
		}
	}
	return false
}

// ---------------------------------------------------------------- expected routes from the resources

type sboxExpect struct {
	Sessions map[string][]sboxRoute // live peer -> routes
	Peers    map[string][]string    // service -> peers
	Why      map[string]string      // service -> why it is (not) announced over BGP
}

func sboxSelMatch(sels []metav1.LabelSelector, lbls map[string]string) bool {
	if len(sels) == 0 {
		return true
	}
	for i := range sels {
		s, err := metav1.LabelSelectorAsSelector(&sels[i])
		if err == nil && s.Matches(labels.Set(lbls)) {
			return true
		}
	}
	return false
}

func sboxAdvSelectsPool(names []string, sels []metav1.LabelSelector, p *metallbv1beta1.IPAddressPool) bool {
	if len(names) == 0 && len(sels) == 0 {
		return true
	}
	if sboxHas(names, p.Name) {
		return true
	}
	if len(sels) == 0 {
		return false
	}
	return sboxSelMatch(sels, p.Labels)
}

func sboxCanServe(c discovery.EndpointConditions) bool {
	if c.Ready == nil || *c.Ready {
		return true
	}
	return c.Serving != nil && *c.Serving
}

// sboxReady: some endpoint address is ready, an address being ready iff every entry carrying it (among the
// entries considered) is ready or serving.
func sboxReady(slices []*discovery.EndpointSlice, onlyNode string) bool {
	state := map[string]bool{}
	for _, sl := range slices {
		for _, ep := range sl.Endpoints {
			if onlyNode != "" && (ep.NodeName == nil || *ep.NodeName != onlyNode) {
				continue
			}
			for _, a := range ep.Addresses {
				ok := sboxCanServe(ep.Conditions)
				if prev, seen := state[a]; seen {
					state[a] = prev && ok
				} else {
					state[a] = ok
				}
			}
		}
	}
	for _, ok := range state {
		if ok {
			return true
		}
	}
	return false
}

func sboxNodeExcluded(n *v1.Node) bool {
	_, ok := n.Labels[sboxExcludeLabel]
	return ok
}

func sboxNodeUnavail(n *v1.Node) bool {
	for _, c := range n.Status.Conditions {
		if c.Type == v1.NodeNetworkUnavailable && c.Status == v1.ConditionTrue {
			return true
		}
	}
	return false
}

func sboxMask(ip string, l4, l6 int) string {
	a, err := netip.ParseAddr(ip)
	if err != nil {
		return ""
	}
	a = a.Unmap()
	l := l4
	if a.Is6() {
		l = l6
	}
	p, err := a.Prefix(l)
	if err != nil {
		return ""
	}
	return p.String()
}

func (sb *sbox) slicesOf(svc *v1.Service) []*discovery.EndpointSlice {
	var out []*discovery.EndpointSlice
	s := sb.k.Store
	for _, k := range vfSortedKeys(s.Slices) {
		sl := s.Slices[k]
		if sl.Namespace == svc.Namespace && sl.Labels[discovery.LabelServiceName] == svc.Name {
			out = append(out, sl)
		}
	}
	return out
}

func (sb *sbox) expected() *sboxExpect {
	s := sb.k.Store
	e := &sboxExpect{Sessions: map[string][]sboxRoute{}, Peers: map[string][]string{}, Why: map[string]string{}}
	me := s.Nodes[sboxMyNode]
	var myLabels map[string]string
	if me != nil {
		myLabels = me.Labels
	}
	livePeers := []string{}
	for _, k := range vfSortedKeys(s.Peers) {
		if sboxSelMatch(s.Peers[k].Spec.NodeSelectors, myLabels) {
			livePeers = append(livePeers, s.Peers[k].Name)
		}
	}
	type tuple struct {
		r     sboxRoute
		peers []string
		svc   string
	}
	var tuples []tuple
	model := vfModelPools(sboxPools(s), nil)
	for _, key := range vfSortedKeys(s.Services) {
		svc := s.Services[key]
		why := ""
		var ips []string
		for _, ing := range svc.Status.LoadBalancer.Ingress {
			c, _, ok := vfCanonIP(ing.IP)
			if !ok {
				why = "invalid address"
			}
			ips = append(ips, c)
		}
		switch {
		case svc.Spec.Type != v1.ServiceTypeLoadBalancer:
			why = "not a LoadBalancer"
		case len(ips) == 0:
			why = "no address"
		}
		pn := ""
		if why == "" {
			pn = vfPoolOf(model, ips)
			if pn == "" || pn == "*" {
				why = "addresses not in one pool"
			}
		}
		if why == "" {
			pool := s.Pools[sboxNS+"/"+pn]
			var advs []*metallbv1beta1.BGPAdvertisement
			for _, k := range vfSortedKeys(s.BGPAdvs) {
				a := s.BGPAdvs[k]
				if sboxAdvSelectsPool(a.Spec.IPAddressPools, a.Spec.IPAddressPoolSelectors, pool) && sboxSelMatch(a.Spec.NodeSelectors, myLabels) && me != nil {
					advs = append(advs, a)
				}
			}
			slices := sb.slicesOf(svc)
			switch {
			case len(advs) == 0:
				why = "no BGP advertisement of the pool selects this node"
			case sboxNodeUnavail(me):
				why = "node network unavailable"
			case !sb.ignoreExcludeLB && sboxNodeExcluded(me):
				why = "node excluded from load balancers"
			case svc.Spec.ExternalTrafficPolicy == v1.ServiceExternalTrafficPolicyTypeLocal && !sboxReady(slices, sboxMyNode):
				why = "no ready local endpoint"
			case svc.Spec.ExternalTrafficPolicy != v1.ServiceExternalTrafficPolicyTypeLocal && !sboxReady(slices, ""):
				why = "no ready endpoint"
			}
			if why == "" {
				why = "announced"
				for _, ip := range ips {
					for _, a := range advs {
						l4, l6 := 32, 128
						if a.Spec.AggregationLength != nil {
							l4 = int(*a.Spec.AggregationLength)
						}
						if a.Spec.AggregationLengthV6 != nil {
							l6 = int(*a.Spec.AggregationLengthV6)
						}
						var cs []string
						for _, cm := range a.Spec.Communities {
							cs = append(cs, strings.TrimPrefix(cm, "large:"))
						}
						sort.Strings(cs)
						tuples = append(tuples, tuple{r: sboxRoute{Prefix: sboxMask(ip, l4, l6), LocalPref: a.Spec.LocalPref, Communities: strings.Join(cs, ",")}, peers: a.Spec.Peers, svc: key})
					}
				}
			}
		}
		e.Why[key] = why
	}
	offered := map[string]map[string]bool{}
	for _, p := range livePeers {
		seen := map[sboxRoute]bool{}
		offered[p] = map[string]bool{}
		for _, t := range tuples {
			if len(t.peers) == 0 || sboxHas(t.peers, p) {
				seen[t.r] = true
				offered[p][t.r.Prefix] = true
			}
		}
		var rs []sboxRoute
		for r := range seen {
			rs = append(rs, r)
		}
		sort.Slice(rs, func(i, j int) bool {
			if rs[i].Prefix != rs[j].Prefix {
				return rs[i].Prefix < rs[j].Prefix
			}
			if rs[i].LocalPref != rs[j].LocalPref {
				return rs[i].LocalPref < rs[j].LocalPref
			}
			return rs[i].Communities < rs[j].Communities
		})
		e.Sessions[p] = rs
	}
	for _, t := range tuples {
		for _, p := range livePeers {
			if offered[p][t.r.Prefix] && !sboxHas(e.Peers[t.svc], p) {
				e.Peers[t.svc] = append(e.Peers[t.svc], p)
			}
		}
	}
	for k := range e.Peers {
		sort.Strings(e.Peers[k])
	}
	return e
}

// communities as the session sees them are rendered by community.String(); the CR carries the same
// text for the literal values the generator uses.

// quiescentC05 compares the sessions with the expectation computed from the resources.
func (sb *sbox) quiescentC05() {
	c := sb.c
	if sb.ctl.config == nil {
		c.Count("quiescent-points-without-config")
		return
	}
	exp := sb.expected()
	obs := sb.observe(nil)
	c.Eval()
	c.Count("quiescent-points")
	if !reflect.DeepEqual(vfSortedKeys(exp.Sessions), vfSortedKeys(obs.Sessions)) {
		c.Violation("bgp:sessions-differ-from-selected-peers", fmt.Sprintf("live sessions %v, peers whose node selectors match this node %v", vfSortedKeys(obs.Sessions), vfSortedKeys(exp.Sessions)), sb.dump())
		return
	}
	nroutes := 0
	for _, p := range vfSortedKeys(exp.Sessions) {
		c.Eval()
		got, want := obs.Sessions[p], exp.Sessions[p]
		if got == nil {
			got = []sboxRoute{}
		}
		if want == nil {
			want = []sboxRoute{}
		}
		nroutes += len(want)
		if !reflect.DeepEqual(got, want) {
			sig := "bgp:routes-differ"
			gotP, wantP := map[string]bool{}, map[string]bool{}
			for _, r := range got {
				gotP[r.Prefix] = true
			}
			for _, r := range want {
				wantP[r.Prefix] = true
			}
			switch {
			case !reflect.DeepEqual(gotP, wantP) && len(gotP) > len(wantP):
				sig = "bgp:unexpected-route-offered"
			case !reflect.DeepEqual(gotP, wantP) && len(gotP) < len(wantP):
				sig = "bgp:expected-route-missing"
			case !reflect.DeepEqual(gotP, wantP):
				sig = "bgp:wrong-prefixes"
			default:
				sig = "bgp:wrong-attributes"
			}
			c.Violation(sig+sb.causeSuffix(), fmt.Sprintf("peer %s is offered %v, expected %v (services: %v)", p, got, want, exp.Why), sb.dump())
		}
	}
	if nroutes > 0 {
		c.Count("quiescent-points-with-expected-routes")
		var k []string
		for _, p := range vfSortedKeys(exp.Sessions) {
			k = append(k, fmt.Sprintf("%s=%v", p, exp.Sessions[p]))
		}
		c.Nontrivial(strings.Join(k, ";"))
	}
	for _, svc := range vfSortedKeys(sb.k.Store.Services) {
		got, want := obs.Peers[svc], exp.Peers[svc]
		if len(got) == 0 && len(want) == 0 {
			continue
		}
		c.Eval()
		if !reflect.DeepEqual(got, want) {
			c.Violation("bgp:peers-for-service-differ"+sb.causeSuffix(), fmt.Sprintf("PeersForService(%s)=%v, expected %v", svc, got, want), sb.dump())
		}
	}
	for _, why := range exp.Why {
		c.Count("bgp-service:" + why)
	}
}

// dump of the resources for violation details
func (sb *sbox) dump() map[string]any {
	s := sb.k.Store
	d := map[string]any{}
	var svcs []string
	for _, k := range vfSortedKeys(s.Services) {
		svcs = append(svcs, sboxSvcDump(s.Services[k])+" endpoints: "+sboxSlicesDump(s, s.Services[k].Name))
	}
	d["services"] = svcs
	var nodes []string
	for _, k := range vfSortedKeys(s.Nodes) {
		n := s.Nodes[k]
		nodes = append(nodes, fmt.Sprintf("%s labels=%v unavailable=%v", n.Name, n.Labels, sboxNodeUnavail(n)))
	}
	d["nodes"] = nodes
	var pools []string
	for _, k := range vfSortedKeys(s.Pools) {
		pools = append(pools, fmt.Sprintf("%s %v", s.Pools[k].Name, s.Pools[k].Spec.Addresses))
	}
	d["pools"] = pools
	var l2 []string
	for _, k := range vfSortedKeys(s.L2Advs) {
		a := s.L2Advs[k]
		l2 = append(l2, fmt.Sprintf("%s pools=%v nodesel=%d ifs=%v", a.Name, a.Spec.IPAddressPools, len(a.Spec.NodeSelectors), a.Spec.Interfaces))
	}
	d["l2advs"] = l2
	var ba []string
	for _, k := range vfSortedKeys(s.BGPAdvs) {
		a := s.BGPAdvs[k]
		ba = append(ba, fmt.Sprintf("%s pools=%v nodesel=%v agg=%v/%v lp=%d comm=%v peers=%v", a.Name, a.Spec.IPAddressPools, a.Spec.NodeSelectors, sboxI(a.Spec.AggregationLength), sboxI(a.Spec.AggregationLengthV6), a.Spec.LocalPref, a.Spec.Communities, a.Spec.Peers))
	}
	d["bgpadvs"] = ba
	var peers []string
	for _, k := range vfSortedKeys(s.Peers) {
		peers = append(peers, fmt.Sprintf("%s nodesel=%v", s.Peers[k].Name, s.Peers[k].Spec.NodeSelectors))
	}
	d["peers"] = peers
	d["memberlist"] = fmt.Sprintf("disabled=%v members=%v", sb.slist.disabled, sb.slist.members)
	return d
}

func sboxI(p *int32) string {
	if p == nil {
		return "-"
	}
	return fmt.Sprint(*p)
}

var _ = config.BGP

// quiescentC13 judges what the layer-2 announcer of this node holds against the resources: every held
// (service, address) is an address the Service currently has, and its interface scope is the one the
// L2Advertisements that select the address's pool AND this node ask for (all interfaces as soon as one
// of them names none, the union of their lists otherwise). Whether the node should announce at all is
// C04's question and is not judged here; the answers are then read back per interface.
func (sb *sbox) quiescentC13() {
	c := sb.c
	if sb.ctl.config == nil {
		return
	}
	s := sb.k.Store
	me := s.Nodes[sboxMyNode]
	if me == nil {
		return
	}
	model := vfModelPools(sboxPools(s), nil)
	st := sb.l2.A.VerifSnapshot()
	holders := map[string][]string{} // address@interface -> services whose held scope covers it
	for _, key := range vfSortedKeys(st.IPs) {
		svc := s.Services[key]
		status := map[string]bool{}
		if svc != nil {
			for _, ing := range svc.Status.LoadBalancer.Ingress {
				if cip, _, ok := vfCanonIP(ing.IP); ok {
					status[cip] = true
				}
			}
		}
		for _, a := range st.IPs[key] {
			ip, _, ok := vfCanonIP(a.IP)
			if !ok {
				continue
			}
			c.Eval()
			c.Count("l2-held-addresses-checked")
			if !status[ip] {
				c.Violation("l2:holds-address-the-service-does-not-have"+sb.causeSuffix(), fmt.Sprintf("the announcer holds %s for %s whose status is %v: the node answers ARP/NDP for an address no Service holds", ip, key, vfSortedKeys(status)), sb.dump())
				continue
			}
			for _, intf := range []string{"eth0", "eth1"} {
				if a.AllInterfaces || sboxHas(a.Interfaces, intf) {
					holders[ip+"@"+intf] = append(holders[ip+"@"+intf], key)
				}
			}
			pn := vfPoolOf(model, []string{ip})
			if pn == "" || pn == "*" {
				continue
			}
			var pool *metallbv1beta1.IPAddressPool
			for _, k := range vfSortedKeys(s.Pools) {
				if s.Pools[k].Name == pn {
					pool = s.Pools[k]
				}
			}
			if pool == nil {
				continue
			}
			any, all := false, false
			ifs := map[string]bool{}
			for _, k := range vfSortedKeys(s.L2Advs) {
				adv := s.L2Advs[k]
				if !sboxAdvSelectsPool(adv.Spec.IPAddressPools, adv.Spec.IPAddressPoolSelectors, pool) || !sboxSelMatch(adv.Spec.NodeSelectors, me.Labels) {
					continue
				}
				any = true
				if len(adv.Spec.Interfaces) == 0 {
					all = true
				}
				for _, i := range adv.Spec.Interfaces {
					ifs[i] = true
				}
			}
			if !any {
				c.Count("l2-held-without-selecting-advertisement")
				continue
			}
			c.Count("l2-scopes-compared")
			got := map[string]bool{}
			for _, i := range a.Interfaces {
				got[i] = true
			}
			switch {
			case all != a.AllInterfaces:
				c.Violation("l2:scope-differs-from-advertisements:all-interfaces"+sb.causeSuffix(), fmt.Sprintf("%s %s is held with all-interfaces=%v (interfaces %v); the L2Advertisements selecting pool %s and this node ask for all-interfaces=%v (interfaces %v)", key, ip, a.AllInterfaces, a.Interfaces, pn, all, vfSortedKeys(ifs)), sb.dump())
			case !all && !reflect.DeepEqual(vfSortedKeys(got), vfSortedKeys(ifs)):
				c.Violation("l2:scope-differs-from-advertisements:interfaces"+sb.causeSuffix(), fmt.Sprintf("%s %s is held for interfaces %v; the L2Advertisements selecting pool %s and this node name %v", key, ip, vfSortedKeys(got), pn, vfSortedKeys(ifs)), sb.dump())
			default:
				c.Nontrivial(fmt.Sprintf("%s|%v|%v", pn, all, vfSortedKeys(ifs)))
			}
		}
	}
	// read-back: the responder's decision per (address, interface) is exactly "some held scope covers it"
	for _, ip := range sboxAddresses(s) {
		for _, intf := range []string{"eth0", "eth1"} {
			c.Eval()
			answers := sb.l2.ShouldAnnounce(net.ParseIP(ip), intf) == layer2.VerifDropNone
			want := len(holders[ip+"@"+intf]) > 0
			if answers != want {
				c.Violation("l2:answer-differs-from-held-scopes", fmt.Sprintf("request for %s on %s: answered=%v, services holding it with a scope covering the interface: %v", ip, intf, answers, holders[ip+"@"+intf]), sb.dump())
			}
		}
	}
}

// quiescentC04: the layer-2 decision of this node, for every Service, against the statement of C04
// evaluated on the resources: eligible = live speaker (every known node when membership tracking is off),
// selected by an L2Advertisement of the address's pool, not network-unavailable, not excluded (unless
// ignored), the Service has a serving endpoint, under Local the node hosts one; the announcer is the
// eligible node with the smallest sha256(node#first address). This node must hold the Service's addresses
// iff it is that node (and some selecting advertisement names an interface that exists, or none).
func (sb *sbox) quiescentC04() {
	c := sb.c
	if sb.ctl.config == nil {
		return
	}
	s := sb.k.Store
	model := vfModelPools(sboxPools(s), nil)
	st := sb.l2.A.VerifSnapshot()
	var universe []string
	if sb.slist.disabled {
		for _, k := range vfSortedKeys(s.Nodes) {
			universe = append(universe, s.Nodes[k].Name)
		}
	} else {
		for _, n := range vfSortedKeys(sb.slist.members) {
			if sb.slist.members[n] {
				universe = append(universe, n)
			}
		}
	}
	nodeOf := func(name string) *v1.Node {
		for _, k := range vfSortedKeys(s.Nodes) {
			if s.Nodes[k].Name == name {
				return s.Nodes[k]
			}
		}
		return nil
	}
	for _, key := range vfSortedKeys(s.Services) {
		svc := s.Services[key]
		var ips []string
		valid := svc.Spec.Type == v1.ServiceTypeLoadBalancer
		for _, ing := range svc.Status.LoadBalancer.Ingress {
			cip, _, ok := vfCanonIP(ing.IP)
			if !ok {
				valid = false
			}
			ips = append(ips, cip)
		}
		_, held := st.IPs[key]
		if !valid || len(ips) == 0 {
			c.Eval()
			if held {
				c.Violation("l2:holds-a-service-without-usable-addresses"+sb.causeSuffix(), fmt.Sprintf("%s (type %s, status %v) is held by the layer-2 announcer", key, svc.Spec.Type, ips), sb.dump())
			}
			continue
		}
		pn := vfPoolOf(model, ips)
		var pool *metallbv1beta1.IPAddressPool
		for _, k := range vfSortedKeys(s.Pools) {
			if s.Pools[k].Name == pn {
				pool = s.Pools[k]
			}
		}
		if pool == nil {
			c.Eval()
			if held {
				c.Violation("l2:holds-addresses-outside-every-pool"+sb.causeSuffix(), fmt.Sprintf("%s status %v lies in no single pool but is held by the layer-2 announcer", key, ips), sb.dump())
			}
			continue
		}
		slices := sb.slicesOf(svc)
		anyServing := false
		local := map[string]bool{}
		for _, sl := range slices {
			for _, ep := range sl.Endpoints {
				if !sboxCanServe(ep.Conditions) {
					continue
				}
				anyServing = true
				if ep.NodeName != nil {
					local[*ep.NodeName] = true
				}
			}
		}
		var eligible []string
		for _, n := range universe {
			node := nodeOf(n)
			if node != nil && sboxNodeUnavail(node) {
				continue
			}
			if node != nil && !sb.ignoreExcludeLB && sboxNodeExcluded(node) {
				continue
			}
			selected := false
			if node != nil {
				for _, k := range vfSortedKeys(s.L2Advs) {
					adv := s.L2Advs[k]
					if sboxAdvSelectsPool(adv.Spec.IPAddressPools, adv.Spec.IPAddressPoolSelectors, pool) && sboxSelMatch(adv.Spec.NodeSelectors, node.Labels) {
						selected = true
					}
				}
			}
			if !selected || !anyServing {
				continue
			}
			if svc.Spec.ExternalTrafficPolicy == v1.ServiceExternalTrafficPolicyTypeLocal && !local[n] {
				continue
			}
			eligible = append(eligible, n)
		}
		want := ""
		if len(eligible) > 0 {
			want = sboxElect(eligible, ips[0])
		}
		// the scope this node would use (as in quiescentC13): no existing interface => nothing is held
		usable := false
		if me := nodeOf(sboxMyNode); me != nil {
			for _, k := range vfSortedKeys(s.L2Advs) {
				adv := s.L2Advs[k]
				if !sboxAdvSelectsPool(adv.Spec.IPAddressPools, adv.Spec.IPAddressPoolSelectors, pool) || !sboxSelMatch(adv.Spec.NodeSelectors, me.Labels) {
					continue
				}
				if len(adv.Spec.Interfaces) == 0 || sboxHas(adv.Spec.Interfaces, "eth0") || sboxHas(adv.Spec.Interfaces, "eth1") {
					usable = true
				}
			}
		}
		c.Eval()
		c.Count("l2-decisions-compared")
		if len(eligible) > 1 {
			c.Nontrivial(fmt.Sprintf("%v|%s|%s", eligible, ips[0], svc.Spec.ExternalTrafficPolicy))
		}
		switch {
		case held && want != sboxMyNode:
			c.Violation("l2:announces-without-being-the-elected-node"+sb.causeSuffix(), fmt.Sprintf("this node (%s) holds %s %v; eligible nodes %v, elected (smallest sha256(node#%s)): %q", sboxMyNode, key, ips, eligible, ips[0], want), sb.dump())
		case !held && want == sboxMyNode && usable:
			c.Violation("l2:elected-node-does-not-announce"+sb.causeSuffix(), fmt.Sprintf("this node (%s) is the elected announcer of %s %v among %v but holds nothing", sboxMyNode, key, ips, eligible), sb.dump())
		}
	}
}

// sboxElect: the documented election, smallest sha256(node + "#" + first address).
func sboxElect(names []string, firstIP string) string {
	best, bestH := "", ""
	for _, n := range names {
		sum := sha256.Sum256([]byte(n + "#" + firstIP))
		h := hex.EncodeToString(sum[:])
		if bestH == "" || h < bestH {
			best, bestH = n, h
		}
	}
	return best
}
