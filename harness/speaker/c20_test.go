//go:build verif

package main

import (
	"fmt"
	"reflect"
	"runtime"
	"strings"
	"sync"
	"sync/atomic"
	"testing"
	"time"

	"github.com/go-kit/log"
	metallbv1beta1 "go.universe.tf/metallb/api/v1beta1"
	"go.universe.tf/metallb/internal/config"
	"go.universe.tf/metallb/internal/k8s"
	"go.universe.tf/metallb/internal/k8s/controllers"
	"go.universe.tf/metallb/internal/layer2"
	v1 "k8s.io/api/core/v1"
	discovery "k8s.io/api/discovery/v1"
	metav1 "k8s.io/apimachinery/pkg/apis/meta/v1"
	"k8s.io/apimachinery/pkg/types"
)

// c20 (speaker side): real goroutines deliver service, configuration and node events through the real
// k8s.Listener while status fetchers read the layer-2 announcement status (as the
// Layer2StatusReconciler does) and the per-service BGP peers (iterating the result), under the race
// detector. The effective handler order is replayed serially on a fresh speaker.

type s20Entry struct {
	kind   string // svc | config | node
	name   string
	svc    *v1.Service
	slices []discovery.EndpointSlice
	cfg    int
	node   *v1.Node
}

type s20Outcome struct {
	L2        map[string][]string
	Sessions  map[string][]sboxRoute
	Announced map[string][]string
	Peers     map[string][]string
}

func s20Observe(sb *sbox, keys []string) s20Outcome {
	o := sb.observe(nil)
	out := s20Outcome{L2: o.L2, Sessions: o.Sessions, Announced: o.Announced, Peers: map[string][]string{}}
	for _, k := range keys {
		if ps := sb.bgpc.PeersForService(k); ps.Len() > 0 {
			l := ps.UnsortedList()
			out.Peers[k] = l
		}
	}
	for k := range out.Peers {
		l := out.Peers[k]
		for i := 0; i < len(l); i++ {
			for j := i + 1; j < len(l); j++ {
				if l[j] < l[i] {
					l[i], l[j] = l[j], l[i]
				}
			}
		}
	}
	return out
}

func TestVerif_C20(t *testing.T) {
	rule := "rounds of 4-6 driver goroutines delivering ~400 service / configuration / node events through the real k8s.Listener of a speaker, fetchers reading Announce.GetStatus (iterating the advertisements) and PeersForService (iterating the set) and a consumer of the gratuitous queue, under the race detector; the effective handler order is replayed serially on a fresh speaker; non-trivial = distinct effective order"
	vfMain(t, "C20", vfSizes{Quick: 10, Thorough: 100}, rule, func(c *vfCase) {
		r := c.R
		// a universe: one store per configuration version, all valid
		proto := newSbox(c, r.U64(), sboxMon{})
		g := &sboxGen{r: r.Fork(), sb: proto}
		g.seed()
		store := proto.k.Store
		// layer-2 heavy universe: this node is the only live speaker (it wins every election it is
		// eligible for) and one advertisement selects every pool and node; between configuration
		// versions the interface lists of the advertisements change, so that re-announcements carry
		// another scope
		proto.slist = &sboxSList{disabled: false, members: map[string]bool{sboxMyNode: true}}
		all := &metallbv1beta1.L2Advertisement{ObjectMeta: metav1.ObjectMeta{Name: "l2-all", Namespace: sboxNS}}
		store.Put(all)
		var cfgs []*config.Config
		for len(cfgs) < 6 {
			for _, k := range vfSortedKeys(store.L2Advs) {
				a := store.L2Advs[k].DeepCopy()
				a.Spec.Interfaces = vfPick(r, [][]string{nil, {"eth0"}, {"eth1"}, {"eth0", "eth1"}})
				store.Put(a)
			}
			cfg, err := config.For(sboxResources(store), config.DontValidate)
			if err != nil {
				panic(err)
			}
			cfgs = append(cfgs, cfg)
			for i := 0; i < 3; i++ { // a few configuration edits to reach the next version
				ev := g.event()
				for !(len(ev.Kind) > 4 && ev.Kind[:4] == "cfg-") {
					ev = g.event()
				}
				ev.Apply(store)
			}
		}
		for len(store.Services) < 5 {
			svc := g.newService(store)
			store.Put(svc)
			g.putSlices(store, svc.Name)
		}
		keys := vfSortedKeys(store.Services)
		var nodes []*v1.Node
		for _, k := range vfSortedKeys(store.Nodes) {
			nodes = append(nodes, store.Nodes[k])
		}
		slicesOf := func(svc *v1.Service) []discovery.EndpointSlice {
			var out []discovery.EndpointSlice
			for _, sl := range proto.slicesOf(svc) {
				out = append(out, *sl.DeepCopy())
			}
			return out
		}

		mk := func() *sbox {
			sb := newSbox(c, 1, sboxMon{})
			sb.ignoreExcludeLB = proto.ignoreExcludeLB
			sb.slist = proto.slist
			sb.build()
			return sb
		}
		sb := mk()
		sb.l2.VerifSetSpamCapacity(1)
		var elog []s20Entry
		var inflight, overlapped, fetches int64
		lis := &k8s.Listener{
			ServiceChanged: func(l log.Logger, name string, svc *v1.Service, eps []discovery.EndpointSlice) controllers.SyncState {
				var cp *v1.Service
				if svc != nil {
					cp = svc.DeepCopy()
				}
				elog = append(elog, s20Entry{kind: "svc", name: name, svc: cp, slices: eps})
				atomic.AddInt64(&inflight, 1)
				defer atomic.AddInt64(&inflight, -1)
				return sb.ctl.SetBalancer(l, name, svc, eps)
			},
			ConfigChanged: func(l log.Logger, cfg *config.Config) controllers.SyncState {
				idx := -1
				for i := range cfgs {
					if cfgs[i] == cfg {
						idx = i
					}
				}
				elog = append(elog, s20Entry{kind: "config", cfg: idx})
				atomic.AddInt64(&inflight, 1)
				defer atomic.AddInt64(&inflight, -1)
				return sb.ctl.SetConfig(l, cfg)
			},
			NodeChanged: func(l log.Logger, n *v1.Node) controllers.SyncState {
				elog = append(elog, s20Entry{kind: "node", name: n.Name, node: n.DeepCopy()})
				atomic.AddInt64(&inflight, 1)
				defer atomic.AddInt64(&inflight, -1)
				return sb.ctl.SetNode(l, n)
			},
		}
		lg := log.NewNopLogger()
		lis.ConfigHandler(lg, cfgs[0])
		ndrivers := r.Range(4, 6)
		perDriver := 400 / ndrivers
		var wg, fwg sync.WaitGroup
		stop := make(chan struct{})
		panics := make(chan string, 16)
		guard := func(what string) {
			if p := recover(); p != nil {
				buf := make([]byte, 8192)
				n := runtime.Stack(buf, false)
				select {
				case panics <- fmt.Sprintf("%s: %v\n%s", what, p, buf[:n]):
				default:
				}
			}
		}
		for d := 0; d < ndrivers; d++ {
			dr := r.Fork()
			wg.Add(1)
			go func() {
				defer wg.Done()
				defer guard("driver")
				gg := &sboxGen{r: dr.Fork(), sb: proto}
				for i := 0; i < perDriver; i++ {
					switch x := dr.Intn(100); {
					case x < 8:
						lis.ConfigHandler(lg, cfgs[dr.Intn(len(cfgs))])
					case x < 20:
						n := vfPick(dr, nodes).DeepCopy()
						gg.mutateNode(n, vfPick(dr, []string{"node-relabel", "node-exclude", "node-unavailable"}), n.Name)
						lis.NodeHandler(lg, n)
					default:
						key := vfPick(dr, keys)
						svc := store.Services[key].DeepCopy()
						switch dr.Intn(6) {
						case 0:
							gg.setStatus(svc, nil)
						case 1:
							svc.Spec.Type = v1.ServiceTypeClusterIP
						case 2:
							svc = nil
						case 3:
							if len(svc.Status.LoadBalancer.Ingress) > 0 {
								// another address of the same blocks: first one of the store's pools
								svc.Status.LoadBalancer.Ingress[0].IP = vfPick(dr, []string{"10.0.0.1", "10.0.1.1", "10.0.3.1", "10.0.2.1", "10.0.4.1"})
							}
						}
						var eps []discovery.EndpointSlice
						if svc != nil {
							eps = slicesOf(svc)
						}
						lis.ServiceHandler(lg, key, svc, eps)
					}
					if dr.Chance(1, 4) {
						runtime.Gosched()
					}
					if i == perDriver/2 && dr.Chance(1, 2) {
						// a burst, as a full re-sync after a configuration change is: the configuration
						// flips and the same services are delivered back to back
						for b := 0; b < 12; b++ {
							lis.ConfigHandler(lg, cfgs[b%len(cfgs)])
							for _, key := range keys[:min(len(keys), 3)] {
								svc := store.Services[key].DeepCopy()
								lis.ServiceHandler(lg, key, svc, slicesOf(svc))
							}
						}
					}
				}
			}()
		}
		// fetchers
		fwg.Add(1)
		go func() { // layer-2 status, read the way Layer2StatusReconciler.buildDesiredStatus does
			defer fwg.Done()
			defer guard("l2-fetcher")
			i := 0
			for {
				select {
				case <-stop:
					return
				default:
				}
				busy := atomic.LoadInt64(&inflight) > 0
				ns, name, _ := splitKey(keys[i%len(keys)])
				advs := sb.l2.A.GetStatus(types.NamespacedName{Namespace: ns, Name: name})
				n := 0
				for j := range advs {
					if advs[j].IsAllInterfaces() {
						n++
					}
					n += advs[j].GetInterfaces().Len()
					for range advs[j].GetInterfaces() {
						n++
					}
				}
				atomic.AddInt64(&fetches, 1)
				if busy {
					atomic.AddInt64(&overlapped, 1)
				}
				i++
				if i%32 == 0 {
					runtime.Gosched()
				}
			}
		}()
		fwg.Add(1)
		go func() { // BGP peers per service, iterating the returned set (ServiceBGPStatus reconciler)
			defer fwg.Done()
			defer guard("bgp-fetcher")
			i := 0
			for {
				select {
				case <-stop:
					return
				default:
				}
				busy := atomic.LoadInt64(&inflight) > 0
				n := 0
				for p := range sb.bgpc.PeersForService(keys[i%len(keys)]) {
					n += len(p)
				}
				atomic.AddInt64(&fetches, 1)
				if busy {
					atomic.AddInt64(&overlapped, 1)
				}
				i++
				if i%32 == 0 {
					runtime.Gosched()
				}
			}
		}()
		var spamMu sync.Mutex
		lastSpam := map[string][]string{} // address -> scopes of the requests for gratuitous announcements, in the order received
		fwg.Add(1)
		go func() { // plays the spam loop: takes an advertisement from the queue and sends a gratuitous round for it
			defer fwg.Done()
			defer guard("spam-loop")
			q := sb.l2.SpamQueue()
			var known []layer2.IPAdvertisement
			for {
				select {
				case <-stop:
					return
				case adv := <-q:
					ip, scope := layer2.VerifAdvText(adv)
					spamMu.Lock()
					lastSpam[ip] = append(lastSpam[ip], scope)
					spamMu.Unlock()
					// as the real loop: remember the advertisement, then a round over everything remembered
					known = append(known, adv)
					if len(known) > 32 {
						known = known[len(known)-32:]
					}
					for _, k := range known {
						sb.l2.Gratuitous(k)
						runtime.Gosched()
					}
				}
			}
		}()
		done := make(chan struct{})
		go func() { wg.Wait(); close(done) }()
		select {
		case <-done:
		case <-time.After(60 * time.Second):
			buf := make([]byte, 1<<20)
			n := runtime.Stack(buf, true)
			dump := string(buf[:n])
			if site := s20DeadlockSite(dump); site != "" {
				c.Violation("deadlock:"+site, "the drivers made no progress for 60 s and are parked inside MetalLB (handler waiting while holding a lock another party needs)", map[string]any{"goroutines": dump[:min(len(dump), 12000)]})
			} else {
				c.Inconclusive("drivers did not finish within 60 s and the goroutine dump does not show them parked inside MetalLB")
			}
			close(stop)
			c.Abort()
			return
		}
		close(stop)
		fwg.Wait()
		select {
		case p := <-panics:
			c.Violation("panic-in-concurrent-round", p, nil)
			return
		default:
		}
		c.Eval()
		c.Count("rounds")
		c.CountN("handler-calls", len(elog))
		c.CountN("fetcher-calls", int(fetches))
		c.CountN("fetcher-calls-overlapping-a-handler", int(overlapped))
		var sig []string
		for _, e := range elog {
			sig = append(sig, e.kind+":"+e.name)
		}
		c.Nontrivial(fmt.Sprint(sig))
		got := s20Observe(sb, keys)
		for _, adv := range sb.l2.DrainSpam() { // what the stopped spam loop had not taken yet
			ip, scope := layer2.VerifAdvText(adv)
			lastSpam[ip] = append(lastSpam[ip], scope)
		}
		wantSpam := map[string][]string{}
		// serial replay
		rp := mk()
		for _, e := range elog {
			switch e.kind {
			case "svc":
				rp.ctl.SetBalancer(lg, e.name, e.svc, e.slices)
			case "config":
				rp.ctl.SetConfig(lg, cfgs[e.cfg])
			case "node":
				rp.ctl.SetNode(lg, e.node)
			}
			for _, adv := range rp.l2.DrainSpam() {
				ip, scope := layer2.VerifAdvText(adv)
				wantSpam[ip] = append(wantSpam[ip], scope)
			}
		}
		want := s20Observe(rp, keys)
		c.Count("replay-comparisons")
		switch {
		case !reflect.DeepEqual(got.L2, want.L2):
			c.Violation("concurrent-differs-from-serial:layer2-announcements", fmt.Sprintf("%v vs %v", got.L2, want.L2), nil)
		case !reflect.DeepEqual(got.Sessions, want.Sessions):
			c.Violation("concurrent-differs-from-serial:bgp-sessions", fmt.Sprintf("%v vs %v", got.Sessions, want.Sessions), nil)
		case !reflect.DeepEqual(got.Announced, want.Announced):
			c.Violation("concurrent-differs-from-serial:announced-services", fmt.Sprintf("%v vs %v", got.Announced, want.Announced), nil)
		case !reflect.DeepEqual(got.Peers, want.Peers):
			c.Violation("concurrent-differs-from-serial:peers-for-service", fmt.Sprintf("%v vs %v", got.Peers, want.Peers), nil)
		case !reflect.DeepEqual(lastSpam, wantSpam):
			// the spam loop announces, per address, the request it received last: the requests must reach it
			// in the order of the handlers that made them
			c.Violation("concurrent-differs-from-serial:gratuitous-requests-per-address", s20FirstSeqDiff(lastSpam, wantSpam), nil)
		}
		c.CountN("addresses-with-gratuitous-requests-compared", len(wantSpam))
		if c.WantSample() {
			k := len(sig)
			if k > 40 {
				k = 40
			}
			c.Sample(map[string]any{"effective_order_prefix": sig[:k], "drivers": ndrivers, "handler_calls": len(elog), "fetches": fetches, "overlapped": overlapped})
		}
	})
}

func splitKey(k string) (string, string, bool) {
	for i := 0; i < len(k); i++ {
		if k[i] == '/' {
			return k[:i], k[i+1:], true
		}
	}
	return "", k, false
}

// s20DeadlockSite: in a goroutine dump, the innermost MetalLB frame of a goroutine that is parked on a
// channel send or a lock while a k8s.Listener handler is on its stack (the handler holds the Listener
// lock, so every other driver is queued behind it).
func s20DeadlockSite(dump string) string {
	for _, g := range strings.Split(dump, "\n\n") {
		if !strings.Contains(g, "internal/k8s.(*Listener).") {
			continue
		}
		if !(strings.Contains(g, "[chan send") || strings.Contains(g, "[sync.Mutex.Lock") || strings.Contains(g, "[sync.RWMutex") || strings.Contains(g, "[semacquire")) {
			continue
		}
		for _, l := range strings.Split(g, "\n") {
			if strings.HasPrefix(l, "go.universe.tf/metallb/") && !strings.Contains(l, "TestVerif") && !strings.Contains(l, ".vf") && !strings.Contains(l, "internal/k8s.(*Listener)") {
				if k := strings.LastIndex(l, "("); k > 0 {
					l = l[:k]
				}
				return strings.TrimPrefix(l, "go.universe.tf/metallb/")
			}
		}
	}
	return ""
}

func s20FirstSeqDiff(got, want map[string][]string) string {
	for _, ip := range vfSortedKeys(want) {
		if !reflect.DeepEqual(got[ip], want[ip]) {
			g, w := got[ip], want[ip]
			i := 0
			for i < len(g) && i < len(w) && g[i] == w[i] {
				i++
			}
			return fmt.Sprintf("requests for gratuitous announcements of %s: %d received, %d made by the handlers in their serial order; first difference at #%d: received %v, made %v", ip, len(g), len(w), i, g[i:min(len(g), i+3)], w[i:min(len(w), i+3)])
		}
	}
	for _, ip := range vfSortedKeys(got) {
		if _, ok := want[ip]; !ok {
			return fmt.Sprintf("requests for %s were received although the serial order makes none", ip)
		}
	}
	return "sequences differ"
}
