//go:build verif

package main

import (
	"sort"
	"fmt"
	"strings"

	metallbv1beta1 "go.universe.tf/metallb/api/v1beta1"
	metallbv1beta2 "go.universe.tf/metallb/api/v1beta2"
	"go.universe.tf/metallb/internal/config"
	v1 "k8s.io/api/core/v1"
	discovery "k8s.io/api/discovery/v1"
	metav1 "k8s.io/apimachinery/pkg/apis/meta/v1"
	"k8s.io/utils/ptr"
)

type sboxGen struct {
	r       *vfRand
	nextSvc int
	sb      *sbox
}

const sboxNS = "metallb-system"
const sboxExcludeLabel = "node.kubernetes.io/exclude-from-external-load-balancers"

var sboxPoolPalette = [][]string{
	{"10.0.0.0/24"}, {"10.0.1.0/28"}, {"10.0.2.0/30", "fc00:0:0:2::/126"}, {"fc00:0:0:1::/64"}, {"10.0.3.0/24", "fc00:0:0:3::/64"}, {"10.0.4.0/30"},
}

// candidate resources = the store's lists (copies), for validation before an edit is committed
func sboxResources(s *boxStore) config.ClusterResources {
	var res config.ClusterResources
	for _, k := range vfSortedKeys(s.Pools) {
		res.Pools = append(res.Pools, *s.Pools[k].DeepCopy())
	}
	for _, k := range vfSortedKeys(s.Peers) {
		res.Peers = append(res.Peers, *s.Peers[k].DeepCopy())
	}
	for _, k := range vfSortedKeys(s.L2Advs) {
		res.L2Advs = append(res.L2Advs, *s.L2Advs[k].DeepCopy())
	}
	for _, k := range vfSortedKeys(s.BGPAdvs) {
		res.BGPAdvs = append(res.BGPAdvs, *s.BGPAdvs[k].DeepCopy())
	}
	for _, k := range vfSortedKeys(s.Nodes) {
		res.Nodes = append(res.Nodes, *s.Nodes[k].DeepCopy())
	}
	for _, k := range vfSortedKeys(s.Namespaces) {
		res.Namespaces = append(res.Namespaces, *s.Namespaces[k].DeepCopy())
	}
	for _, k := range vfSortedKeys(s.Communities) {
		res.Communities = append(res.Communities, *s.Communities[k].DeepCopy())
	}
	return res
}

func sboxValid(res config.ClusterResources) bool {
	_, err := config.For(res, config.DontValidate)
	return err == nil
}

func (g *sboxGen) nodeSelectors() []metav1.LabelSelector {
	switch g.r.Intn(6) {
	case 0:
		return []metav1.LabelSelector{{MatchLabels: map[string]string{"zone": "a"}}}
	case 1:
		return []metav1.LabelSelector{{MatchLabels: map[string]string{"zone": "b"}}}
	case 2:
		return []metav1.LabelSelector{{MatchLabels: map[string]string{"rack": "1"}}}
	case 3:
		return []metav1.LabelSelector{{MatchLabels: map[string]string{"zone": "a"}}, {MatchLabels: map[string]string{"rack": "2"}}}
	}
	return nil
}

// advNodeSelectors: in a third of the histories no advertisement selects nodes, so that a node label
// change leaves the configuration value untouched (only the peers' own node selectors react to it)
func (g *sboxGen) advNodeSelectors() []metav1.LabelSelector {
	sel := g.nodeSelectors()
	if g.sb != nil && g.sb.plainAdvs {
		return nil
	}
	return sel
}

func (g *sboxGen) node(name string) *v1.Node {
	n := &v1.Node{ObjectMeta: metav1.ObjectMeta{Name: name, Labels: map[string]string{}}}
	if g.r.Chance(4, 5) {
		n.Labels["zone"] = vfPick(g.r, []string{"a", "a", "b"})
	}
	if g.r.Chance(1, 2) {
		n.Labels["rack"] = vfPick(g.r, []string{"1", "2"})
	}
	if g.r.Chance(1, 8) || (g.sb != nil && g.sb.ignoreExcludeLB && g.r.Chance(1, 2)) {
		// a speaker told to ignore the label meets it often: only the network condition counts for it
		n.Labels[sboxExcludeLabel] = ""
	}
	if g.r.Chance(1, 8) {
		n.Status.Conditions = []v1.NodeCondition{{Type: v1.NodeNetworkUnavailable, Status: v1.ConditionTrue}}
	}
	return n
}

func (g *sboxGen) poolNames(s *boxStore) []string {
	var out []string
	for _, k := range vfSortedKeys(s.Pools) {
		out = append(out, s.Pools[k].Name)
	}
	return out
}

func (g *sboxGen) l2adv(name string, s *boxStore) *metallbv1beta1.L2Advertisement {
	a := &metallbv1beta1.L2Advertisement{ObjectMeta: metav1.ObjectMeta{Name: name, Namespace: sboxNS}}
	if g.r.Chance(1, 2) {
		a.Spec.IPAddressPools = vfSubset(g.r, g.poolNames(s), 1, 2)
	}
	a.Spec.NodeSelectors = g.advNodeSelectors()
	a.Spec.Interfaces = vfPick(g.r, [][]string{nil, nil, {"eth0"}, {"eth1"}, {"ethX"}, {"eth0", "eth1"}})
	return a
}

func (g *sboxGen) bgpadv(name string, s *boxStore) *metallbv1beta1.BGPAdvertisement {
	a := &metallbv1beta1.BGPAdvertisement{ObjectMeta: metav1.ObjectMeta{Name: name, Namespace: sboxNS}}
	if g.r.Chance(1, 2) {
		a.Spec.IPAddressPools = vfSubset(g.r, g.poolNames(s), 1, 2)
	}
	a.Spec.NodeSelectors = g.advNodeSelectors()
	if g.r.Chance(2, 3) {
		a.Spec.AggregationLength = ptr.To(int32(vfPick(g.r, []int{32, 32, 30, 28, 24})))
	}
	if g.r.Chance(1, 2) {
		a.Spec.AggregationLengthV6 = ptr.To(int32(vfPick(g.r, []int{128, 126, 64})))
	}
	a.Spec.LocalPref = vfPick(g.r, []uint32{0, 0, 100, 200})
	if g.r.Chance(1, 2) {
		a.Spec.Communities = vfPick(g.r, [][]string{{"65000:100"}, {"65000:100", "65000:200"}, {"large:65000:1:2"}})
	}
	if g.r.Chance(1, 2) {
		a.Spec.Peers = vfSubset(g.r, []string{"peer1", "peer2", "peer3"}, 1, 2)
	}
	return a
}

func (g *sboxGen) peer(i int) *metallbv1beta2.BGPPeer {
	p := &metallbv1beta2.BGPPeer{ObjectMeta: metav1.ObjectMeta{Name: fmt.Sprintf("peer%d", i), Namespace: sboxNS}}
	p.Spec.MyASN = 64512
	p.Spec.ASN = uint32(64512 + g.r.Intn(2)*i)
	p.Spec.Address = fmt.Sprintf("10.9.0.%d", i)
	p.Spec.NodeSelectors = g.nodeSelectors()
	return p
}

func (g *sboxGen) pool(name string, blocks []string) *metallbv1beta1.IPAddressPool {
	p := &metallbv1beta1.IPAddressPool{ObjectMeta: metav1.ObjectMeta{Name: name, Namespace: sboxNS}}
	p.Spec.Addresses = blocks
	return p
}

// addresses a status can be drawn from: the first few addresses of every pool block
func sboxPoolAddrs(s *boxStore) map[string][]string {
	out := map[string][]string{}
	for _, k := range vfSortedKeys(s.Pools) {
		p := s.Pools[k]
		m := vfModelPool(*p, nil)
		out[p.Name] = append(m.UsableAddrs(4, 5), m.UsableAddrs(6, 4)...)
	}
	return out
}

func (g *sboxGen) drawStatus(s *boxStore, dual bool) []string {
	addrs := sboxPoolAddrs(s)
	names := vfSortedKeys(addrs)
	if len(names) == 0 {
		return nil
	}
	pn := vfPick(g.r, names)
	var v4, v6 []string
	for _, a := range addrs[pn] {
		if strings.Contains(a, ":") {
			v6 = append(v6, a)
		} else {
			v4 = append(v4, a)
		}
	}
	var out []string
	if len(v4) > 0 && (len(v6) == 0 || g.r.Chance(2, 3) || dual) {
		out = append(out, vfPick(g.r, v4))
	}
	if len(v6) > 0 && (len(out) == 0 || dual) {
		out = append(out, vfPick(g.r, v6))
	}
	if g.r.Chance(1, 2) && len(out) == 2 {
		out[0], out[1] = out[1], out[0]
	}
	return out
}

func (g *sboxGen) setStatus(svc *v1.Service, ips []string) {
	svc.Status.LoadBalancer.Ingress = nil
	for _, ip := range ips {
		svc.Status.LoadBalancer.Ingress = append(svc.Status.LoadBalancer.Ingress, v1.LoadBalancerIngress{IP: ip})
	}
}

func (g *sboxGen) newService(s *boxStore) *v1.Service {
	g.nextSvc++
	svc := &v1.Service{ObjectMeta: metav1.ObjectMeta{Name: fmt.Sprintf("s%d", g.nextSvc), Namespace: "default"}}
	svc.Spec.Type = v1.ServiceTypeLoadBalancer
	if g.r.Chance(1, 10) {
		svc.Spec.Type = v1.ServiceTypeClusterIP
	}
	svc.Spec.ExternalTrafficPolicy = vfPick(g.r, []v1.ServiceExternalTrafficPolicyType{v1.ServiceExternalTrafficPolicyTypeCluster, v1.ServiceExternalTrafficPolicyTypeCluster, v1.ServiceExternalTrafficPolicyTypeLocal})
	svc.Spec.Ports = []v1.ServicePort{{Protocol: v1.ProtocolTCP, Port: 80}}
	switch g.r.Intn(10) {
	case 0:
		// no address yet
	case 1:
		g.setStatus(svc, []string{vfPick(g.r, []string{"banana", "10.99.0.1", "fc00:99::1"})})
	default:
		g.setStatus(svc, g.drawStatus(s, g.r.Chance(1, 3)))
	}
	return svc
}

func (g *sboxGen) slices(svc string, s *boxStore) []*discovery.EndpointSlice {
	n := g.r.Range(1, 2)
	var out []*discovery.EndpointSlice
	nodes := []string{"n1", "n1", "n2", "n3", "n4", ""}
	tri := func() *bool {
		switch g.r.Intn(5) {
		case 0:
			return nil
		case 1:
			return ptr.To(false)
		}
		return ptr.To(true)
	}
	for i := 0; i < n; i++ {
		sl := &discovery.EndpointSlice{ObjectMeta: metav1.ObjectMeta{Name: fmt.Sprintf("%s-%c", svc, 'a'+i), Namespace: "default", Labels: map[string]string{discovery.LabelServiceName: svc}}}
		k := g.r.Intn(4)
		for j := 0; j < k; j++ {
			// an endpoint address lives on one node (pod IPs are unique): the same address may repeat with
			// conflicting conditions, but only on its own node, so that the Local policy stays unambiguous
			nn := vfPick(g.r, nodes)
			third := 0
			if nn != "" {
				third = int(nn[1] - '0')
				ep0 := nn
				_ = ep0
			}
			ep := discovery.Endpoint{Addresses: []string{fmt.Sprintf("172.17.%d.%d", third, g.r.Range(1, 3))}}
			if nn != "" {
				ep.NodeName = ptr.To(nn)
			}
			ep.Conditions.Ready = tri()
			if g.r.Chance(1, 2) {
				ep.Conditions.Serving = tri()
			}
			sl.Endpoints = append(sl.Endpoints, ep)
		}
		out = append(out, sl)
	}
	return out
}

func (g *sboxGen) putSlices(s *boxStore, svc string) {
	for _, k := range vfSortedKeys(s.Slices) {
		if s.Slices[k].Labels[discovery.LabelServiceName] == svc {
			s.Delete(s.Slices[k])
		}
	}
	for _, sl := range g.slices(svc, s) {
		s.Put(sl)
	}
}

func (g *sboxGen) seed() {
	s := g.sb.k.Store
	s.Put(&v1.Namespace{ObjectMeta: metav1.ObjectMeta{Name: "default"}})
	for {
		// draw a valid configuration
		res := config.ClusterResources{}
		tmp := newBoxStore()
		for i := 1; i <= 4; i++ {
			n := g.node(fmt.Sprintf("n%d", i))
			tmp.Put(n)
		}
		blocks := vfShuffled(g.r, sboxPoolPalette)
		np := g.r.Range(1, 3)
		for i := 0; i < np; i++ {
			tmp.Put(g.pool(fmt.Sprintf("pool%c", 'a'+i), blocks[i]))
		}
		for i := 1; i <= g.r.Range(0, 3); i++ {
			tmp.Put(g.peer(i))
		}
		for i := 0; i < g.r.Range(0, 3); i++ {
			tmp.Put(g.l2adv(fmt.Sprintf("l2-%d", i+1), tmp))
		}
		for i := 0; i < g.r.Range(0, 3); i++ {
			tmp.Put(g.bgpadv(fmt.Sprintf("bgp-%d", i+1), tmp))
		}
		res = sboxResources(tmp)
		if !sboxValid(res) {
			continue
		}
		for _, o := range tmp.all() {
			s.Put(o)
		}
		break
	}
	for i := 0; i < g.r.Range(1, 4); i++ {
		svc := g.newService(s)
		s.Put(svc)
		g.putSlices(s, svc.Name)
	}
	g.sb.slist.disabled = g.r.Chance(1, 2)
	for _, n := range []string{"n1", "n2", "n3", "n4"} {
		g.sb.slist.members[n] = g.r.Chance(4, 5)
	}
}

// tryConfig applies edit to a scratch copy of the configuration resources; if the result is a valid
// configuration the same edit is applied to the store (emitting watch events), otherwise nothing happens.
func (g *sboxGen) tryConfig(s *boxStore, edit func(t *boxStore)) bool {
	tmp := newBoxStore()
	for _, o := range s.all() {
		switch o.(type) {
		case *v1.Service, *discovery.EndpointSlice:
			continue
		}
		tmp.Put(o)
	}
	edit(tmp)
	if !sboxValid(sboxResources(tmp)) {
		return false
	}
	edit(s)
	return true
}

func (g *sboxGen) pickSvc(s *boxStore) *v1.Service {
	ks := vfSortedKeys(s.Services)
	if len(ks) == 0 {
		return nil
	}
	return s.Services[vfPick(g.r, ks)].DeepCopy()
}

func (g *sboxGen) event() boxUserEvent {
	r := g.r
	x := r.Intn(100)
	switch {
	case x < 8:
		return boxUserEvent{Kind: "svc-create", Apply: func(s *boxStore) string {
			if len(s.Services) >= 6 {
				return "skipped"
			}
			svc := g.newService(s)
			s.Put(svc)
			g.putSlices(s, svc.Name)
			return sboxSvcDump(svc)
		}}
	case x < 14:
		return boxUserEvent{Kind: "svc-delete", Apply: func(s *boxStore) string {
			svc := g.pickSvc(s)
			if svc == nil {
				return "skipped"
			}
			s.Delete(svc)
			if r.Chance(1, 2) {
				for _, k := range vfSortedKeys(s.Slices) {
					if s.Slices[k].Labels[discovery.LabelServiceName] == svc.Name {
						s.Delete(s.Slices[k])
					}
				}
			}
			return svc.Name
		}}
	case x < 34:
		kind := vfPick(r, []string{"svc-retype", "svc-policy", "svc-status", "svc-status", "svc-status-clear", "svc-status-swap", "svc-status-drop-one", "svc-status-dual", "svc-status-change-second"})
		return boxUserEvent{Kind: kind, Apply: func(s *boxStore) string {
			svc := g.pickSvc(s)
			if svc == nil {
				return "skipped"
			}
			switch kind {
			case "svc-retype":
				if svc.Spec.Type == v1.ServiceTypeLoadBalancer {
					svc.Spec.Type = v1.ServiceTypeClusterIP
				} else {
					svc.Spec.Type = v1.ServiceTypeLoadBalancer
				}
			case "svc-policy":
				if svc.Spec.ExternalTrafficPolicy == v1.ServiceExternalTrafficPolicyTypeLocal {
					svc.Spec.ExternalTrafficPolicy = v1.ServiceExternalTrafficPolicyTypeCluster
				} else {
					svc.Spec.ExternalTrafficPolicy = v1.ServiceExternalTrafficPolicyTypeLocal
				}
			case "svc-status":
				g.setStatus(svc, g.drawStatus(s, r.Chance(1, 3)))
			case "svc-status-clear":
				g.setStatus(svc, nil)
			case "svc-status-dual":
				g.setStatus(svc, g.drawStatus(s, true))
			case "svc-status-drop-one":
				// a dual-stack service loses one of its two addresses and keeps the other
				if ing := svc.Status.LoadBalancer.Ingress; len(ing) == 2 {
					svc.Status.LoadBalancer.Ingress = []v1.LoadBalancerIngress{ing[r.Intn(2)]}
				} else {
					g.setStatus(svc, g.drawStatus(s, true))
				}
			case "svc-status-change-second":
				// a dual-stack service keeps its first address, only the second one is re-assigned
				if ing := svc.Status.LoadBalancer.Ingress; len(ing) == 2 {
					second, _, _ := vfCanonIP(ing[1].IP)
					v6 := strings.Contains(second, ":")
					var alt []string
					for _, l := range sboxPoolAddrs(s) {
						for _, a := range l {
							if strings.Contains(a, ":") == v6 && a != second {
								alt = append(alt, a)
							}
						}
					}
					sort.Strings(alt)
					if len(alt) > 0 {
						svc.Status.LoadBalancer.Ingress = []v1.LoadBalancerIngress{ing[0], {IP: vfPick(r, alt)}}
					}
				} else {
					g.setStatus(svc, g.drawStatus(s, true))
				}
			case "svc-status-swap":
				ing := svc.Status.LoadBalancer.Ingress
				if len(ing) == 2 {
					ing[0], ing[1] = ing[1], ing[0]
				} else if len(ing) == 1 && r.Chance(1, 2) {
					g.setStatus(svc, []string{"banana"})
				}
			}
			s.Put(svc)
			return sboxSvcDump(svc)
		}}
	case x < 46:
		return boxUserEvent{Kind: "endpoints", Apply: func(s *boxStore) string {
			svc := g.pickSvc(s)
			if svc == nil {
				return "skipped"
			}
			g.putSlices(s, svc.Name)
			return svc.Name + " " + sboxSlicesDump(s, svc.Name)
		}}
	case x < 60:
		kind := vfPick(r, []string{"node-relabel", "node-exclude", "node-unavailable", "node-unavailable", "node-flip-both", "node-create", "node-delete"})
		return boxUserEvent{Kind: kind, Apply: func(s *boxStore) string {
			name := vfPick(r, []string{"n1", "n1", "n2", "n3", "n4", "n5"})
			desc := name
			fresh := g.node(name) // drawn once: the edit below runs twice (scratch copy, then store)
			ok := g.tryConfig(s, func(t *boxStore) {
				cur := t.Nodes[name]
				switch kind {
				case "node-create":
					if cur == nil {
						t.Put(fresh.DeepCopy())
					}
					return
				case "node-delete":
					if cur != nil && name != sboxMyNode {
						t.Delete(cur)
					}
					return
				}
				if cur == nil {
					return
				}
				n := cur.DeepCopy()
				g.mutateNode(n, kind, name)
				t.Put(n)
			})
			return fmt.Sprintf("%s applied=%v", desc, ok)
		}}
	case x < 84:
		kind := vfPick(r, []string{"cfg-l2adv", "cfg-l2adv", "cfg-bgpadv", "cfg-bgpadv", "cfg-bgpadv-clone", "cfg-peer", "cfg-pool", "cfg-pool", "cfg-del-l2adv", "cfg-del-bgpadv", "cfg-del-peer"})
		return boxUserEvent{Kind: kind, Apply: func(s *boxStore) string {
			seed := r.U64()
			ok := g.tryConfig(s, func(t *boxStore) {
				gg := &sboxGen{r: vfNewRand(seed), sb: g.sb}
				switch kind {
				case "cfg-l2adv":
					t.Put(gg.l2adv(fmt.Sprintf("l2-%d", gg.r.Range(1, 3)), t))
				case "cfg-bgpadv":
					t.Put(gg.bgpadv(fmt.Sprintf("bgp-%d", gg.r.Range(1, 3)), t))
				case "cfg-bgpadv-clone":
					// a second advertisement producing the same route (same pools, aggregation, local preference,
					// communities) for another list of peers
					ks := vfSortedKeys(t.BGPAdvs)
					if len(ks) == 0 {
						return
					}
					src := t.BGPAdvs[vfPick(gg.r, ks)].DeepCopy()
					src.Name = fmt.Sprintf("bgp-%d", gg.r.Range(1, 3))
					src.ResourceVersion = ""
					src.Spec.Peers = vfPick(gg.r, [][]string{{"peer1"}, {"peer2"}, {"peer3"}, {"peer1", "peer3"}, {"peer2", "peer3"}})
					t.Put(src)
				case "cfg-peer":
					t.Put(gg.peer(gg.r.Range(1, 3)))
				case "cfg-del-l2adv":
					if o := t.L2Advs[sboxNS+"/"+fmt.Sprintf("l2-%d", gg.r.Range(1, 3))]; o != nil {
						t.Delete(o)
					}
				case "cfg-del-bgpadv":
					if o := t.BGPAdvs[sboxNS+"/"+fmt.Sprintf("bgp-%d", gg.r.Range(1, 3))]; o != nil {
						t.Delete(o)
					}
				case "cfg-del-peer":
					if o := t.Peers[sboxNS+"/"+fmt.Sprintf("peer%d", gg.r.Range(1, 3))]; o != nil {
						t.Delete(o)
					}
				case "cfg-pool":
					// replace one pool's blocks, add a pool or drop one
					names := []string{"poola", "poolb", "poolc"}
					n := vfPick(gg.r, names)
					if gg.r.Chance(1, 2) {
						// prefer a pool some service's address lies in: the speaker refuses a configuration
						// that leaves an announced address without pool and is asked again until it fits
						model := vfModelPools(sboxPools(t), nil)
						var inUse []string
						for _, k := range vfSortedKeys(s.Services) {
							for _, ing := range s.Services[k].Status.LoadBalancer.Ingress {
								if pn := vfPoolOf(model, []string{ing.IP}); pn != "" && pn != "*" {
									inUse = append(inUse, pn)
								}
							}
						}
						if len(inUse) > 0 {
							n = vfPick(gg.r, inUse)
						}
					}
					used := map[string]bool{}
					for _, k := range vfSortedKeys(t.Pools) {
						if t.Pools[k].Name != n {
							for _, a := range t.Pools[k].Spec.Addresses {
								used[a] = true
							}
						}
					}
					if cur := t.Pools[sboxNS+"/"+n]; cur != nil && len(t.Pools) > 1 && gg.r.Chance(1, 3) {
						t.Delete(cur)
						return
					}
					for _, b := range vfShuffled(gg.r, sboxPoolPalette) {
						free := true
						for _, a := range b {
							if used[a] {
								free = false
							}
						}
						if free {
							t.Put(gg.pool(n, b))
							return
						}
					}
				}
			})
			return fmt.Sprintf("applied=%v", ok)
		}}
	case x < 92:
		return boxUserEvent{Kind: "members", Apply: func(s *boxStore) string {
			sl := g.sb.slist
			switch r.Intn(3) {
			case 0:
				sl.disabled = !sl.disabled
			default:
				n := vfPick(r, []string{"n1", "n2", "n3", "n4", "n5", "ghost"})
				sl.members[n] = !sl.members[n]
			}
			g.sb.k.Enqueue("svc", sboxReloadReq) // speakerlist asks for a re-sync on every membership change
			return fmt.Sprintf("disabled=%v members=%v", sl.disabled, sl.members)
		}}
	case x < 96:
		return g.reactEvent()
	default:
		return boxUserEvent{Kind: "resync", Apply: func(s *boxStore) string {
			g.sb.k.Enqueue("svc", sboxReloadReq)
			return "forced"
		}}
	}
}

func (g *sboxGen) nodeStable(name, kind string) *v1.Node { return g.node(name) }

func (g *sboxGen) mutateNode(n *v1.Node, kind, name string) {
	// the mutation must be a pure function of the object (it is applied twice: scratch copy and store)
	h := vfHash(vfJSON(n.Labels) + kind + name)
	switch kind {
	case "node-relabel":
		if n.Labels == nil {
			n.Labels = map[string]string{}
		}
		if n.Labels["zone"] == "a" {
			n.Labels["zone"] = "b"
		} else {
			n.Labels["zone"] = "a"
		}
		if h%3 == 0 {
			if n.Labels["rack"] == "1" {
				delete(n.Labels, "rack")
			} else {
				n.Labels["rack"] = "1"
			}
		}
	case "node-exclude":
		if n.Labels == nil {
			n.Labels = map[string]string{}
		}
		if _, ok := n.Labels[sboxExcludeLabel]; ok {
			delete(n.Labels, sboxExcludeLabel)
		} else {
			n.Labels[sboxExcludeLabel] = ""
		}
	case "node-flip-both": // one update changes the exclude label and the network condition together
		if n.Labels == nil {
			n.Labels = map[string]string{}
		}
		if _, ok := n.Labels[sboxExcludeLabel]; ok {
			delete(n.Labels, sboxExcludeLabel)
		} else {
			n.Labels[sboxExcludeLabel] = ""
		}
		fallthrough
	case "node-unavailable":
		if len(n.Status.Conditions) > 0 && n.Status.Conditions[0].Status == v1.ConditionTrue {
			n.Status.Conditions = []v1.NodeCondition{{Type: v1.NodeNetworkUnavailable, Status: v1.ConditionFalse}}
		} else {
			n.Status.Conditions = []v1.NodeCondition{{Type: v1.NodeNetworkUnavailable, Status: v1.ConditionTrue}}
		}
	}
}

// reactEvent plays the controller: statuses whose addresses left every pool are cleared or re-assigned.
func (g *sboxGen) reactEvent() boxUserEvent {
	return boxUserEvent{Kind: "controller-react", Apply: func(s *boxStore) string {
		model := vfModelPools(sboxPools(s), nil)
		var done []string
		for _, k := range vfSortedKeys(s.Services) {
			svc := s.Services[k]
			var ips []string
			bad := false
			for _, ing := range svc.Status.LoadBalancer.Ingress {
				ips = append(ips, ing.IP)
				if _, _, ok := vfCanonIP(ing.IP); !ok {
					bad = true
				}
			}
			if len(ips) == 0 {
				continue
			}
			if !bad {
				if pn := vfPoolOf(model, ips); pn != "" && pn != "*" {
					continue
				}
			}
			n := svc.DeepCopy()
			if g.r.Chance(1, 2) {
				g.setStatus(n, nil)
			} else {
				g.setStatus(n, g.drawStatus(s, len(ips) == 2))
			}
			s.Put(n)
			done = append(done, sboxSvcDump(n))
		}
		return strings.Join(done, "; ")
	}}
}

func sboxSvcDump(svc *v1.Service) string {
	var ips []string
	for _, i := range svc.Status.LoadBalancer.Ingress {
		ips = append(ips, i.IP)
	}
	return fmt.Sprintf("%s type=%s policy=%s status=%v", svc.Name, svc.Spec.Type, svc.Spec.ExternalTrafficPolicy, ips)
}

func sboxSlicesDump(s *boxStore, svc string) string {
	var out []string
	for _, k := range vfSortedKeys(s.Slices) {
		sl := s.Slices[k]
		if sl.Labels[discovery.LabelServiceName] != svc {
			continue
		}
		for _, ep := range sl.Endpoints {
			nn := "-"
			if ep.NodeName != nil {
				nn = *ep.NodeName
			}
			b := func(p *bool) string {
				if p == nil {
					return "nil"
				}
				return fmt.Sprint(*p)
			}
			out = append(out, fmt.Sprintf("%s:%s@%s ready=%s serving=%s", sl.Name, ep.Addresses[0], nn, b(ep.Conditions.Ready), b(ep.Conditions.Serving)))
		}
	}
	return strings.Join(out, " | ")
}
