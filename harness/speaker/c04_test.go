//go:build verif

// C04 — layer 2: exactly one eligible node announces each address.
// One layer2Controller per node name of the view, all fed the same view; the set of controllers that
// decide to announce is compared with the eligibility oracle of direct_oracle_test.go.
package main

import (
	"fmt"
	"testing"
)

const (
	c04NodeStates   = 64 // {alive, NetworkUnavailable, exclude label, selected} x 4 endpoint states
	c04Triples      = c04NodeStates * c04NodeStates * c04NodeStates
	c04GlobalCombos = 64 // memberlist x policy x ignoreExcludeLB x extra nil-node endpoint x 4 address shapes
	c04EnumThorough = 512
	c04RandThorough = 4000
	c04EnumQuick    = 1000
	c04RandQuick    = 300
	c04QuickTriples = 8
	c04RandPerCase  = 100
)

var c04Covered int // node triples fully enumerated by this process (thorough tier)

// c04EnumView builds the view number (triple, combo) of the bounded space. names and ips vary per case.
func c04EnumView(r *vfRand, triple, combo int, names [3]string, ipsByShape [4][]string) *directView {
	v := &directView{}
	v.MemberlistOn = combo&1 != 0
	policy := directCluster
	if combo&2 != 0 {
		policy = directLocal
	}
	v.IgnoreExclude = combo&4 != 0
	extraNil := combo&8 != 0
	v.IPs = ipsByShape[(combo>>4)&3]
	v.Svc = directService{Name: "svc1", Policy: policy}
	adv := directAdv{}
	sl := directSlice{Name: "svc1-a"}
	for i := 0; i < 3; i++ {
		st := (triple >> (6 * i)) & 63
		n := directNode{Name: names[i], Known: true}
		n.Member = st&1 != 0
		if st&2 != 0 {
			n.NetCond = "True"
		} else {
			n.NetCond = vfPick(r, []string{"", "", "False", "Unknown"})
		}
		if st&4 != 0 {
			n.Exclude = vfPick(r, []string{"empty", "true"})
		}
		if st&8 != 0 {
			adv.Nodes = append(adv.Nodes, n.Name)
		} else if r.Bool() {
			adv.Unselected = append(adv.Unselected, n.Name)
		}
		n.OtherCond = r.Bool()
		v.Nodes = append(v.Nodes, n)
		e := directEndpoint{Node: n.Name, Addrs: []string{fmt.Sprintf("10.244.%d.5", i)}, Terminating: directTri(r.Intn(3))}
		switch (st >> 4) & 3 {
		case 0: // no endpoint on this node
			continue
		case 1: // ready
			e.Ready = vfPick(r, []directTri{directTrue, directTrue, directNil})
			e.Serving = directTri(r.Intn(3))
		case 2: // not ready but serving
			e.Ready, e.Serving = directFalse, directTrue
		case 3: // not ready, not serving
			e.Ready = directFalse
			e.Serving = vfPick(r, []directTri{directFalse, directNil})
		}
		sl.Endpoints = append(sl.Endpoints, e)
	}
	if extraNil {
		sl.Endpoints = append(sl.Endpoints, directEndpoint{NilNode: true, Addrs: []string{"10.244.9.9"}, Ready: directTrue, Serving: directTrue})
	}
	v.L2Advs = []directAdv{adv}
	v.Svc.Slices = []directSlice{sl}
	return v
}

// c04Sibling returns a second service on the same address (same pool). Under Local it has the same
// endpoints (identical selectors are the only way two Local services may share), re-sliced; under Cluster
// it may have entirely different endpoints.
func c04Sibling(r *vfRand, v *directView, names []string) *directService {
	s := &directService{Name: "svc2", Policy: v.Svc.Policy}
	if v.Svc.Policy == directLocal {
		s.Slices = directPermuteSlices(r, v.Svc.Slices, "svc2", true)
		return s
	}
	s.Slices = directRandSlices(r, "svc2", names, 2)
	return s
}

// c04Check evaluates one view: decisions of all nodes vs the oracle. Returns the announcer ("" = none).
func c04Check(c *vfCase, tl directTally, v *directView, sibling *directService, kind string) {
	names := directUniverse(v, sibling)
	w := directMaterialize(v)
	so := directMaterializeSvc(v, &v.Svc)
	ann, dec := directL2Decide(w, v, so, names)
	elig := directL2Eligible(v, &v.Svc, names)
	firstIP := directFirstIP(v)
	c.Eval()
	tl["views:"+kind]++
	if diffs := directTakeHistoryDiffs(); len(diffs) > 0 {
		c.Violation("l2:decision-depends-on-process-history", diffs[0], directDetail(c, map[string]any{"view": v, "differences": diffs}))
		return
	}
	switch len(elig) {
	case 0:
		tl["views-eligible-0"]++
	case 1:
		tl["views-eligible-1"]++
	default:
		tl["views-eligible-2+"]++
		c.Nontrivial(fmt.Sprintf("%s|%s|%s|ml=%v", directSetKey(elig), firstIP, v.Svc.Policy, v.MemberlistOn))
	}
	if len(elig) > 0 {
		c.Distinct("eligible-set|address", directSetKey(elig)+"|"+firstIP)
	}
	detail := func(extra map[string]any) map[string]any {
		extra["view"] = v
		extra["decisions"] = dec
		extra["oracle_eligible"] = elig
		extra["announcers"] = ann
		extra["first_ip"] = firstIP
		return directDetail(c, extra)
	}
	want := directElect(elig, firstIP)
	switch {
	case len(ann) == 0 && len(elig) > 0:
		c.Violation("l2:no-announcer-with-eligible-nodes",
			fmt.Sprintf("no node announces %s although %v are eligible (expected %s)", firstIP, elig, want), detail(map[string]any{}))
	case len(ann) > 1:
		c.Violation("l2:multiple-announcers",
			fmt.Sprintf("%v all announce %s (eligible: %v)", ann, firstIP, elig), detail(map[string]any{}))
	case len(ann) == 1 && !directHas(elig, ann[0]):
		why := directL2Why(v, &v.Svc, ann[0])
		c.Violation("l2:announcer-not-eligible:"+why,
			fmt.Sprintf("%s announces %s but is not eligible (%s); eligible: %v", ann[0], firstIP, why, elig), detail(map[string]any{"failed_clause": why}))
	case len(ann) == 1 && ann[0] != want:
		c.Violation("l2:announcer-not-sha256-argmin",
			fmt.Sprintf("%s announces %s, the smallest sha256(node#ip) among eligible %v is %s", ann[0], firstIP, elig, want), detail(map[string]any{"expected": want}))
	}
	if len(elig) > 0 && v.Svc.Policy == directLocal {
		tl["views-local-with-announcer"]++
	}
	if sibling == nil {
		return
	}
	// a second service on the same address
	so2 := directMaterializeSvc(v, sibling)
	ann2, dec2 := directL2Decide(w, v, so2, names)
	elig2 := directL2Eligible(v, sibling, names)
	c.Eval()
	tl["sibling-services-checked"]++
	if len(ann) == 1 && len(ann2) == 1 {
		tl["sibling-services-both-elect"]++
		if ann[0] != ann2[0] {
			c.Violation("l2:sharing-services-elect-different-nodes",
				fmt.Sprintf("services svc1 and svc2 share %s but %s announces the first and %s the second", firstIP, ann[0], ann2[0]),
				detail(map[string]any{"sibling": sibling, "sibling_decisions": dec2, "sibling_eligible": elig2}))
		}
	}
	if len(w.ips) == 2 && directSetKey(elig) == directSetKey(elig2) {
		// the second service is single-stack and holds only the SECOND address of the first one (the
		// allocator lets services with one sharing key share any single address)
		w2 := *w
		w2.ips = w.ips[1:]
		ann3, dec3 := directL2Decide(&w2, v, so2, names)
		c.Eval()
		tl["sibling-holding-only-the-second-address"]++
		if len(ann) == 1 && len(ann3) == 1 && ann[0] != ann3[0] {
			c.Violation("l2:sharing-services-elect-different-nodes:sibling-holds-only-the-second-address",
				fmt.Sprintf("svc1 holds %v, svc2 only %v, same eligible nodes %v: %s announces svc1 (both addresses) and %s announces svc2, so two nodes answer for %v", w.ips, w2.ips, elig, ann[0], ann3[0], w2.ips),
				detail(map[string]any{"sibling": sibling, "sibling_decisions": dec3}))
		}
	}
	if len(ann2) > 1 || (len(ann2) == 0) != (len(elig2) == 0) || (len(ann2) == 1 && ann2[0] != directElect(elig2, firstIP)) {
		c.Violation("l2:sibling-service-wrong-announcers",
			fmt.Sprintf("second service on %s: announcers %v, eligible %v", firstIP, ann2, elig2),
			detail(map[string]any{"sibling": sibling, "sibling_decisions": dec2, "sibling_eligible": elig2}))
	}
}

func c04Names(r *vfRand) [3]string {
	p := vfShuffled(r, directNamePalette)
	return [3]string{p[0], p[1], p[2]}
}

func c04Shapes(r *vfRand) [4][]string {
	var s [4][]string
	for i := range s {
		s[i] = directAddrs(r, i)
	}
	return s
}

func TestVerif_C04(t *testing.T) {
	rule := "views (nodes with speaker-alive / NetworkUnavailable / exclude label / advertisement selection flags, per-node endpoint state, " +
		"memberlist on/off, traffic policy, ignoreExcludeLB, nil-node endpoint, address shape) decided by one layer2Controller per node; " +
		"non-trivial = view with >= 2 eligible nodes, distinct by (eligible set, first address, policy, memberlist)"
	thorough := vfTier() == "thorough"
	nEnum := c04EnumQuick
	if thorough {
		nEnum = c04EnumThorough
	}
	shard := directShard()
	vfMain(t, "C04", vfSizes{Quick: c04EnumQuick + c04RandQuick, Thorough: c04EnumThorough + c04RandThorough}, rule, func(c *vfCase) {
		tl := directTally{}
		defer tl.flush(c)
		r := c.R
		nsh := directNShards(c)
		switch {
		case c.Idx < nEnum && thorough:
			// exhaustive: block c.Idx of this shard's part of the 64^3 node triples, all 64 global combinations
			triples := directBlock(c04Triples, nsh, shard, nEnum, c.Idx)
			names, shapes := c04Names(r), c04Shapes(r)
			for _, tr := range triples {
				for combo := 0; combo < c04GlobalCombos; combo++ {
					v := c04EnumView(r, tr, combo, names, shapes)
					var sib *directService
					if combo&8 != 0 || r.Chance(1, 4) {
						sib = c04Sibling(r, v, names[:])
					}
					c04Check(c, tl, v, sib, "enumerated")
				}
			}
			c04Covered += len(triples)
			if c.Idx == nEnum-1 && !c.Replaying {
				mine := 0
				if shard < c04Triples {
					mine = (c04Triples - shard + nsh - 1) / nsh
				}
				if c04Covered == mine {
					directSetExhaustive(c, map[string]any{
						"space":           "3 nodes x 64 states per node (alive, NetworkUnavailable, exclude label, selected, 4 endpoint states) x memberlist x policy x ignoreExcludeLB x nil-node endpoint x 4 address shapes",
						"views_total":     c04Triples * c04GlobalCombos,
						"triples_covered": c04Covered, "shard": shard, "nshards": nsh,
					})
				}
			}
		case c.Idx < nEnum:
			// quick: seeded sample of the same space
			for k := 0; k < c04QuickTriples; k++ {
				tr := r.Intn(c04Triples)
				if k%2 == 1 {
					// bias half of the sample to triples where every node is alive and selected
					tr |= 9 | 9<<6 | 9<<12
				}
				names, shapes := c04Names(r), c04Shapes(r)
				for combo := 0; combo < c04GlobalCombos; combo++ {
					v := c04EnumView(r, tr, combo, names, shapes)
					var sib *directService
					if r.Chance(1, 2) {
						sib = c04Sibling(r, v, names[:])
					}
					c04Check(c, tl, v, sib, "enumerated-sample")
				}
			}
		default:
			for k := 0; k < c04RandPerCase; k++ {
				v := directRandomView(r)
				var names []string
				for _, n := range v.Nodes {
					names = append(names, n.Name)
				}
				var sib *directService
				if r.Chance(1, 2) {
					sib = c04Sibling(r, v, names)
				}
				c04Check(c, tl, v, sib, "random")
				if c.WantSample() && len(directL2Eligible(v, &v.Svc, directUniverse(v))) >= 2 {
					c.Sample(map[string]any{"view": v, "eligible": directL2Eligible(v, &v.Svc, directUniverse(v))})
				}
			}
		}
	})
}
