//go:build verif

package frr

import (
	"fmt"

	"github.com/go-kit/log"
	"go.universe.tf/metallb/internal/bgp"
	metallbconfig "go.universe.tf/metallb/internal/config"
)

// VerifSession is one BGP session and the advertisements set on it.
type VerifSession struct {
	Params bgp.SessionParameters
	Advs   []*bgp.Advertisement
	// Rejected, if set, is submitted with Set after every session got its advertisements; the call is
	// expected to fail (an advertisement that does not validate, not in first position) and must leave
	// no trace. Afterwards the session named by Resubmit (index, -1 = none) submits its own Advs
	// again, which regenerates the configuration.
	Rejected []*bgp.Advertisement
	Resubmit int
}

// VerifRender renders the FRR configuration text for the given sessions through the package's own
// NewSession / Set / createConfig / templateConfig path, without the debouncer and reload-validator
// goroutines and without touching any file: the session manager is built with a buffered reload
// channel that nobody reads. Sessions are created in slice order, then Set is called in slice
// order. stage names the step that failed ("new-session:<i>", "set:<i>", "create", "template").
func VerifRender(hostname string, bfdProfiles map[string]*metallbconfig.BFDProfile, sessions []VerifSession) (text string, stage string, err error) {
	sm := &sessionManager{
		sessions:     map[string]*session{},
		bfdProfiles:  []BFDProfile{},
		reloadConfig: make(chan reloadEvent, 4*len(sessions)+8),
	}
	prev := osHostname
	osHostname = func() (string, error) { return hostname, nil }
	defer func() { osHostname = prev }()

	if len(bfdProfiles) > 0 {
		if err := sm.SyncBFDProfiles(bfdProfiles); err != nil {
			return "", "bfd", err
		}
	}
	l := log.NewNopLogger()
	created := make([]bgp.Session, len(sessions))
	for i, s := range sessions {
		sess, err := sm.NewSession(l, s.Params)
		if err != nil {
			return "", fmt.Sprintf("new-session:%d", i), err
		}
		created[i] = sess
	}
	for i, s := range sessions {
		if err := created[i].Set(s.Advs...); err != nil {
			return "", fmt.Sprintf("set:%d", i), err
		}
	}
	for i, s := range sessions {
		if len(s.Rejected) == 0 {
			continue
		}
		if err := created[i].Set(s.Rejected...); err == nil {
			return "", fmt.Sprintf("rejected-set-accepted:%d", i), fmt.Errorf("a Set that must fail was accepted")
		}
		if k := s.Resubmit; k >= 0 && k < len(sessions) && k != i {
			if err := created[k].Set(sessions[k].Advs...); err != nil {
				return "", fmt.Sprintf("set:%d", k), err
			}
		}
	}
	// what the reloader would have been handed last
	var last *frrConfig
	for len(sm.reloadConfig) > 0 {
		ev := <-sm.reloadConfig
		if ev.config != nil {
			last = ev.config
		}
	}
	if last == nil {
		sm.Lock()
		last, err = sm.createConfig()
		sm.Unlock()
		if err != nil {
			return "", "create", err
		}
	}
	text, err = templateConfig(last)
	if err != nil {
		return "", "template", err
	}
	return text, "", nil
}
