//go:build verif

package frr

// C19, session-manager variant — the real sessionManager (NewSession / Set / Close / SyncBFDProfiles,
// createConfig) feeds the real debouncer through its unbuffered channel, exactly as NewSessionManager
// wires them; only the reload action is replaced by a recorder that renders what it is handed.
// What the plain C19 scenarios (hand-built configurations) cannot see is how the two parts share
// memory: the debouncer compares every submission with the one it remembers, so a session manager
// that rebuilds its next configuration inside memory the remembered one still points to (or that
// renders the same state in two different ways) makes submissions disappear or reload for nothing.
//
// Oracle, at every idle point (no apply for c19smQuiet and the last apply succeeded):
//   (a) the text last applied equals the text a FRESH session manager renders from the current logical
//       state (profiles, live sessions in creation order, their current advertisements);
//   (b) an operation that re-submitted exactly the state that was already applied caused no apply.
// A failed apply (the first K of a scenario fail) must be retried without any further submission.

import (
	"errors"
	"fmt"
	"os"
	"path/filepath"
	"sync"
	"sync/atomic"
	"testing"
	"time"

	"github.com/go-kit/log"
	"go.universe.tf/metallb/internal/bgp"
	metallbconfig "go.universe.tf/metallb/internal/config"
	"go.universe.tf/metallb/internal/logging"
)

const (
	c19smDebounce = 3 * time.Millisecond
	c19smRetry    = 6 * time.Millisecond
	c19smQuiet    = 60 * time.Millisecond // 20 debounce intervals without an apply
	c19smGiveUp   = 6 * time.Second
)

type c19smApply struct {
	text string
	ok   bool
}

type c19smLog struct {
	mu        sync.Mutex
	applies   []c19smApply
	failFirst int
	last      time.Time
}

func (l *c19smLog) body(cfg *frrConfig) error {
	text, err := templateConfig(cfg)
	l.mu.Lock()
	defer l.mu.Unlock()
	ok := err == nil && len(l.applies) >= l.failFirst
	l.applies = append(l.applies, c19smApply{text: text, ok: ok})
	l.last = time.Now()
	if !ok {
		return errors.New("injected reload failure")
	}
	return nil
}

// hook is the reload signal of the real-constructor mode: it reads the file the real
// generateAndReloadConfigFile has just written, as the reloader would.
func (l *c19smLog) hook() error {
	b, err := os.ReadFile(c19smFilePath)
	l.mu.Lock()
	defer l.mu.Unlock()
	ok := err == nil && len(l.applies) >= l.failFirst
	l.applies = append(l.applies, c19smApply{text: string(b), ok: ok})
	l.last = time.Now()
	if !ok {
		time.Sleep(2 * time.Millisecond) // a failing reload takes its time: submissions arrive meanwhile
		if len(l.applies)%2 == 1 {
			return &os.PathError{Op: "open", Path: "/var/run/frr_reloader.pid", Err: os.ErrNotExist}
		}
		return errors.New("injected reload failure")
	}
	return nil
}

var (
	c19smCur      atomic.Pointer[c19smLog]
	c19smFilePath string
)

func c19smReloadHook() error {
	if l := c19smCur.Load(); l != nil {
		return l.hook()
	}
	return nil
}

func (l *c19smLog) snap() (n int, lastOK bool, lastText string, since time.Duration) {
	l.mu.Lock()
	defer l.mu.Unlock()
	n = len(l.applies)
	if n > 0 {
		lastOK, lastText = l.applies[n-1].ok, l.applies[n-1].text
		since = time.Since(l.last)
	} else {
		since = time.Hour
	}
	return
}

// c19smState is the logical state the submissions so far ask for.
type c19smState struct {
	bfd   map[string]*metallbconfig.BFDProfile
	specs []vfFRRSessSpec
	advs  [][]*bgp.Advertisement
	live  []bool
	logLevel string
}

// render builds the text a fresh session manager produces for st (no debouncer involved).
func (st *c19smState) render() (string, error) {
	sm := &sessionManager{sessions: map[string]*session{}, bfdProfiles: []BFDProfile{}, reloadConfig: make(chan reloadEvent, 4*len(st.specs)+8), logLevel: st.logLevel}
	l := log.NewNopLogger()
	if st.bfd != nil {
		if err := sm.SyncBFDProfiles(st.bfd); err != nil {
			return "", err
		}
	}
	for i := range st.specs {
		if !st.live[i] {
			continue
		}
		s, err := sm.NewSession(l, c14Params(&st.specs[i]))
		if err != nil {
			return "", err
		}
		if err := s.Set(st.advs[i]...); err != nil {
			return "", err
		}
	}
	sm.Lock()
	cfg, err := sm.createConfig()
	sm.Unlock()
	if err != nil {
		return "", err
	}
	return templateConfig(cfg)
}

func c19smBFD(r *vfRand, names []string) map[string]*metallbconfig.BFDProfile {
	out := map[string]*metallbconfig.BFDProfile{}
	for _, n := range names {
		p := &metallbconfig.BFDProfile{Name: n}
		rx, tx, m := uint32(r.Range(10, 900)), uint32(r.Range(10, 900)), uint32(r.Range(2, 20))
		p.ReceiveInterval, p.TransmitInterval, p.DetectMultiplier = &rx, &tx, &m
		p.PassiveMode = r.Bool()
		out[n] = p
	}
	return out
}

func c19smCopyBFD(in map[string]*metallbconfig.BFDProfile) map[string]*metallbconfig.BFDProfile {
	out := map[string]*metallbconfig.BFDProfile{}
	for k, v := range in {
		c := *v
		for _, pp := range []**uint32{&c.ReceiveInterval, &c.TransmitInterval, &c.DetectMultiplier, &c.EchoInterval, &c.MinimumTTL} {
			if *pp != nil {
				x := **pp
				*pp = &x
			}
		}
		out[k] = &c
	}
	return out
}

func c19smScenario(c *vfCase, can *vfCanary) {
	r := c.R
	prog := vfFRRGenProgram(r, vfFRRGenOpts{})
	// several local preferences and communities on one neighbor: the filter lists of the rendered
	// configuration then have more than one element each
	for i := range prog.Sessions {
		lp := []uint32{0, 100, 200, 300, 400}
		seen := map[string]uint32{}
		for j := range prog.Sessions[i].Ads {
			a := &prog.Sessions[i].Ads[j]
			if v, ok := seen[a.Prefix]; ok {
				a.LocalPref = v
			} else {
				a.LocalPref = vfPick(r, lp)
				seen[a.Prefix] = a.LocalPref
			}
		}
	}
	lg := &c19smLog{failFirst: vfPick(r, []int{0, 0, 1, 2})}
	var sm *sessionManager
	realCtor := c.Idx%2 == 1
	if realCtor {
		// the package's own constructor: its reload closure, generateAndReloadConfigFile writing a real
		// file, the reload signal replaced by a reader of that file
		c19smCur.Store(lg)
		defer c19smCur.Store(nil)
		sm = mockNewSessionManager(log.NewNopLogger(), logging.LevelInfo)
		c.Count("sm-scenarios-with-the-real-constructor")
	} else {
		sm = &sessionManager{sessions: map[string]*session{}, bfdProfiles: []BFDProfile{}, reloadConfig: make(chan reloadEvent)}
		debouncer(lg.body, sm.reloadConfig, c19smDebounce, c19smRetry, log.NewNopLogger())
	}
	blocked := false
	defer func() {
		if !blocked {
			close(sm.reloadConfig)
		}
	}()
	// call runs one submission with a watchdog: submitters must never be blocked for good
	call := func(what string, f func() error) (error, bool) {
		done := make(chan error, 1)
		go func() { done <- f() }()
		select {
		case err := <-done:
			return err, true
		case <-time.After(20 * time.Second):
			blocked = true
			if can.MaxGap() > 40*time.Millisecond {
				c.Inconclusive("session-manager scenario: " + what + " did not return within 20 s, but the process was starved")
			} else {
				c.Violation("sm:submitter-blocked", what+" did not return within 20 s: the submitter (the speaker's event handler, holding the session manager's lock) is blocked for good", map[string]any{"trace_tail": c.Trace()})
			}
			return nil, false
		}
	}
	st := &c19smState{logLevel: sm.logLevel}
	l := log.NewNopLogger()
	var sessions []bgp.Session
	starved := func() bool { return can.MaxGap() > 40*time.Millisecond }

	// settle waits, on a logical criterion, for what the submissions so far call for: when the state
	// renders to another text than the one applied last, a successful apply of exactly that text must
	// show up (bounded by c19smGiveUp, judged only with a clean canary); then c19smQuiet without a
	// further apply. Returns the number of applies and whether the scenario may go on.
	settle := func(what string, want string) (int, bool) {
		t0 := time.Now()
		for {
			n, ok, text, since := lg.snap()
			reached := n > 0 && ok && text == want
			if n == 0 && want == "" {
				reached = true
			}
			if reached && since >= c19smQuiet && time.Since(t0) >= c19smQuiet {
				return n, true
			}
			if time.Since(t0) > c19smGiveUp {
				switch {
				case starved():
					c.Inconclusive("session-manager scenario: the process was starved while waiting after " + what)
				case n > 0 && !ok:
					c.Violation("sm:failed-apply-not-retried", fmt.Sprintf("after %s the last reload attempt (#%d) failed and no further attempt followed within %s", what, n, c19smGiveUp), map[string]any{"trace_tail": c.Trace()})
				case !reached:
					c.Violation("sm:last-applied-differs-from-submitted-state", fmt.Sprintf("%s after %s (%d applies) the configuration applied last is still not the one the submitted state renders to: %s", c19smGiveUp, what, n, c14FirstDiff(text, want)), map[string]any{"op": what})
				default:
					c.Inconclusive("session-manager scenario: applies kept coming for " + c19smGiveUp.String() + " after " + what)
				}
				return n, false
			}
			time.Sleep(c19smDebounce)
		}
	}
	applied := "" // the text the recorder applied last at the previous idle point
	check := func(what string, identical bool, before int) bool {
		want, err := st.render()
		if err != nil {
			c.Logf("fresh render failed: %v", err)
			return false
		}
		n, ok := settle(what, want)
		if !ok {
			return false
		}
		c.Eval()
		c.Count("sm-idle-points-compared")
		if identical && want == applied {
			c.Count("sm-identical-resubmissions")
			if n != before {
				if starved() {
					c.Inconclusive("starved during an identical resubmission")
					return false
				}
				c.Violation("sm:identical-resubmission-reloaded", fmt.Sprintf("%s re-submitted exactly the applied state and caused %d reload(s)", what, n-before), map[string]any{"op": what})
				return false
			}
		}
		applied = want
		return true
	}

	names := prog.BFDProfiles
	if len(names) == 0 && r.Bool() {
		names = []string{"fast", "slow"}
		for i := range prog.Sessions {
			if r.Bool() {
				prog.Sessions[i].BFDProfile = vfPick(r, names)
			}
		}
	}
	if len(names) > 0 {
		st.bfd = c19smBFD(r, names)
		c.Logf("SyncBFDProfiles(%d profiles)", len(st.bfd))
		if err, ok := call("SyncBFDProfiles", func() error { return sm.SyncBFDProfiles(c19smCopyBFD(st.bfd)) }); !ok {
			return
		} else if err != nil {
			c.Logf("  -> %v", err)
			return
		}
	}
	jitter := r.Bool() // the initial submissions are spread over a few debounce intervals (they overlap reload attempts)
	for i := range prog.Sessions {
		sp := prog.Sessions[i]
		var s bgp.Session
		err, ok := call("NewSession", func() error { var e error; s, e = sm.NewSession(l, c14Params(&sp)); return e })
		if !ok {
			return
		}
		if err != nil {
			c.Logf("NewSession(%s) -> %v", sp.PeerKey(), err)
			return
		}
		advs, err := c14Advs(sp.Ads)
		if err != nil {
			return
		}
		st.specs = append(st.specs, sp)
		st.advs = append(st.advs, nil)
		st.live = append(st.live, true)
		sessions = append(sessions, s)
		c.Logf("NewSession(%s)", sp.PeerKey())
		if jitter {
			time.Sleep(time.Duration(r.Intn(5)) * time.Millisecond)
		}
		if err, ok := call("Set", func() error { return s.Set(advs...) }); !ok {
			return
		} else if err != nil {
			c.Logf("Set(%s, %d advertisements) -> %v", sp.PeerKey(), len(advs), err)
			continue
		}
		st.advs[i] = advs
		c.Logf("Set(%s, %d advertisements)", sp.PeerKey(), len(advs))
	}
	if !check("the initial submissions", false, 0) {
		return
	}
	nops := r.Range(4, 9)
	for k := 0; k < nops; k++ {
		before, _, _, _ := lg.snap()
		i := r.Intn(len(sessions))
		switch op := r.Intn(10); {
		case op < 2 && st.live[i]: // identical Set
			full, _ := c14Advs(st.specs[i].Ads)
			cur := st.advs[i]
			_ = full
			what := fmt.Sprintf("Set(%s) with the advertisements it already has", st.specs[i].PeerKey())
			c.Logf("%s", what)
			again := make([]*bgp.Advertisement, len(cur))
			for j, a := range cur { // fresh objects, as the speaker builds them anew at every service event
				cp := *a
				cp.Communities = append(cp.Communities[:0:0], a.Communities...)
				again[j] = &cp
			}
			if err, ok := call(what, func() error { return sessions[i].Set(again...) }); !ok {
				return
			} else if err != nil {
				c.Logf("  -> %v", err)
				continue
			}
			if !check(what, true, before) {
				return
			}
		case op < 5 && st.live[i]: // another subset of the advertisements
			full, _ := c14Advs(st.specs[i].Ads)
			sub := vfSubset(r, full, 1, 2)
			what := fmt.Sprintf("Set(%s, %d of %d advertisements)", st.specs[i].PeerKey(), len(sub), len(full))
			c.Logf("%s", what)
			if err, ok := call(what, func() error { return sessions[i].Set(sub...) }); !ok {
				return
			} else if err != nil {
				c.Logf("  -> %v", err)
				continue
			}
			st.advs[i] = sub
			if !check(what, false, before) {
				return
			}
		case op < 7 && st.bfd != nil: // same profile names, other values
			st.bfd = c19smBFD(r, names)
			what := "SyncBFDProfiles(same names, other values)"
			c.Logf("%s", what)
			if err, ok := call(what, func() error { return sm.SyncBFDProfiles(c19smCopyBFD(st.bfd)) }); !ok {
				return
			} else if err != nil {
				c.Logf("  -> %v", err)
				continue
			}
			if !check(what, false, before) {
				return
			}
		case op < 8 && st.bfd != nil: // identical profiles
			what := "SyncBFDProfiles(identical)"
			c.Logf("%s", what)
			if err, ok := call(what, func() error { return sm.SyncBFDProfiles(c19smCopyBFD(st.bfd)) }); !ok {
				return
			} else if err != nil {
				c.Logf("  -> %v", err)
				continue
			}
			if !check(what, true, before) {
				return
			}
		case op == 9 && st.live[i] && len(sessions) > 1: // close one
			what := fmt.Sprintf("Close(%s)", st.specs[i].PeerKey())
			c.Logf("%s", what)
			if err, ok := call(what, func() error { return sessions[i].Close() }); !ok {
				return
			} else if err != nil {
				c.Logf("  -> %v", err)
			}
			st.live[i] = false
			if !check(what, false, before) {
				return
			}
		}
	}
	n, _, _, _ := lg.snap()
	c.CountN("sm-applies", n)
	c.Count("sm-scenarios")
	c.Nontrivial(fmt.Sprintf("sm|%s|fail=%d|ops=%d", prog.Key(), lg.failFirst, nops))
	if c.WantSample() {
		c.Sample(map[string]any{"variant": "session-manager", "sessions": len(sessions), "applies": n, "first_applies_failing": lg.failFirst, "trace": c.Trace()})
	}
}

func TestVerif_C19SM(t *testing.T) {
	prev := osHostname
	osHostname = func() (string, error) { return "verifhost", nil }
	defer func() { osHostname = prev }()
	dir, err := os.MkdirTemp("", "verif-c19sm-")
	if err != nil {
		t.Fatal(err)
	}
	defer os.RemoveAll(dir)
	os.Unsetenv("FRR_CONFIG_FILE")
	c19smFilePath = filepath.Join(dir, "frr.conf")
	configFileName = c19smFilePath
	reloadConfig = c19smReloadHook
	debounceTimeout, failureTimeout = c19smDebounce, c19smRetry
	can := vfStartCanary()
	defer can.Stop()
	rule := "session-manager variant: the real FRR sessionManager feeds the real debouncer (3 ms debounce, 6 ms retry, first 0-2 reload attempts fail); after every operation (Set with another subset, identical Set, SyncBFDProfiles with other values / identical, Close) the recorder must go idle with the last applied text equal to what a fresh session manager renders from the submitted state, and identical re-submissions must cause no reload; non-trivial = distinct (session set, failure count, operation count)"
	vfMain(t, "C19", vfSizes{Quick: 12, Thorough: 150}, rule, func(c *vfCase) {
		can.Reset()
		c19smScenario(c, can)
	})
}
