//go:build verif

package frr

import (
	"fmt"
	"net"
	"net/netip"
	"sort"
	"strconv"
	"strings"
	"testing"
	"time"

	metallbv1beta2 "go.universe.tf/metallb/api/v1beta2"
	"go.universe.tf/metallb/internal/bgp"
	"go.universe.tf/metallb/internal/config"
	"go.universe.tf/metallb/internal/bgp/community"
	metallbconfig "go.universe.tf/metallb/internal/config"
)

// C14 — FRR mode: the generated frr.conf, interpreted with FRR's network / route-map / prefix-list
// semantics (harness/lib/frrinterp.go), offers each neighbor exactly what was requested.

const c14Rule = "a generated session set in which some router has >= 2 neighbors whose requested prefix sets differ " +
	"(the per-neighbor filters have to tell them apart); keyed by the canonical session set"

const c14Hostname = "verifhost"

func c14Params(s *vfFRRSessSpec) bgp.SessionParameters {
	p := bgp.SessionParameters{
		PeerAddress:     s.Addr,
		PeerInterface:   s.Iface,
		PeerPort:        s.Port,
		MyASN:           s.MyASN,
		PeerASN:         s.PeerASN,
		DynamicASN:      s.DynamicASN,
		Password:        s.Password,
		CurrentNode:     "verifnode",
		BFDProfile:      s.BFDProfile,
		GracefulRestart: s.GR,
		EBGPMultiHop:    s.Multihop,
		VRFName:         s.VRF,
		DisableMP:       s.DisableMP,
		SessionName:     "peer-" + s.PeerKey(),
	}
	if s.Src != "" {
		p.SourceAddress = net.ParseIP(s.Src)
	}
	if s.RouterID != "" {
		p.RouterID = net.ParseIP(s.RouterID)
	}
	if s.HoldS >= 0 {
		h := time.Duration(s.HoldS) * time.Second
		k := time.Duration(s.KeepaliveS) * time.Second
		p.HoldTime, p.KeepAliveTime = &h, &k
	}
	if s.ConnectS >= 0 {
		ct := time.Duration(s.ConnectS) * time.Second
		p.ConnectTime = &ct
	}
	return p
}

// c14Advs converts the advertisements the way the speaker does: canonical prefix, communities
// sorted with LessThan (speaker/bgp_controller.go SetBalancer).
func c14Advs(ads []vfFRRAdSpec) ([]*bgp.Advertisement, error) {
	var out []*bgp.Advertisement
	for _, a := range ads {
		_, ipnet, err := net.ParseCIDR(a.Prefix)
		if err != nil {
			return nil, err
		}
		adv := &bgp.Advertisement{Prefix: ipnet, LocalPref: a.LocalPref}
		for _, cs := range a.Comms {
			cm, err := community.New(cs)
			if err != nil {
				return nil, err
			}
			adv.Communities = append(adv.Communities, cm)
		}
		sort.Slice(adv.Communities, func(i, j int) bool { return adv.Communities[i].LessThan(adv.Communities[j]) })
		out = append(out, adv)
	}
	return out, nil
}

func c14BFD(names []string) map[string]*metallbconfig.BFDProfile {
	if len(names) == 0 {
		return nil
	}
	out := map[string]*metallbconfig.BFDProfile{}
	for i, n := range names {
		p := &metallbconfig.BFDProfile{Name: n}
		if i == 0 {
			v := uint32(300)
			p.ReceiveInterval, p.TransmitInterval = &v, &v
			p.PassiveMode = true
		} else {
			v := uint32(5)
			p.DetectMultiplier = &v
			p.EchoMode = true
			e := uint32(50)
			p.EchoInterval = &e
			m := uint32(254)
			p.MinimumTTL = &m
		}
		out[n] = p
	}
	return out
}

// c14Render renders the program with the sessions taken in the given order and the
// advertisements of every session permuted by adPerm (nil = as generated).
func c14Render(prog *vfFRRProgram, order []int, adShuffle *vfRand) (string, string, error) {
	return c14RenderHostile(prog, order, adShuffle, nil)
}

// c14RenderHostile additionally (hostile != nil) lets one session submit a Set that must be refused (an
// advertisement with 64 communities behind a valid one) and then another session re-submit its own,
// unchanged advertisements: the rendered text must still denote the unchanged request.
func c14RenderHostile(prog *vfFRRProgram, order []int, adShuffle *vfRand, hostile *vfRand) (string, string, error) {
	var sess []VerifSession
	for _, i := range order {
		s := &prog.Sessions[i]
		ads := s.Ads
		if adShuffle != nil {
			ads = vfShuffled(adShuffle, ads)
		}
		advs, err := c14Advs(ads)
		if err != nil {
			return "", "harness", err
		}
		sess = append(sess, VerifSession{Params: c14Params(s), Advs: advs, Resubmit: -1})
	}
	if hostile != nil && len(sess) >= 2 {
		j := hostile.Intn(len(sess))
		if len(sess[j].Advs) >= 1 {
			bad := *sess[j].Advs[len(sess[j].Advs)-1]
			bad.Communities = nil
			for x := 0; x < 64; x++ {
				cm, _ := community.New(fmt.Sprintf("650%02d:%d", x%90, x))
				bad.Communities = append(bad.Communities, cm)
			}
			// the valid advertisement in front is one the session never requested
			extra := *sess[j].Advs[0]
			_, n, _ := net.ParseCIDR("203.0.113.0/24")
			if extra.Prefix.IP.To4() == nil {
				_, n, _ = net.ParseCIDR("2001:db8:113::/64")
			}
			extra.Prefix = n
			sess[j].Rejected = []*bgp.Advertisement{&extra, &bad}
			sess[j].Resubmit = (j + 1 + hostile.Intn(len(sess)-1)) % len(sess)
		}
	}
	return VerifRender(c14Hostname, c14BFD(prog.BFDProfiles), sess)
}

func c14Perms(n int) [][]int {
	var out [][]int
	var rec func(cur []int, used []bool)
	rec = func(cur []int, used []bool) {
		if len(cur) == n {
			out = append(out, append([]int(nil), cur...))
			return
		}
		for i := 0; i < n; i++ {
			if !used[i] {
				used[i] = true
				rec(append(cur, i), used)
				used[i] = false
			}
		}
	}
	rec(nil, make([]bool, n))
	return out
}

type c14Checker struct {
	c      *vfCase
	prog   *vfFRRProgram
	text   string
	cfg    *vfFRRConfig
	clash  bool
}

func (k *c14Checker) violation(sig, summary string, extra map[string]any) {
	d := map[string]any{"program": k.prog, "text": vfFRRExcerpt(k.text)}
	for a, b := range extra {
		d[a] = b
	}
	if k.clash {
		// one cause (two neighbors share the "<peer>[-<vrf>]" label their filters are named after),
		// many symptoms: one signature
		summary = "[" + sig + "] " + summary
		sig = "collision:filter-names-shared-by-two-neighbors"
	}
	k.c.Violation(sig, summary, d)
}

func c14SessLabel(s *vfFRRSessSpec) string {
	peer := s.Addr
	if s.Iface != "" {
		peer = "interface " + s.Iface
	}
	vrf := s.VRF
	if vrf == "" {
		vrf = "default"
	}
	return fmt.Sprintf("%s (vrf %s, local AS %d)", peer, vrf, s.MyASN)
}

func (k *c14Checker) checkParams(s *vfFRRSessSpec, r *vfFRRRouter, n *vfFRRNeighbor) {
	c := k.c
	lbl := c14SessLabel(s)
	bad := func(name, want, got string) {
		k.violation("param:"+name, fmt.Sprintf("neighbor %s: %s requested %q, configuration says %q", lbl, name, want, got),
			map[string]any{"session": s})
	}
	c.EvalN(10)
	c.CountN("comparisons", 10)
	// ASN or dynamic ASN
	wantAS := strconv.FormatUint(uint64(s.PeerASN), 10)
	if s.DynamicASN != "" {
		wantAS = s.DynamicASN
	}
	if n.RemoteAS != wantAS {
		bad("remote-as", wantAS, n.RemoteAS)
	}
	// address or interface
	if (s.Iface != "") != n.Interface {
		bad("interface", fmt.Sprint(s.Iface != ""), fmt.Sprint(n.Interface))
	}
	// port (0 = not requested: absent or the BGP default)
	if s.Port != 0 && n.Port != int(s.Port) {
		bad("port", fmt.Sprint(s.Port), fmt.Sprint(n.Port))
	}
	if s.Port == 0 && n.Port != 0 && n.Port != 179 {
		bad("port", "unset", fmt.Sprint(n.Port))
	}
	// timers
	if s.HoldS >= 0 {
		if !n.HasTimers || n.Keepalive != s.KeepaliveS || n.Hold != s.HoldS {
			bad("timers", fmt.Sprintf("%d %d", s.KeepaliveS, s.HoldS), fmt.Sprintf("set=%v %d %d", n.HasTimers, n.Keepalive, n.Hold))
		}
	} else if n.HasTimers {
		bad("timers", "unset", fmt.Sprintf("%d %d", n.Keepalive, n.Hold))
	}
	if s.ConnectS > 0 && n.ConnectTimer != s.ConnectS {
		bad("connect-timer", fmt.Sprint(s.ConnectS), fmt.Sprint(n.ConnectTimer))
	}
	if s.ConnectS < 0 && n.ConnectTimer != 0 {
		bad("connect-timer", "unset", fmt.Sprint(n.ConnectTimer))
	}
	if n.Password != s.Password {
		bad("password", s.Password, n.Password)
	}
	// source
	if s.Src != "" {
		wa, _ := netip.ParseAddr(s.Src)
		ga, err := netip.ParseAddr(n.UpdateSource)
		if err != nil || wa.Unmap() != ga.Unmap() {
			bad("update-source", s.Src, n.UpdateSource)
		}
	} else if n.UpdateSource != "" {
		bad("update-source", "unset", n.UpdateSource)
	}
	if n.EBGPMultihop != s.Multihop {
		bad("ebgp-multihop", fmt.Sprint(s.Multihop), fmt.Sprint(n.EBGPMultihop))
	}
	if s.BFDProfile != "" {
		if !n.BFD || n.BFDProfile != s.BFDProfile {
			bad("bfd-profile", s.BFDProfile, fmt.Sprintf("bfd=%v profile=%q", n.BFD, n.BFDProfile))
		}
	} else if n.BFD {
		bad("bfd-profile", "none", fmt.Sprintf("bfd=%v profile=%q", n.BFD, n.BFDProfile))
	}
	// router id of the instance (one per program)
	if s.RouterID != "" && r.RouterID != s.RouterID {
		bad("router-id", s.RouterID, r.RouterID)
	}
}

func c14Active(r *vfFRRRouter, n *vfFRRNeighbor, v6 bool) bool {
	a := n.AF[v6]
	if a != nil && a.Activated {
		return true
	}
	return !v6 && !r.NoDefaultIPv4Unicast
}

func (k *c14Checker) checkSession(s *vfFRRSessSpec, r *vfFRRRouter, n *vfFRRNeighbor, probes []netip.Prefix) {
	c := k.c
	lbl := c14SessLabel(s)
	want := vfFRRRequested(s)
	if len(want) == 0 {
		c.Count("neighbors-without-advertisement")
	}
	for _, w := range want {
		if w.Count > 1 {
			c.Count("merged-duplicates")
		}
	}
	// per-family activation
	for _, v6 := range []bool{false, true} {
		fam := "ipv4"
		if v6 {
			fam = "ipv6"
		}
		wantAct, determined := vfFRRWantsFamily(s, v6)
		got := c14Active(r, n, v6)
		c.Eval()
		c.Count("comparisons")
		if determined && wantAct != got {
			k.violation("activation:"+fam, fmt.Sprintf("neighbor %s: %s unicast activation requested=%v configured=%v", lbl, fam, wantAct, got),
				map[string]any{"session": s})
		}
		if !determined {
			c.Count("activation-undetermined-unnumbered-disableMP")
		}
	}
	originated := map[netip.Prefix]bool{}
	for _, v6 := range []bool{false, true} {
		for _, p := range r.Networks[v6] {
			originated[p] = true
		}
	}
	for _, p := range probes {
		v6 := p.Addr().Is6()
		active := c14Active(r, n, v6)
		res := k.cfg.vfFRROffer(r, n, p)
		c.Eval()
		c.Count("comparisons")
		w := want[p.String()]
		detail := map[string]any{"session": s, "prefix": p.String(), "trail": res.Trail, "undefined": res.Undefined}
		switch {
		case w != nil && active:
			c.Count("requested-offers-checked")
			if !res.Permitted {
				k.violation("offer:requested-prefix-denied", fmt.Sprintf("neighbor %s: requested prefix %s is rejected by its outbound route-map", lbl, p), detail)
				continue
			}
			if res.LocalPref != w.LocalPref() {
				k.violation("offer:wrong-local-pref", fmt.Sprintf("neighbor %s: prefix %s leaves with local-preference %d, requested %d", lbl, p, res.LocalPref, w.LocalPref()), detail)
			}
			wc, wl := vfSortedSet(w.Comms), vfSortedSet(w.Larges)
			if !vfFRRSameStrings(wc, res.Comms) {
				sig := "offer:community-extra"
				if len(res.Comms) < len(wc) {
					sig = "offer:community-missing"
				}
				k.violation(sig, fmt.Sprintf("neighbor %s: prefix %s leaves with communities %v, requested %v", lbl, p, res.Comms, wc), detail)
			}
			if !vfFRRSameStrings(wl, res.Larges) {
				sig := "offer:large-community-extra"
				if len(res.Larges) < len(wl) {
					sig = "offer:large-community-missing"
				}
				k.violation(sig, fmt.Sprintf("neighbor %s: prefix %s leaves with large communities %v, requested %v", lbl, p, res.Larges, wl), detail)
			}
			if len(wc)+len(wl) >= 2 {
				c.Count("offers-with-2+-communities")
			}
		case w != nil && !active:
			c.Count("requested-in-inactive-family")
		case w == nil && active:
			if originated[p] {
				c.Count("must-deny-evaluations")
			} else {
				c.Count("foreign-prefix-evaluations")
			}
			if res.Permitted {
				sig := "leak:foreign-prefix-permitted"
				if originated[p] {
					sig = "leak:other-neighbors-prefix-permitted"
				}
				k.violation(sig, fmt.Sprintf("neighbor %s: prefix %s was not requested for it but passes its outbound route-map", lbl, p), detail)
			}
		}
		// inbound: nothing may be accepted
		if active {
			in := k.cfg.vfFRRAccepts(r, n, p)
			c.Eval()
			c.Count("comparisons")
			if in.Permitted {
				k.violation("inbound:route-accepted", fmt.Sprintf("neighbor %s: a received route for %s would be accepted", lbl, p),
					map[string]any{"session": s, "prefix": p.String(), "trail": in.Trail})
			}
		}
	}
}

func c14Case(c *vfCase) {
	prog := vfFRRGenProgram(c.R, vfFRRGenOpts{})
	shuf := c.R.Fork()
	n := len(prog.Sessions)
	ident := make([]int, n)
	for i := range ident {
		ident[i] = i
	}
	conflict := false
	for i := range prog.Sessions {
		if vfFRRHasLocalPrefConflict(&prog.Sessions[i]) {
			conflict = true
		}
	}
	var hostile *vfRand
	if c.R.Chance(1, 3) {
		hostile = c.R.Fork()
		c.Count("programs-with-a-rejected-set")
	}
	text, stage, err := c14RenderHostile(&prog, ident, nil, hostile)
	if conflict {
		// one prefix with two local preferences on one session: Set may legitimately refuse
		if err != nil {
			c.Count("legit-set-error-skipped")
		} else {
			c.Count("conflicting-local-pref-accepted-skipped")
		}
		return
	}
	k := &c14Checker{c: c, prog: &prog, text: text}
	if vfFRRPeerLabelCollision(&prog) {
		// ask the real FRR-mode validator whether it lets this peer set through at all
		var res config.ClusterResources
		for i, s := range prog.Sessions {
			p := metallbv1beta2.BGPPeer{}
			p.Name = fmt.Sprintf("peer%d", i)
			p.Spec.MyASN, p.Spec.ASN, p.Spec.Address, p.Spec.Interface, p.Spec.VRFName, p.Spec.RouterID = s.MyASN, s.PeerASN, s.Addr, s.Iface, s.VRF, s.RouterID
			res.Peers = append(res.Peers, p)
		}
		if err := config.DiscardNativeOnly(res); err != nil {
			c.Count("programs-with-peer-label-collision-rejected-by-validator")
			return
		}
		k.clash = true
		c.Count("programs-with-peer-label-collision")
	}
	if err != nil {
		kind := stage
		if i := strings.Index(kind, ":"); i >= 0 {
			kind = kind[:i]
		}
		k.violation("render:unexpected-error:"+kind, fmt.Sprintf("valid session set refused at %s: %v", stage, err), nil)
		return
	}
	c.Count("programs")
	if c.WantSample() {
		c.Sample(map[string]any{"program": prog, "text_bytes": len(text)})
	}
	cfg := vfFRRParse(text)
	k.cfg = cfg
	for _, e := range cfg.Errors {
		if strings.Contains(e, "used before remote-as") {
			// a statement for a neighbor the router never declares: FRR refuses it ("% Specify remote-as or
			// peer-group commands first"), whatever the rest of the text says the parameter is not on its neighbor
			k.violation("text:statement-for-undeclared-neighbor", "the generated text carries a neighbor statement whose neighbor is never declared with remote-as: "+e, map[string]any{"excerpt": vfFRRExcerpt(text)})
			return
		}
	}
	if len(cfg.Unknown) > 0 || len(cfg.Errors) > 0 {
		c.Inconclusive(fmt.Sprintf("interpreter cannot judge the text: unknown=%v errors=%v", cfg.Unknown, cfg.Errors))
		c.Logf("text:\n%s", text)
		return
	}

	// ---- routers and what they originate
	type rkey struct {
		asn uint32
		vrf string
	}
	wantRouters := map[rkey][]*vfFRRSessSpec{}
	var rorder []rkey
	for i := range prog.Sessions {
		s := &prog.Sessions[i]
		key := rkey{s.MyASN, s.VRF}
		if _, ok := wantRouters[key]; !ok {
			rorder = append(rorder, key)
		}
		wantRouters[key] = append(wantRouters[key], s)
	}
	for _, r := range cfg.Routers {
		c.Eval()
		c.Count("comparisons")
		if _, ok := wantRouters[rkey{r.ASN, r.VRF}]; !ok {
			k.violation("router:unexpected", fmt.Sprintf("router bgp %d vrf %q was not requested", r.ASN, r.VRF), nil)
		}
	}
	var probesBase []netip.Prefix
	for _, p := range vfFRRPrefixUniverse {
		probesBase = append(probesBase, netip.MustParsePrefix(p).Masked())
	}
	for _, p := range vfFRRForeignPrefixes {
		probesBase = append(probesBase, netip.MustParsePrefix(p).Masked())
	}
	differing, disjoint := false, false
	for _, key := range rorder {
		sess := wantRouters[key]
		r := cfg.FindRouter(key.asn, key.vrf)
		c.Eval()
		c.Count("comparisons")
		if r == nil {
			k.violation("router:missing", fmt.Sprintf("no router bgp %d vrf %q in the configuration", key.asn, key.vrf), nil)
			continue
		}
		if key.vrf != "" {
			c.Count("routers-in-vrf")
		}
		// networks == union of requested prefixes
		union := map[string]bool{}
		for _, s := range sess {
			for p := range vfFRRRequested(s) {
				union[p] = true
			}
		}
		got := map[string]bool{}
		for _, v6 := range []bool{false, true} {
			for _, p := range r.Networks[v6] {
				got[p.String()] = true
			}
		}
		for _, p := range vfSortedKeys(union) {
			c.Eval()
			c.Count("comparisons")
			if !got[p] {
				k.violation("network:missing", fmt.Sprintf("router bgp %d vrf %q does not originate requested prefix %s", key.asn, key.vrf, p), nil)
			}
		}
		for _, p := range vfSortedKeys(got) {
			c.Eval()
			c.Count("comparisons")
			if !union[p] {
				k.violation("network:unrequested", fmt.Sprintf("router bgp %d vrf %q originates %s which nobody requested", key.asn, key.vrf, p), nil)
			}
		}
		if len(r.Neighbors) != len(sess) {
			k.violation("neighbor:unexpected", fmt.Sprintf("router bgp %d vrf %q has %d neighbors, %d sessions were requested", key.asn, key.vrf, len(r.Neighbors), len(sess)),
				map[string]any{"neighbors": r.NeighborOrder})
		}
		// probes: everything this router originates + the fixed universe + foreign prefixes
		probes := append([]netip.Prefix(nil), probesBase...)
		seen := map[netip.Prefix]bool{}
		for _, p := range probes {
			seen[p] = true
		}
		for _, v6 := range []bool{false, true} {
			for _, p := range r.Networks[v6] {
				if !seen[p] {
					seen[p] = true
					probes = append(probes, p)
				}
			}
		}
		for _, s := range sess {
			nb := r.FindNeighbor(s.Addr, s.Iface)
			c.Eval()
			c.Count("comparisons")
			if nb == nil {
				k.violation("neighbor:missing", fmt.Sprintf("neighbor %s is not configured", c14SessLabel(s)), map[string]any{"session": s})
				continue
			}
			if s.Iface != "" {
				c.Count("unnumbered-neighbors")
			}
			k.checkParams(s, r, nb)
			k.checkSession(s, r, nb, probes)
		}
		for i := 0; i < len(sess); i++ {
			for j := i + 1; j < len(sess); j++ {
				a, b := vfFRRRequested(sess[i]), vfFRRRequested(sess[j])
				same := len(a) == len(b)
				common := 0
				for p := range a {
					if b[p] == nil {
						same = false
					} else {
						common++
					}
				}
				if !same {
					differing = true
				}
				if len(a) > 0 && len(b) > 0 && common == 0 {
					disjoint = true
				}
			}
		}
	}
	if differing {
		c.Count("programs-2+-neighbors-differing-requests")
		c.Nontrivial(prog.Key())
	}
	if disjoint {
		c.Count("programs-2+-neighbors-disjoint-requests")
	}
	c.Distinct("programs", prog.Key())

	// ---- determinism: same text for every creation order / Set argument order, and on re-rendering
	// the first order is the identity: it re-renders the same history (map iteration order is the
	// only thing that may change), the others permute the history.
	orders := [][]int{ident}
	if n <= 3 {
		orders = append(orders, c14Perms(n)[1:]...)
	} else {
		for i := 0; i < 5; i++ {
			orders = append(orders, vfShuffled(shuf, ident))
		}
	}
	for oi, ord := range orders {
		var as *vfRand
		if oi > 0 {
			as = shuf.Fork()
		}
		t2, st2, err2 := c14Render(&prog, ord, as)
		c.Eval()
		c.Count("comparisons")
		c.Count("order-permutations-compared")
		if err2 != nil {
			k.violation("determinism:order-dependent-error", fmt.Sprintf("creation order %v fails at %s: %v (the generated order succeeded)", ord, st2, err2),
				map[string]any{"order": ord})
			continue
		}
		if t2 != text {
			sig := "determinism:text-depends-on-order"
			if oi == 0 {
				sig = "determinism:text-differs-between-identical-histories"
			}
			k.violation(sig, fmt.Sprintf("creation order %v renders a different text: %s", ord, c14FirstDiff(text, t2)),
				map[string]any{"order": ord, "other_text": vfFRRExcerpt(t2)})
		}
	}
}

func c14FirstDiff(a, b string) string {
	la, lb := strings.Split(a, "\n"), strings.Split(b, "\n")
	for i := 0; i < len(la) && i < len(lb); i++ {
		if la[i] != lb[i] {
			return fmt.Sprintf("line %d: %q vs %q", i+1, la[i], lb[i])
		}
	}
	return fmt.Sprintf("%d vs %d lines", len(la), len(lb))
}

func TestVerif_C14(t *testing.T) {
	vfMain(t, "C14", vfSizes{Quick: 1500, Thorough: 40000}, c14Rule, c14Case)
}
