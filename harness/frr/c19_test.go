//go:build verif

// C19 — FRR reload delivery (debouncer of internal/bgp/frr/config.go and generateAndReloadConfigFile).
//
// One submitter goroutine (plus, in a third of the scenarios, a concurrent "validator" goroutine that
// only sends re-apply requests, as reloadValidator does in production) feeds the real debouncer through
// its unbuffered channel; the injected reload action records what it is given. Every event is stamped
// from one counter, so the log is a total order that is consistent with real time. The verdicts are
// computed offline from the log by c19Check; wall-clock only enters as "no new event for 100 debounce
// intervals" (bounded progress), and then only with a clean starvation canary.
package frr

import (
	"encoding/json"
	"errors"
	"fmt"
	"os"
	"path/filepath"
	"reflect"
	"strconv"
	"strings"
	"sync"
	"sync/atomic"
	"testing"
	"time"

	"github.com/go-kit/log"
)

const (
	c19Debounce  = 20 * time.Millisecond
	c19Retry     = 15 * time.Millisecond
	c19Stall     = 100 * c19Debounce // bounded progress: this long without any new event = stuck
	c19Cap       = 10 * time.Second  // cap of one wait in observed-healthy time (a livelock ends here)
	c19CanaryBad = 250 * time.Millisecond
	c19Par       = 8 // debouncer scenarios run in parallel inside one case
	c19NPatterns = 127
)

// ---------------------------------------------------------------- event log

type c19Ev struct {
	S  int64  `json:"s"`            // stamp (one counter for everything)
	K  string `json:"k"`            // call | ret | astart | aend | mark
	I  int    `json:"i"`            // submission index (call/ret), apply index (astart/aend)
	C  int    `json:"c"`            // content id >= 0; -1 = request without configuration (re-apply); -3 nil given to the action; -4 altered content
	OK bool   `json:"ok,omitempty"` // aend: the reload action reported success
	T  int64  `json:"t_us"`         // µs since scenario start: information only, never decides
}

type c19App struct {
	Idx   int
	Start int64
	End   int64
	C     int
	OK    bool
}

type c19Sub struct {
	Idx  int
	Call int64
	Ret  int64
	C    int
}

type c19Snap struct {
	NEv     int
	Pending int
	MaxRet  int64
	LastCfg int
	NApp    int
	LA      c19App
}

type c19Log struct {
	mu      sync.Mutex
	ctr     atomic.Int64
	t0      time.Time
	evs     []c19Ev
	nsub    int
	napp    int
	pending int
	maxRet  int64
	lastCfg int
	la      c19App
	running atomic.Bool
}

func c19NewLog() *c19Log { return &c19Log{t0: time.Now(), lastCfg: -1} }

// add must be called with l.mu held: the stamp order is the order of the log.
func (l *c19Log) add(k string, i, c int, ok bool) int64 {
	s := l.ctr.Add(1)
	l.evs = append(l.evs, c19Ev{S: s, K: k, I: i, C: c, OK: ok, T: time.Since(l.t0).Microseconds()})
	return s
}

func (l *c19Log) call(c int) int {
	l.mu.Lock()
	defer l.mu.Unlock()
	i := l.nsub
	l.nsub++
	l.pending++
	if c >= 0 {
		l.lastCfg = c
	}
	l.add("call", i, c, false)
	return i
}

func (l *c19Log) ret(i, c int) {
	l.mu.Lock()
	defer l.mu.Unlock()
	l.pending--
	l.maxRet = l.add("ret", i, c, false)
}

func (l *c19Log) applyStart(c int) int {
	l.mu.Lock()
	defer l.mu.Unlock()
	i := l.napp
	l.napp++
	s := l.add("astart", i, c, false)
	l.la = c19App{Idx: i, Start: s, C: c}
	l.running.Store(true)
	return i
}

func (l *c19Log) applyEnd(i int, c int, ok bool) {
	l.mu.Lock()
	defer l.mu.Unlock()
	s := l.add("aend", i, c, ok)
	if l.la.Idx == i {
		l.la.End = s
		l.la.OK = ok
	}
	l.running.Store(false)
}

func (l *c19Log) mark() int64 {
	l.mu.Lock()
	defer l.mu.Unlock()
	return l.add("mark", 0, 0, false)
}

func (l *c19Log) snap() c19Snap {
	l.mu.Lock()
	defer l.mu.Unlock()
	return c19Snap{NEv: len(l.evs), Pending: l.pending, MaxRet: l.maxRet, LastCfg: l.lastCfg, NApp: l.napp, LA: l.la}
}

func (l *c19Log) events() []c19Ev {
	l.mu.Lock()
	defer l.mu.Unlock()
	return append([]c19Ev(nil), l.evs...)
}

// ---------------------------------------------------------------- scenario description

type c19Step struct {
	Kind  string `json:"kind"`   // new | same | old | reapply
	C     int    `json:"c"`      // content id, -1 for reapply
	GapUS int    `json:"gap_us"` // pause before the step; -1: wait until the reload action is running
	Class string `json:"class"`  // zero | lt | approx | gt | during
}

type c19Spec struct {
	Variant   string    `json:"variant"` // debouncer | file
	G         int       `json:"g"`       // global scenario number (decides the failure pattern)
	Pattern   string    `json:"pattern"` // outcome of the n-th attempt: F fails, S succeeds; afterwards all succeed
	Steps     []c19Step `json:"steps"`
	DelaysUS  []int     `json:"delays_us"` // duration of the n-th reload attempt (cycled)
	Validator []int     `json:"validator_gaps_us"`
	ProbeGap  int       `json:"probe_gap_us"`
	BurstLen  int       `json:"burst_len"`
	BurstGap  int       `json:"burst_gap_us"` // pause between the submissions of the burst probe (whole burst stays below half the debounce interval, else the probe is skipped)
}

// c19PatternByIndex enumerates all outcome strings over {F,S} of length 0..6 by prefix length.
func c19PatternByIndex(k int) string {
	k %= c19NPatterns
	for l := 0; l <= 6; l++ {
		if k < 1<<l {
			b := make([]byte, l)
			for j := 0; j < l; j++ {
				if k>>(l-1-j)&1 == 0 {
					b[j] = 'F'
				} else {
					b[j] = 'S'
				}
			}
			return string(b)
		}
		k -= 1 << l
	}
	return ""
}

func c19GenSpec(r *vfRand, variant string, g int) *c19Spec {
	sp := &c19Spec{Variant: variant, G: g, Pattern: c19PatternByIndex(g)}
	n := r.Range(5, 30)
	if variant == "file" {
		n = r.Range(5, 16)
	}
	next, last := 0, -1
	var hist []int
	for i := 0; i < n; i++ {
		st := c19Step{}
		x := r.Intn(100)
		switch {
		case x < 58 || (last < 0 && x < 82):
			st.Kind, st.C = "new", next
			next++
		case x < 70:
			st.Kind, st.C = "same", last
		case x < 82:
			st.Kind, st.C = "old", hist[r.Intn(len(hist))]
		default:
			st.Kind, st.C = "reapply", -1
		}
		if st.C >= 0 {
			last = st.C
			hist = append(hist, st.C)
		}
		switch y := r.Intn(100); {
		case y < 30:
			st.Class, st.GapUS = "zero", 0
		case y < 55:
			st.Class, st.GapUS = "lt", r.Range(1000, 15000)
		case y < 70:
			st.Class, st.GapUS = "approx", r.Range(18000, 22000)
		case y < 90:
			st.Class, st.GapUS = "gt", r.Range(25000, 45000)
		default:
			st.Class, st.GapUS = "during", -1
		}
		sp.Steps = append(sp.Steps, st)
	}
	for i := 0; i < 8; i++ {
		sp.DelaysUS = append(sp.DelaysUS, vfPick(r, []int{0, 300, 1500, 1500, 4000, 4000, 9000}))
	}
	if r.Chance(1, 3) {
		m := r.Range(1, 5)
		for i := 0; i < m; i++ {
			sp.Validator = append(sp.Validator, r.Range(3000, 40000))
		}
	}
	if r.Bool() {
		sp.ProbeGap = int(3 * c19Debounce / time.Microsecond)
	}
	sp.BurstLen = r.Range(2, 6)
	if r.Bool() {
		sp.BurstGap = r.Range(300, 1500)
	}
	return sp
}

func (sp *c19Spec) delay(n int) time.Duration {
	if len(sp.DelaysUS) == 0 {
		return 0
	}
	return time.Duration(sp.DelaysUS[n%len(sp.DelaysUS)]) * time.Microsecond
}

func (sp *c19Spec) fails(n int) bool { return n < len(sp.Pattern) && sp.Pattern[n] == 'F' }

// writeFails: in the file variant every third failing attempt fails in the write step (the directory of the
// configuration file is not there, as while the shared volume is not mounted yet) instead of the reload step.
func (sp *c19Spec) writeFails(n int) bool { return sp.Variant == "file" && sp.fails(n) && (sp.G+n)%3 == 0 }

// ---------------------------------------------------------------- configurations

// c19MakeConfig builds a fresh, renderable configuration whose content is a pure function of id.
func c19MakeConfig(id int) *frrConfig {
	return &frrConfig{
		Loglevel: "informational",
		Hostname: "c19-" + strconv.Itoa(id),
		Routers: []*routerConfig{{
			MyASN:        uint32(64512 + id%400),
			RouterID:     fmt.Sprintf("10.19.%d.%d", (id/250)%250, id%250+1),
			IPV4Prefixes: []string{fmt.Sprintf("172.%d.%d.%d/32", 16+(id/62500)%16, (id/250)%250, id%250+1), "192.0.2.19/32"},
			IPV6Prefixes: []string{fmt.Sprintf("2001:db8:19::%x/128", id+1)},
		}},
		ExtraConfig: fmt.Sprintf("! c19 payload %d %s\n! c19-end %d", id, strings.Repeat("x", 200+id%57), id),
	}
}

// c19Identify maps what the reload action was given back to a content id.
func c19Identify(cfg *frrConfig) int {
	if cfg == nil {
		return -3
	}
	if !strings.HasPrefix(cfg.Hostname, "c19-") {
		return -4
	}
	id, err := strconv.Atoi(cfg.Hostname[4:])
	if err != nil || id < 0 {
		return -4
	}
	if !reflect.DeepEqual(cfg, c19MakeConfig(id)) {
		return -4
	}
	return id
}

var c19RenderCache sync.Map // id -> string

func c19Rendered(id int) (string, error) {
	if v, ok := c19RenderCache.Load(id); ok {
		return v.(string), nil
	}
	s, err := templateConfig(c19MakeConfig(id))
	if err != nil {
		return "", err
	}
	c19RenderCache.Store(id, s)
	return s, nil
}

// c19FileIDs is the harness's own reading of a written file: the id on the hostname line, the id on
// the very last line (a truncated or mixed file shows different ids or none).
func c19FileIDs(content string) (head, tail int) {
	head, tail = -1, -1
	lines := strings.Split(strings.TrimRight(content, "\n"), "\n")
	for _, ln := range lines {
		if strings.HasPrefix(ln, "hostname c19-") {
			if v, err := strconv.Atoi(strings.TrimSpace(ln[len("hostname c19-"):])); err == nil {
				head = v
			}
			break
		}
	}
	if len(lines) > 0 {
		ln := lines[len(lines)-1]
		if strings.HasPrefix(ln, "! c19-end ") {
			if v, err := strconv.Atoi(strings.TrimSpace(ln[len("! c19-end "):])); err == nil {
				tail = v
			}
		}
	}
	return
}

// ---------------------------------------------------------------- probes and findings

type c19Probe struct {
	Kind   string `json:"kind"` // resubmit | burst
	From   int64  `json:"from"` // stamp taken at the idle point, before the first submission of the probe
	Mid    int64  `json:"mid"`  // resubmit: stamp taken after the pause that follows the identical resubmission
	To     int64  `json:"to"`   // stamp taken after the observation window
	Resub  int    `json:"resub"`
	Expect int    `json:"expect"` // content that must be the only one applied
	N      int    `json:"n"`      // burst length
	DurUS  int64  `json:"dur_us"` // burst: measured first call -> last return
	GapUS  int    `json:"gap_us"`
}

type c19Finding struct {
	Sig      string `json:"sig"`
	Summary  string `json:"summary"`
	Liveness bool   `json:"liveness"` // decided by bounded progress: needs a clean canary
}

type c19Stats struct {
	Subs, CfgSubs, Reapply, Identical  int
	Applies, Failed, OKApplies         int
	InflightWindows                    int // applies that started while a configuration-carrying submission was in flight
	SubDuringApply                     int // submissions called while the reload action was running
	RetryNoNewSub                      int // failed apply followed by the next apply with no submission called in between
	Coalesced                          int // burst probes (>= 2 submissions, measured < debounce/2) that produced one apply
	BurstTooSlow, ProbeNotIdle, Probes int
	DedupProbes                        int // identical resubmission from idle observed to cause no reload
	DedupInRun                         int // identical resubmissions inside the random phase
}

// c19Check is the offline oracle. It never looks at wall-clock fields except the measured burst length.
func c19Check(evs []c19Ev, probes []c19Probe) ([]c19Finding, c19Stats) {
	var fs []c19Finding
	var st c19Stats
	var subs []c19Sub
	var apps []c19App
	for _, e := range evs {
		switch e.K {
		case "call":
			subs = append(subs, c19Sub{Idx: e.I, Call: e.S, C: e.C})
		case "ret":
			if e.I < len(subs) {
				subs[e.I].Ret = e.S
			}
		case "astart":
			apps = append(apps, c19App{Idx: e.I, Start: e.S, C: e.C})
		case "aend":
			if e.I < len(apps) {
				apps[e.I].End, apps[e.I].OK = e.S, e.OK
			}
		}
	}
	add := func(sig string, live bool, format string, a ...any) {
		fs = append(fs, c19Finding{Sig: sig, Liveness: live, Summary: fmt.Sprintf(format, a...)})
	}

	// (1) every submit returns
	blocked := false
	var cfgSubs []int
	prevC := -1
	for _, s := range subs {
		st.Subs++
		if s.Ret == 0 {
			blocked = true
			add("submit:blocked", true, "submission #%d (content %d) was called at stamp %d and never returned", s.Idx, s.C, s.Call)
		}
		if s.C >= 0 {
			if s.C == prevC {
				st.Identical++
			}
			prevC = s.C
			cfgSubs = append(cfgSubs, s.Idx)
			st.CfgSubs++
		} else {
			st.Reapply++
		}
		for _, a := range apps {
			if s.Call > a.Start && (a.End == 0 || s.Call < a.End) {
				st.SubDuringApply++
				break
			}
		}
	}

	// (2) each applied configuration lies in its window; applies never go backwards
	prevPos := 0
	for ai, a := range apps {
		st.Applies++
		if a.End != 0 && !a.OK {
			st.Failed++
		}
		if a.End != 0 && a.OK {
			st.OKApplies++
		}
		if ai > 0 && !apps[ai-1].OK && apps[ai-1].End != 0 {
			quiet := true
			for _, s := range subs {
				if s.Call > apps[ai-1].Start && s.Call < a.Start {
					quiet = false
				}
			}
			if quiet {
				st.RetryNoNewSub++
			}
		}
		switch a.C {
		case -3:
			add("apply:nil-config", false, "apply #%d was given a nil configuration", a.Idx)
			continue
		case -4:
			add("apply:config-altered", false, "apply #%d was given a configuration that equals no submitted one (content altered)", a.Idx)
			continue
		}
		hi, lo := -1, -1
		for p, si := range cfgSubs {
			if subs[si].Call < a.Start {
				hi = p
			}
			if subs[si].Ret != 0 && subs[si].Ret < a.Start {
				lo = p
			}
		}
		if hi < 0 {
			add("apply:nothing-submitted", false, "apply #%d (content %d) started before any configuration was submitted", a.Idx, a.C)
			continue
		}
		if lo < 0 {
			lo = 0
		}
		if lo != hi {
			st.InflightWindows++
		}
		chosen, seen := -1, false
		for p := lo; p <= hi; p++ {
			if subs[cfgSubs[p]].C == a.C {
				seen = true
				if p >= prevPos {
					chosen = p
					break
				}
			}
		}
		if chosen >= 0 {
			prevPos = chosen
			continue
		}
		loS, hiS := subs[cfgSubs[lo]], subs[cfgSubs[hi]]
		if seen {
			add("apply:older-after-newer", false, "apply #%d (stamp %d) applied content %d, which is older than what apply #%d had already applied (submission #%d)",
				a.Idx, a.Start, a.C, a.Idx-1, cfgSubs[prevPos])
			continue
		}
		stale := false
		for p := 0; p < lo; p++ {
			if subs[cfgSubs[p]].C == a.C {
				stale = true
			}
		}
		if stale {
			add("apply:stale-config", false, "apply #%d (stamp %d) applied content %d although submission #%d (content %d) had returned before it started; newest called: #%d (content %d)",
				a.Idx, a.Start, a.C, loS.Idx, loS.C, hiS.Idx, hiS.C)
		} else {
			add("apply:unknown-config", false, "apply #%d (stamp %d) applied content %d which no submission called before it carried (window #%d..#%d)",
				a.Idx, a.Start, a.C, loS.Idx, hiS.Idx)
		}
	}

	// (3) a failed apply is followed by another apply without a new submission
	retryMissing := false
	if n := len(apps); n > 0 && apps[n-1].End != 0 && !apps[n-1].OK {
		retryMissing = true
		add("retry:missing-after-failure", true, "apply #%d (content %d) failed at stamp %d and no further apply followed", apps[n-1].Idx, apps[n-1].C, apps[n-1].End)
	}

	// (4) the last successful apply equals the last submitted configuration
	if len(cfgSubs) > 0 && !blocked && !retryMissing {
		want := subs[cfgSubs[len(cfgSubs)-1]]
		lastOK := -1
		for i, a := range apps {
			if a.End != 0 && a.OK {
				lastOK = i
			}
		}
		if lastOK < 0 {
			add("final:nothing-applied", true, "%d configurations were submitted (last: #%d content %d) and none was applied successfully", len(cfgSubs), want.Idx, want.C)
		} else if apps[lastOK].C != want.C {
			add("final:latest-not-applied", true, "last successful apply #%d has content %d, the last submitted configuration (#%d) has content %d",
				apps[lastOK].Idx, apps[lastOK].C, want.Idx, want.C)
		}
	}

	// (5) probes that start from idle
	for _, p := range probes {
		st.Probes++
		// idle at p.From: the last apply before it succeeded and ended, and every earlier submission
		// had returned before that apply started (so nothing is pending in the debouncer)
		idle := false
		var la *c19App
		for i := range apps {
			if apps[i].Start < p.From {
				la = &apps[i]
			}
		}
		if la != nil && la.End != 0 && la.End < p.From && la.OK {
			idle = true
			lastC := -1
			for _, s := range subs {
				if s.Call < p.From {
					if s.Ret == 0 || s.Ret > la.Start {
						idle = false
					}
					if s.C >= 0 {
						lastC = s.C
					}
				}
			}
			if lastC != la.C {
				idle = false
			}
			if p.Kind == "resubmit" && p.Resub != la.C {
				idle = false
			}
		}
		if !idle {
			st.ProbeNotIdle++
			continue
		}
		var in []c19App
		for _, a := range apps {
			if a.Start > p.From && a.Start < p.To {
				in = append(in, a)
			}
		}
		oks := 0
		for _, a := range in {
			if a.End != 0 && a.OK {
				oks++
			}
		}
		switch p.Kind {
		case "resubmit":
			bad := false
			for _, a := range in {
				if a.Start < p.Mid {
					bad = true
					add("dedup:identical-resubmission-reloaded", false, "from idle with content %d applied, an identical configuration was resubmitted and apply #%d (content %d) followed before anything else was submitted",
						p.Resub, a.Idx, a.C)
					break
				}
			}
			if bad {
				break
			}
			st.DedupProbes++
			for _, a := range in {
				if a.C != p.Expect {
					bad = true
					add("resubmit:unexpected-apply", false, "after resubmitting the applied content %d and then submitting %d, apply #%d carried content %d", p.Resub, p.Expect, a.Idx, a.C)
					break
				}
			}
			if !bad && oks > 1 {
				add("resubmit:extra-apply", false, "after resubmitting the applied content %d and then submitting %d once, %d successful applies followed", p.Resub, p.Expect, oks)
			}
		case "burst":
			if time.Duration(p.DurUS)*time.Microsecond >= c19Debounce/2 {
				st.BurstTooSlow++
				break
			}
			bad := false
			for _, a := range in {
				if a.C != p.Expect {
					bad = true
					add("coalesce:burst-split", false, "a burst of %d submissions from idle took %d µs (< half the debounce interval) and apply #%d carried content %d instead of the last one (%d)",
						p.N, p.DurUS, a.Idx, a.C, p.Expect)
					break
				}
			}
			if !bad && oks > 1 {
				bad = true
				add("coalesce:burst-split", false, "a burst of %d submissions from idle took %d µs (< half the debounce interval) and caused %d successful applies", p.N, p.DurUS, oks)
			}
			if !bad && oks == 1 && p.N >= 2 {
				st.Coalesced++
			}
		}
	}
	return fs, st
}

// ---------------------------------------------------------------- scenario runner

type c19Signal struct {
	called  bool
	failed  bool
	content string
	readErr string
}

type c19Scn struct {
	c       *vfCase
	sp      *c19Spec
	lg      *c19Log
	reload  chan reloadEvent
	attempt atomic.Int64
	fresh   int
	probes  []c19Probe
	stalled string // "" | submit | apply
	frozen  []c19Ev
	closed  atomic.Bool

	mu       sync.Mutex
	findings []c19Finding
	sig      c19Signal
	fileOK   int
}

func (s *c19Scn) addFinding(f c19Finding) {
	s.mu.Lock()
	s.findings = append(s.findings, f)
	s.mu.Unlock()
}

// body is the injected reload action of the plain debouncer scenarios.
func (s *c19Scn) body(cfg *frrConfig) error {
	if s.closed.Load() {
		return errors.New("c19: scenario over")
	}
	n := int(s.attempt.Add(1)) - 1
	id := c19Identify(cfg)
	ai := s.lg.applyStart(id)
	if d := s.sp.delay(n); d > 0 {
		time.Sleep(d)
	}
	fail := s.sp.fails(n)
	s.lg.applyEnd(ai, id, !fail)
	if fail {
		return errors.New("c19: injected reload failure")
	}
	return nil
}

// ---- file variant: the real generateAndReloadConfigFile with reloadConfig / configFileName overridden

var (
	c19FileCur  atomic.Pointer[c19Scn]
	c19FilePath string
)

func c19ReloadHook() error {
	s := c19FileCur.Load()
	if s == nil {
		return nil
	}
	return s.signal()
}

// signal stands for the HUP sent to the reloader: it looks at the file as the reloader would.
func (s *c19Scn) signal() error {
	n := int(s.attempt.Load()) - 1
	b, err := os.ReadFile(c19FilePath)
	if d := s.sp.delay(n); d > 0 {
		time.Sleep(d)
	}
	fail := s.sp.fails(n)
	s.mu.Lock()
	s.sig = c19Signal{called: true, failed: fail, content: string(b)}
	if err != nil {
		s.sig.readErr = err.Error()
	}
	s.mu.Unlock()
	if fail {
		if n%2 == 1 {
			// what the real reloadConfig returns while the reloader's pid file is not there yet
			return &os.PathError{Op: "open", Path: "/var/run/frr_reloader.pid", Err: os.ErrNotExist}
		}
		return errors.New("c19: injected reload failure")
	}
	return nil
}

func (s *c19Scn) fileBody(cfg *frrConfig) error {
	if s.closed.Load() || c19FileCur.Load() != s {
		return errors.New("c19: scenario over")
	}
	s.attempt.Add(1)
	id := c19Identify(cfg)
	ai := s.lg.applyStart(id)
	s.mu.Lock()
	s.sig = c19Signal{}
	s.mu.Unlock()
	wf := s.sp.writeFails(int(s.attempt.Load()) - 1)
	if wf {
		configFileName = c19FilePath + ".missing/frr.conf"
	}
	err := generateAndReloadConfigFile(cfg, log.NewNopLogger())
	configFileName = c19FilePath
	s.mu.Lock()
	sg := s.sig
	s.mu.Unlock()
	reallyOK := sg.called && !sg.failed
	s.lg.applyEnd(ai, id, reallyOK)
	s.c.Eval()
	switch {
	case wf && !sg.called && err != nil:
		s.c.Count("file-write-failures-injected")
	case wf:
		s.addFinding(c19Finding{Sig: "file:write-error-swallowed", Summary: fmt.Sprintf("apply #%d (content %d): the file could not be written (missing directory) and generateAndReloadConfigFile went on (signalled=%v, err=%v)", ai, id, sg.called, err)})
	case !sg.called && err == nil:
		s.addFinding(c19Finding{Sig: "file:reload-not-signalled", Summary: fmt.Sprintf("apply #%d (content %d) returned success without signalling the reloader", ai, id)})
	case sg.called && sg.failed && err == nil:
		s.addFinding(c19Finding{Sig: "file:reload-error-swallowed", Summary: fmt.Sprintf("apply #%d (content %d): the reload signal failed and generateAndReloadConfigFile returned nil", ai, id)})
	case sg.called && !sg.failed && err != nil:
		s.addFinding(c19Finding{Sig: "file:spurious-error", Summary: fmt.Sprintf("apply #%d (content %d): the reload signal succeeded and generateAndReloadConfigFile returned %v", ai, id, err)})
	case !sg.called && err != nil:
		s.addFinding(c19Finding{Sig: "file:write-failed", Summary: fmt.Sprintf("apply #%d (content %d): %v before the reloader was signalled", ai, id, err)})
	}
	if sg.called && id >= 0 {
		want, rerr := c19Rendered(id)
		head, tail := c19FileIDs(sg.content)
		switch {
		case sg.readErr != "":
			s.addFinding(c19Finding{Sig: "file:unreadable-at-signal", Summary: fmt.Sprintf("apply #%d: %s", ai, sg.readErr)})
		case head != id || tail != id:
			s.addFinding(c19Finding{Sig: "file:other-config-on-disk", Summary: fmt.Sprintf("apply #%d was given content %d; at signal time the file starts as content %d and ends as content %d", ai, id, head, tail)})
		case rerr != nil:
			s.addFinding(c19Finding{Sig: "file:render-error", Summary: rerr.Error()})
		case sg.content != want:
			s.addFinding(c19Finding{Sig: "file:content-differs-from-rendering", Summary: fmt.Sprintf("apply #%d (content %d): file at signal time (%d bytes) differs from the rendering of the applied configuration (%d bytes)", ai, id, len(sg.content), len(want))})
		default:
			s.mu.Lock()
			s.fileOK++
			s.mu.Unlock()
		}
	}
	return err
}

// ---- submissions

func (s *c19Scn) submit(content int) {
	i := s.lg.call(content)
	if content < 0 {
		s.reload <- reloadEvent{useOld: true} // a re-apply request carries no configuration
	} else {
		s.reload <- reloadEvent{config: c19MakeConfig(content)}
	}
	s.lg.ret(i, content)
}

// async runs the functions in goroutines and waits for them; false = no event for c19Stall.
func (s *c19Scn) async(fns ...func()) bool {
	var wg sync.WaitGroup
	for _, fn := range fns {
		if fn == nil {
			continue
		}
		wg.Add(1)
		go func(fn func()) {
			defer wg.Done()
			defer func() {
				if p := recover(); p != nil {
					s.addFinding(c19Finding{Sig: "harness:submitter-panic", Summary: fmt.Sprint(p)})
				}
			}()
			fn()
		}(fn)
	}
	done := make(chan struct{})
	go func() { wg.Wait(); close(done) }()
	w := c19NewWatch()
	tk := time.NewTicker(2 * time.Millisecond)
	defer tk.Stop()
	for {
		select {
		case <-done:
			return true
		case <-tk.C:
		}
		if w.stuck(s.lg.snap().NEv) {
			break
		}
	}
	s.stall("submit")
	// free the blocked senders so that nothing leaks, then give up on this scenario
	rel := time.After(2 * time.Second)
	for {
		select {
		case <-done:
			return false
		case <-s.reload:
		case <-rel:
			return false
		}
	}
}

// c19Watch implements "no new event for c19Stall" so that a frozen or starved test process can never
// produce the verdict: only time that this goroutine itself observed in small steps is counted. A poll
// that comes back later than c19Healthy is not counted and halves the window (we were not running, so
// the debouncer may not have been either).
type c19Watch struct {
	lastPoll time.Time
	lastN    int
	quiet    time.Duration
	total    time.Duration
}

const c19Healthy = 40 * time.Millisecond

func c19NewWatch() *c19Watch { return &c19Watch{lastPoll: time.Now(), lastN: -1} }

func (w *c19Watch) stuck(nEv int) bool {
	now := time.Now()
	dt := now.Sub(w.lastPoll)
	w.lastPoll = now
	if dt > c19Healthy {
		w.quiet /= 2
		return false
	}
	w.total += dt
	if nEv != w.lastN {
		w.lastN = nEv
		w.quiet = 0
		return false
	}
	w.quiet += dt
	return w.quiet > c19Stall || w.total > c19Cap
}

// stall freezes the evidence: whatever happens after the verdict "stuck" (the harness frees blocked
// senders by receiving from the channel itself) must not be judged.
func (s *c19Scn) stall(what string) {
	if s.stalled == "" {
		s.stalled = what
		s.frozen = s.lg.events()
	}
}

func (s *c19Scn) waitUntil(cond func(c19Snap) bool) bool {
	w := c19NewWatch()
	for {
		sn := s.lg.snap()
		if cond(sn) {
			return true
		}
		if w.stuck(sn.NEv) {
			s.stall("apply")
			return false
		}
		time.Sleep(500 * time.Microsecond)
	}
}

func c19Applied(sn c19Snap) bool {
	return sn.Pending == 0 && sn.LastCfg >= 0 && sn.NApp > 0 && sn.LA.End != 0 && sn.LA.OK && sn.LA.C == sn.LastCfg
}

// c19Idle: the last apply succeeded and every submission had returned before it started, hence the
// debouncer holds no armed timer and no unapplied configuration (a logical fact, not a timing guess).
func c19Idle(sn c19Snap) bool { return c19Applied(sn) && sn.MaxRet < sn.LA.Start }

func (s *c19Scn) nextFresh() int { s.fresh++; return s.fresh }

func (s *c19Scn) reachIdle() bool {
	for try := 0; try < 5; try++ {
		if c19Idle(s.lg.snap()) {
			return true
		}
		z := s.nextFresh()
		if !s.async(func() { s.submit(z) }) {
			return false
		}
		if !s.waitUntil(c19Applied) {
			return false
		}
	}
	if c19Idle(s.lg.snap()) {
		return true
	}
	s.c.Count("idle_not_established")
	return false
}

func (s *c19Scn) settle() { time.Sleep(2*c19Debounce + c19Retry) }

// play returns false when a sender may still be blocked on the channel (it must not be closed then).
func (s *c19Scn) play() bool {
	sp := s.sp
	submitter := func() {
		for _, st := range sp.Steps {
			if st.GapUS > 0 {
				time.Sleep(time.Duration(st.GapUS) * time.Microsecond)
			} else if st.GapUS < 0 {
				until := time.Now().Add(3 * c19Debounce)
				for !s.lg.running.Load() && time.Now().Before(until) {
					time.Sleep(100 * time.Microsecond)
				}
			}
			s.submit(st.C)
		}
	}
	var validator func()
	if len(sp.Validator) > 0 {
		validator = func() {
			for _, g := range sp.Validator {
				time.Sleep(time.Duration(g) * time.Microsecond)
				s.submit(-1)
			}
		}
	}
	if !s.async(submitter, validator) {
		return s.lg.snap().Pending == 0
	}
	if s.lg.snap().LastCfg < 0 {
		s.settle() // only re-apply requests: nothing may ever be applied
		return true
	}
	if !s.waitUntil(c19Applied) {
		return true
	}

	// probe 1: resubmit the applied configuration, then a new one
	if !s.reachIdle() {
		return s.lg.snap().Pending == 0
	}
	p := c19Probe{Kind: "resubmit", Resub: s.lg.snap().LastCfg, GapUS: sp.ProbeGap}
	p.From = s.lg.mark()
	p.Expect = s.nextFresh()
	if !s.async(func() {
		s.submit(p.Resub)
		if sp.ProbeGap > 0 {
			time.Sleep(time.Duration(sp.ProbeGap) * time.Microsecond)
		}
		p.Mid = s.lg.mark()
		s.submit(p.Expect)
	}) {
		return s.lg.snap().Pending == 0
	}
	if !s.waitUntil(c19Applied) {
		return true
	}
	s.settle()
	p.To = s.lg.mark()
	s.probes = append(s.probes, p)

	// probe 2: a burst from idle
	if !s.reachIdle() {
		return s.lg.snap().Pending == 0
	}
	b := c19Probe{Kind: "burst", N: sp.BurstLen}
	ids := make([]int, sp.BurstLen)
	for i := range ids {
		ids[i] = s.nextFresh()
	}
	b.Expect = ids[len(ids)-1]
	b.From = s.lg.mark()
	if !s.async(func() {
		t0 := time.Now()
		for i, id := range ids {
			if i > 0 && sp.BurstGap > 0 {
				time.Sleep(time.Duration(sp.BurstGap) * time.Microsecond)
			}
			s.submit(id)
		}
		b.DurUS = time.Since(t0).Microseconds()
	}) {
		return s.lg.snap().Pending == 0
	}
	if !s.waitUntil(c19Applied) {
		return true
	}
	s.settle()
	b.To = s.lg.mark()
	s.probes = append(s.probes, b)
	return true
}

func c19RunScenario(c *vfCase, sp *c19Spec, can *vfCanary) {
	s := &c19Scn{c: c, sp: sp, lg: c19NewLog(), reload: make(chan reloadEvent), fresh: 100000}
	defer func() {
		if p := recover(); p != nil {
			c.Violation("harness:runner-panic", fmt.Sprint(p), map[string]any{"spec": sp})
		}
	}()
	body := s.body
	if sp.Variant == "file" {
		c19FileCur.Store(s)
		defer c19FileCur.Store(nil)
		body = s.fileBody
	}
	debouncer(body, s.reload, c19Debounce, c19Retry, log.NewNopLogger())
	safe := s.play()
	s.closed.Store(true)
	if safe {
		close(s.reload)
	}
	if sp.Variant == "file" {
		// the debouncer goroutine may still be inside the last reload action
		for i := 0; i < 2000 && s.lg.running.Load(); i++ {
			time.Sleep(time.Millisecond)
		}
	}
	c19Judge(c, s, can)
}

func c19Judge(c *vfCase, s *c19Scn, can *vfCanary) {
	evs := s.lg.events()
	if s.stalled != "" {
		evs = s.frozen
	}
	fs, st := c19Check(evs, s.probes)
	s.mu.Lock()
	fs = append(fs, s.findings...)
	fileOK := s.fileOK
	s.mu.Unlock()
	sp := s.sp

	c.Count("scenarios:" + sp.Variant)
	c.CountN("submissions", st.Subs)
	c.CountN("submissions_with_config", st.CfgSubs)
	c.CountN("reapply_requests", st.Reapply)
	c.CountN("identical_resubmissions", st.Identical)
	c.CountN("applies", st.Applies)
	c.CountN("failed_applies", st.Failed)
	c.CountN("coalesced_bursts", st.Coalesced)
	c.CountN("submissions_during_apply", st.SubDuringApply)
	c.CountN("applies_with_submission_in_flight", st.InflightWindows)
	c.CountN("retries_without_new_submission", st.RetryNoNewSub)
	c.CountN("dedup_probes_no_reload", st.DedupProbes)
	c.CountN("burst_too_slow", st.BurstTooSlow)
	c.CountN("probe_not_idle", st.ProbeNotIdle)
	c.CountN("probes", st.Probes)
	if sp.Variant == "file" {
		c.CountN("file_checked_at_signal", fileOK)
	}
	c.EvalN(st.Applies + st.Probes + st.Subs + 2)
	c.Distinct("failure_pattern", sp.Pattern)
	if st.Failed > 0 || st.Coalesced > 0 || st.SubDuringApply > 0 {
		c.Nontrivial(sp.Variant + "|" + vfJSON(sp))
	}
	if c.WantSample() {
		c.Sample(map[string]any{"spec": sp, "stats": st, "events": len(evs)})
	}

	if len(fs) == 0 {
		return
	}
	dirty := can.MaxGap() > c19CanaryBad
	detail := map[string]any{"spec": sp, "events": evs, "probes": s.probes, "findings": fs, "stalled": s.stalled,
		"canary_max_gap_ms": can.MaxGap().Milliseconds()}
	seen := map[string]bool{}
	for _, f := range fs {
		if seen[f.Sig] {
			continue
		}
		seen[f.Sig] = true
		if f.Liveness && dirty {
			c.Inconclusive(fmt.Sprintf("%s undecided: starvation canary saw a %v gap (%s)", f.Sig, can.MaxGap(), f.Summary))
			continue
		}
		c.Violation(f.Sig, fmt.Sprintf("[%s pattern=%q] %s", sp.Variant, sp.Pattern, f.Summary), detail)
	}
}

// c19Recheck re-evaluates the history recorded in a replay file with the offline oracle. The result only
// goes to the trace: what decides a replay is the re-execution of the case on the current tree.
func c19Recheck(c *vfCase) {
	path := os.Getenv("VERIF_REPLAY_FILE")
	if path == "" {
		return
	}
	b, err := os.ReadFile(path)
	if err != nil {
		return
	}
	var rp struct {
		Detail struct {
			Spec   c19Spec    `json:"spec"`
			Events []c19Ev    `json:"events"`
			Probes []c19Probe `json:"probes"`
		} `json:"detail"`
	}
	if json.Unmarshal(b, &rp) != nil || len(rp.Detail.Events) == 0 || rp.Detail.Spec.Variant == "frrk8s" {
		return
	}
	fs, _ := c19Check(rp.Detail.Events, rp.Detail.Probes)
	for _, f := range fs {
		c.Logf("recorded history re-checked offline: %s: %s", f.Sig, f.Summary)
	}
}

func TestVerif_C19(t *testing.T) {
	dir, err := os.MkdirTemp("", "c19-frr-")
	if err != nil {
		t.Fatal(err)
	}
	defer os.RemoveAll(dir)
	// package variables of config.go, set once before any debouncer goroutine exists
	os.Unsetenv("FRR_CONFIG_FILE")
	c19FilePath = filepath.Join(dir, "frr.conf")
	configFileName = c19FilePath
	reloadConfig = c19ReloadHook

	can := vfStartCanary()
	defer can.Stop()
	shard, nshards := vfEnvInt("VERIF_SHARD", 0), vfEnvInt("VERIF_NSHARDS", 1)

	vfMain(t, "C19", vfSizes{Quick: 8, Thorough: 75},
		"scenario (failure pattern x submission script) in which a reload failed, a burst was coalesced, or a submission arrived while the reload action was running",
		func(c *vfCase) {
			if c.Replaying {
				c19Recheck(c)
			}
			can.Reset()
			var specs []*c19Spec
			for k := 0; k < c19Par; k++ {
				g := (c.Idx*c19Par+k)*nshards + shard
				specs = append(specs, c19GenSpec(c.R.Fork(), "debouncer", g))
			}
			fg := c.Idx*nshards + shard
			specs = append(specs, c19GenSpec(c.R.Fork(), "file", fg*5+3)) // stride co-prime with 127
			var wg sync.WaitGroup
			for _, sp := range specs {
				wg.Add(1)
				go func(sp *c19Spec) {
					defer wg.Done()
					c19RunScenario(c, sp, can)
				}(sp)
			}
			wg.Wait()
		})
}
