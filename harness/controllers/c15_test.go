//go:build verif

// C15 (reconciler side) — the FRRConfiguration resource that ends up in the API is the one the frr-k8s session
// manager asked for, whatever was stored under that name before.
//
// The real FRRK8sReconciler runs against a fake client that already holds an object `metallb-<node>`: absent,
// equal to the desired one, or differing from it in exactly one place (node selector empty / naming another
// node, a raw section, a router number, a neighbor dropped or added, its password, a BFD profile, the advertised
// prefixes). After Reconcile the stored spec must equal the desired spec (semantic equality), the desired
// configuration kept by the reconciler must be untouched (also with debug logging, where it is dumped), and a
// second Reconcile must write nothing.
package controllers

import (
	"context"
	"fmt"
	"testing"

	"github.com/go-kit/log"
	frrv1beta1 "github.com/metallb/frr-k8s/api/v1beta1"
	frrk8s "go.universe.tf/metallb/internal/bgp/frrk8s"
	"go.universe.tf/metallb/internal/logging"
	apiequality "k8s.io/apimachinery/pkg/api/equality"
	metav1 "k8s.io/apimachinery/pkg/apis/meta/v1"
	"k8s.io/apimachinery/pkg/runtime"
	"k8s.io/apimachinery/pkg/types"
	ctrl "sigs.k8s.io/controller-runtime"
	"sigs.k8s.io/controller-runtime/pkg/client"
	"sigs.k8s.io/controller-runtime/pkg/client/fake"
	"sigs.k8s.io/controller-runtime/pkg/client/interceptor"
)

const (
	c15Node = "node-c15"
	c15NS   = "frr-k8s-system"
)

func c15Desired(r *vfRand) *frrv1beta1.FRRConfiguration {
	d := &frrv1beta1.FRRConfiguration{
		ObjectMeta: metav1.ObjectMeta{Name: frrk8s.ConfigName(c15Node), Namespace: c15NS},
		Spec: frrv1beta1.FRRConfigurationSpec{
			NodeSelector: metav1.LabelSelector{MatchLabels: map[string]string{"kubernetes.io/hostname": c15Node}},
		},
	}
	nr := r.Range(1, 2)
	for i := 0; i < nr; i++ {
		rt := frrv1beta1.Router{ASN: uint32(64512 + r.Intn(4)), ID: fmt.Sprintf("10.15.0.%d", 1+r.Intn(4))}
		if i == 1 {
			rt.VRF = "red"
		}
		nn := r.Range(0, 3)
		for j := 0; j < nn; j++ {
			n := frrv1beta1.Neighbor{ASN: uint32(64600 + r.Intn(3)), Address: fmt.Sprintf("10.15.%d.%d", i+1, j+1)}
			if r.Bool() {
				n.Password = vfPick(r, []string{"secret", "hunter2"})
			}
			if r.Bool() {
				n.BFDProfile = "fast"
			}
			np := r.Range(0, 3)
			for k := 0; k < np; k++ {
				p := fmt.Sprintf("192.0.2.%d/32", 1+r.Intn(6))
				n.ToAdvertise.Allowed.Prefixes = append(n.ToAdvertise.Allowed.Prefixes, p)
				if r.Bool() {
					n.ToAdvertise.PrefixesWithLocalPref = append(n.ToAdvertise.PrefixesWithLocalPref, frrv1beta1.LocalPrefPrefixes{Prefixes: []string{p}, LocalPref: uint32(100 * (1 + r.Intn(3)))})
				}
				if r.Bool() {
					n.ToAdvertise.PrefixesWithCommunity = append(n.ToAdvertise.PrefixesWithCommunity, frrv1beta1.CommunityPrefixes{Prefixes: []string{p}, Community: vfPick(r, []string{"65000:1", "65000:2", "large:65000:1:2"})})
				}
				rt.Prefixes = append(rt.Prefixes, p)
			}
			rt.Neighbors = append(rt.Neighbors, n)
		}
		d.Spec.BGP.Routers = append(d.Spec.BGP.Routers, rt)
	}
	if r.Bool() {
		d.Spec.BGP.BFDProfiles = append(d.Spec.BGP.BFDProfiles, frrv1beta1.BFDProfile{Name: "fast"})
	}
	return d
}

var c15StaleKinds = []string{"absent", "equal", "selector-empty", "selector-other-node", "raw-section", "router-asn", "neighbor-dropped", "neighbor-added",
	"neighbor-password", "bfd-profile", "prefixes", "selector-empty+raw"}

func c15Stale(r *vfRand, d *frrv1beta1.FRRConfiguration, kind string) *frrv1beta1.FRRConfiguration {
	if kind == "absent" {
		return nil
	}
	s := d.DeepCopy()
	s.Labels = map[string]string{"left-by": "someone"}
	rt := &s.Spec.BGP.Routers[r.Intn(len(s.Spec.BGP.Routers))]
	switch kind {
	case "selector-empty", "selector-empty+raw":
		s.Spec.NodeSelector = metav1.LabelSelector{} // selects every node
		if kind == "selector-empty+raw" {
			s.Spec.Raw = frrv1beta1.RawConfig{Priority: 3, Config: "router bgp 64512\n neighbor 10.99.0.1 remote-as 64999\n"}
		}
	case "selector-other-node":
		s.Spec.NodeSelector = metav1.LabelSelector{MatchLabels: map[string]string{"kubernetes.io/hostname": "another-node"}}
	case "raw-section":
		s.Spec.Raw = frrv1beta1.RawConfig{Priority: 3, Config: "router bgp 64512\n neighbor 10.99.0.1 remote-as 64999\n"}
	case "router-asn":
		rt.ASN += 7
	case "neighbor-dropped":
		if len(rt.Neighbors) > 0 {
			rt.Neighbors = rt.Neighbors[1:]
		} else {
			rt.ASN += 7
		}
	case "neighbor-added":
		rt.Neighbors = append(rt.Neighbors, frrv1beta1.Neighbor{ASN: 64999, Address: "10.99.0.1"})
	case "neighbor-password":
		if len(rt.Neighbors) > 0 {
			rt.Neighbors[0].Password = "<retracted>"
		} else {
			rt.ID = "10.15.9.9"
		}
	case "bfd-profile":
		s.Spec.BGP.BFDProfiles = append(s.Spec.BGP.BFDProfiles, frrv1beta1.BFDProfile{Name: "left-over"})
	case "prefixes":
		rt.Prefixes = append(rt.Prefixes, "198.51.100.0/24")
	}
	return s
}

func TestVerif_C15R(t *testing.T) {
	rule := "the real FRRK8sReconciler against a fake API that already stores metallb-<node> in one of 12 states (absent, equal, one difference inside or outside spec.bgp) x generated desired configurations x info/debug logging; " +
		"non-trivial = distinct (stale state, shape of the desired configuration, log level) whose stored result was compared"
	vfMain(t, "C15", vfSizes{Quick: 1200, Thorough: 20000}, rule, func(c *vfCase) {
		r := c.R
		desired := c15Desired(r)
		kind := c15StaleKinds[c.Idx%len(c15StaleKinds)]
		stale := c15Stale(r, desired, kind)
		debug := r.Bool()
		scheme := runtime.NewScheme()
		if err := frrv1beta1.AddToScheme(scheme); err != nil {
			c.Violation("harness:scheme", err.Error(), nil)
			return
		}
		writes := 0
		b := fake.NewClientBuilder().WithScheme(scheme).WithInterceptorFuncs(interceptor.Funcs{
			Create: func(ctx context.Context, cl client.WithWatch, obj client.Object, opts ...client.CreateOption) error {
				writes++
				return cl.Create(ctx, obj, opts...)
			},
			Update: func(ctx context.Context, cl client.WithWatch, obj client.Object, opts ...client.UpdateOption) error {
				writes++
				return cl.Update(ctx, obj, opts...)
			},
		})
		if stale != nil {
			b = b.WithObjects(stale)
		}
		cl := b.Build()
		rec := &FRRK8sReconciler{Client: cl, Logger: log.NewNopLogger(), LogLevel: logging.LevelInfo, NodeName: c15Node, FRRK8sNamespace: c15NS}
		if debug {
			rec.LogLevel = logging.LevelDebug
		}
		rec.desiredConfiguration = desired.DeepCopy()
		req := ctrl.Request{NamespacedName: types.NamespacedName{Namespace: c15NS, Name: desired.Name}}
		shape := fmt.Sprintf("%s|routers=%d|bfd=%d|debug=%v", kind, len(desired.Spec.BGP.Routers), len(desired.Spec.BGP.BFDProfiles), debug)
		for round := 1; round <= 2; round++ {
			w0 := writes
			if _, err := rec.Reconcile(context.Background(), req); err != nil {
				c.Violation("reconciler:error", fmt.Sprintf("Reconcile #%d over a %q object failed: %v", round, kind, err), nil)
				return
			}
			c.Eval()
			c.Count("reconciles:" + kind)
			if !apiequality.Semantic.DeepEqual(rec.desiredConfiguration.Spec, desired.Spec) {
				c.Violation("reconciler:desired-configuration-mutated", fmt.Sprintf("Reconcile #%d (debug=%v) changed the configuration it keeps applying: %s", round, debug, vfJSON(rec.desiredConfiguration.Spec)), map[string]any{"desired": desired.Spec})
				return
			}
			var got frrv1beta1.FRRConfiguration
			if err := cl.Get(context.Background(), req.NamespacedName, &got); err != nil {
				c.Violation("reconciler:resource-missing", fmt.Sprintf("after Reconcile #%d over a %q object: %v", round, kind, err), nil)
				return
			}
			if !apiequality.Semantic.DeepEqual(got.Spec, desired.Spec) {
				where := "spec.bgp"
				if apiequality.Semantic.DeepEqual(got.Spec.BGP, desired.Spec.BGP) {
					where = "outside spec.bgp (node selector / raw section)"
				}
				c.Violation("reconciler:stored-resource-differs-from-desired:"+kind, fmt.Sprintf("after Reconcile #%d the stored FRRConfiguration differs from the desired one in %s: stored %s", round, where, vfJSON(got.Spec)),
					map[string]any{"desired": desired.Spec, "stale_kind": kind})
				return
			}
			if round == 2 && writes != w0 {
				c.Violation("reconciler:write-without-change", fmt.Sprintf("the second Reconcile over an up-to-date object wrote %d times", writes-w0), nil)
				return
			}
		}
		c.Nontrivial(shape)
	})
}
