//go:build verif

// C18 — configuration loading is deterministic and independent of listing order.
//
// (a) toConfig is called on generated resource snapshots in every permutation of the pools (<= 120)
//     combined with seeded shuffles of every other listed kind, and 20 times on the identical
//     snapshot. Oracle: reflect.DeepEqual of the returned values (the comparison the reconcilers
//     use themselves) and identical acceptance. A small reflective diff names the field that differs.
// (b) the real ConfigReconciler / PoolReconciler are driven by a fake client whose List returns the
//     items in a fresh random order on every call; on an unchanged store (and after events that
//     cannot change the configuration) the Handler must run exactly once per distinct snapshot.
package controllers

import (
	"context"
	"fmt"
	"reflect"
	"sort"
	"strings"
	"sync"
	"testing"
	"time"

	"github.com/go-kit/log"
	metallbv1beta1 "go.universe.tf/metallb/api/v1beta1"
	metallbv1beta2 "go.universe.tf/metallb/api/v1beta2"
	"go.universe.tf/metallb/internal/config"
	corev1 "k8s.io/api/core/v1"
	apierrors "k8s.io/apimachinery/pkg/api/errors"
	metav1 "k8s.io/apimachinery/pkg/apis/meta/v1"
	"k8s.io/apimachinery/pkg/labels"
	"k8s.io/apimachinery/pkg/runtime/schema"
	"k8s.io/apimachinery/pkg/types"
	"k8s.io/utils/ptr"
	ctrl "sigs.k8s.io/controller-runtime"
	"sigs.k8s.io/controller-runtime/pkg/client"
)

const c18NS = "metallb-system"

// ---------------------------------------------------------------- snapshot generator

type c18Snap struct {
	Res      config.ClusterResources
	Mode     string // validator: none | frr | native
	HotNS    string
	Tags     []string
	fresh    int // counter for blocks / names never used before (phase mutations)
}

func c18Validator(mode string) config.Validate {
	switch mode {
	case "frr":
		return config.DiscardNativeOnly
	case "native":
		return config.DiscardFRROnly
	}
	return config.DontValidate
}

type c18Gen struct {
	r    *vfRand
	tags map[string]bool
}

func (g *c18Gen) tag(s string) { g.tags[s] = true }

// names returns n distinct names in an order unrelated to their sort order.
func (g *c18Gen) names(prefix string, n int) []string {
	pal := []string{"alpha", "bravo", "charlie", "delta", "echo", "foxtrot", "golf", "hotel", "india"}
	if g.r.Chance(1, 4) {
		// names that differ only by zero padding / by a trailing number ("natural" orderings tie or invert them)
		pal = []string{"1", "01", "10", "2", "007", "07", "7", "010", "a1"}
	}
	vfShuffle(g.r, pal)
	out := make([]string, n)
	for i := range out {
		out[i] = prefix + pal[i]
	}
	return out
}

func (g *c18Gen) nodeSelectors() []metav1.LabelSelector {
	r := g.r
	var out []metav1.LabelSelector
	seen := map[string]bool{}
	n := vfPick(r, []int{0, 0, 1, 1, 2})
	for i := 0; i < n; i++ {
		var s metav1.LabelSelector
		switch r.Intn(4) {
		case 0:
			s = metav1.LabelSelector{MatchLabels: map[string]string{"zone": vfPick(r, []string{"a", "b", "c"})}}
		case 1:
			s = metav1.LabelSelector{MatchLabels: map[string]string{"rack": vfPick(r, []string{"1", "2"})}}
		case 2:
			// values written in a non-sorted order on purpose
			s = metav1.LabelSelector{MatchExpressions: []metav1.LabelSelectorRequirement{{
				Key: "zone", Operator: vfPick(r, []metav1.LabelSelectorOperator{metav1.LabelSelectorOpIn, metav1.LabelSelectorOpNotIn}),
				Values: vfPick(r, [][]string{{"c", "a"}, {"b", "a"}, {"c", "b", "a"}, {"a"}})}}}
		default:
			s = metav1.LabelSelector{MatchLabels: map[string]string{"zone": vfPick(r, []string{"a", "b"}), "rack": vfPick(r, []string{"1", "2"})}}
		}
		if k := s.String(); !seen[k] { // a duplicated selector is a (deterministic) rejection; keep those rare
			seen[k] = true
			out = append(out, s)
		}
	}
	return out
}

func (g *c18Gen) poolSelectors() []metav1.LabelSelector {
	r := g.r
	switch r.Intn(6) {
	case 0:
		return []metav1.LabelSelector{{MatchLabels: map[string]string{"tier": vfPick(r, []string{"x", "y"})}}}
	case 1:
		return []metav1.LabelSelector{{MatchExpressions: []metav1.LabelSelectorRequirement{{Key: "tier", Operator: metav1.LabelSelectorOpExists}}}}
	case 2:
		return []metav1.LabelSelector{
			{MatchLabels: map[string]string{"tier": "x"}},
			{MatchExpressions: []metav1.LabelSelectorRequirement{{Key: "tier", Operator: metav1.LabelSelectorOpIn, Values: []string{"y", "x"}}}},
		}
	}
	return nil
}

func (g *c18Gen) addresses(block int, native bool) []string {
	r := g.r
	var out []string
	switch r.Intn(4) {
	case 0:
		out = append(out, fmt.Sprintf("10.1.%d.0/28", block))
	case 1:
		out = append(out, fmt.Sprintf("10.1.%d.16-10.1.%d.40", block, block))
	case 2:
		out = append(out, fmt.Sprintf("10.1.%d.0/28", block), fmt.Sprintf("10.1.%d.64/27", block))
	default:
		out = append(out, fmt.Sprintf("10.1.%d.128/26", block))
	}
	if !native && r.Chance(1, 3) {
		if r.Bool() {
			out = append(out, fmt.Sprintf("fc00:0:%d::/124", block))
		} else {
			out = append(out, fmt.Sprintf("fc00:0:%d::10-fc00:0:%d::2f", block, block))
		}
		g.tag("dual-stack-pool")
	}
	return out
}

func (g *c18Gen) snapshot() *c18Snap {
	r := g.r
	g.tags = map[string]bool{}
	s := &c18Snap{fresh: 100}
	s.Mode = vfPick(r, []string{"none", "none", "none", "frr", "frr", "frr", "native"})
	native := s.Mode == "native"
	var res config.ClusterResources
	meta := func(name string) metav1.ObjectMeta {
		return metav1.ObjectMeta{Name: name, Namespace: c18NS, ResourceVersion: fmt.Sprint(r.Range(1, 99999))}
	}

	// namespaces (cluster scoped)
	nsNames := g.names("ns-", r.Range(3, 5))
	s.HotNS = nsNames[0]
	for i, n := range nsNames {
		ns := corev1.Namespace{ObjectMeta: metav1.ObjectMeta{Name: n}}
		ns.Labels = map[string]string{"team": vfPick(r, []string{"a", "b"}), "env": vfPick(r, []string{"prod", "dev"})}
		if i == 0 || r.Chance(1, 4) {
			ns.Labels["hot"] = "yes"
		}
		res.Namespaces = append(res.Namespaces, ns)
	}

	// nodes (cluster scoped)
	nodeNames := g.names("node-", r.Range(3, 5))
	for i, n := range nodeNames {
		nd := corev1.Node{ObjectMeta: metav1.ObjectMeta{Name: n}}
		nd.Labels = map[string]string{"zone": vfPick(r, []string{"a", "b", "c"})}
		if r.Chance(2, 3) {
			nd.Labels["rack"] = vfPick(r, []string{"1", "2"})
		}
		addr := fmt.Sprintf("10.2.0.%d", i+1)
		if r.Chance(1, 40) {
			addr = "10.1.1.5" // may lie inside a pool: rejected whatever the order
			g.tag("node-ip-maybe-in-pool")
		}
		nd.Status.Addresses = []corev1.NodeAddress{{Type: corev1.NodeInternalIP, Address: addr}}
		if r.Chance(1, 3) {
			nd.Status.Addresses = append(nd.Status.Addresses, corev1.NodeAddress{Type: corev1.NodeInternalIP, Address: fmt.Sprintf("fd00::%d", i+1)})
		}
		res.Nodes = append(res.Nodes, nd)
	}

	// BFD profiles
	var bfdNames []string
	if !native {
		bfdNames = g.names("bfd-", r.Range(3, 5))
		for _, n := range bfdNames {
			b := metallbv1beta1.BFDProfile{ObjectMeta: meta(n)}
			if r.Bool() {
				b.Spec.ReceiveInterval = ptr.To(uint32(r.Range(10, 400)))
			}
			if r.Bool() {
				b.Spec.TransmitInterval = ptr.To(uint32(r.Range(10, 400)))
			}
			if r.Bool() {
				b.Spec.DetectMultiplier = ptr.To(uint32(r.Range(2, 10)))
			}
			if r.Chance(1, 3) {
				b.Spec.MinimumTTL = ptr.To(uint32(r.Range(1, 254)))
			}
			if r.Chance(1, 3) {
				b.Spec.PassiveMode = ptr.To(r.Bool())
			}
			if r.Chance(1, 8) {
				b.Spec.EchoMode = ptr.To(true) // rejected together with an IPv6 pool advertised to that peer
				b.Spec.EchoInterval = ptr.To(uint32(50))
				g.tag("bfd-echo")
			}
			res.BFDProfiles = append(res.BFDProfiles, b)
		}
	}

	// password secrets
	secNames := g.names("sec-", r.Range(3, 5))
	res.PasswordSecrets = map[string]corev1.Secret{}
	for _, n := range secNames {
		sec := corev1.Secret{ObjectMeta: meta(n), Type: corev1.SecretTypeBasicAuth,
			Data: map[string][]byte{"password": []byte("pw-" + n)}}
		if r.Chance(1, 40) {
			sec.Type = corev1.SecretTypeOpaque
			g.tag("secret-wrong-type")
		}
		res.PasswordSecrets[n] = sec
	}

	// peers
	peerNames := g.names("peer-", r.Range(3, 5))
	routerID := vfPick(r, []string{"", "10.9.9.9"})
	for i, n := range peerNames {
		p := metallbv1beta2.BGPPeer{ObjectMeta: meta(n)}
		p.Spec.MyASN = 64512
		p.Spec.ASN = uint32(64513 + i)
		p.Spec.Address = fmt.Sprintf("10.9.0.%d", i+1)
		p.Spec.RouterID = routerID
		p.Spec.NodeSelectors = g.nodeSelectors()
		if r.Chance(1, 3) {
			p.Spec.Port = uint16(r.Range(179, 190))
		}
		if r.Chance(1, 3) {
			p.Spec.HoldTime = &metav1.Duration{Duration: time.Duration(r.Range(3, 90)) * time.Second}
		}
		if r.Chance(1, 3) {
			p.Spec.EBGPMultiHop = true
		}
		switch r.Intn(4) {
		case 0:
			p.Spec.Password = "inline-" + n
		case 1:
			p.Spec.PasswordSecret = corev1.SecretReference{Name: vfPick(r, secNames), Namespace: c18NS}
			if r.Chance(1, 80) {
				p.Spec.PasswordSecret.Name = "sec-ghost"
				g.tag("secret-missing")
			}
		}
		if !native {
			if r.Chance(1, 2) {
				p.Spec.BFDProfile = vfPick(r, bfdNames)
				if r.Chance(1, 80) {
					p.Spec.BFDProfile = "bfd-ghost"
					g.tag("bfd-missing")
				}
			}
			if r.Chance(1, 4) {
				p.Spec.KeepaliveTime = &metav1.Duration{Duration: time.Duration(r.Range(1, 3)) * time.Second}
				if p.Spec.HoldTime == nil {
					p.Spec.HoldTime = &metav1.Duration{Duration: 30 * time.Second}
				}
			}
			if r.Chance(1, 5) {
				p.Spec.ConnectTime = &metav1.Duration{Duration: time.Duration(r.Range(1, 30)) * time.Second}
			}
			if r.Chance(1, 3) {
				p.Spec.VRFName = "red"
				// one local AS per VRF (the FRR-mode validator demands it); sometimes a conflicting one
				p.Spec.MyASN = 64600
			}
			if r.Chance(1, 12) {
				p.Spec.MyASN = 64700
				g.tag("my-asn-conflict")
			}
			if r.Chance(1, 6) {
				p.Spec.ASN = 0
				p.Spec.DynamicASN = vfPick(r, []metallbv1beta2.DynamicASNMode{metallbv1beta2.InternalASNMode, metallbv1beta2.ExternalASNMode})
				p.Spec.EBGPMultiHop = false
			}
			if r.Chance(1, 6) {
				p.Spec.EnableGracefulRestart = true
			}
			if r.Chance(1, 8) {
				p.Spec.DisableMP = true
			}
		}
		res.Peers = append(res.Peers, p)
	}

	// communities
	comNames := g.names("com-", r.Range(3, 5))
	var aliases []string
	for i, n := range comNames {
		cm := metallbv1beta1.Community{ObjectMeta: meta(n)}
		k := r.Range(1, 2)
		for j := 0; j < k; j++ {
			a := metallbv1beta1.CommunityAlias{Name: fmt.Sprintf("al-%s-%d", n, j), Value: fmt.Sprintf("65000:%d", 100+10*i+j)}
			if !native && r.Chance(1, 4) {
				a.Value = fmt.Sprintf("large:64512:%d:%d", i+1, j+1)
			}
			if len(aliases) > 0 && r.Chance(1, 200) {
				a.Name = aliases[0] // duplicate alias: rejected whatever the order
				g.tag("duplicate-community-alias")
			}
			aliases = append(aliases, a.Name)
			cm.Spec.Communities = append(cm.Spec.Communities, a)
		}
		res.Communities = append(res.Communities, cm)
	}

	// pools
	poolNames := g.names("pool-", r.Range(3, 5))
	blocks := r.Intn(4) // first block number; later pools use consecutive blocks
	for i, n := range poolNames {
		p := metallbv1beta1.IPAddressPool{ObjectMeta: meta(n)}
		if r.Chance(3, 4) {
			p.Labels = map[string]string{"tier": vfPick(r, []string{"x", "y"})}
		}
		blk := blocks + i
		if i > 0 && r.Chance(1, 60) {
			blk = blocks // same block as the first pool: may overlap -> rejected whatever the order
			g.tag("pool-overlap-maybe")
		}
		p.Spec.Addresses = g.addresses(blk, native)
		if blk == blocks && i > 0 && r.Bool() {
			p.Spec.Addresses = []string{fmt.Sprintf("10.1.%d.0/24", blk)} // contains the first pool without sharing its base address
		}
		p.Spec.AvoidBuggyIPs = r.Chance(1, 4)
		if r.Chance(1, 4) {
			p.Spec.AutoAssign = ptr.To(r.Bool())
		}
		p.Status.AssignedIPv4 = int64(r.Intn(4))
		kind := vfPick(r, []int{0, 1, 2, 2, 2, 3, 4, 4, 5, 6, 7})
		switch {
		case i == 0, i == 1 && r.Chance(2, 3):
			kind = 1 // pinned by name to the hot namespace
		case i == 1, i == 2 && r.Chance(3, 4):
			kind = 2 // reaches the hot namespace through a namespace selector
		}
		switch kind {
		case 0: // unpinned
		case 1:
			a := &metallbv1beta1.ServiceAllocation{Priority: r.Intn(4), Namespaces: []string{s.HotNS}}
			for _, o := range nsNames[1:] {
				if r.Chance(1, 3) {
					a.Namespaces = append(a.Namespaces, o)
				}
			}
			vfShuffle(r, a.Namespaces)
			if r.Chance(1, 3) {
				a.ServiceSelectors = []metav1.LabelSelector{{MatchLabels: map[string]string{"app": vfPick(r, []string{"web", "db"})}}}
			}
			p.Spec.AllocateTo = a
		case 2:
			a := &metallbv1beta1.ServiceAllocation{Priority: r.Intn(4)}
			a.NamespaceSelectors = []metav1.LabelSelector{{MatchLabels: map[string]string{"hot": "yes"}}}
			if r.Chance(1, 2) {
				a.NamespaceSelectors = append(a.NamespaceSelectors, metav1.LabelSelector{MatchExpressions: []metav1.LabelSelectorRequirement{{
					Key: "team", Operator: metav1.LabelSelectorOpIn, Values: vfPick(r, [][]string{{"b", "a"}, {"a"}, {"b"}})}}})
			}
			p.Spec.AllocateTo = a
		case 3:
			p.Spec.AllocateTo = &metallbv1beta1.ServiceAllocation{Priority: r.Intn(4),
				NamespaceSelectors: []metav1.LabelSelector{{MatchLabels: map[string]string{"env": vfPick(r, []string{"prod", "dev", "none"})}}}}
		case 4:
			p.Spec.AllocateTo = &metallbv1beta1.ServiceAllocation{Priority: r.Intn(4),
				ServiceSelectors: []metav1.LabelSelector{
					{MatchLabels: map[string]string{"app": vfPick(r, []string{"web", "db"})}},
					{MatchExpressions: []metav1.LabelSelectorRequirement{{Key: "exposure", Operator: metav1.LabelSelectorOpIn, Values: []string{"public", "dmz"}}}},
				}}
		case 5:
			p.Spec.AllocateTo = &metallbv1beta1.ServiceAllocation{Priority: r.Intn(4),
				Namespaces:         []string{vfPick(r, nsNames)},
				NamespaceSelectors: []metav1.LabelSelector{{MatchLabels: map[string]string{"team": vfPick(r, []string{"a", "b"})}}},
				ServiceSelectors:   []metav1.LabelSelector{{MatchLabels: map[string]string{"app": "web"}}}}
		case 6:
			p.Spec.AllocateTo = &metallbv1beta1.ServiceAllocation{Priority: r.Intn(4)} // matches everything
		default: // unpinned
		}
		res.Pools = append(res.Pools, p)
	}

	// L2 advertisements selecting overlapping pool sets
	for _, n := range g.names("l2-", r.Range(3, 5)) {
		a := metallbv1beta1.L2Advertisement{ObjectMeta: meta(n)}
		if !r.Chance(1, 5) { // otherwise: no selector at all = every pool
			a.Spec.IPAddressPools = vfSubset(r, poolNames, 1, 2)
			if r.Chance(1, 8) {
				a.Spec.IPAddressPools = append(a.Spec.IPAddressPools, "pool-ghost")
			}
			vfShuffle(r, a.Spec.IPAddressPools)
			a.Spec.IPAddressPoolSelectors = g.poolSelectors()
		}
		a.Spec.NodeSelectors = g.nodeSelectors()
		if r.Chance(1, 2) {
			a.Spec.Interfaces = vfShuffled(r, vfSubset(r, []string{"eth0", "eth1", "eth2"}, 1, 2))
		}
		res.L2Advs = append(res.L2Advs, a)
	}

	// BGP advertisements selecting overlapping pool sets
	lp := vfPick(r, []uint32{0, 100})
	for _, n := range g.names("adv-", r.Range(3, 5)) {
		a := metallbv1beta1.BGPAdvertisement{ObjectMeta: meta(n)}
		if !r.Chance(1, 5) {
			a.Spec.IPAddressPools = vfSubset(r, poolNames, 1, 2)
			if r.Chance(1, 8) {
				a.Spec.IPAddressPools = append(a.Spec.IPAddressPools, "pool-ghost")
			}
			vfShuffle(r, a.Spec.IPAddressPools)
			a.Spec.IPAddressPoolSelectors = g.poolSelectors()
		}
		a.Spec.NodeSelectors = g.nodeSelectors()
		a.Spec.LocalPref = lp
		if r.Chance(1, 30) {
			a.Spec.LocalPref = lp + 50 // may collide with another advertisement of the same pool -> rejected
			g.tag("localpref-differs")
		}
		if r.Chance(1, 3) {
			a.Spec.AggregationLength = ptr.To(int32(vfPick(r, []int{32, 32, 32, 32, 32, 30, 30, 30, 30, 30, 28, 28, 28, 28, 28, 28, 28, 28, 28, 24})))
		}
		if r.Chance(1, 4) {
			a.Spec.AggregationLengthV6 = ptr.To(int32(vfPick(r, []int{128, 126, 124})))
		}
		if r.Chance(1, 2) {
			a.Spec.Peers = vfShuffled(r, vfSubset(r, peerNames, 1, 2))
		}
		if r.Chance(1, 2) {
			for _, al := range vfSubset(r, aliases, 1, 4) {
				dup := false
				for _, x := range a.Spec.Communities {
					dup = dup || x == al
				}
				if !dup {
					a.Spec.Communities = append(a.Spec.Communities, al)
				}
			}
			if r.Chance(1, 3) {
				a.Spec.Communities = append(a.Spec.Communities, "65000:999")
			}
		}
		res.BGPAdvs = append(res.BGPAdvs, a)
	}

	if !native && r.Chance(1, 4) {
		res.BGPExtras = corev1.ConfigMap{ObjectMeta: meta(bgpExtrasConfigName), Data: map[string]string{"extras": "! extra line " + fmt.Sprint(r.Intn(100))}}
		g.tag("bgp-extras")
	}

	s.Res = res
	s.Tags = vfSortedKeys(g.tags)
	return s
}

// ---------------------------------------------------------------- copies, orders, permutations

func c18CopyRes(in config.ClusterResources) config.ClusterResources {
	var out config.ClusterResources
	for i := range in.Pools {
		out.Pools = append(out.Pools, *in.Pools[i].DeepCopy())
	}
	for i := range in.Peers {
		out.Peers = append(out.Peers, *in.Peers[i].DeepCopy())
	}
	for i := range in.BFDProfiles {
		out.BFDProfiles = append(out.BFDProfiles, *in.BFDProfiles[i].DeepCopy())
	}
	for i := range in.BGPAdvs {
		out.BGPAdvs = append(out.BGPAdvs, *in.BGPAdvs[i].DeepCopy())
	}
	for i := range in.L2Advs {
		out.L2Advs = append(out.L2Advs, *in.L2Advs[i].DeepCopy())
	}
	for i := range in.Communities {
		out.Communities = append(out.Communities, *in.Communities[i].DeepCopy())
	}
	for i := range in.Nodes {
		out.Nodes = append(out.Nodes, *in.Nodes[i].DeepCopy())
	}
	for i := range in.Namespaces {
		out.Namespaces = append(out.Namespaces, *in.Namespaces[i].DeepCopy())
	}
	if in.PasswordSecrets != nil {
		out.PasswordSecrets = map[string]corev1.Secret{}
		for k, v := range in.PasswordSecrets {
			out.PasswordSecrets[k] = *v.DeepCopy()
		}
	}
	out.BGPExtras = *in.BGPExtras.DeepCopy()
	return out
}

// c18Ordered returns a deep copy of res with the pools in the order given by perm and, when r is not
// nil, every other listed kind shuffled.
func c18Ordered(res config.ClusterResources, perm []int, r *vfRand) config.ClusterResources {
	out := c18CopyRes(res)
	if perm != nil {
		pools := make([]metallbv1beta1.IPAddressPool, len(out.Pools))
		for i, j := range perm {
			pools[i] = out.Pools[j]
		}
		out.Pools = pools
	}
	if r != nil {
		vfShuffle(r, out.Peers)
		vfShuffle(r, out.BFDProfiles)
		vfShuffle(r, out.BGPAdvs)
		vfShuffle(r, out.L2Advs)
		vfShuffle(r, out.Communities)
		vfShuffle(r, out.Nodes)
		vfShuffle(r, out.Namespaces)
	}
	return out
}

func c18OrderNames(res config.ClusterResources) map[string][]string {
	m := map[string][]string{}
	for _, o := range res.Pools {
		m["pools"] = append(m["pools"], o.Name)
	}
	for _, o := range res.Peers {
		m["peers"] = append(m["peers"], o.Name)
	}
	for _, o := range res.BFDProfiles {
		m["bfdprofiles"] = append(m["bfdprofiles"], o.Name)
	}
	for _, o := range res.BGPAdvs {
		m["bgpadvs"] = append(m["bgpadvs"], o.Name)
	}
	for _, o := range res.L2Advs {
		m["l2advs"] = append(m["l2advs"], o.Name)
	}
	for _, o := range res.Communities {
		m["communities"] = append(m["communities"], o.Name)
	}
	for _, o := range res.Nodes {
		m["nodes"] = append(m["nodes"], o.Name)
	}
	for _, o := range res.Namespaces {
		m["namespaces"] = append(m["namespaces"], o.Name)
	}
	return m
}

// c18Perms returns all permutations of 0..n-1 in lexicographic order (identity first).
func c18Perms(n int) [][]int {
	cur := make([]int, n)
	for i := range cur {
		cur[i] = i
	}
	var out [][]int
	for {
		out = append(out, append([]int(nil), cur...))
		i := n - 2
		for i >= 0 && cur[i] >= cur[i+1] {
			i--
		}
		if i < 0 {
			return out
		}
		j := n - 1
		for cur[j] <= cur[i] {
			j--
		}
		cur[i], cur[j] = cur[j], cur[i]
		for a, b := i+1, n-1; a < b; a, b = a+1, b-1 {
			cur[a], cur[b] = cur[b], cur[a]
		}
	}
}

// ---------------------------------------------------------------- reflective diff

// c18Delta is one place where two configurations differ. Norm is the path with keys and indexes
// blanked (used in signatures), Path the concrete one.
type c18Delta struct {
	Norm string `json:"class"`
	Path string `json:"path"`
	What string `json:"what"`
}

func c18Render(v reflect.Value, depth int) string {
	if !v.IsValid() {
		return "<invalid>"
	}
	if depth > 3 {
		return "…"
	}
	switch v.Kind() {
	case reflect.String:
		return v.String()
	case reflect.Bool:
		return fmt.Sprint(v.Bool())
	case reflect.Int, reflect.Int8, reflect.Int16, reflect.Int32, reflect.Int64:
		return fmt.Sprint(v.Int())
	case reflect.Uint, reflect.Uint8, reflect.Uint16, reflect.Uint32, reflect.Uint64, reflect.Uintptr:
		return fmt.Sprint(v.Uint())
	case reflect.Float32, reflect.Float64:
		return fmt.Sprint(v.Float())
	case reflect.Ptr, reflect.Interface:
		if v.IsNil() {
			return "nil"
		}
		return c18Render(v.Elem(), depth)
	case reflect.Struct:
		if f := v.FieldByName("Name"); f.IsValid() && f.Kind() == reflect.String && f.String() != "" {
			return f.String()
		}
		var parts []string
		for i := 0; i < v.NumField(); i++ {
			parts = append(parts, c18Render(v.Field(i), depth+1))
		}
		return "{" + strings.Join(parts, " ") + "}"
	case reflect.Slice, reflect.Array:
		if v.Kind() == reflect.Slice && v.IsNil() {
			return "nil"
		}
		var parts []string
		for i := 0; i < v.Len() && i < 8; i++ {
			parts = append(parts, c18Render(v.Index(i), depth+1))
		}
		return "[" + strings.Join(parts, " ") + "]"
	case reflect.Map:
		if v.IsNil() {
			return "nil"
		}
		var parts []string
		for _, k := range v.MapKeys() {
			parts = append(parts, c18Render(k, depth+1)+":"+c18Render(v.MapIndex(k), depth+1))
		}
		sort.Strings(parts)
		return "map[" + strings.Join(parts, " ") + "]"
	}
	return "<" + v.Kind().String() + ">"
}

func c18Join(base, field string) string {
	if base == "" {
		return field
	}
	return base + "." + field
}

type c18Differ struct {
	out   []c18Delta
	limit int
}

func (d *c18Differ) add(norm, path, what string) {
	if len(d.out) < d.limit {
		d.out = append(d.out, c18Delta{Norm: norm, Path: path, What: what})
	}
}

func (d *c18Differ) full() bool { return len(d.out) >= d.limit }

func c18Same(a, b reflect.Value) bool {
	d := &c18Differ{limit: 1}
	d.walk(a, b, "", "")
	return len(d.out) == 0
}

// walk mirrors the rules of reflect.DeepEqual (nil and empty slices / maps are different, element
// order of slices matters) and records where the two values part.
func (d *c18Differ) walk(a, b reflect.Value, norm, path string) {
	if d.full() {
		return
	}
	if !a.IsValid() || !b.IsValid() {
		if a.IsValid() != b.IsValid() {
			d.add(norm, path, "one side missing")
		}
		return
	}
	if a.Type() != b.Type() {
		d.add(norm+":type", path, fmt.Sprintf("type %s vs %s", a.Type(), b.Type()))
		return
	}
	switch a.Kind() {
	case reflect.Ptr, reflect.Interface:
		if a.IsNil() || b.IsNil() {
			if a.IsNil() != b.IsNil() {
				d.add(norm+":nil", path, fmt.Sprintf("%s vs %s", c18Render(a, 0), c18Render(b, 0)))
			}
			return
		}
		d.walk(a.Elem(), b.Elem(), norm, path)
	case reflect.Struct:
		for i := 0; i < a.NumField(); i++ {
			n := a.Type().Field(i).Name
			d.walk(a.Field(i), b.Field(i), c18Join(norm, n), c18Join(path, n))
		}
	case reflect.Slice, reflect.Array:
		if a.Kind() == reflect.Slice && a.IsNil() != b.IsNil() {
			d.add(norm+":nil-vs-empty", path, fmt.Sprintf("%s vs %s", c18Render(a, 0), c18Render(b, 0)))
			return
		}
		if a.Len() != b.Len() {
			d.add(norm+":length", path, fmt.Sprintf("%s vs %s", c18Render(a, 0), c18Render(b, 0)))
			return
		}
		switch a.Type().Elem().Kind() {
		case reflect.Ptr, reflect.Interface, reflect.Struct, reflect.String, reflect.Slice, reflect.Map:
			// Elements that merely moved are reported as an order difference of the slice; only
			// elements that changed in place are looked into.
			n := a.Len()
			var unequal []int
			for i := 0; i < n; i++ {
				if !c18Same(a.Index(i), b.Index(i)) {
					unequal = append(unequal, i)
				}
			}
			if len(unequal) == 0 {
				return
			}
			used := make([]bool, n)
			matched := 0
			for i := 0; i < n; i++ {
				for j := 0; j < n; j++ {
					if !used[j] && c18Same(a.Index(i), b.Index(j)) {
						used[j] = true
						matched++
						break
					}
				}
			}
			if matched == n {
				d.add(norm+":order", path, fmt.Sprintf("same elements, other order: %s vs %s", c18Render(a, 0), c18Render(b, 0)))
				return
			}
			if matched > n-len(unequal) { // some unequal positions hold elements that exist elsewhere on the other side
				d.add(norm+":order-and-elements", path, fmt.Sprintf("elements moved and changed: %s vs %s", c18Render(a, 0), c18Render(b, 0)))
				return
			}
			for _, i := range unequal {
				d.walk(a.Index(i), b.Index(i), norm+"[*]", fmt.Sprintf("%s[%d]", path, i))
			}
			return
		}
		for i := 0; i < a.Len(); i++ {
			d.walk(a.Index(i), b.Index(i), norm+"[*]", fmt.Sprintf("%s[%d]", path, i))
		}
	case reflect.Map:
		if a.IsNil() != b.IsNil() {
			d.add(norm+":nil-vs-empty", path, fmt.Sprintf("%s vs %s", c18Render(a, 0), c18Render(b, 0)))
			return
		}
		keys := a.MapKeys()
		sort.Slice(keys, func(i, j int) bool { return c18Render(keys[i], 0) < c18Render(keys[j], 0) })
		if a.Len() != b.Len() {
			d.add(norm+":keys", path, fmt.Sprintf("%d vs %d keys", a.Len(), b.Len()))
			return
		}
		for _, k := range keys {
			bv := b.MapIndex(k)
			if !bv.IsValid() {
				d.add(norm+":keys", path, fmt.Sprintf("key %s only on one side", c18Render(k, 0)))
				continue
			}
			d.walk(a.MapIndex(k), bv, norm+"[*]", fmt.Sprintf("%s[%s]", path, c18Render(k, 0)))
		}
	case reflect.Func:
		if !(a.IsNil() && b.IsNil()) {
			d.add(norm+":func", path, "functions are never deeply equal")
		}
	case reflect.Bool:
		if a.Bool() != b.Bool() {
			d.add(norm, path, fmt.Sprintf("%v vs %v", a.Bool(), b.Bool()))
		}
	case reflect.Int, reflect.Int8, reflect.Int16, reflect.Int32, reflect.Int64:
		if a.Int() != b.Int() {
			d.add(norm, path, fmt.Sprintf("%d vs %d", a.Int(), b.Int()))
		}
	case reflect.Uint, reflect.Uint8, reflect.Uint16, reflect.Uint32, reflect.Uint64, reflect.Uintptr:
		if a.Uint() != b.Uint() {
			d.add(norm, path, fmt.Sprintf("%d vs %d", a.Uint(), b.Uint()))
		}
	case reflect.Float32, reflect.Float64:
		if a.Float() != b.Float() {
			d.add(norm, path, fmt.Sprintf("%v vs %v", a.Float(), b.Float()))
		}
	case reflect.Complex64, reflect.Complex128:
		if a.Complex() != b.Complex() {
			d.add(norm, path, "complex values differ")
		}
	case reflect.String:
		if a.String() != b.String() {
			d.add(norm, path, fmt.Sprintf("%q vs %q", a.String(), b.String()))
		}
	default:
		d.add(norm+":unhandled-kind", path, a.Kind().String())
	}
}

// c18Diff lists where two values differ (at most 24 places); classes are the distinct Norm paths.
func c18Diff(a, b any) []c18Delta {
	d := &c18Differ{limit: 24}
	d.walk(reflect.ValueOf(a), reflect.ValueOf(b), "", "")
	return d.out
}

func c18Classes(ds []c18Delta) []string {
	seen := map[string]bool{}
	var out []string
	for _, x := range ds {
		if !seen[x.Norm] {
			seen[x.Norm] = true
			out = append(out, x.Norm)
		}
	}
	return out
}

func c18FirstOf(ds []c18Delta, class string) c18Delta {
	for _, x := range ds {
		if x.Norm == class {
			return x
		}
	}
	return c18Delta{}
}

// ---------------------------------------------------------------- (a) toConfig over orders and repetitions

type c18Outcome struct {
	cfg *config.Config
	err error
}

func c18Load(res config.ClusterResources, mode string) c18Outcome {
	cfg, err := toConfig(res, c18Validator(mode))
	if err != nil {
		cfg = nil
	}
	return c18Outcome{cfg, err}
}

func c18ErrText(err error) string {
	if err == nil {
		return "accepted"
	}
	return "rejected: " + err.Error()
}

func c18Detail(s *c18Snap, extra map[string]any) map[string]any {
	m := map[string]any{"validator": s.Mode, "resources": s.Res, "tags": s.Tags}
	for k, v := range extra {
		m[k] = v
	}
	return m
}

const c18Repetitions = 20

func c18CheckOrders(c *vfCase, s *c18Snap) (accepted bool) {
	ref := c18Load(c18Ordered(s.Res, nil, nil), s.Mode)
	accepted = ref.err == nil
	reported := map[string]bool{}
	report := func(sig, summary string, extra map[string]any) {
		if reported[sig] {
			return
		}
		reported[sig] = true
		c.Violation(sig, summary, c18Detail(s, extra))
	}

	// repetitions of the identical snapshot (identical order, fresh deep copy each time)
	unstable := map[string]bool{}
	for i := 1; i < c18Repetitions; i++ {
		got := c18Load(c18Ordered(s.Res, nil, nil), s.Mode)
		c.Eval()
		c.Count("repetitions-compared")
		if (got.err == nil) != accepted {
			report("acceptance-differs:repetition", fmt.Sprintf("the identical snapshot was once %s and once %s", c18ErrText(ref.err), c18ErrText(got.err)), nil)
			continue
		}
		if !accepted || reflect.DeepEqual(ref.cfg, got.cfg) {
			continue
		}
		c.Count("repetitions-differing")
		ds := c18Diff(ref.cfg, got.cfg)
		if len(ds) == 0 {
			report("value-differs:repetition:unlocated", "reflect.DeepEqual reports a difference between two loads of the identical snapshot that the field walk could not locate", nil)
		}
		for _, cl := range c18Classes(ds) {
			unstable[cl] = true
			d := c18FirstOf(ds, cl)
			report("value-differs:repetition:"+cl, fmt.Sprintf("two loads of the identical snapshot (same order) differ at %s: %s", d.Path, d.What), map[string]any{"differences": ds})
		}
	}

	// the same in-memory snapshot loaded twice (no copy in between): a loader that rewrites what it is
	// given (sorting a list of the resources in place, say) makes the second value differ from the first
	{
		shared := c18Ordered(s.Res, nil, nil)
		pristine := c18CopyRes(shared)
		a := c18Load(shared, s.Mode)
		b := c18Load(shared, s.Mode)
		c.Eval()
		c.Count("same-object-loaded-twice")
		switch {
		case (a.err == nil) != (b.err == nil):
			report("acceptance-differs:same-snapshot-object-loaded-twice", fmt.Sprintf("one snapshot object was once %s and once %s", c18ErrText(a.err), c18ErrText(b.err)), nil)
		case a.err == nil && !reflect.DeepEqual(a.cfg, b.cfg):
			ds := c18Diff(a.cfg, b.cfg)
			where := "(unlocated)"
			if len(ds) > 0 {
				where = ds[0].Path + ": " + ds[0].What
			}
			report("value-differs:same-snapshot-object-loaded-twice", "two loads of one in-memory snapshot differ at "+where, map[string]any{"differences": ds})
		}
		if !reflect.DeepEqual(shared, pristine) {
			// not a verdict: the statement is about the computed value; today's loader does sort selector
			// values of the resources in place and still computes equal values
			c.Count("loads-that-rewrote-their-input")
		}
	}

	// the parser itself (config.For, as the admission webhook's validator calls it, without the sorting
	// toConfig does first): its verdict on the snapshot as generated
	_, rawErr := config.For(c18CopyRes(c18Ordered(s.Res, nil, nil)), c18Validator(s.Mode))
	rawAccepted := rawErr == nil

	// every permutation of the pools x a seeded shuffle of every other listed kind
	perms := c18Perms(len(s.Res.Pools))
	rechecks := 0
	for pi, perm := range perms {
		in := c18Ordered(s.Res, perm, c.R.Fork())
		order := c18OrderNames(in)
		if pi < 24 {
			_, e2 := config.For(c18CopyRes(in), c18Validator(s.Mode))
			c.Eval()
			c.Count("parser-verdicts-compared")
			if (e2 == nil) != rawAccepted {
				report("acceptance-depends-on-order:parser", fmt.Sprintf("config.For on the generation order: %s; on listing order %v: %s", c18ErrText(rawErr), order, c18ErrText(e2)),
					map[string]any{"order": order, "permutation": pi})
			}
		}
		got := c18Load(c18CopyRes(in), s.Mode)
		c.Eval()
		c.Count("permutations-compared")
		if (got.err == nil) != accepted {
			report("acceptance-depends-on-order", fmt.Sprintf("generation order: %s; listing order %v: %s", c18ErrText(ref.err), order, c18ErrText(got.err)),
				map[string]any{"order": order, "permutation": pi})
			continue
		}
		if !accepted || reflect.DeepEqual(ref.cfg, got.cfg) {
			continue
		}
		c.Count("permutations-differing")
		ds := c18Diff(ref.cfg, got.cfg)
		if len(ds) == 0 {
			report("value-differs:permutation:unlocated", "reflect.DeepEqual reports a difference between two listing orders that the field walk could not locate", map[string]any{"order": order})
			continue
		}
		classes := c18Classes(ds)
		fresh := false
		for _, cl := range classes {
			if !unstable[cl] && !reported["value-differs:permutation:"+cl] {
				fresh = true
			}
		}
		if !fresh {
			continue
		}
		// Is the difference caused by the order, or is the result unstable even for this very order?
		if rechecks < 4 {
			rechecks++
			for k := 0; k < 12; k++ {
				again := c18Load(c18CopyRes(in), s.Mode)
				c.Count("order-rechecks")
				if again.err != nil || got.err != nil {
					continue
				}
				for _, cl := range c18Classes(c18Diff(got.cfg, again.cfg)) {
					unstable[cl] = true
				}
			}
		}
		for _, cl := range classes {
			d := c18FirstOf(ds, cl)
			if unstable[cl] {
				report("value-differs:repetition:"+cl, fmt.Sprintf("loads of one snapshot in one order differ at %s: %s", d.Path, d.What), map[string]any{"differences": ds, "order": order})
				continue
			}
			report("value-differs:permutation:"+cl, fmt.Sprintf("listing order %v gives another value than the generation order at %s: %s", order, d.Path, d.What),
				map[string]any{"differences": ds, "order": order, "permutation": pi})
		}
	}
	return accepted
}

// ---------------------------------------------------------------- (b) fake client and reconcilers

// c18Client is the minimal client.Client the two reconcilers need: List (items deep-copied and
// returned in a fresh random order on every call, as an informer cache gives no order) and Get (the
// bgpextras ConfigMap). Every other method panics through the nil embedded interface.
type c18Client struct {
	client.Client
	mu    sync.Mutex
	r     *vfRand
	res   config.ClusterResources
	lists int
	gets  int
}

func c18Fill[T any](f *c18Client, ns string, namespaced bool, src []T, nsOf func(*T) string, cp func(*T) *T) []T {
	out := make([]T, 0, len(src))
	for i := range src {
		if namespaced && ns != "" && nsOf(&src[i]) != ns {
			continue
		}
		out = append(out, *cp(&src[i]))
	}
	vfShuffle(f.r, out)
	return out
}

func (f *c18Client) List(_ context.Context, list client.ObjectList, opts ...client.ListOption) error {
	f.mu.Lock()
	defer f.mu.Unlock()
	f.lists++
	lo := client.ListOptions{}
	lo.ApplyOptions(opts)
	ns := lo.Namespace
	switch l := list.(type) {
	case *metallbv1beta1.IPAddressPoolList:
		l.Items = c18Fill(f, ns, true, f.res.Pools, func(o *metallbv1beta1.IPAddressPool) string { return o.Namespace }, (*metallbv1beta1.IPAddressPool).DeepCopy)
	case *metallbv1beta2.BGPPeerList:
		l.Items = c18Fill(f, ns, true, f.res.Peers, func(o *metallbv1beta2.BGPPeer) string { return o.Namespace }, (*metallbv1beta2.BGPPeer).DeepCopy)
	case *metallbv1beta1.BFDProfileList:
		l.Items = c18Fill(f, ns, true, f.res.BFDProfiles, func(o *metallbv1beta1.BFDProfile) string { return o.Namespace }, (*metallbv1beta1.BFDProfile).DeepCopy)
	case *metallbv1beta1.L2AdvertisementList:
		l.Items = c18Fill(f, ns, true, f.res.L2Advs, func(o *metallbv1beta1.L2Advertisement) string { return o.Namespace }, (*metallbv1beta1.L2Advertisement).DeepCopy)
	case *metallbv1beta1.BGPAdvertisementList:
		l.Items = c18Fill(f, ns, true, f.res.BGPAdvs, func(o *metallbv1beta1.BGPAdvertisement) string { return o.Namespace }, (*metallbv1beta1.BGPAdvertisement).DeepCopy)
	case *metallbv1beta1.CommunityList:
		l.Items = c18Fill(f, ns, true, f.res.Communities, func(o *metallbv1beta1.Community) string { return o.Namespace }, (*metallbv1beta1.Community).DeepCopy)
	case *corev1.SecretList:
		var all []corev1.Secret
		for _, k := range vfSortedKeys(f.res.PasswordSecrets) {
			all = append(all, f.res.PasswordSecrets[k])
			// the cluster also holds a Secret of the same name in another namespace (other content, other
			// type for every second one): only a listing that is not restricted to MetalLB's namespace sees it
			orig := f.res.PasswordSecrets[k]
			twin := *orig.DeepCopy()
			twin.Namespace = "some-other-namespace"
			twin.Data = map[string][]byte{"password": []byte("not-metallbs-" + k)}
			if len(all)%4 == 1 {
				twin.Type = corev1.SecretTypeOpaque
			}
			all = append(all, twin)
		}
		l.Items = c18Fill(f, ns, true, all, func(o *corev1.Secret) string { return o.Namespace }, (*corev1.Secret).DeepCopy)
	case *corev1.NodeList:
		l.Items = c18Fill(f, ns, false, f.res.Nodes, func(o *corev1.Node) string { return "" }, (*corev1.Node).DeepCopy)
	case *corev1.NamespaceList:
		l.Items = c18Fill(f, ns, false, f.res.Namespaces, func(o *corev1.Namespace) string { return "" }, (*corev1.Namespace).DeepCopy)
	default:
		return fmt.Errorf("c18Client: unexpected list type %T", list)
	}
	return nil
}

func (f *c18Client) Get(_ context.Context, key client.ObjectKey, obj client.Object, _ ...client.GetOption) error {
	f.mu.Lock()
	defer f.mu.Unlock()
	f.gets++
	cm, ok := obj.(*corev1.ConfigMap)
	if !ok {
		return fmt.Errorf("c18Client: unexpected get type %T", obj)
	}
	if f.res.BGPExtras.Name == "" || key.Name != f.res.BGPExtras.Name || key.Namespace != f.res.BGPExtras.Namespace {
		return apierrors.NewNotFound(schema.GroupResource{Resource: "configmaps"}, key.Name)
	}
	f.res.BGPExtras.DeepCopyInto(cm)
	return nil
}

func (f *c18Client) set(res config.ClusterResources) {
	f.mu.Lock()
	f.res = c18CopyRes(res)
	f.mu.Unlock()
}

// c18PoolView is what the PoolReconciler reads from a snapshot.
func c18PoolView(res config.ClusterResources) config.ClusterResources {
	return config.ClusterResources{Pools: res.Pools, Communities: res.Communities, Namespaces: res.Namespaces}
}

// c18MutateRelevant changes the store so that the configuration necessarily differs from every
// earlier one of this case (a never-used address block or pool name).
func c18MutateRelevant(r *vfRand, s *c18Snap) string {
	s.fresh++
	if r.Bool() || len(s.Res.Pools) == 0 {
		p := metallbv1beta1.IPAddressPool{ObjectMeta: metav1.ObjectMeta{Name: fmt.Sprintf("pool-new-%d", s.fresh), Namespace: c18NS}}
		p.Spec.Addresses = []string{fmt.Sprintf("10.3.%d.0/28", s.fresh)}
		if r.Bool() {
			p.Spec.AllocateTo = &metallbv1beta1.ServiceAllocation{Priority: r.Intn(3), Namespaces: []string{s.HotNS}}
		}
		s.Res.Pools = append(s.Res.Pools, p)
		return "pool added"
	}
	i := r.Intn(len(s.Res.Pools))
	s.Res.Pools[i].Spec.Addresses = []string{fmt.Sprintf("10.3.%d.0/28", s.fresh)}
	s.Res.Pools[i].Generation++
	return "pool addresses replaced"
}

// c18MutateUnrelated applies events that reach the reconcilers in production but cannot change the
// configuration: a node annotation, a pool status update, a secret no peer refers to, a bumped
// resource version.
func c18MutateUnrelated(r *vfRand, s *c18Snap) string {
	s.fresh++
	switch r.Intn(4) {
	case 0:
		if len(s.Res.Nodes) > 0 {
			n := &s.Res.Nodes[r.Intn(len(s.Res.Nodes))]
			if n.Annotations == nil {
				n.Annotations = map[string]string{}
			}
			n.Annotations["heartbeat"] = fmt.Sprint(s.fresh)
			return "node annotation"
		}
	case 1:
		if len(s.Res.Pools) > 0 {
			p := &s.Res.Pools[r.Intn(len(s.Res.Pools))]
			p.Status.AssignedIPv4++
			p.Status.AvailableIPv4--
			return "pool status"
		}
	case 2:
		if s.Res.PasswordSecrets == nil {
			s.Res.PasswordSecrets = map[string]corev1.Secret{}
		}
		n := fmt.Sprintf("zz-unreferenced-%d", s.fresh)
		s.Res.PasswordSecrets[n] = corev1.Secret{ObjectMeta: metav1.ObjectMeta{Name: n, Namespace: c18NS}, Type: corev1.SecretTypeOpaque,
			Data: map[string][]byte{"k": []byte("v")}}
		return "unreferenced secret"
	}
	if len(s.Res.Namespaces) > 0 {
		n := &s.Res.Namespaces[r.Intn(len(s.Res.Namespaces))]
		n.ResourceVersion = fmt.Sprint(s.fresh)
		if n.Annotations == nil {
			n.Annotations = map[string]string{}
		}
		n.Annotations["touched"] = fmt.Sprint(s.fresh)
		return "namespace annotation"
	}
	return "nothing"
}

func c18CheckReconcilers(c *vfCase, snap *c18Snap) {
	r := c.R.Fork()
	// work on a private copy: the phases mutate it
	s := &c18Snap{Res: c18CopyRes(snap.Res), Mode: snap.Mode, HotNS: snap.HotNS, Tags: snap.Tags, fresh: snap.fresh}
	store := &c18Client{r: r.Fork()}
	store.set(s.Res)

	var cfgCalls []*config.Config
	var poolCalls []*config.Pools
	cfgForce, poolForce := 0, 0
	cfgState := vfPick(r, []SyncState{SyncStateSuccess, SyncStateReprocessAll})
	poolState := vfPick(r, []SyncState{SyncStateSuccess, SyncStateReprocessAll})
	cr := &ConfigReconciler{
		Client: store, Logger: log.NewNopLogger(), Namespace: c18NS, ValidateConfig: c18Validator(s.Mode), BGPType: s.Mode,
		Handler:     func(_ log.Logger, cfg *config.Config) SyncState { cfgCalls = append(cfgCalls, cfg); return cfgState },
		ForceReload: func() { cfgForce++ },
	}
	pr := &PoolReconciler{
		Client: store, Logger: log.NewNopLogger(), Namespace: c18NS, ValidateConfig: c18Validator(s.Mode),
		Handler:     func(_ log.Logger, p *config.Pools) SyncState { poolCalls = append(poolCalls, p); return poolState },
		ForceReload: func() { poolForce++ },
	}
	reqNames := []string{"pool-alpha", "peer-bravo", "node-charlie", "some-service", "kube-root-ca.crt", bgpExtrasConfigName}
	ctx := context.Background()

	phases := []string{"initial", "unrelated", "relevant", "unrelated", "relevant"}
	for ph, kind := range phases {
		event := "initial listing"
		switch {
		case ph == 0:
		case kind == "unrelated":
			event = c18MutateUnrelated(r, s)
		default:
			event = c18MutateRelevant(r, s)
		}
		store.set(s.Res)
		wantCfg, wantPool := 0, 0
		if kind != "unrelated" {
			if c18Load(c18CopyRes(s.Res), s.Mode).err == nil {
				wantCfg = 1
			}
			if c18Load(c18CopyRes(c18PoolView(s.Res)), s.Mode).err == nil {
				wantPool = 1
			}
		}
		cfgBefore, poolBefore := len(cfgCalls), len(poolCalls)
		cfgForceBefore, poolForceBefore := cfgForce, poolForce
		n := r.Range(4, 8)
		for i := 0; i < n; i++ {
			req := ctrl.Request{NamespacedName: types.NamespacedName{Namespace: c18NS, Name: vfPick(r, reqNames)}}
			if _, err := cr.Reconcile(ctx, req); err != nil {
				c.Inconclusive(fmt.Sprintf("ConfigReconciler returned %v with a handler that never fails", err))
				return
			}
			if _, err := pr.Reconcile(ctx, req); err != nil {
				c.Inconclusive(fmt.Sprintf("PoolReconciler returned %v with a handler that never fails", err))
				return
			}
			c.CountN("reconciles", 2)
		}
		c.Count("reconcile-phases:" + kind)
		gotCfg, gotPool := len(cfgCalls)-cfgBefore, len(poolCalls)-poolBefore
		c.CountN("handler-calls", gotCfg+gotPool)
		c.CountN("handler-calls-expected", wantCfg+wantPool)
		c.EvalN(2)

		judge := func(who string, got, want, forces int, state SyncState, diff func() []c18Delta) {
			detail := map[string]any{"phase": ph, "phase_kind": kind, "event": event, "reconciles": n, "handler_calls": got, "expected": want, "reconciler": who}
			switch {
			case got > want && want == 0 && kind != "unrelated":
				c.Violation("handler-called-on-rejected:"+who, fmt.Sprintf("%s: handler called %d times for a snapshot that toConfig rejects (after: %s)", who, got, event), c18Detail(s, detail))
			case got > want:
				ds := diff()
				detail["differences"] = ds
				if len(ds) == 0 {
					c.Violation("handler-recalled:"+who+":equal-configuration", fmt.Sprintf("%s: handler called %d times (expected %d) after: %s; the delivered configurations show no difference", who, got, want, event), c18Detail(s, detail))
					break
				}
				for _, cl := range c18Classes(ds)[:1] { // the first differing field names the cause
					d := c18FirstOf(ds, cl)
					c.Violation("handler-recalled:"+who+":"+cl, fmt.Sprintf("%s: %d reconciles of an unchanged store (after: %s) called the handler %d times instead of %d; successive configurations differ at %s: %s",
						who, n, event, got, want, d.Path, d.What), c18Detail(s, detail))
				}
			case got < want:
				c.Violation("handler-not-called:"+who, fmt.Sprintf("%s: accepted and changed configuration (%s) was not delivered in %d reconciles", who, event, n), c18Detail(s, detail))
			}
			wantForces := 0
			if state == SyncStateReprocessAll {
				wantForces = got
			}
			if forces != wantForces {
				c.Violation("force-reload-count:"+who, fmt.Sprintf("%s: ForceReload ran %d times for %d handler calls answering %d", who, forces, got, int(state)), c18Detail(s, detail))
			}
		}
		judge("ConfigReconciler", gotCfg, wantCfg, cfgForce-cfgForceBefore, cfgState, func() []c18Delta {
			calls := cfgCalls[cfgBefore:]
			if cfgBefore > 0 && wantCfg == 0 {
				calls = cfgCalls[cfgBefore-1:]
			}
			var ds []c18Delta
			for i := 1; i < len(calls) && len(ds) == 0; i++ {
				ds = c18Diff(calls[i-1], calls[i])
			}
			return ds
		})
		judge("PoolReconciler", gotPool, wantPool, poolForce-poolForceBefore, poolState, func() []c18Delta {
			calls := poolCalls[poolBefore:]
			if poolBefore > 0 && wantPool == 0 {
				calls = poolCalls[poolBefore-1:]
			}
			var ds []c18Delta
			for i := 1; i < len(calls) && len(ds) == 0; i++ {
				ds = c18Diff(calls[i-1], calls[i])
			}
			// the pool reconciler compares whole configurations but hands over cfg.Pools: name the path accordingly
			for i := range ds {
				ds[i].Norm, ds[i].Path = c18Join("Pools", ds[i].Norm), c18Join("Pools", ds[i].Path)
			}
			return ds
		})
	}
}

// ---------------------------------------------------------------- entry point

// c18Reason maps a rejection to a coarse class (counters only, never part of a verdict).
func c18Reason(err error) string {
	if err == nil {
		return "none"
	}
	m := err.Error()
	for _, k := range []string{"overlaps with already defined", "contains nodeIp", "local prefer", "invalid aggregation length", "duplicate definition of community",
		"non existing bfd profile", "secret ref not found", "secret type mismatch", "bfd echo enabled", "native bgp mode", "bfd profiles section set", "FRR mode", "duplicate definition"} {
		if strings.Contains(m, k) {
			return strings.ReplaceAll(k, " ", "-")
		}
	}
	return "other"
}

func c18PinnedStats(res config.ClusterResources) (byName, bySelector, maxInOne int) {
	perNS := map[string]int{}
	nsByName := map[string]int{}
	nsBySel := map[string]int{}
	for _, p := range res.Pools {
		a := p.Spec.AllocateTo
		if a == nil {
			continue
		}
		seen := map[string]bool{}
		for _, n := range a.Namespaces {
			if !seen[n] {
				seen[n] = true
				nsByName[n]++
			}
		}
		for i := range a.NamespaceSelectors {
			sel, err := metav1.LabelSelectorAsSelector(&a.NamespaceSelectors[i])
			if err != nil {
				continue
			}
			for _, ns := range res.Namespaces {
				if sel.Matches(labels.Set(ns.Labels)) && !seen[ns.Name] {
					seen[ns.Name] = true
					nsBySel[ns.Name]++
				}
			}
		}
		for n := range seen {
			perNS[n]++
		}
	}
	for _, v := range nsByName {
		if v > byName {
			byName = v
		}
	}
	for _, v := range nsBySel {
		if v > bySelector {
			bySelector = v
		}
	}
	for _, v := range perNS {
		if v > maxInOne {
			maxInOne = v
		}
	}
	return
}

func TestVerif_C18(t *testing.T) {
	rule := "generated snapshots (3-5 objects of every listed kind, pools pinned to one namespace by name and by selector, service selectors, overlapping advertisements) loaded by toConfig in all pool permutations x shuffles of the other kinds and 20 repetitions, then reconciled repeatedly by the real ConfigReconciler/PoolReconciler over a randomly ordered List; " +
		"non-trivial = accepted snapshot with >= 3 pools of which >= 2 pinned to one namespace, distinct by resource content"
	vfMain(t, "C18", vfSizes{Quick: 320, Thorough: 2400}, rule, func(c *vfCase) {
		g := &c18Gen{r: c.R.Fork()}
		s := g.snapshot()
		res := s.Res
		c.Count("snapshots")
		min := len(res.Pools)
		for _, n := range []int{len(res.Peers), len(res.L2Advs), len(res.BGPAdvs), len(res.Communities), len(res.Nodes), len(res.Namespaces), len(res.PasswordSecrets)} {
			if n < min {
				min = n
			}
		}
		if min >= 3 {
			c.Count("snapshots-3+-objects-per-kind")
		}
		if len(res.BFDProfiles) >= 3 {
			c.Count("snapshots-3+-bfd-profiles")
		}
		byName, bySel, inOne := c18PinnedStats(res)
		if inOne >= 2 {
			c.Count("snapshots-2+-pools-one-namespace")
		}
		if byName >= 2 {
			c.Count("snapshots-2+-pools-one-namespace-by-name")
		}
		if bySel >= 2 {
			c.Count("snapshots-2+-pools-one-namespace-by-selector")
		}
		svcSel := 0
		for _, p := range res.Pools {
			if p.Spec.AllocateTo != nil && len(p.Spec.AllocateTo.ServiceSelectors) > 0 {
				svcSel++
			}
		}
		if svcSel >= 1 {
			c.Count("snapshots-with-service-selector-pools")
		}
		c.Count("validator:" + s.Mode)

		accepted := c18CheckOrders(c, s)
		if accepted {
			c.Count("snapshots-accepted")
			if inOne >= 2 {
				c.Count("accepted-2+-pools-one-namespace")
				c.Nontrivial(vfJSON(res))
			}
			if c.WantSample() {
				c.Sample(map[string]any{"validator": s.Mode, "orders": c18OrderNames(res), "hot_namespace": s.HotNS,
					"pools_pinned_to_one_namespace": inOne, "verdict": "accepted", "tags": s.Tags})
			}
		} else {
			c.Count("snapshots-rejected")
			_, err := toConfig(c18CopyRes(res), c18Validator(s.Mode))
			c.Count("rejected:" + c18Reason(err))
		}
		c.Distinct("pool-count", fmt.Sprint(len(res.Pools)))

		c18CheckReconcilers(c, s)
	})
}
