//go:build verif

// C19 — reload delivery, frr-k8s variant: FRRK8sReconciler.UpdateConfig -> debouncer of
// frrk8s_config_controller.go -> reconcile event -> FRRK8sReconciler.Reconcile -> FRRConfiguration write.
//
// The real reconciler and the real debouncer run against controller-runtime's fake client with
// injected Get/Create/Update errors. What controller-runtime does around them is modelled by the
// harness with its documented semantics: the channel source takes the events off reconcileChan, a
// de-duplicating work queue with one worker calls Reconcile, an error re-queues the key after the
// retry interval. "Submission" = UpdateConfig call/return, "apply" = a Create/Update of the
// FRRConfiguration reaching the API (ok | fail). Events are stamped from one counter and judged
// offline by c19Check (same oracle as the frr variant; this variant has no re-apply requests).
package controllers

import (
	"context"
	"encoding/json"
	"errors"
	"fmt"
	"os"
	"reflect"
	"sort"
	"strconv"
	"strings"
	"sync"
	"sync/atomic"
	"testing"
	"time"

	"github.com/go-kit/log"
	frrv1beta1 "github.com/metallb/frr-k8s/api/v1beta1"
	frrk8s "go.universe.tf/metallb/internal/bgp/frrk8s"
	"go.universe.tf/metallb/internal/logging"
	metav1 "k8s.io/apimachinery/pkg/apis/meta/v1"
	"k8s.io/apimachinery/pkg/runtime"
	"k8s.io/apimachinery/pkg/types"
	ctrl "sigs.k8s.io/controller-runtime"
	"sigs.k8s.io/controller-runtime/pkg/client"
	"sigs.k8s.io/controller-runtime/pkg/client/fake"
	"sigs.k8s.io/controller-runtime/pkg/client/interceptor"
	"sigs.k8s.io/controller-runtime/pkg/event"
)

const (
	c19Debounce  = 20 * time.Millisecond
	c19Retry     = 15 * time.Millisecond // stands for the work queue's rate-limited re-queue
	c19Stall     = 100 * c19Debounce     // bounded progress: this long without any new event = stuck
	c19Cap       = 10 * time.Second      // cap of one wait in observed-healthy time (a livelock ends here)
	c19Healthy   = 40 * time.Millisecond
	c19CanaryBad = 250 * time.Millisecond
	c19Par       = 8
	c19NPatterns = 127
	c19Node      = "c19node"
	c19Namespace = "frr-k8s-system"
)

// ---------------------------------------------------------------- event log

type c19Ev struct {
	S  int64  `json:"s"`            // stamp (one counter for everything)
	K  string `json:"k"`            // call | ret | astart | aend | out | rstart | rend | qidle | gfail | mark
	I  int    `json:"i"`            // submission index (call/ret), apply index (astart/aend), reconcile index
	C  int    `json:"c"`            // content id >= 0; -4 altered content
	OK bool   `json:"ok,omitempty"` // aend / rend
	P  int64  `json:"p,omitempty"`  // out: stamp drawn before the non-blocking receive that took the event
	T  int64  `json:"t_us"`         // µs since scenario start: information only, never decides
}

type c19App struct {
	Idx   int
	Start int64
	End   int64
	C     int
	OK    bool
}

type c19Sub struct {
	Idx  int
	Call int64
	Ret  int64
	C    int
}

type c19Snap struct {
	NEv      int
	Pending  int
	MaxRet   int64
	LastCfg  int
	Stored   int // content of the last successful write
	NApp     int
	LA       c19App
	LastOutP int64
	LastOutS int64
	LastIdle int64
}

type c19Log struct {
	mu       sync.Mutex
	ctr      atomic.Int64
	t0       time.Time
	evs      []c19Ev
	nsub     int
	napp     int
	nrec     int
	pending  int
	maxRet   int64
	lastCfg  int
	stored   int
	la       c19App
	lastOutP int64
	lastOutS int64
	lastIdle int64
	running  atomic.Bool
}

func c19NewLog() *c19Log { return &c19Log{t0: time.Now(), lastCfg: -1, stored: -1} }

// add must be called with l.mu held: the stamp order is the order of the log.
func (l *c19Log) add(k string, i, c int, ok bool, p int64) int64 {
	s := l.ctr.Add(1)
	l.evs = append(l.evs, c19Ev{S: s, K: k, I: i, C: c, OK: ok, P: p, T: time.Since(l.t0).Microseconds()})
	return s
}

func (l *c19Log) call(c int) int {
	l.mu.Lock()
	defer l.mu.Unlock()
	i := l.nsub
	l.nsub++
	l.pending++
	l.lastCfg = c
	l.add("call", i, c, false, 0)
	return i
}

func (l *c19Log) ret(i, c int) {
	l.mu.Lock()
	defer l.mu.Unlock()
	l.pending--
	l.maxRet = l.add("ret", i, c, false, 0)
}

func (l *c19Log) applyStart(c int) int {
	l.mu.Lock()
	defer l.mu.Unlock()
	i := l.napp
	l.napp++
	s := l.add("astart", i, c, false, 0)
	l.la = c19App{Idx: i, Start: s, C: c}
	l.running.Store(true)
	return i
}

func (l *c19Log) applyEnd(i int, c int, ok bool) {
	l.mu.Lock()
	defer l.mu.Unlock()
	s := l.add("aend", i, c, ok, 0)
	if l.la.Idx == i {
		l.la.End = s
		l.la.OK = ok
	}
	if ok {
		l.stored = c
	}
	l.running.Store(false)
}

func (l *c19Log) out(pre int64) {
	l.mu.Lock()
	defer l.mu.Unlock()
	l.lastOutS = l.add("out", 0, 0, false, pre)
	l.lastOutP = pre
}

func (l *c19Log) qidle() {
	l.mu.Lock()
	defer l.mu.Unlock()
	l.lastIdle = l.add("qidle", 0, 0, false, 0)
}

func (l *c19Log) recStart() int {
	l.mu.Lock()
	defer l.mu.Unlock()
	i := l.nrec
	l.nrec++
	l.add("rstart", i, 0, false, 0)
	return i
}

func (l *c19Log) simple(k string, i int, ok bool) int64 {
	l.mu.Lock()
	defer l.mu.Unlock()
	return l.add(k, i, 0, ok, 0)
}

func (l *c19Log) mark() int64 { return l.simple("mark", 0, false) }

func (l *c19Log) snap() c19Snap {
	l.mu.Lock()
	defer l.mu.Unlock()
	return c19Snap{NEv: len(l.evs), Pending: l.pending, MaxRet: l.maxRet, LastCfg: l.lastCfg, Stored: l.stored, NApp: l.napp, LA: l.la,
		LastOutP: l.lastOutP, LastOutS: l.lastOutS, LastIdle: l.lastIdle}
}

func (l *c19Log) events() []c19Ev {
	l.mu.Lock()
	defer l.mu.Unlock()
	return append([]c19Ev(nil), l.evs...)
}

// ---------------------------------------------------------------- scenario description

type c19Step struct {
	Kind  string `json:"kind"`   // new | same | old
	C     int    `json:"c"`      // content id
	GapUS int    `json:"gap_us"` // pause before the step; -1: wait until a write is in progress
	Class string `json:"class"`  // zero | lt | approx | gt | during
}

type c19Spec struct {
	Variant  string    `json:"variant"` // frrk8s
	G        int       `json:"g"`
	Pattern  string    `json:"pattern"`  // outcome of the n-th Reconcile call: F = one client operation fails, S = none
	FailOps  []string  `json:"fail_ops"` // which operation fails in a failing call: write | get1 | get2
	Steps    []c19Step `json:"steps"`
	DelaysUS []int     `json:"delays_us"` // extra duration of the n-th write (cycled)
	ProbeGap int       `json:"probe_gap_us"`
	BurstLen int       `json:"burst_len"`
	BurstGap int       `json:"burst_gap_us"`
}

func c19PatternByIndex(k int) string {
	k %= c19NPatterns
	for l := 0; l <= 6; l++ {
		if k < 1<<l {
			b := make([]byte, l)
			for j := 0; j < l; j++ {
				if k>>(l-1-j)&1 == 0 {
					b[j] = 'F'
				} else {
					b[j] = 'S'
				}
			}
			return string(b)
		}
		k -= 1 << l
	}
	return ""
}

func c19GenSpec(r *vfRand, g int) *c19Spec {
	sp := &c19Spec{Variant: "frrk8s", G: g, Pattern: c19PatternByIndex(g)}
	for range sp.Pattern {
		sp.FailOps = append(sp.FailOps, vfPick(r, []string{"write", "write", "write", "get1", "get2"}))
	}
	n := r.Range(5, 30)
	next, last := 0, -1
	var hist []int
	for i := 0; i < n; i++ {
		st := c19Step{}
		x := r.Intn(100)
		switch {
		case x < 68 || last < 0:
			st.Kind, st.C = "new", next
			next++
		case x < 84:
			st.Kind, st.C = "same", last
		default:
			st.Kind, st.C = "old", hist[r.Intn(len(hist))]
		}
		last = st.C
		hist = append(hist, st.C)
		switch y := r.Intn(100); {
		case y < 30:
			st.Class, st.GapUS = "zero", 0
		case y < 55:
			st.Class, st.GapUS = "lt", r.Range(1000, 15000)
		case y < 70:
			st.Class, st.GapUS = "approx", r.Range(18000, 22000)
		case y < 90:
			st.Class, st.GapUS = "gt", r.Range(25000, 45000)
		default:
			st.Class, st.GapUS = "during", -1
		}
		sp.Steps = append(sp.Steps, st)
	}
	for i := 0; i < 8; i++ {
		sp.DelaysUS = append(sp.DelaysUS, vfPick(r, []int{0, 300, 1500, 1500, 4000, 4000, 9000}))
	}
	if r.Bool() {
		sp.ProbeGap = int(3 * c19Debounce / time.Microsecond)
	}
	sp.BurstLen = r.Range(2, 6)
	if r.Bool() {
		sp.BurstGap = r.Range(300, 1500)
	}
	return sp
}

func (sp *c19Spec) delay(n int) time.Duration {
	if len(sp.DelaysUS) == 0 {
		return 0
	}
	return time.Duration(sp.DelaysUS[n%len(sp.DelaysUS)]) * time.Microsecond
}

// ---------------------------------------------------------------- configurations

func c19MakeConfig(id int) frrv1beta1.FRRConfiguration {
	return frrv1beta1.FRRConfiguration{
		ObjectMeta: metav1.ObjectMeta{Name: frrk8s.ConfigName(c19Node), Namespace: c19Namespace},
		Spec: frrv1beta1.FRRConfigurationSpec{
			BGP: frrv1beta1.BGPConfig{Routers: []frrv1beta1.Router{{
				ASN:      uint32(64512 + id%400),
				ID:       fmt.Sprintf("10.19.%d.%d", (id/250)%250, id%250+1),
				Prefixes: []string{fmt.Sprintf("172.%d.%d.%d/32", 16+(id/62500)%16, (id/250)%250, id%250+1), "192.0.2.19/32"},
			}}},
			Raw: frrv1beta1.RawConfig{Priority: 5, Config: "! c19 " + strconv.Itoa(id)},
		},
	}
}

func c19Identify(spec *frrv1beta1.FRRConfigurationSpec) int {
	if !strings.HasPrefix(spec.Raw.Config, "! c19 ") {
		return -4
	}
	id, err := strconv.Atoi(spec.Raw.Config[6:])
	if err != nil || id < 0 {
		return -4
	}
	want := c19MakeConfig(id)
	if !reflect.DeepEqual(*spec, want.Spec) {
		return -4
	}
	return id
}

// ---------------------------------------------------------------- probes, findings, oracle

type c19Probe struct {
	Kind   string `json:"kind"` // resubmit | burst
	From   int64  `json:"from"`
	Mid    int64  `json:"mid"`
	To     int64  `json:"to"`
	Resub  int    `json:"resub"`
	Expect int    `json:"expect"`
	N      int    `json:"n"`
	DurUS  int64  `json:"dur_us"`
	GapUS  int    `json:"gap_us"`
}

type c19Finding struct {
	Sig      string `json:"sig"`
	Summary  string `json:"summary"`
	Liveness bool   `json:"liveness"`
}

type c19Stats struct {
	Subs, Identical                    int
	Applies, Failed, OKApplies         int
	InflightWindows                    int
	SubDuringApply                     int
	RetryNoNewSub                      int
	Coalesced                          int
	BurstTooSlow, ProbeNotIdle, Probes int
	DedupProbes                        int
	Reconciles, FailedReconciles       int
	NoopReconciles, GetFailures        int
	OutEvents                          int
}

// c19Check is the offline oracle. It never looks at wall-clock fields except the measured burst length.
func c19Check(evsIn []c19Ev, probes []c19Probe) ([]c19Finding, c19Stats) {
	var fs []c19Finding
	var st c19Stats
	evs := append([]c19Ev(nil), evsIn...)
	sort.SliceStable(evs, func(i, j int) bool { return evs[i].S < evs[j].S })
	var subs []c19Sub
	var apps []c19App
	var outs, idles []c19Ev
	recApplies := map[int]int{}
	curRec := -1
	for _, e := range evs {
		switch e.K {
		case "call":
			subs = append(subs, c19Sub{Idx: e.I, Call: e.S, C: e.C})
		case "ret":
			if e.I < len(subs) {
				subs[e.I].Ret = e.S
			}
		case "astart":
			apps = append(apps, c19App{Idx: e.I, Start: e.S, C: e.C})
			if curRec >= 0 {
				recApplies[curRec]++
			}
		case "aend":
			if e.I < len(apps) {
				apps[e.I].End, apps[e.I].OK = e.S, e.OK
			}
		case "out":
			outs = append(outs, e)
			st.OutEvents++
		case "qidle":
			idles = append(idles, e)
		case "rstart":
			st.Reconciles++
			curRec = e.I
		case "rend":
			if !e.OK {
				st.FailedReconciles++
			} else if recApplies[e.I] == 0 {
				st.NoopReconciles++
			}
			curRec = -1
		case "gfail":
			st.GetFailures++
		}
	}
	add := func(sig string, live bool, format string, a ...any) {
		fs = append(fs, c19Finding{Sig: sig, Liveness: live, Summary: fmt.Sprintf(format, a...)})
	}

	// (1) every submit returns
	blocked := false
	prevC := -1
	for _, s := range subs {
		st.Subs++
		if s.Ret == 0 {
			blocked = true
			add("submit:blocked", true, "UpdateConfig #%d (content %d) was called at stamp %d and never returned", s.Idx, s.C, s.Call)
		}
		if s.C == prevC {
			st.Identical++
		}
		prevC = s.C
		for _, a := range apps {
			if s.Call > a.Start && (a.End == 0 || s.Call < a.End) {
				st.SubDuringApply++
				break
			}
		}
	}

	// (2) each written configuration lies in its window; writes never go backwards
	prevPos := 0
	for ai, a := range apps {
		st.Applies++
		if a.End != 0 && !a.OK {
			st.Failed++
		}
		if a.End != 0 && a.OK {
			st.OKApplies++
		}
		if ai > 0 && !apps[ai-1].OK && apps[ai-1].End != 0 {
			quiet := true
			for _, s := range subs {
				if s.Call > apps[ai-1].Start && s.Call < a.Start {
					quiet = false
				}
			}
			if quiet {
				st.RetryNoNewSub++
			}
		}
		if a.C == -4 {
			add("apply:config-altered", false, "write #%d carried a spec that equals no submitted one", a.Idx)
			continue
		}
		hi, lo := -1, -1
		for p := range subs {
			if subs[p].Call < a.Start {
				hi = p
			}
			if subs[p].Ret != 0 && subs[p].Ret < a.Start {
				lo = p
			}
		}
		if hi < 0 {
			add("apply:nothing-submitted", false, "write #%d (content %d) started before any configuration was submitted", a.Idx, a.C)
			continue
		}
		if lo < 0 {
			lo = 0
		}
		if lo != hi {
			st.InflightWindows++
		}
		chosen, seen := -1, false
		for p := lo; p <= hi; p++ {
			if subs[p].C == a.C {
				seen = true
				if p >= prevPos {
					chosen = p
					break
				}
			}
		}
		if chosen >= 0 {
			prevPos = chosen
			continue
		}
		if seen {
			add("apply:older-after-newer", false, "write #%d (stamp %d) carried content %d, which is older than what write #%d had already carried (submission #%d)",
				a.Idx, a.Start, a.C, a.Idx-1, prevPos)
			continue
		}
		stale := false
		for p := 0; p < lo; p++ {
			if subs[p].C == a.C {
				stale = true
			}
		}
		if stale {
			add("apply:stale-config", false, "write #%d (stamp %d) carried content %d although UpdateConfig #%d (content %d) had returned before it started; newest called: #%d (content %d)",
				a.Idx, a.Start, a.C, lo, subs[lo].C, hi, subs[hi].C)
		} else {
			add("apply:unknown-config", false, "write #%d (stamp %d) carried content %d which no submission called before it carried (window #%d..#%d)", a.Idx, a.Start, a.C, lo, hi)
		}
	}

	// (3)+(4) the last successful write equals the last submitted configuration; when it does not and
	// the last write failed, the retry is what is missing. (A failed write needs no retry here when a
	// later submission made the stored object the desired one again.)
	if len(subs) > 0 && !blocked {
		want := subs[len(subs)-1]
		lastOK := -1
		for i, a := range apps {
			if a.End != 0 && a.OK {
				lastOK = i
			}
		}
		n := len(apps)
		switch {
		case lastOK >= 0 && apps[lastOK].C == want.C:
		case n > 0 && apps[n-1].End != 0 && !apps[n-1].OK:
			add("retry:missing-after-failure", true, "write #%d (content %d) failed at stamp %d, no further write followed and the stored configuration is not the last submitted one (#%d content %d)",
				apps[n-1].Idx, apps[n-1].C, apps[n-1].End, want.Idx, want.C)
		case lastOK < 0:
			add("final:nothing-applied", true, "%d configurations were submitted (last: #%d content %d) and none was written successfully", len(subs), want.Idx, want.C)
		default:
			add("final:latest-not-applied", true, "last successful write #%d has content %d, the last submitted configuration (#%d) has content %d",
				apps[lastOK].Idx, apps[lastOK].C, want.Idx, want.C)
		}
	}

	// (5) probes that start from idle. Idle at p.From: the last reconcile event e taken off the channel
	// before it was taken by a receive that started (stamp e.P) after every earlier UpdateConfig had
	// returned — the debouncer was then already past its timer, so nothing is armed — and the work
	// queue drained after e with a successful reconcile (qidle).
	for _, p := range probes {
		st.Probes++
		idle := false
		var le *c19Ev
		for i := range outs {
			if outs[i].S < p.From {
				le = &outs[i]
			}
		}
		if le != nil {
			idle = true
			lastC := -1
			for _, s := range subs {
				if s.Call < p.From {
					if s.Ret == 0 || s.Ret > le.P {
						idle = false
					}
					lastC = s.C
				}
			}
			drained := false
			for _, q := range idles {
				if q.S > le.S && q.S < p.From {
					drained = true
				}
			}
			stored := -1
			for _, a := range apps {
				if a.Start < p.From && a.End != 0 && a.OK {
					stored = a.C
				}
				if a.Start < p.From && (a.End == 0 || a.End > p.From) {
					idle = false
				}
			}
			if !drained || stored != lastC || (p.Kind == "resubmit" && p.Resub != stored) {
				idle = false
			}
		}
		if !idle {
			st.ProbeNotIdle++
			continue
		}
		var in []c19App
		for _, a := range apps {
			if a.Start > p.From && a.Start < p.To {
				in = append(in, a)
			}
		}
		oks := 0
		for _, a := range in {
			if a.End != 0 && a.OK {
				oks++
			}
		}
		switch p.Kind {
		case "resubmit":
			bad := false
			for _, a := range in {
				if a.Start < p.Mid {
					bad = true
					add("dedup:identical-resubmission-reloaded", false, "from idle with content %d stored, an identical configuration was resubmitted and write #%d (content %d) followed before anything else was submitted",
						p.Resub, a.Idx, a.C)
					break
				}
			}
			if bad {
				break
			}
			st.DedupProbes++
			for _, a := range in {
				if a.C != p.Expect {
					bad = true
					add("resubmit:unexpected-apply", false, "after resubmitting the stored content %d and then submitting %d, write #%d carried content %d", p.Resub, p.Expect, a.Idx, a.C)
					break
				}
			}
			if !bad && oks > 1 {
				add("resubmit:extra-apply", false, "after resubmitting the stored content %d and then submitting %d once, %d successful writes followed", p.Resub, p.Expect, oks)
			}
		case "burst":
			if time.Duration(p.DurUS)*time.Microsecond >= c19Debounce/2 {
				st.BurstTooSlow++
				break
			}
			bad := false
			for _, a := range in {
				if a.C != p.Expect {
					bad = true
					add("coalesce:burst-split", false, "a burst of %d submissions from idle took %d µs (< half the debounce interval) and write #%d carried content %d instead of the last one (%d)",
						p.N, p.DurUS, a.Idx, a.C, p.Expect)
					break
				}
			}
			if !bad && oks > 1 {
				bad = true
				add("coalesce:burst-split", false, "a burst of %d submissions from idle took %d µs (< half the debounce interval) and caused %d successful writes", p.N, p.DurUS, oks)
			}
			if !bad && oks == 1 && p.N >= 2 {
				st.Coalesced++
			}
		}
	}
	return fs, st
}

// ---------------------------------------------------------------- model of controller-runtime around Reconcile

// c19Queue is a de-duplicating work queue for the single reconcile key with one worker.
type c19Queue struct {
	mu           sync.Mutex
	queued       bool
	processing   bool
	dirty        bool
	retryPending bool
	stopped      bool
	wake         chan struct{}
}

func (q *c19Queue) signal() {
	select {
	case q.wake <- struct{}{}:
	default:
	}
}

type c19Plan struct {
	failOp string
	gets   int
	n      int
}

type c19Scn struct {
	c       *vfCase
	sp      *c19Spec
	lg      *c19Log
	r       *FRRK8sReconciler
	q       *c19Queue
	stop    chan struct{}
	bg      sync.WaitGroup
	attempt int // Reconcile calls so far (worker goroutine only)
	writes  atomic.Int64
	fresh   int
	probes  []c19Probe
	stalled string
	frozen  []c19Ev
	over    atomic.Bool

	mu       sync.Mutex
	findings []c19Finding
	plan     c19Plan
}

func (s *c19Scn) addFinding(f c19Finding) {
	s.mu.Lock()
	s.findings = append(s.findings, f)
	s.mu.Unlock()
}

var c19ErrInjected = errors.New("c19: injected API error")

func (s *c19Scn) newClient() (client.Client, error) {
	scheme := runtime.NewScheme()
	if err := frrv1beta1.AddToScheme(scheme); err != nil {
		return nil, err
	}
	funcs := interceptor.Funcs{
		Get: func(ctx context.Context, cl client.WithWatch, key client.ObjectKey, obj client.Object, opts ...client.GetOption) error {
			s.mu.Lock()
			s.plan.gets++
			fail := (s.plan.failOp == "get1" && s.plan.gets == 1) || (s.plan.failOp == "get2" && s.plan.gets == 2)
			n := s.plan.n
			s.mu.Unlock()
			if fail && !s.over.Load() {
				s.lg.simple("gfail", n, false)
				return c19ErrInjected
			}
			return cl.Get(ctx, key, obj, opts...)
		},
		Create: func(ctx context.Context, cl client.WithWatch, obj client.Object, opts ...client.CreateOption) error {
			return s.write(obj, func() error { return cl.Create(ctx, obj, opts...) })
		},
		Update: func(ctx context.Context, cl client.WithWatch, obj client.Object, opts ...client.UpdateOption) error {
			return s.write(obj, func() error { return cl.Update(ctx, obj, opts...) })
		},
	}
	return fake.NewClientBuilder().WithScheme(scheme).WithInterceptorFuncs(funcs).Build(), nil
}

// write is the "reload action" of this variant: a Create/Update of the FRRConfiguration.
func (s *c19Scn) write(obj client.Object, through func() error) error {
	cfg, ok := obj.(*frrv1beta1.FRRConfiguration)
	if !ok || s.over.Load() {
		return through()
	}
	id := c19Identify(&cfg.Spec)
	s.mu.Lock()
	fail := s.plan.failOp == "write"
	s.mu.Unlock()
	w := int(s.writes.Add(1)) - 1
	ai := s.lg.applyStart(id)
	if d := s.sp.delay(w); d > 0 {
		time.Sleep(d)
	}
	var err error
	if fail {
		err = c19ErrInjected // fails before reaching the store
	} else {
		err = through()
	}
	s.lg.applyEnd(ai, id, err == nil)
	if err != nil && !fail {
		s.addFinding(c19Finding{Sig: "harness:fake-client-write-error", Summary: err.Error()})
	}
	return err
}

// source stands for controller-runtime's channel source: it takes events off reconcileChan and hands
// them to the queue. It polls with a non-blocking receive: such a receive only succeeds when the
// debouncer is already parked in its send, so the stamp drawn before it orders the event against the
// submissions (see c19Check, idle).
func (s *c19Scn) source() {
	defer s.bg.Done()
	for {
		select {
		case <-s.stop:
			return
		default:
		}
		pre := s.lg.ctr.Add(1)
		select {
		case evt := <-s.r.reconcileChan:
			_ = evt
			s.q.mu.Lock()
			s.lg.out(pre)
			if s.q.processing {
				s.q.dirty = true
			} else {
				s.q.queued = true
			}
			s.q.mu.Unlock()
			s.q.signal()
		default:
			time.Sleep(200 * time.Microsecond)
		}
	}
}

func (s *c19Scn) worker() {
	defer s.bg.Done()
	req := ctrl.Request{NamespacedName: types.NamespacedName{Namespace: "metallbreload", Name: "reload"}}
	for {
		select {
		case <-s.stop:
			return
		case <-s.q.wake:
		}
		for {
			s.q.mu.Lock()
			if !s.q.queued || s.q.stopped {
				s.q.mu.Unlock()
				break
			}
			s.q.queued = false
			s.q.processing = true
			s.q.mu.Unlock()

			n := s.attempt
			s.attempt++
			pl := c19Plan{n: n}
			if n < len(s.sp.Pattern) && s.sp.Pattern[n] == 'F' {
				pl.failOp = s.sp.FailOps[n]
			}
			s.mu.Lock()
			s.plan = pl
			s.mu.Unlock()
			ri := s.lg.recStart()
			_, err := s.r.Reconcile(context.Background(), req)
			s.lg.simple("rend", ri, err == nil)

			s.q.mu.Lock()
			s.q.processing = false
			if err != nil {
				// controller-runtime: AddRateLimited on error
				s.q.retryPending = true
				time.AfterFunc(c19Retry, func() {
					s.q.mu.Lock()
					s.q.retryPending = false
					if s.q.processing {
						s.q.dirty = true
					} else {
						s.q.queued = true
					}
					s.q.mu.Unlock()
					s.q.signal()
				})
			}
			if s.q.dirty {
				s.q.dirty = false
				s.q.queued = true
			}
			if !s.q.queued && !s.q.retryPending && err == nil {
				s.lg.qidle()
			}
			s.q.mu.Unlock()
		}
	}
}

// ---- submissions

func (s *c19Scn) submit(content int) {
	i := s.lg.call(content)
	s.r.UpdateConfig(c19MakeConfig(content))
	s.lg.ret(i, content)
}

type c19Watch struct {
	lastPoll time.Time
	lastN    int
	quiet    time.Duration
	total    time.Duration
}

func c19NewWatch() *c19Watch { return &c19Watch{lastPoll: time.Now(), lastN: -1} }

// stuck: only time that this goroutine itself observed in small steps is counted, so a frozen or
// starved test process can never produce the verdict.
func (w *c19Watch) stuck(nEv int) bool {
	now := time.Now()
	dt := now.Sub(w.lastPoll)
	w.lastPoll = now
	if dt > c19Healthy {
		w.quiet /= 2
		return false
	}
	w.total += dt
	if nEv != w.lastN {
		w.lastN = nEv
		w.quiet = 0
		return false
	}
	w.quiet += dt
	return w.quiet > c19Stall || w.total > c19Cap
}

func (s *c19Scn) stall(what string) {
	if s.stalled == "" {
		s.stalled = what
		s.frozen = s.lg.events()
	}
}

// async runs fn in a goroutine and waits for it; false = no event for c19Stall.
func (s *c19Scn) async(fn func()) bool {
	done := make(chan struct{})
	go func() {
		defer close(done)
		defer func() {
			if p := recover(); p != nil {
				s.addFinding(c19Finding{Sig: "harness:submitter-panic", Summary: fmt.Sprint(p)})
			}
		}()
		fn()
	}()
	w := c19NewWatch()
	tk := time.NewTicker(2 * time.Millisecond)
	defer tk.Stop()
	for {
		select {
		case <-done:
			return true
		case <-tk.C:
		}
		if w.stuck(s.lg.snap().NEv) {
			break
		}
	}
	s.stall("submit")
	// free a sender blocked on configChangedChan so that nothing leaks
	rel := time.After(2 * time.Second)
	for {
		select {
		case <-done:
			return false
		case <-s.r.configChangedChan:
		case <-rel:
			return false
		}
	}
}

func (s *c19Scn) waitUntil(cond func(c19Snap) bool) bool {
	w := c19NewWatch()
	for {
		sn := s.lg.snap()
		if cond(sn) {
			return true
		}
		if w.stuck(sn.NEv) {
			s.stall("apply")
			return false
		}
		time.Sleep(500 * time.Microsecond)
	}
}

// waitShort waits for cond without ever producing a verdict.
func (s *c19Scn) waitShort(cond func(c19Snap) bool, d time.Duration) bool {
	until := time.Now().Add(d)
	for time.Now().Before(until) {
		if cond(s.lg.snap()) {
			return true
		}
		time.Sleep(500 * time.Microsecond)
	}
	return cond(s.lg.snap())
}

func (s *c19Scn) applied(sn c19Snap) bool {
	return sn.Pending == 0 && sn.LastCfg >= 0 && sn.Stored == sn.LastCfg && !s.lg.running.Load()
}

func (s *c19Scn) idle(sn c19Snap) bool {
	return s.applied(sn) && sn.LastOutP != 0 && sn.MaxRet < sn.LastOutP && sn.LastIdle > sn.LastOutS
}

func (s *c19Scn) nextFresh() int { s.fresh++; return s.fresh }

func (s *c19Scn) reachIdle() bool {
	for try := 0; try < 6; try++ {
		if s.waitShort(s.idle, 4*c19Debounce) {
			return true
		}
		z := s.nextFresh()
		if !s.async(func() { s.submit(z) }) {
			return false
		}
		if !s.waitUntil(s.applied) {
			return false
		}
	}
	if s.waitShort(s.idle, 4*c19Debounce) {
		return true
	}
	s.c.Count("idle_not_established")
	return false
}

func (s *c19Scn) settle() { time.Sleep(2*c19Debounce + c19Retry) }

// play returns false when a sender may still be blocked on the channel (it must not be closed then).
func (s *c19Scn) play() bool {
	sp := s.sp
	if !s.async(func() {
		for _, st := range sp.Steps {
			if st.GapUS > 0 {
				time.Sleep(time.Duration(st.GapUS) * time.Microsecond)
			} else if st.GapUS < 0 {
				until := time.Now().Add(3 * c19Debounce)
				for !s.lg.running.Load() && time.Now().Before(until) {
					time.Sleep(100 * time.Microsecond)
				}
			}
			s.submit(st.C)
		}
	}) {
		return s.lg.snap().Pending == 0
	}
	if !s.waitUntil(s.applied) {
		return true
	}

	// probe 1: resubmit the stored configuration, then a new one
	if !s.reachIdle() {
		return s.lg.snap().Pending == 0
	}
	p := c19Probe{Kind: "resubmit", Resub: s.lg.snap().LastCfg, GapUS: sp.ProbeGap}
	p.From = s.lg.mark()
	p.Expect = s.nextFresh()
	if !s.async(func() {
		s.submit(p.Resub)
		if sp.ProbeGap > 0 {
			time.Sleep(time.Duration(sp.ProbeGap) * time.Microsecond)
		}
		p.Mid = s.lg.mark()
		s.submit(p.Expect)
	}) {
		return s.lg.snap().Pending == 0
	}
	if !s.waitUntil(s.applied) {
		return true
	}
	s.settle()
	p.To = s.lg.mark()
	s.probes = append(s.probes, p)

	// probe 2: a burst from idle
	if !s.reachIdle() {
		return s.lg.snap().Pending == 0
	}
	b := c19Probe{Kind: "burst", N: sp.BurstLen}
	ids := make([]int, sp.BurstLen)
	for i := range ids {
		ids[i] = s.nextFresh()
	}
	b.Expect = ids[len(ids)-1]
	b.From = s.lg.mark()
	if !s.async(func() {
		t0 := time.Now()
		for i, id := range ids {
			if i > 0 && sp.BurstGap > 0 {
				time.Sleep(time.Duration(sp.BurstGap) * time.Microsecond)
			}
			s.submit(id)
		}
		b.DurUS = time.Since(t0).Microseconds()
	}) {
		return s.lg.snap().Pending == 0
	}
	if !s.waitUntil(s.applied) {
		return true
	}
	s.settle()
	b.To = s.lg.mark()
	s.probes = append(s.probes, b)
	return true
}

func c19RunScenario(c *vfCase, sp *c19Spec, can *vfCanary) {
	s := &c19Scn{c: c, sp: sp, lg: c19NewLog(), fresh: 100000, stop: make(chan struct{}),
		q: &c19Queue{wake: make(chan struct{}, 1)}}
	defer func() {
		if p := recover(); p != nil {
			c.Violation("harness:runner-panic", fmt.Sprint(p), map[string]any{"spec": sp})
		}
	}()
	cl, err := s.newClient()
	if err != nil {
		c.Violation("harness:client", err.Error(), nil)
		return
	}
	s.r = &FRRK8sReconciler{
		Client:            cl,
		Logger:            log.NewNopLogger(),
		LogLevel:          logging.LevelInfo,
		NodeName:          c19Node,
		FRRK8sNamespace:   c19Namespace,
		reconcileChan:     make(chan event.GenericEvent),
		configChangedChan: make(chan struct{}),
	}
	// as SetupWithManager does, with the test interval
	debouncer(s.r.configChangedChan, s.r.reconcileChan, c19Debounce)
	s.bg.Add(2)
	go s.source()
	go s.worker()

	safe := s.play()
	s.over.Store(true)
	if safe {
		close(s.r.configChangedChan)
	}
	time.Sleep(5 * time.Millisecond) // let the debouncer leave a pending send before the source stops
	s.q.mu.Lock()
	s.q.stopped = true
	s.q.mu.Unlock()
	close(s.stop)
	s.bg.Wait()
	c19Judge(c, s, can)
}

func c19Judge(c *vfCase, s *c19Scn, can *vfCanary) {
	evs := s.lg.events()
	if s.stalled != "" {
		evs = s.frozen
	}
	fs, st := c19Check(evs, s.probes)
	s.mu.Lock()
	fs = append(fs, s.findings...)
	s.mu.Unlock()
	sp := s.sp

	c.Count("scenarios:" + sp.Variant)
	c.CountN("k8s_submissions", st.Subs)
	c.CountN("k8s_identical_resubmissions", st.Identical)
	c.CountN("k8s_applies", st.Applies)
	c.CountN("k8s_failed_applies", st.Failed)
	c.CountN("k8s_coalesced_bursts", st.Coalesced)
	c.CountN("k8s_submissions_during_apply", st.SubDuringApply)
	c.CountN("k8s_applies_with_submission_in_flight", st.InflightWindows)
	c.CountN("k8s_retries_without_new_submission", st.RetryNoNewSub)
	c.CountN("k8s_dedup_probes_no_reload", st.DedupProbes)
	c.CountN("k8s_burst_too_slow", st.BurstTooSlow)
	c.CountN("k8s_probe_not_idle", st.ProbeNotIdle)
	c.CountN("k8s_probes", st.Probes)
	c.CountN("k8s_reconciles", st.Reconciles)
	c.CountN("k8s_failed_reconciles", st.FailedReconciles)
	c.CountN("k8s_noop_reconciles", st.NoopReconciles)
	c.CountN("k8s_get_failures", st.GetFailures)
	c.CountN("k8s_reconcile_events", st.OutEvents)
	c.EvalN(st.Applies + st.Probes + st.Subs + 2)
	c.Distinct("k8s_failure_pattern", sp.Pattern)
	if st.Failed > 0 || st.Coalesced > 0 || st.SubDuringApply > 0 || st.FailedReconciles > 0 {
		c.Nontrivial(sp.Variant + "|" + vfJSON(sp))
	}
	if c.WantSample() {
		c.Sample(map[string]any{"spec": sp, "stats": st, "events": len(evs)})
	}
	if len(fs) == 0 {
		return
	}
	dirty := can.MaxGap() > c19CanaryBad
	detail := map[string]any{"spec": sp, "events": evs, "probes": s.probes, "findings": fs, "stalled": s.stalled,
		"canary_max_gap_ms": can.MaxGap().Milliseconds()}
	seen := map[string]bool{}
	for _, f := range fs {
		if seen[f.Sig] {
			continue
		}
		seen[f.Sig] = true
		if f.Liveness && dirty {
			c.Inconclusive(fmt.Sprintf("%s undecided: starvation canary saw a %v gap (%s)", f.Sig, can.MaxGap(), f.Summary))
			continue
		}
		c.Violation(f.Sig, fmt.Sprintf("[%s pattern=%q] %s", sp.Variant, sp.Pattern, f.Summary), detail)
	}
}

// c19Recheck re-evaluates the history recorded in a replay file with the offline oracle. The result only
// goes to the trace: what decides a replay is the re-execution of the case on the current tree.
func c19Recheck(c *vfCase) {
	path := os.Getenv("VERIF_REPLAY_FILE")
	if path == "" {
		return
	}
	b, err := os.ReadFile(path)
	if err != nil {
		return
	}
	var rp struct {
		Detail struct {
			Spec   c19Spec    `json:"spec"`
			Events []c19Ev    `json:"events"`
			Probes []c19Probe `json:"probes"`
		} `json:"detail"`
	}
	if json.Unmarshal(b, &rp) != nil || len(rp.Detail.Events) == 0 || rp.Detail.Spec.Variant != "frrk8s" {
		return
	}
	fs, _ := c19Check(rp.Detail.Events, rp.Detail.Probes)
	for _, f := range fs {
		c.Logf("recorded history re-checked offline: %s: %s", f.Sig, f.Summary)
	}
}

func TestVerif_C19(t *testing.T) {
	can := vfStartCanary()
	defer can.Stop()
	shard, nshards := vfEnvInt("VERIF_SHARD", 0), vfEnvInt("VERIF_NSHARDS", 1)
	vfMain(t, "C19", vfSizes{Quick: 8, Thorough: 75},
		"scenario (failure pattern x submission script) in which a reload failed, a burst was coalesced, or a submission arrived while the reload action was running",
		func(c *vfCase) {
			if c.Replaying {
				c19Recheck(c)
			}
			can.Reset()
			var wg sync.WaitGroup
			for k := 0; k < c19Par; k++ {
				g := (c.Idx*c19Par+k)*nshards + shard
				sp := c19GenSpec(c.R.Fork(), g)
				wg.Add(1)
				go func(sp *c19Spec) {
					defer wg.Done()
					c19RunScenario(c, sp, can)
				}(sp)
			}
			wg.Wait()
		})
}
