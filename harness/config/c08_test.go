//go:build verif

package config

import (
	"fmt"
	"math/big"
	"sort"
	"strings"
	"testing"

	metallbv1beta1 "go.universe.tf/metallb/api/v1beta1"
	metallbv1beta2 "go.universe.tf/metallb/api/v1beta2"
	corev1 "k8s.io/api/core/v1"
	metav1 "k8s.io/apimachinery/pkg/apis/meta/v1"
	"k8s.io/apimachinery/pkg/labels"
	"k8s.io/utils/ptr"
)

// ---------------------------------------------------------------- generator

type c08Gen struct {
	r *vfRand
}

func (g *c08Gen) v4(third, last int) string { return fmt.Sprintf("10.1.%d.%d", third, last) }

func (g *c08Gen) v6(block, last int) string { return fmt.Sprintf("fc00:%d::%x", block, last) }

// addrString produces one pool address string and a tag describing its notation.
func (g *c08Gen) addrString() (string, string) {
	r := g.r
	third := r.Intn(3)
	switch r.Intn(20) {
	case 0, 1, 2, 3: // aligned v4 CIDR
		l := vfPick(r, []int{24, 25, 26, 27, 28, 29, 30, 30, 31, 32})
		step := 1 << (32 - l)
		last := (r.Intn(256) / step) * step
		return fmt.Sprintf("%s/%d", g.v4(third, last), l), "v4cidr"
	case 4: // non aligned v4 CIDR
		l := vfPick(r, []int{24, 26, 27, 28, 30})
		return fmt.Sprintf("%s/%d", g.v4(third, r.Intn(256)), l), "v4cidr-nonaligned"
	case 5, 6, 7: // v4 range
		a := r.Intn(256)
		b := a + r.Intn(40)
		t2 := third
		if b > 255 {
			if r.Bool() {
				b = 255
			} else {
				t2, b = third+1, b-256
			}
		}
		sep := vfPick(r, []string{"-", "-", " - ", " -", "- "})
		return g.v4(third, a) + sep + g.v4(t2, b), "v4range"
	case 8: // single address range
		a := g.v4(third, r.Intn(256))
		return a + "-" + a, "v4single"
	case 9: // backward range
		a := r.Intn(200) + 20
		return g.v4(third, a) + "-" + g.v4(third, a-r.Range(1, 19)), "backward"
	case 10: // IPv4-mapped CIDR
		l := vfPick(r, []int{120, 121, 122, 124, 126, 128})
		step := 1 << (128 - l)
		last := (r.Intn(256) / step) * step
		return fmt.Sprintf("::ffff:%s/%d", g.v4(third, last), l), "mapped-cidr"
	case 11: // IPv4-mapped range, fully or half mapped
		a := r.Intn(230)
		b := a + r.Intn(24)
		switch r.Intn(3) {
		case 0:
			return "::ffff:" + g.v4(third, a) + "-::ffff:" + g.v4(third, b), "mapped-range"
		case 1:
			return g.v4(third, a) + "-::ffff:" + g.v4(third, b), "halfmapped-range"
		default:
			return "::ffff:" + g.v4(third, a) + "-" + g.v4(third, b), "halfmapped-range"
		}
	case 12: // mixed family range
		if r.Bool() {
			return g.v4(third, r.Intn(256)) + "-" + g.v6(r.Intn(2), r.Intn(256)), "mixed-range"
		}
		return g.v6(r.Intn(2), r.Intn(256)) + "-" + g.v4(third, r.Intn(256)), "mixed-range"
	case 13, 14, 15: // v6 CIDR
		l := vfPick(r, []int{120, 122, 124, 126, 127, 128, 112, 64})
		blk := r.Intn(2)
		if l == 64 || l == 112 {
			return fmt.Sprintf("fc00:%d::/%d", blk, l), "v6cidr"
		}
		step := 1 << (128 - l)
		last := (r.Intn(256) / step) * step
		return fmt.Sprintf("%s/%d", g.v6(blk, last), l), "v6cidr"
	case 16, 17: // v6 range
		a := r.Intn(256)
		b := a + r.Intn(300)
		return g.v6(third%2, a) + "-" + g.v6(third%2, b), "v6range"
	case 18: // wider v4 block
		l := vfPick(r, []int{22, 23, 16})
		return fmt.Sprintf("10.1.0.0/%d", l), "v4cidr-wide"
	default: // garbage
		return vfPick(r, []string{"10.1.1.300/24", "10.1.1.1", "10.1.1.0/33", "fc00::/129", "10.1.1.1-", "a-b", ""}), "garbage"
	}
}

func (g *c08Gen) nodeSelectors() []metav1.LabelSelector {
	r := g.r
	var out []metav1.LabelSelector
	n := vfPick(r, []int{0, 0, 1, 1, 2})
	for i := 0; i < n; i++ {
		switch r.Intn(7) {
		case 3: // the empty selector (selects every node), alone or next to others
			out = append(out, metav1.LabelSelector{})
		case 4: // values listed in an order that is not the alphabetical one
			out = append(out, metav1.LabelSelector{MatchExpressions: []metav1.LabelSelectorRequirement{{
				Key: "zone", Operator: metav1.LabelSelectorOpIn, Values: []string{"c", "a", "b"}[:r.Range(2, 3)]}}})
		case 0, 5:
			out = append(out, metav1.LabelSelector{MatchLabels: map[string]string{"zone": vfPick(r, []string{"a", "b", "c"})}})
		case 1, 6:
			out = append(out, metav1.LabelSelector{MatchLabels: map[string]string{"rack": vfPick(r, []string{"1", "2"})}})
		default:
			out = append(out, metav1.LabelSelector{MatchExpressions: []metav1.LabelSelectorRequirement{{
				Key: "zone", Operator: vfPick(r, []metav1.LabelSelectorOperator{metav1.LabelSelectorOpIn, metav1.LabelSelectorOpNotIn}),
				Values: []string{vfPick(r, []string{"a", "b"})}}}})
		}
	}
	return out
}

func (g *c08Gen) poolSelectors() []metav1.LabelSelector {
	r := g.r
	var out []metav1.LabelSelector
	n := vfPick(r, []int{0, 0, 0, 1, 1, 2})
	for i := 0; i < n; i++ {
		switch r.Intn(6) {
		case 0, 1, 2:
			out = append(out, metav1.LabelSelector{MatchLabels: map[string]string{"tier": vfPick(r, []string{"x", "y", "z"})}})
		case 3:
			out = append(out, metav1.LabelSelector{MatchExpressions: []metav1.LabelSelectorRequirement{{
				Key: "tier", Operator: metav1.LabelSelectorOpExists}}})
		case 4: // negative operators also select pools that carry no label at all
			out = append(out, metav1.LabelSelector{MatchExpressions: []metav1.LabelSelectorRequirement{{
				Key: "tier", Operator: vfPick(r, []metav1.LabelSelectorOperator{metav1.LabelSelectorOpNotIn, metav1.LabelSelectorOpDoesNotExist})}}})
			if out[len(out)-1].MatchExpressions[0].Operator == metav1.LabelSelectorOpNotIn {
				out[len(out)-1].MatchExpressions[0].Values = []string{vfPick(r, []string{"x", "y", "z"})}
			}
		default: // the empty selector selects everything
			out = append(out, metav1.LabelSelector{})
		}
	}
	return out
}

func (g *c08Gen) resources() (ClusterResources, []string) {
	r := g.r
	var res ClusterResources
	var tags []string
	npools := vfPick(r, []int{1, 2, 2, 3, 3, 4})
	poolNames := []string{}
	for i := 0; i < npools; i++ {
		p := metallbv1beta1.IPAddressPool{}
		p.Name = fmt.Sprintf("p%d", i+1)
		p.Namespace = "metallb-system"
		if r.Chance(2, 3) {
			p.Labels = map[string]string{"tier": vfPick(r, []string{"x", "y"})}
		}
		na := vfPick(r, []int{1, 1, 2, 2, 3})
		for j := 0; j < na; j++ {
			s, tag := g.addrString()
			p.Spec.Addresses = append(p.Spec.Addresses, s)
			tags = append(tags, tag)
		}
		p.Spec.AvoidBuggyIPs = r.Chance(1, 4)
		if r.Chance(1, 4) {
			p.Spec.AutoAssign = ptr.To(r.Bool())
		}
		poolNames = append(poolNames, p.Name)
		res.Pools = append(res.Pools, p)
	}
	nn := r.Intn(5)
	for i := 0; i < nn; i++ {
		n := corev1.Node{}
		n.Name = fmt.Sprintf("n%d", i+1)
		n.Labels = map[string]string{}
		if r.Chance(3, 4) {
			n.Labels["zone"] = vfPick(r, []string{"a", "b"})
		}
		if r.Chance(1, 2) {
			n.Labels["rack"] = vfPick(r, []string{"1", "2"})
		}
		// internal addresses: mostly outside (10.2.x.x), sometimes inside the pool region
		if r.Chance(1, 4) {
			n.Status.Addresses = append(n.Status.Addresses, corev1.NodeAddress{Type: corev1.NodeInternalIP, Address: g.v4(r.Intn(3), r.Intn(256))})
		} else {
			n.Status.Addresses = append(n.Status.Addresses, corev1.NodeAddress{Type: corev1.NodeInternalIP, Address: fmt.Sprintf("10.2.0.%d", i+1)})
		}
		if r.Chance(1, 3) {
			a := fmt.Sprintf("fd00::%d", i+1)
			if r.Chance(1, 3) {
				a = g.v6(r.Intn(2), r.Intn(256))
			}
			n.Status.Addresses = append(n.Status.Addresses, corev1.NodeAddress{Type: corev1.NodeInternalIP, Address: a})
		}
		if r.Chance(1, 3) { // multi-homed node: further internal addresses of a family already listed
			k := r.Range(1, 2)
			for j := 0; j < k; j++ {
				a := fmt.Sprintf("10.2.1.%d", i*4+j+1)
				if r.Chance(1, 2) {
					a = g.v4(r.Intn(3), r.Intn(256))
				} else if r.Chance(1, 3) {
					a = g.v6(r.Intn(2), r.Intn(256))
				}
				n.Status.Addresses = append(n.Status.Addresses, corev1.NodeAddress{Type: corev1.NodeInternalIP, Address: a})
			}
		}
		if r.Chance(1, 3) { // external addresses do not count
			n.Status.Addresses = append(n.Status.Addresses, corev1.NodeAddress{Type: corev1.NodeExternalIP, Address: g.v4(r.Intn(3), r.Intn(256))})
		}
		res.Nodes = append(res.Nodes, n)
	}
	np := r.Intn(4)
	for i := 0; i < np; i++ {
		p := metallbv1beta2.BGPPeer{}
		p.Name = fmt.Sprintf("peer%d", i+1)
		p.Namespace = "metallb-system"
		p.Spec.MyASN = 64512
		p.Spec.ASN = uint32(64513 + i)
		p.Spec.Address = fmt.Sprintf("10.9.0.%d", i+1)
		p.Spec.NodeSelectors = g.nodeSelectors()
		res.Peers = append(res.Peers, p)
	}
	nl2 := r.Intn(4)
	for i := 0; i < nl2; i++ {
		a := metallbv1beta1.L2Advertisement{}
		a.Name = fmt.Sprintf("l2-%d", i+1)
		a.Namespace = "metallb-system"
		a.Spec.IPAddressPools = vfSubset(r, append(append([]string{}, poolNames...), "ghost"), 1, 3)
		a.Spec.IPAddressPoolSelectors = g.poolSelectors()
		a.Spec.NodeSelectors = g.nodeSelectors()
		if r.Chance(1, 3) {
			a.Spec.Interfaces = vfSubset(r, []string{"eth0", "eth1"}, 1, 2)
		}
		res.L2Advs = append(res.L2Advs, a)
	}
	nb := r.Intn(4)
	for i := 0; i < nb; i++ {
		a := metallbv1beta1.BGPAdvertisement{}
		a.Name = fmt.Sprintf("bgp-%d", i+1)
		a.Namespace = "metallb-system"
		a.Spec.IPAddressPools = vfSubset(r, append(append([]string{}, poolNames...), "ghost"), 1, 3)
		a.Spec.IPAddressPoolSelectors = g.poolSelectors()
		a.Spec.NodeSelectors = g.nodeSelectors()
		if r.Chance(2, 3) {
			a.Spec.AggregationLength = ptr.To(int32(vfPick(r, []int{32, 32, 31, 30, 29, 28, 27, 26, 25, 24, 23, 22, 16, 8, 0, 33})))
		}
		if r.Chance(1, 2) {
			a.Spec.AggregationLengthV6 = ptr.To(int32(vfPick(r, []int{128, 128, 127, 126, 124, 122, 120, 119, 112, 64, 63, 48, 0, 129})))
		}
		a.Spec.LocalPref = vfPick(r, []uint32{0, 0, 100, 100, 200})
		if r.Chance(1, 2) {
			a.Spec.Peers = vfSubset(r, []string{"peer1", "peer2", "peer3", "ghostpeer"}, 1, 2)
		}
		if r.Chance(1, 3) {
			a.Spec.Communities = []string{vfPick(r, []string{"65000:100", "65000:200"})}
		}
		res.BGPAdvs = append(res.BGPAdvs, a)
	}
	return res, tags
}

// ---------------------------------------------------------------- oracle

func c08SelMatches(sels []metav1.LabelSelector, lbls map[string]string) (bool, error) {
	for i := range sels {
		s, err := metav1.LabelSelectorAsSelector(&sels[i])
		if err != nil {
			return false, err
		}
		if s.Matches(labels.Set(lbls)) {
			return true, nil
		}
	}
	return false, nil
}

func c08ExpectedNodes(nodes []corev1.Node, sels []metav1.LabelSelector) map[string]bool {
	out := map[string]bool{}
	for _, n := range nodes {
		if len(sels) == 0 {
			out[n.Name] = true
			continue
		}
		if ok, _ := c08SelMatches(sels, n.Labels); ok {
			out[n.Name] = true
		}
	}
	return out
}

func c08AdvSelectsPool(names []string, sels []metav1.LabelSelector, p metallbv1beta1.IPAddressPool) bool {
	if len(names) == 0 && len(sels) == 0 {
		return true
	}
	for _, n := range names {
		if n == p.Name {
			return true
		}
	}
	ok, _ := c08SelMatches(sels, p.Labels)
	return ok
}

func c08SetKey(m map[string]bool) string {
	ks := []string{}
	for k, v := range m {
		if v {
			ks = append(ks, k)
		}
	}
	sort.Strings(ks)
	return strings.Join(ks, ",")
}

func c08L2Key(nodes map[string]bool, ifs []string, all bool) string {
	s := append([]string(nil), ifs...)
	sort.Strings(s)
	// duplicates in the interface list do not change the meaning
	uniq := []string{}
	for i, x := range s {
		if i == 0 || s[i-1] != x {
			uniq = append(uniq, x)
		}
	}
	return fmt.Sprintf("nodes=%s|ifs=%s|all=%v", c08SetKey(nodes), strings.Join(uniq, ","), all)
}

type c08PoolOracle struct {
	set     vfIvalSet
	kinds   []string
	strs    []string
	ivals   []vfIval
	plens   []int
	allCIDR bool
	class   string
}

func c08Check(c *vfCase, res ClusterResources, cfg *Config) {
	pools := map[string]*c08PoolOracle{}
	for _, p := range res.Pools {
		po := &c08PoolOracle{allCIDR: true}
		var ivs []vfIval
		bad := ""
		for _, s := range p.Spec.Addresses {
			kind, iv, plen := vfParsePoolAddress(s)
			po.kinds = append(po.kinds, kind)
			po.strs = append(po.strs, s)
			po.ivals = append(po.ivals, iv)
			po.plens = append(po.plens, plen)
			if kind != vfAddrCIDR {
				po.allCIDR = false
			}
			if kind == vfAddrCIDR || kind == vfAddrRange {
				ivs = append(ivs, iv)
			} else {
				bad = kind
			}
			if strings.Contains(s, "::ffff:") {
				po.class = "mapped"
			}
		}
		po.set = vfNormalize(ivs)
		pools[p.Name] = po
		got, ok := cfg.Pools.ByName[p.Name]
		if !ok {
			c.Violation("pool-missing", fmt.Sprintf("accepted configuration lacks pool %s", p.Name), res)
			continue
		}
		if bad == vfAddrMixed {
			c.Violation("accepted:mixed-family-range", fmt.Sprintf("pool %s with a range mixing families %q was accepted (parsed CIDRs %v)", p.Name, p.Spec.Addresses, got.CIDR), res)
			continue
		}
		if bad != "" {
			// the oracle cannot read a string the code accepted: not judged (never generated on purpose
			// except garbage/backward, which the code must reject)
			if bad == vfAddrBackwd {
				c.Violation("accepted:backward-range", fmt.Sprintf("pool %s %q accepted", p.Name, p.Spec.Addresses), res)
			} else {
				c.Count("oracle-unparsed-but-accepted")
			}
			continue
		}
		var gotIvs []vfIval
		okAll := true
		for _, n := range got.CIDR {
			iv, ok := vfIPNetIval(n)
			if !ok {
				okAll = false
				break
			}
			gotIvs = append(gotIvs, iv)
		}
		if !okAll {
			c.Violation("pool-cidr-malformed", fmt.Sprintf("pool %s has a malformed CIDR in %v", p.Name, got.CIDR), res)
			continue
		}
		gs := vfNormalize(gotIvs)
		c.Eval()
		if !gs.Equal(po.set) {
			c.Violation("pool-set-mismatch", fmt.Sprintf("pool %s written %q: parsed address set %s, expected %s", p.Name, p.Spec.Addresses, gs, po.set), res)
		}
	}
	// pairwise disjoint
	names := vfSortedKeys(pools)
	for i := 0; i < len(names); i++ {
		for j := i + 1; j < len(names); j++ {
			a, b := pools[names[i]], pools[names[j]]
			c.Eval()
			if w, ok := a.set.Overlap(b.set); ok {
				cls := "plain"
				if a.class == "mapped" || b.class == "mapped" {
					cls = "ipv4-mapped"
				}
				c.Violation("accepted:overlapping-pools:"+cls, fmt.Sprintf("pools %s %q and %s %q overlap on %s but were accepted", names[i], a.strs, names[j], b.strs, w), res)
			}
		}
	}
	// node internal IPs
	for _, n := range res.Nodes {
		for _, a := range n.Status.Addresses {
			if a.Type != corev1.NodeInternalIP {
				continue
			}
			f, v, ok := vfParseAddr(a.Address)
			if !ok {
				continue
			}
			for _, pn := range names {
				c.Eval()
				if pools[pn].set.Contains(f, v) {
					cls := "plain"
					if pools[pn].class == "mapped" {
						cls = "ipv4-mapped"
					}
					c.Violation("accepted:node-ip-in-pool:"+cls, fmt.Sprintf("node %s internal IP %s lies in pool %s %q", n.Name, a.Address, pn, pools[pn].strs), res)
				}
			}
		}
	}
	// advertisements attached to exactly the selected pools, with exactly the selected nodes
	for _, p := range res.Pools {
		got := cfg.Pools.ByName[p.Name]
		if got == nil {
			continue
		}
		wantL2 := map[string]bool{}
		for _, a := range res.L2Advs {
			if c08AdvSelectsPool(a.Spec.IPAddressPools, a.Spec.IPAddressPoolSelectors, p) {
				wantL2[c08L2Key(c08ExpectedNodes(res.Nodes, a.Spec.NodeSelectors), a.Spec.Interfaces, len(a.Spec.Interfaces) == 0)] = true
			}
		}
		gotL2 := map[string]bool{}
		for _, a := range got.L2Advertisements {
			gotL2[c08L2Key(a.Nodes, a.Interfaces, a.AllInterfaces)] = true
		}
		c.Eval()
		if c08SetKey(wantL2) != c08SetKey(gotL2) {
			c.Violation("l2adv-attachment", fmt.Sprintf("pool %s: L2 advertisements attached %q, expected %q", p.Name, c08SetKey(gotL2), c08SetKey(wantL2)), res)
		}
		wantB := map[string]bool{}
		for _, a := range res.BGPAdvs {
			if c08AdvSelectsPool(a.Spec.IPAddressPools, a.Spec.IPAddressPoolSelectors, p) {
				wantB[a.Name+"|nodes="+c08SetKey(c08ExpectedNodes(res.Nodes, a.Spec.NodeSelectors))] = true
			}
		}
		gotB := map[string]bool{}
		for _, a := range got.BGPAdvertisements {
			gotB[a.Name+"|nodes="+c08SetKey(a.Nodes)] = true
		}
		c.Eval()
		if c08SetKey(wantB) != c08SetKey(gotB) {
			c.Violation("bgpadv-attachment", fmt.Sprintf("pool %s: BGP advertisements attached %q, expected %q", p.Name, c08SetKey(gotB), c08SetKey(wantB)), res)
		}
		if len(got.BGPAdvertisements) > 0 {
			c.Count("accepted-pool-with-bgpadv")
		}
		if len(gotB) >= 2 || len(gotL2) >= 2 {
			c.Count("accepted-pool-with-2-advs")
		}
		// aggregates stay inside the pool CIDR (pools written as CIDRs)
		po := pools[p.Name]
		if po.allCIDR {
			for _, a := range got.BGPAdvertisements {
				for k, iv := range po.ivals {
					l := a.AggregationLength
					if iv.Fam == 6 {
						l = a.AggregationLengthV6
					}
					c.Eval()
					for _, edge := range []*big.Int{iv.Lo, iv.Hi} {
						agg := vfPrefixIval(iv.Fam, edge, l)
						if !(vfIvalSet{iv}).ContainsIval(agg) {
							c.Violation("aggregate-escapes-pool", fmt.Sprintf("pool %s CIDR %q with advertisement %s (aggregation %d/%d): aggregate %s of address %s leaves the CIDR",
								p.Name, po.strs[k], a.Name, a.AggregationLength, a.AggregationLengthV6, agg, vfAddrString(iv.Fam, edge)), res)
							break
						}
					}
				}
			}
		}
		// local preference collisions
		for i := 0; i < len(got.BGPAdvertisements); i++ {
			for j := i + 1; j < len(got.BGPAdvertisements); j++ {
				a, b := got.BGPAdvertisements[i], got.BGPAdvertisements[j]
				if a.LocalPref == b.LocalPref {
					continue
				}
				c.Eval()
				c.Count("localpref-pairs-judged")
				sameAgg := (po.set.HasFam(4) && a.AggregationLength == b.AggregationLength) ||
					(po.set.HasFam(6) && a.AggregationLengthV6 == b.AggregationLengthV6)
				if !sameAgg {
					continue
				}
				collide := ""
				for _, n := range res.Nodes {
					if !a.Nodes[n.Name] || !b.Nodes[n.Name] {
						continue
					}
					for _, peer := range res.Peers {
						inA := len(a.Peers) == 0 || c08Has(a.Peers, peer.Name)
						inB := len(b.Peers) == 0 || c08Has(b.Peers, peer.Name)
						if !inA || !inB {
							continue
						}
						onNode := len(peer.Spec.NodeSelectors) == 0
						if !onNode {
							onNode, _ = c08SelMatches(peer.Spec.NodeSelectors, n.Labels)
						}
						if onNode {
							collide = fmt.Sprintf("node %s peer %s", n.Name, peer.Name)
						}
					}
				}
				if collide != "" {
					c.Violation("accepted:localpref-collision", fmt.Sprintf("pool %s: advertisements %s (localpref %d) and %s (localpref %d) produce the same aggregate on %s",
						p.Name, a.Name, a.LocalPref, b.Name, b.LocalPref, collide), res)
				}
			}
		}
	}
}

func c08Has(xs []string, x string) bool {
	for _, y := range xs {
		if y == x {
			return true
		}
	}
	return false
}

func c08Directed() []ClusterResources {
	mk := func(addrs ...[]string) ClusterResources {
		var res ClusterResources
		for i, a := range addrs {
			p := metallbv1beta1.IPAddressPool{}
			p.Name = fmt.Sprintf("p%d", i+1)
			p.Spec.Addresses = a
			res.Pools = append(res.Pools, p)
		}
		return res
	}
	return []ClusterResources{
		mk([]string{"::ffff:1.2.3.0/120"}, []string{"1.2.3.128/25"}),
		mk([]string{"1.2.3.128/25"}, []string{"::ffff:1.2.3.0/120"}),
		mk([]string{"1.2.3.4-fc00::1"}),
		mk([]string{"10.0.0.0/24"}, []string{"10.0.0.16-10.0.0.31"}),
		mk([]string{"10.0.0.5-10.0.0.9"}, []string{"10.0.0.9-10.0.0.12"}),
		mk([]string{"10.0.0.0/30", "fc00::/126"}, []string{"fc00::2-fc00::9"}),
	}
}

func TestVerif_C08(t *testing.T) {
	rule := "resource sets generated from an address-string grammar (aligned/non-aligned CIDR, ranges, blanks, IPv4-mapped, mixed-family, /31 /32 /127 /128, neighbouring and nested blocks) x advertisements x nodes x 3 validators; " +
		"non-trivial = accepted configuration, distinct by (address strings, advertisement attachment, validator)"
	vfMain(t, "C08", vfSizes{Quick: 30000, Thorough: 150000}, rule, func(c *vfCase) {
		var res ClusterResources
		var tags []string
		directed := c08Directed()
		if c.Idx < len(directed) {
			res = directed[c.Idx]
			tags = []string{"directed"}
		} else {
			g := &c08Gen{r: c.R}
			res, tags = g.resources()
		}
		vi := c.R.Intn(3)
		validate := []Validate{DontValidate, DiscardFRROnly, DiscardNativeOnly}[vi]
		cfg, err := For(res, validate)
		c.Count("configs-generated")
		if err != nil {
			c.Count("rejected")
			if strings.Contains(err.Error(), "overlaps with already defined CIDR") {
				c.Count("rejected-for-overlap")
			}
			if strings.Contains(err.Error(), "contains nodeIp") {
				c.Count("rejected-for-node-ip")
			}
			if strings.Contains(err.Error(), "local prefer") {
				c.Count("rejected-for-localpref")
			}
			if strings.Contains(err.Error(), "invalid aggregation length") {
				c.Count("rejected-for-aggregation")
			}
			return
		}
		c.Count("accepted")
		if len(res.Pools) >= 2 {
			c.Count("accepted-with-2+-pools")
		}
		for _, tg := range tags {
			c.Count("accepted-notation:" + tg)
		}
		var key []string
		for _, p := range res.Pools {
			key = append(key, strings.Join(p.Spec.Addresses, ";"))
		}
		c.Nontrivial(fmt.Sprintf("%v|l2=%d|bgp=%d|v=%d", key, len(res.L2Advs), len(res.BGPAdvs), vi))
		c08Check(c, res, cfg)
		if c.WantSample() && len(res.Pools) >= 2 && len(res.BGPAdvs) > 0 {
			c.Sample(map[string]any{"pools": c08PoolDump(res), "l2advs": len(res.L2Advs), "bgpadvs": len(res.BGPAdvs), "nodes": len(res.Nodes), "validator": vi, "verdict": "accepted"})
		}
	})
}

func c08PoolDump(res ClusterResources) map[string][]string {
	out := map[string][]string{}
	for _, p := range res.Pools {
		out[p.Name] = p.Spec.Addresses
	}
	return out
}
