//go:build verif

package main

import (
	"errors"
	"fmt"
	"sort"

	"github.com/go-kit/log"
	metallbv1beta1 "go.universe.tf/metallb/api/v1beta1"
	"go.universe.tf/metallb/internal/allocator"
	"go.universe.tf/metallb/internal/config"
	"go.universe.tf/metallb/internal/k8s"
	"go.universe.tf/metallb/internal/k8s/controllers"
	v1 "k8s.io/api/core/v1"
	discovery "k8s.io/api/discovery/v1"
	apierrors "k8s.io/apimachinery/pkg/api/errors"
	"k8s.io/apimachinery/pkg/labels"
	"k8s.io/apimachinery/pkg/runtime/schema"
	"k8s.io/apimachinery/pkg/types"
	ctrl "sigs.k8s.io/controller-runtime"
	"sigs.k8s.io/controller-runtime/pkg/client"
	"sigs.k8s.io/controller-runtime/pkg/event"
)

const (
	boxFaultOK = iota
	boxFaultBefore
	boxFaultAfter
)

var boxReloadReq = ctrl.Request{NamespacedName: types.NamespacedName{Namespace: "metallbreload", Name: "reload"}}

// boxDelivered is one configuration version as handed to SetPools: the CRs the pool reconciler listed.
type boxDelivered struct {
	Pools []metallbv1beta1.IPAddressPool
	Nss   []v1.Namespace
	Model map[string]*vfMPool
}

type boxWrite struct {
	Key      string
	IPs      []string
	Pool     string
	Epoch    int
	Versions int // configuration versions delivered when the write happened
	Phase    string // relative to the first successful full sync of the running instance
}

type boxMonFlags struct {
	c01, c02, c03, c06, c07, c11, c18, c04 bool
}

// boxResourcesKey: the resources a pool configuration is computed from, independent of listing order.
func boxResourcesKey(d *boxDelivered) string {
	var ps, ns []string
	for _, p := range d.Pools {
		ps = append(ps, p.Name+"="+vfJSON(p.Spec)+vfJSON(p.Labels))
	}
	for _, n := range d.Nss {
		ns = append(ns, n.Name+"="+vfJSON(n.Labels))
	}
	sort.Strings(ps)
	sort.Strings(ns)
	return fmt.Sprint(ps, ns)
}

// cbox is the controller box: kernel + the current controller instance + monitor state.
type cbox struct {
	c   *vfCase
	k   *boxKernel
	mon boxMonFlags

	// instance
	ctl    *controller
	lis    *k8s.Listener
	svcRec *controllers.ServiceReconciler
	reload chan event.GenericEvent

	// what the pool reconciler listed in its current reconcile
	seenPools []metallbv1beta1.IPAddressPool
	seenNss   []v1.Namespace

	delivered []*boxDelivered // every version delivered to SetPools (all instances)
	cur       *boxDelivered   // version the running instance was given last (nil before)

	crashRec  *boxCrashRec
	touches   map[string]int // user-driven changes per service (create, delete, anything but status/annotation written by the controller)
	faultPlan []int
	faultRand *vfRand // when set: every status write fails with probability 1/6 (at most faultBudget times), before or after being applied
	faultBudget int
	faultsInjected int
	notified  map[string][4]int64 // pool -> counters read at the moment of its last change notification
	gainedLater map[string]bool // services whose second address came from the additional-family step
	afterFailedLoad func() // applied once, when a reload of all services ended with "retry"
	lastFailed string // service whose status write failed last (cleared by its next successful write)
	writes    []boxWrite
	memLog    []boxWrite // every change of a service's addresses in the allocator memory
	epoch     int
	conflicts int
	booted    bool
	fullSyncs int // successful reprocessAll passes of the running instance
	handlerCalls int
}

func newCbox(c *vfCase, mon boxMonFlags, schedSeed uint64) *cbox {
	cb := &cbox{c: c, mon: mon, touches: map[string]int{}}
	cb.k = newBoxKernel(c, schedSeed)
	cb.k.Route = cb.route
	cb.k.Boot = cb.boot
	cb.k.AfterStep = cb.drain
	cb.k.OnList = func(rec, kind string, items []client.Object) {
		if rec != "pool" {
			return
		}
		switch kind {
		case "*v1beta1.IPAddressPoolList":
			cb.seenPools = nil
			for _, o := range items {
				cb.seenPools = append(cb.seenPools, *o.(*metallbv1beta1.IPAddressPool).DeepCopy())
			}
		case "*v1.NamespaceList":
			cb.seenNss = nil
			for _, o := range items {
				cb.seenNss = append(cb.seenNss, *o.(*v1.Namespace).DeepCopy())
			}
		}
	}
	return cb
}

// route: watch event -> queue additions, with the predicates of SetupWithManager.
func (cb *cbox) route(kind string, key types.NamespacedName, old, new client.Object) []boxEnq {
	switch kind {
	case "Service":
		k := key.Namespace + "/" + key.Name
		if old == nil || new == nil || boxSpecHash(old.(*v1.Service)) != boxSpecHash(new.(*v1.Service)) {
			if !cb.k.Booting {
				cb.touches[k]++
			}
		}
		return []boxEnq{{Rec: "svc", Req: ctrl.Request{NamespacedName: key}}}
	case "IPAddressPool":
		if old != nil && new != nil && old.GetGeneration() == new.GetGeneration() {
			// filterPoolStatusEvent (GenerationChangedPredicate): a status-only change goes to the
			// PoolStatusReconciler, not to the PoolReconciler
			return []boxEnq{{Rec: "poolstatus", Req: ctrl.Request{NamespacedName: key}}}
		}
		if old != nil && new != nil {
			return []boxEnq{{Rec: "pool", Req: ctrl.Request{NamespacedName: key}}}
		}
		return []boxEnq{{Rec: "pool", Req: ctrl.Request{NamespacedName: key}}, {Rec: "poolstatus", Req: ctrl.Request{NamespacedName: key}}}
	case "Community":
		return []boxEnq{{Rec: "pool", Req: ctrl.Request{NamespacedName: key}}}
	case "Namespace":
		if old != nil && new != nil && labels.Equals(labels.Set(old.GetLabels()), labels.Set(new.GetLabels())) {
			return nil // filterNamespaceEvent
		}
		return []boxEnq{{Rec: "pool", Req: ctrl.Request{NamespacedName: key}}}
	}
	return nil
}

// drain moves reload events from the reconciler's channel into the service queue (what
// source.Channel does in production).
func (cb *cbox) drain(k *boxKernel) {
	for {
		select {
		case <-cb.reload:
			k.Enqueue("svc", boxReloadReq)
		default:
			return
		}
	}
}

func (cb *cbox) boot(k *boxKernel) {
	cb.notified = map[string][4]int64{}
	cb.ctl = &controller{ips: allocator.New(func(name string) {
		// what a status fetcher running concurrently would read right at the notification (it runs on
		// its own goroutine, outside the handlers' lock): no later notification may be needed to see
		// the final values
		if cb.ctl != nil && cb.ctl.ips != nil {
			ctr := cb.ctl.ips.CountersForPool(name)
			cb.notified[name] = [4]int64{ctr.AssignedIPv4, ctr.AssignedIPv6, ctr.AvailableIPv4, ctr.AvailableIPv6}
		}
		// poolStatusChan -> source.Channel -> PoolStatusReconciler queue
		k.Enqueue("poolstatus", ctrl.Request{NamespacedName: types.NamespacedName{Namespace: "metallb-system", Name: name}})
	})}
	cb.ctl.client = &cboxSvcClient{cb: cb}
	cb.lis = &k8s.Listener{ServiceChanged: cb.ctl.SetBalancer, PoolChanged: cb.ctl.SetPools}
	cb.reload = make(chan event.GenericEvent, 4096)
	cb.cur = nil
	cb.fullSyncs = 0
	k.OnDone = func(rec string, req ctrl.Request, err error) {
		if rec == "svc" && req == boxReloadReq && err == nil {
			cb.fullSyncs++
		}
		if rec == "svc" && req == boxReloadReq && err != nil && cb.afterFailedLoad != nil {
			// hostile timing: right between a load that has to be retried and its retry
			f := cb.afterFailedLoad
			cb.afterFailedLoad = nil
			f()
		}
	}
	logger := log.NewNopLogger()
	lis := cb.lis
	cb.svcRec = &controllers.ServiceReconciler{
		Client:    k.ClientFor("svc"),
		Logger:    logger,
		Endpoints: false,
		Reload:    cb.reload,
		Handler: func(l log.Logger, name string, svc *v1.Service, eps []discovery.EndpointSlice) controllers.SyncState {
			k.Yield("svc", "before-handler")
			pre := cb.beforeSvcHandler(name, svc)
			res := lis.ServiceHandler(l, name, svc, eps)
			cb.afterSvcHandler(name, svc, pre, res)
			k.Yield("svc", "after-handler")
			return res
		},
	}
	poolRec := &controllers.PoolReconciler{
		Client:         k.ClientFor("pool"),
		Logger:         logger,
		Namespace:      "metallb-system",
		ValidateConfig: config.DontValidate,
		ForceReload:    func() { k.Enqueue("svc", boxReloadReq) },
		Handler: func(l log.Logger, pools *config.Pools) controllers.SyncState {
			k.Yield("pool", "before-handler")
			d := &boxDelivered{Pools: cb.seenPools, Nss: cb.seenNss}
			d.Model = vfModelPools(d.Pools, d.Nss)
			if cb.mon.c18 {
				// C18: the handler must not be called again for resources that did not change
				cb.c.Eval()
				cb.c.Count("config-deliveries")
				if cb.cur != nil && boxResourcesKey(cb.cur) == boxResourcesKey(d) {
					cb.c.Violation("handler-recalled:PoolReconciler:unchanged-resources", fmt.Sprintf("SetPools was called again although pools and namespaces are unchanged since the previous call (%s): an unrelated event looked like a configuration change and re-syncs every Service", vfPoolDump(d.Pools)), nil)
				} else if cb.cur != nil {
					cb.c.Nontrivial(boxResourcesKey(d))
				}
			}
			res := lis.PoolHandler(l, pools)
			cb.delivered = append(cb.delivered, d)
			cb.cur = d
			cb.c.Logf("   SetPools(%s) -> %v", vfPoolDump(d.Pools), res)
			cb.afterPoolHandler()
			k.Yield("pool", "after-handler")
			return res
		},
	}
	statusRec := &controllers.PoolStatusReconciler{
		Client:          k.ClientFor("poolstatus"),
		Logger:          logger,
		CountersFetcher: cb.ctl.ips.CountersForPool,
	}
	k.AddReconciler("svc", cb.svcRec.Reconcile)
	k.AddReconciler("pool", poolRec.Reconcile)
	k.AddReconciler("poolstatus", statusRec.Reconcile)
}

// ---------------------------------------------------------------- the controller's service client

type cboxSvcClient struct{ cb *cbox }

func (s *cboxSvcClient) Infof(svc *v1.Service, desc, msg string, args ...interface{}) {
	s.cb.c.Logf("     event %s: %s", desc, fmt.Sprintf(msg, args...))
}
func (s *cboxSvcClient) Errorf(svc *v1.Service, desc, msg string, args ...interface{}) {
	s.cb.c.Logf("     event(error) %s: %s", desc, fmt.Sprintf(msg, args...))
}

func (s *cboxSvcClient) UpdateStatus(svc *v1.Service) error {
	cb := s.cb
	cb.k.CrashPoint("before-status-write")
	outcome := boxFaultOK
	if len(cb.faultPlan) > 0 {
		outcome = cb.faultPlan[0]
		cb.faultPlan = cb.faultPlan[1:]
	} else if cb.faultRand != nil && cb.faultBudget > 0 && cb.faultRand.Chance(1, 6) {
		cb.faultBudget--
		outcome = vfPick(cb.faultRand, []int{boxFaultBefore, boxFaultBefore, boxFaultAfter})
	}
	key := svc.Namespace + "/" + svc.Name
	if outcome == boxFaultBefore {
		cb.faultsInjected++
		cb.lastFailed = key
		cb.c.Logf("   UpdateStatus(%s) fails before apply (injected)", key)
		return errors.New("injected: status write failed")
	}
	cur := cb.k.Store.Services[key]
	if cur == nil {
		return apierrors.NewNotFound(schema.GroupResource{Resource: "services"}, svc.Name)
	}
	if cur.ResourceVersion != svc.ResourceVersion {
		cb.conflicts++
		cb.c.Logf("   UpdateStatus(%s) conflict: stale resourceVersion %s != %s", key, svc.ResourceVersion, cur.ResourceVersion)
		return apierrors.NewConflict(schema.GroupResource{Resource: "services"}, svc.Name, errors.New("the object has been modified"))
	}
	n := cur.DeepCopy()
	n.Status = *svc.Status.DeepCopy()
	n.Annotations = map[string]string{}
	for k, v := range svc.Annotations {
		n.Annotations[k] = v
	}
	cb.k.Store.Put(n)
	w := boxWrite{Key: key, Pool: n.Annotations[AnnotationIPAllocateFromPool], Epoch: cb.epoch, Versions: len(cb.delivered)}
	for _, ing := range n.Status.LoadBalancer.Ingress {
		w.IPs = append(w.IPs, ing.IP)
	}
	cb.writes = append(cb.writes, w)
	cb.c.Logf("   UpdateStatus(%s) ips=%v pool=%q", key, w.IPs, w.Pool)
	cb.c.Count("status-writes")
	cb.k.CrashPoint("after-status-write")
	if cb.lastFailed == key {
		cb.lastFailed = ""
	}
	if outcome == boxFaultAfter {
		cb.faultsInjected++
		cb.lastFailed = key
		cb.c.Logf("   UpdateStatus(%s) applied but reported as failed (injected)", key)
		return errors.New("injected: status write applied, response lost")
	}
	return nil
}

// ---------------------------------------------------------------- snapshots and worlds

func cboxSnap(v allocator.VerifSnapshot) vfSnap {
	s := vfSnap{Allocated: map[string]vfSnapAlloc{}, SharingKeyForIP: v.SharingKeyForIP, PortsInUse: v.PortsInUse, ServicesOnIP: v.ServicesOnIP,
		PoolIPsInUse: v.PoolIPsInUse, PoolIPV4InUse: v.PoolIPV4InUse, PoolIPV6InUse: v.PoolIPV6InUse, PoolNames: v.PoolNames, Counters: map[string][4]int64{}}
	for k, a := range v.Allocated {
		var ips []string
		for _, ip := range a.IPs {
			c, _, ok := vfCanonIP(ip)
			if !ok {
				c = ip
			}
			ips = append(ips, c)
		}
		s.Allocated[k] = vfSnapAlloc{Pool: a.Pool, IPs: ips, Ports: a.Ports, SharingKey: a.SharingKey, BackendKey: a.BackendKey}
	}
	for k, c := range v.Counters {
		s.Counters[k] = [4]int64{c.AssignedIPv4, c.AssignedIPv6, c.AvailableIPv4, c.AvailableIPv6}
	}
	return s
}

// worldFromSnap: holdings as the allocator recorded them (keys and ports as recorded), except one key.
func (cb *cbox) worldFromSnap(snap vfSnap, model map[string]*vfMPool, except string) *vfWorld {
	w := &vfWorld{Pools: model, Holdings: map[string]*vfHolding{}}
	for svc, al := range snap.Allocated {
		if svc == except {
			continue
		}
		req := &vfSvcReq{Key: svc, ShareKey: al.SharingKey, Ports: map[string]bool{}, Local: al.BackendKey != "", Selector: al.BackendKey}
		for _, p := range al.Ports {
			req.Ports[p] = true
		}
		w.Holdings[svc] = &vfHolding{Req: req, IPs: al.IPs}
	}
	return w
}

// worldFromStore: holdings as written to the Service statuses, with the live specs.
func (cb *cbox) worldFromStore(model map[string]*vfMPool) *vfWorld {
	w := &vfWorld{Pools: model, Holdings: map[string]*vfHolding{}}
	for _, key := range vfSortedKeys(cb.k.Store.Services) {
		svc := cb.k.Store.Services[key]
		req := vfSvcRequirement(svc)
		if len(req.StatusIPs) == 0 {
			continue
		}
		w.Holdings[key] = &vfHolding{Req: &req, IPs: req.StatusIPs}
	}
	return w
}

func boxSvcDump(svc *v1.Service) string {
	r := vfSvcRequirement(svc)
	ports := vfSortedKeys(r.Ports)
	sort.Strings(ports)
	return fmt.Sprintf("%s type=%s fam=%v pol=%s ports=%v key=%q local=%v sel=%q reqIPs=%v(bad=%v) reqPool=%q status=%v ann=%q labels=%v",
		r.Key, svc.Spec.Type, r.Families, r.Policy, ports, r.ShareKey, r.Local, r.Selector, r.ReqIPs, r.ReqBad, r.ReqPool, r.StatusIPs, r.PoolAnn, svc.Labels)
}
