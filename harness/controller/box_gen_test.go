//go:build verif

package main

import (
	"time"
	"fmt"
	"math/big"
	"reflect"
	"strings"

	metallbv1beta1 "go.universe.tf/metallb/api/v1beta1"
	"go.universe.tf/metallb/internal/config"
	v1 "k8s.io/api/core/v1"
	metav1 "k8s.io/apimachinery/pkg/apis/meta/v1"
	"k8s.io/utils/ptr"
)

type boxGen struct {
	r       *vfRand
	nextSvc int
	big     bool // include astronomically large blocks (C11)
	pinned  bool // C18: several pools pinned to one namespace + a selector-pinned pool
	tight   bool // C07: very few addresses, one dominant sharing key, two ports: exhaustion and port conflicts everywhere
	hot     func() string // key of the service whose status write failed last ("" = none)
	deleted []string      // namespace/name of deleted services: some are created again under the same name
}

func (g *boxGen) genPools() []metallbv1beta1.IPAddressPool {
	if g.pinned {
		// several pools pinned to one namespace (by name) next to a pool pinned by a service selector
		// whose name sorts first, plus sometimes an unpinned one
		blocks := vfShuffled(g.r, vfBlocksSmall)
		mk := func(name string, i int) metallbv1beta1.IPAddressPool {
			p := metallbv1beta1.IPAddressPool{ObjectMeta: metav1.ObjectMeta{Name: name, Namespace: "metallb-system"}}
			p.Spec.Addresses = []string{blocks[i]}
			return p
		}
		var out []metallbv1beta1.IPAddressPool
		n := g.r.Range(3, 5)
		for i := 0; i < n; i++ {
			p := mk(fmt.Sprintf("p%d", i+1), i)
			p.Spec.AllocateTo = &metallbv1beta1.ServiceAllocation{Priority: g.r.Intn(4), Namespaces: []string{"ns1"}}
			if g.r.Chance(1, 4) {
				p.Spec.AllocateTo.Namespaces = []string{"ns1", "ns2"}
			}
			out = append(out, p)
		}
		a := mk("a0", n)
		a.Spec.AllocateTo = &metallbv1beta1.ServiceAllocation{Priority: g.r.Intn(3), ServiceSelectors: []metav1.LabelSelector{{MatchLabels: map[string]string{"tier": "web"}}}}
		out = append(out, a)
		if g.r.Bool() {
			out = append(out, mk("u1", n+1))
		}
		return out
	}
	if !g.tight {
		return vfGenPools(g.r, g.big, []string{"p1", "p2", "p3", "p4"})
	}
	// 1-2 pools with 1-3 addresses in total per family
	crs := vfGenPools(g.r, false, []string{"p1", "p2"})
	for i := range crs {
		if len(crs[i].Spec.Addresses) > 1 {
			crs[i].Spec.Addresses = crs[i].Spec.Addresses[:1]
		}
	}
	return crs
}

var boxPortPalette = []v1.ServicePort{
	{Protocol: v1.ProtocolTCP, Port: 80}, {Protocol: v1.ProtocolTCP, Port: 443},
	{Protocol: v1.ProtocolUDP, Port: 53}, {Protocol: v1.ProtocolTCP, Port: 8080},
	{Protocol: v1.ProtocolTCP, Port: 53}, // the same number as UDP/53: (protocol, port) pairs, not numbers, must be disjoint
}

func boxPoolList(s *boxStore) []metallbv1beta1.IPAddressPool {
	var out []metallbv1beta1.IPAddressPool
	for _, k := range vfSortedKeys(s.Pools) {
		out = append(out, *s.Pools[k].DeepCopy())
	}
	return out
}

func boxNsList(s *boxStore) []v1.Namespace {
	var out []v1.Namespace
	for _, k := range vfSortedKeys(s.Namespaces) {
		out = append(out, *s.Namespaces[k].DeepCopy())
	}
	return out
}

// candidate addresses of the pools currently in the store (all of the small ones, edges of big ones)
func boxCandidateIPs(s *boxStore) []string {
	model := vfModelPools(boxPoolList(s), boxNsList(s))
	var out []string
	for _, n := range vfSortedKeys(model) {
		for _, iv := range model[n].Set {
			if new(big.Int).Sub(iv.Hi, iv.Lo).Cmp(big.NewInt(32)) > 0 {
				out = append(out, vfAddrString(iv.Fam, iv.Lo), vfAddrString(iv.Fam, new(big.Int).Add(iv.Lo, big.NewInt(1))))
				continue
			}
			out = append(out, (vfIvalSet{iv}).Addrs(32)...)
		}
	}
	return out
}

func (g *boxGen) pickIP(s *boxStore, fam int) string {
	c := boxCandidateIPs(s)
	var f []string
	for _, ip := range c {
		if _, ff, _ := vfCanonIP(ip); ff == fam || fam == 0 {
			f = append(f, ip)
		}
	}
	if len(f) == 0 || g.r.Chance(1, 12) {
		if fam == 6 {
			return "fc00:99::1"
		}
		return "10.99.0.1"
	}
	return vfPick(g.r, f)
}

func (g *boxGen) setPorts(svc *v1.Service) {
	if g.tight {
		n := vfPick(g.r, []int{1, 1, 2})
		svc.Spec.Ports = append([]v1.ServicePort(nil), vfShuffled(g.r, boxPortPalette[:2])[:n]...)
		return
	}
	n := vfPick(g.r, []int{1, 1, 2, 3})
	svc.Spec.Ports = append([]v1.ServicePort(nil), vfShuffled(g.r, boxPortPalette)[:n]...)
}

func (g *boxGen) setShareKey(svc *v1.Service) {
	delete(svc.Annotations, AnnotationAllowSharedIP)
	delete(svc.Annotations, DeprecatedAnnotationAllowSharedIP)
	k := vfPick(g.r, []string{"", "", "k1", "k1", "k1", "k2"})
	if g.tight {
		k = vfPick(g.r, []string{"", "k1", "k1", "k1", "k1", "k1", "k1", "k2"})
	}
	if k == "" {
		return
	}
	switch g.r.Intn(8) {
	case 0, 1:
		svc.Annotations[DeprecatedAnnotationAllowSharedIP] = k
	case 2: // both spellings with different values: the stable one counts
		svc.Annotations[AnnotationAllowSharedIP] = k
		svc.Annotations[DeprecatedAnnotationAllowSharedIP] = vfPick(g.r, []string{"k1", "k2", "k3"})
	default:
		svc.Annotations[AnnotationAllowSharedIP] = k
	}
}

func (g *boxGen) setPolicy(svc *v1.Service) {
	sel := vfPick(g.r, []map[string]string{nil, {"app": "x"}, {"app": "x"}, {"app": "y"}, {"app": "x", "role": "front", "zone": "a", "rel": "r1"}})
	svc.Spec.Selector = sel
	if g.r.Chance(1, 6) {
		// Local services behind the same (several-label) selector: the pairs that may share an address
		svc.Spec.Selector = map[string]string{"app": "x", "role": "front", "zone": "a", "rel": "r1"}
		svc.Spec.ExternalTrafficPolicy = v1.ServiceExternalTrafficPolicyTypeLocal
		return
	}
	if g.r.Chance(1, 3) {
		svc.Spec.ExternalTrafficPolicy = v1.ServiceExternalTrafficPolicyTypeLocal
	} else {
		svc.Spec.ExternalTrafficPolicy = v1.ServiceExternalTrafficPolicyTypeCluster
	}
}

func (g *boxGen) families(svc *v1.Service) []int {
	var out []int
	for _, c := range svc.Spec.ClusterIPs {
		if strings.Contains(c, ":") {
			out = append(out, 6)
		} else {
			out = append(out, 4)
		}
	}
	return out
}

func (g *boxGen) setRequest(svc *v1.Service, s *boxStore) {
	for _, a := range []string{AnnotationLoadBalancerIPs, DeprecatedAnnotationLoadBalancerIPs, AnnotationAddressPool, DeprecatedAnnotationAddressPool} {
		delete(svc.Annotations, a)
	}
	svc.Spec.LoadBalancerIP = ""
	fams := g.families(svc)
	switch g.r.Intn(16) {
	case 0, 1: // spec.loadBalancerIP
		f := 4
		if len(fams) > 0 {
			f = fams[0]
		}
		svc.Spec.LoadBalancerIP = g.pickIP(s, f)
		if g.r.Chance(1, 10) {
			svc.Spec.LoadBalancerIP = "banana"
		}
	case 2, 3: // loadBalancerIPs annotation, one or two addresses matching the families
		var ips []string
		for _, f := range fams {
			ips = append(ips, g.pickIP(s, f))
		}
		if held := svc.Status.LoadBalancer.Ingress; len(held) > 0 && g.r.Chance(1, 3) {
			// the request names what the service already holds (and, for a dual-stack service holding
			// one address, an address of the other family besides it)
			for i, f := range fams {
				for _, ing := range held {
					if _, hf, ok := vfCanonIP(ing.IP); ok && hf == f {
						ips[i] = ing.IP
					}
				}
			}
		}
		if len(fams) == 2 && g.r.Chance(1, 3) {
			// ask for the pair another service holds (to share it), in either order
			for _, k := range vfShuffled(g.r, vfSortedKeys(s.Services)) {
				o := s.Services[k]
				if o.Name == svc.Name && o.Namespace == svc.Namespace {
					continue
				}
				if ing := o.Status.LoadBalancer.Ingress; len(ing) == 2 {
					ips = []string{ing[0].IP, ing[1].IP}
					if g.r.Bool() {
						ips[0], ips[1] = ips[1], ips[0]
					}
					if ak := o.Annotations[AnnotationAllowSharedIP]; ak != "" && g.r.Chance(2, 3) {
						delete(svc.Annotations, DeprecatedAnnotationAllowSharedIP)
						svc.Annotations[AnnotationAllowSharedIP] = ak
					}
					break
				}
			}
		}
		if len(ips) == 2 && g.r.Chance(1, 5) {
			ips = ips[:1]
		}
		pinnedHeld := false
		if held := svc.Status.LoadBalancer.Ingress; len(held) == 1 && len(fams) == 2 && g.r.Chance(1, 2) {
			// a dual-stack service pins exactly the single address it holds (it must not gain the other family then)
			ips = []string{held[0].IP}
			pinnedHeld = true
		}
		sep := vfPick(g.r, []string{",", ", ", " , "})
		val := strings.Join(ips, sep)
		if g.r.Chance(1, 12) && !pinnedHeld {
			val = "1.2.3.400"
		}
		if g.r.Chance(1, 4) || (pinnedHeld && g.r.Bool()) {
			svc.Annotations[DeprecatedAnnotationLoadBalancerIPs] = val
		} else {
			svc.Annotations[AnnotationLoadBalancerIPs] = val
		}
		if g.r.Chance(1, 12) {
			svc.Spec.LoadBalancerIP = g.pickIP(s, 4) // contradictory request
		}
	case 4, 5: // pool annotation
		names := []string{"ghost"}
		for _, k := range vfSortedKeys(s.Pools) {
			names = append(names, s.Pools[k].Name, s.Pools[k].Name)
		}
		val := vfPick(g.r, names)
		switch g.r.Intn(8) {
		case 0, 1:
			svc.Annotations[DeprecatedAnnotationAddressPool] = val
		case 2: // both spellings with different values: the stable one counts
			svc.Annotations[AnnotationAddressPool] = val
			svc.Annotations[DeprecatedAnnotationAddressPool] = vfPick(g.r, names)
		default:
			svc.Annotations[AnnotationAddressPool] = val
		}
		if g.r.Chance(1, 4) { // pool + explicit address
			f := 4
			if len(fams) > 0 {
				f = fams[0]
			}
			if len(fams) == 1 {
				svc.Annotations[AnnotationLoadBalancerIPs] = g.pickIP(s, f)
			}
		}
	}
}

func (g *boxGen) newService(s *boxStore) *v1.Service {
	g.nextSvc++
	svc := &v1.Service{ObjectMeta: metav1.ObjectMeta{Name: fmt.Sprintf("s%d", g.nextSvc), Namespace: vfPick(g.r, []string{"ns1", "ns1", "ns2", "ns3"}), Annotations: map[string]string{}}}
	switch g.r.Intn(3) {
	case 0:
		svc.Labels = map[string]string{"tier": "web"}
	case 1:
		svc.Labels = map[string]string{"tier": "db"}
	}
	svc.Spec.Type = v1.ServiceTypeLoadBalancer
	if g.r.Chance(1, 10) {
		svc.Spec.Type = v1.ServiceTypeClusterIP
	}
	switch g.r.Intn(10) {
	case 0, 1, 2, 3, 4:
		svc.Spec.ClusterIPs = []string{"172.16.0.1"}
		svc.Spec.IPFamilies = []v1.IPFamily{v1.IPv4Protocol}
	case 5:
		svc.Spec.ClusterIPs = []string{"fd00::1"}
		svc.Spec.IPFamilies = []v1.IPFamily{v1.IPv6Protocol}
	case 6, 7:
		svc.Spec.ClusterIPs = []string{"172.16.0.1", "fd00::1"}
		svc.Spec.IPFamilies = []v1.IPFamily{v1.IPv4Protocol, v1.IPv6Protocol}
	case 8:
		svc.Spec.ClusterIPs = []string{"fd00::1", "172.16.0.1"}
		svc.Spec.IPFamilies = []v1.IPFamily{v1.IPv6Protocol, v1.IPv4Protocol}
	default: // only the legacy field
		svc.Spec.ClusterIP = "172.16.0.1"
	}
	if len(svc.Spec.ClusterIPs) == 2 {
		svc.Spec.IPFamilyPolicy = ptr.To(vfPick(g.r, []v1.IPFamilyPolicy{v1.IPFamilyPolicyPreferDualStack, v1.IPFamilyPolicyPreferDualStack, v1.IPFamilyPolicyRequireDualStack}))
	} else if g.r.Chance(1, 5) {
		svc.Spec.IPFamilyPolicy = ptr.To(vfPick(g.r, []v1.IPFamilyPolicy{v1.IPFamilyPolicyPreferDualStack, v1.IPFamilyPolicySingleStack, v1.IPFamilyPolicyRequireDualStack}))
	}
	g.setPorts(svc)
	g.setShareKey(svc)
	g.setPolicy(svc)
	g.setRequest(svc, s)
	return svc
}

// ---------------------------------------------------------------- events

func (g *boxGen) evCreate() boxUserEvent {
	return boxUserEvent{Kind: "svc-create", Apply: func(s *boxStore) string {
		if len(s.Services) >= 8 {
			return "skipped (8 services)"
		}
		svc := g.newService(s)
		if len(g.deleted) > 0 && g.r.Chance(1, 3) {
			// a new object under the name of a deleted one (another spec, no status)
			k := vfPick(g.r, g.deleted)
			if s.Services[k] == nil {
				if i := strings.Index(k, "/"); i > 0 {
					svc.Namespace, svc.Name = k[:i], k[i+1:]
				}
			}
		}
		s.Put(svc)
		return boxSvcDump(svc)
	}}
}

func (g *boxGen) pickSvc(s *boxStore) *v1.Service {
	ks := vfSortedKeys(s.Services)
	if len(ks) == 0 {
		return nil
	}
	if g.hot != nil {
		// hostile timing: aim at the service whose status write has just failed (its retry is pending)
		if h := g.hot(); h != "" && s.Services[h] != nil && g.r.Chance(1, 2) {
			return s.Services[h].DeepCopy()
		}
	}
	return s.Services[vfPick(g.r, ks)].DeepCopy()
}

func (g *boxGen) evSvc(kind string) boxUserEvent {
	return boxUserEvent{Kind: kind, Apply: func(s *boxStore) string {
		svc := g.pickSvc(s)
		if svc == nil {
			return "skipped (no service)"
		}
		if svc.Annotations == nil {
			svc.Annotations = map[string]string{}
		}
		switch kind {
		case "svc-delete":
			s.Delete(svc)
			g.deleted = append(g.deleted, svc.Namespace+"/"+svc.Name)
			return svc.Namespace + "/" + svc.Name
		case "svc-stack":
			// the cluster gives the service a second cluster IP, or takes it back (dual-stack up/downgrade)
			switch len(svc.Spec.ClusterIPs) {
			case 2:
				svc.Spec.ClusterIPs = svc.Spec.ClusterIPs[:1]
				svc.Spec.IPFamilies = svc.Spec.IPFamilies[:1]
			case 1:
				if strings.Contains(svc.Spec.ClusterIPs[0], ":") {
					svc.Spec.ClusterIPs = append(svc.Spec.ClusterIPs, "172.16.0.1")
					svc.Spec.IPFamilies = []v1.IPFamily{v1.IPv6Protocol, v1.IPv4Protocol}
				} else {
					svc.Spec.ClusterIPs = append(svc.Spec.ClusterIPs, "fd00::1")
					svc.Spec.IPFamilies = []v1.IPFamily{v1.IPv4Protocol, v1.IPv6Protocol}
				}
				if svc.Spec.IPFamilyPolicy == nil || *svc.Spec.IPFamilyPolicy == v1.IPFamilyPolicySingleStack {
					svc.Spec.IPFamilyPolicy = ptr.To(v1.IPFamilyPolicyPreferDualStack)
				}
			default:
				return "skipped (legacy clusterIP only)"
			}
		case "svc-terminating":
			// deleted, but a finalizer keeps the object: it still exists and keeps what it holds
			if svc.DeletionTimestamp == nil {
				now := metav1.NewTime(time.Unix(1700000000, 0))
				svc.DeletionTimestamp = &now
				svc.Finalizers = []string{"example.com/hold"}
			} else {
				return "skipped (already terminating)"
			}
		case "svc-ports":
			g.setPorts(svc)
		case "svc-port-shrink":
			if len(svc.Spec.Ports) < 2 {
				return "skipped (single port)"
			}
			svc.Spec.Ports = svc.Spec.Ports[:len(svc.Spec.Ports)-1]
		case "svc-rekey":
			g.setShareKey(svc)
		case "svc-policy":
			g.setPolicy(svc)
		case "svc-retype":
			if svc.Spec.Type == v1.ServiceTypeLoadBalancer {
				svc.Spec.Type = v1.ServiceTypeClusterIP
			} else {
				svc.Spec.Type = v1.ServiceTypeLoadBalancer
			}
		case "svc-request":
			g.setRequest(svc, s)
		case "svc-unrequest":
			for _, a := range []string{AnnotationLoadBalancerIPs, DeprecatedAnnotationLoadBalancerIPs, AnnotationAddressPool, DeprecatedAnnotationAddressPool} {
				delete(svc.Annotations, a)
			}
			svc.Spec.LoadBalancerIP = ""
		case "svc-labels":
			svc.Labels = vfPick(g.r, []map[string]string{nil, {"tier": "web"}, {"tier": "db"}})
		}
		s.Put(svc)
		return boxSvcDump(svc)
	}}
}

func (g *boxGen) applyPools(s *boxStore, crs []metallbv1beta1.IPAddressPool) {
	want := map[string]bool{}
	for i := range crs {
		want[crs[i].Name] = true
	}
	for _, k := range vfSortedKeys(s.Pools) {
		if !want[s.Pools[k].Name] {
			s.Delete(s.Pools[k])
		}
	}
	for i := range crs {
		cur := s.Pools["metallb-system/"+crs[i].Name]
		if cur != nil && reflect.DeepEqual(cur.Spec, crs[i].Spec) && reflect.DeepEqual(cur.Labels, crs[i].Labels) {
			continue
		}
		if cur != nil {
			crs[i].Status = cur.Status // a spec update leaves the status sub-resource alone
		}
		s.Put(&crs[i])
	}
}

func (g *boxGen) evPool(kind string) boxUserEvent {
	return boxUserEvent{Kind: kind, Apply: func(s *boxStore) string {
		cur := boxPoolList(s)
		var crs []metallbv1beta1.IPAddressPool
		switch kind {
		case "pool-new-layout":
			crs = g.genPools()
		case "pool-regroup":
			crs = vfRegroupPools(g.r, cur)
		case "pool-flip":
			crs = vfFlipPools(g.r, cur)
		case "pool-drop":
			crs = cur
			if len(crs) > 1 {
				i := g.r.Intn(len(crs))
				crs = append(crs[:i:i], crs[i+1:]...)
			}
		case "pool-grow":
			crs = cur
			used := map[string]bool{}
			for _, p := range crs {
				for _, a := range p.Spec.Addresses {
					used[a] = true
				}
			}
			for _, b := range vfShuffled(g.r, vfBlocksSmall) {
				if !used[b] && len(crs) > 0 {
					i := g.r.Intn(len(crs))
					crs[i].Spec.Addresses = append(append([]string(nil), crs[i].Spec.Addresses...), b)
					break
				}
			}
		case "pool-shrink":
			crs = cur
			for _, i := range vfShuffled(g.r, []int{0, 1, 2, 3}) {
				if i < len(crs) && len(crs[i].Spec.Addresses) > 1 {
					j := g.r.Intn(len(crs[i].Spec.Addresses))
					a := append([]string(nil), crs[i].Spec.Addresses...)
					crs[i].Spec.Addresses = append(a[:j], a[j+1:]...)
					break
				}
			}
		case "pool-invalid":
			// a pool overlapping an existing one: the whole resource set is rejected until it is removed
			crs = cur
			if len(crs) > 0 {
				bad := metallbv1beta1.IPAddressPool{ObjectMeta: metav1.ObjectMeta{Name: "bad", Namespace: "metallb-system"}}
				bad.Spec.Addresses = []string{crs[0].Spec.Addresses[0]}
				crs = append(crs, bad)
			}
		case "pool-fix":
			for _, p := range cur {
				if p.Name != "bad" {
					crs = append(crs, p)
				}
			}
			if _, err := config.For(config.ClusterResources{Pools: crs, Namespaces: boxNsList(s)}, config.DontValidate); err != nil {
				crs = g.genPools()
			}
		}
		if len(crs) == 0 {
			return "skipped"
		}
		for i := range crs {
			crs[i].Namespace = "metallb-system"
		}
		g.applyPools(s, crs)
		return vfPoolDump(crs)
	}}
}

func (g *boxGen) evNsRelabel() boxUserEvent {
	return boxUserEvent{Kind: "ns-relabel", Apply: func(s *boxStore) string {
		n := s.Namespaces[vfPick(g.r, []string{"ns1", "ns2", "ns3"})].DeepCopy()
		n.Labels = vfPick(g.r, []map[string]string{nil, {"team": "a"}, {"team": "b"}})
		s.Put(n)
		return fmt.Sprintf("%s labels=%v", n.Name, n.Labels)
	}}
}

func (cb *cbox) evResync() boxUserEvent {
	return boxUserEvent{Kind: "resync", Apply: func(s *boxStore) string {
		if cb.cur == nil {
			// in the controller nothing can ask for a full re-sync before the pools were delivered
			// (the only sources are SetPools and service handlers behind the initial-load gate)
			return "skipped (no configuration delivered to this instance yet)"
		}
		cb.k.Enqueue("svc", boxReloadReq)
		return "forced full re-sync"
	}}
}

var boxSvcEventKinds = []string{"svc-stack", "svc-terminating", "svc-delete", "svc-ports", "svc-port-shrink", "svc-rekey", "svc-policy", "svc-retype", "svc-request", "svc-unrequest", "svc-labels"}
var boxPoolEventKinds = []string{"pool-new-layout", "pool-regroup", "pool-flip", "pool-drop", "pool-grow", "pool-shrink"}

// randomEvent draws one user event.
func (cb *cbox) randomEvent(g *boxGen) boxUserEvent {
	r := g.r
	switch x := r.Intn(100); {
	case x < 22:
		return g.evCreate()
	case x < 62:
		return g.evSvc(vfPick(r, boxSvcEventKinds))
	case x < 82:
		return g.evPool(vfPick(r, boxPoolEventKinds))
	case x < 86:
		return g.evPool("pool-invalid")
	case x < 90:
		return g.evPool("pool-fix")
	case x < 94:
		return g.evNsRelabel()
	default:
		return cb.evResync()
	}
}

// seedStore fills the initial store: namespaces, pools, a few services.
func (cb *cbox) seedStore(g *boxGen) {
	s := cb.k.Store
	for _, n := range vfGenNamespaces() {
		nn := n
		s.Put(&nn)
	}
	crs := g.genPools()
	for i := range crs {
		crs[i].Namespace = "metallb-system"
		s.Put(&crs[i])
	}
	n := g.r.Range(1, 5)
	for i := 0; i < n; i++ {
		s.Put(g.newService(s))
	}
	if (cb.mon.c03 || cb.mon.c06) && g.r.Chance(1, 3) {
		// a dual-stack service (PreferDualStack, two cluster addresses) that holds one address and pins exactly it,
		// in a pool that also offers the other family: it keeps exactly that address, whatever the spelling of the pin
		model := vfModelPools(crs, nil)
		for _, pn := range vfShuffled(g.r, vfSortedKeys(model)) {
			v4, v6 := model[pn].UsableAddrs(4, 3), model[pn].UsableAddrs(6, 3)
			if len(v4) == 0 || len(v6) == 0 || !model[pn].Admits("ns1", nil) {
				continue
			}
			held := vfPick(g.r, v4)
			if g.r.Chance(1, 3) {
				held = vfPick(g.r, v6)
			}
			svc := g.newService(s)
			svc.Namespace, svc.Labels = "ns1", nil
			svc.Spec.Type = v1.ServiceTypeLoadBalancer
			svc.Spec.ClusterIPs = []string{"172.16.0.1", "fd00::1"}
			svc.Spec.IPFamilies = []v1.IPFamily{v1.IPv4Protocol, v1.IPv6Protocol}
			svc.Spec.IPFamilyPolicy = ptr.To(v1.IPFamilyPolicyPreferDualStack)
			svc.Spec.LoadBalancerIP = ""
			svc.Annotations = map[string]string{}
			switch g.r.Intn(3) {
			case 0:
				svc.Annotations[AnnotationLoadBalancerIPs] = held
			case 1:
				svc.Annotations[DeprecatedAnnotationLoadBalancerIPs] = held
			default:
				if strings.Contains(held, ":") {
					svc.Annotations[DeprecatedAnnotationLoadBalancerIPs] = held
				} else {
					svc.Spec.LoadBalancerIP = held
				}
			}
			svc.Status.LoadBalancer.Ingress = []v1.LoadBalancerIngress{{IP: held}}
			s.Put(svc)
			break
		}
	}
	if cb.mon.c04 && g.r.Bool() {
		// two dual-stack services asking for the same pair of addresses (one sharing key, other ports),
		// one lists the IPv4 address first, the other the IPv6 one
		model := vfModelPools(crs, nil)
		for _, pn := range vfSortedKeys(model) {
			v4, v6 := model[pn].UsableAddrs(4, 3), model[pn].UsableAddrs(6, 3)
			if len(v4) == 0 || len(v6) == 0 || !model[pn].Admits("ns1", nil) {
				continue
			}
			a4, a6 := vfPick(g.r, v4), vfPick(g.r, v6)
			for i, order := range []string{a4 + "," + a6, a6 + "," + a4} {
				svc := g.newService(s)
				svc.Namespace, svc.Labels = "ns1", nil
				svc.Spec.Type = v1.ServiceTypeLoadBalancer
				svc.Spec.ClusterIPs = []string{"172.16.0.1", "fd00::1"}
				svc.Spec.IPFamilies = []v1.IPFamily{v1.IPv4Protocol, v1.IPv6Protocol}
				svc.Spec.IPFamilyPolicy = ptr.To(v1.IPFamilyPolicyRequireDualStack)
				svc.Spec.LoadBalancerIP = ""
				svc.Spec.ExternalTrafficPolicy = v1.ServiceExternalTrafficPolicyTypeCluster
				svc.Spec.Ports = []v1.ServicePort{boxPortPalette[i]}
				svc.Annotations = map[string]string{AnnotationAllowSharedIP: "pair", AnnotationLoadBalancerIPs: order}
				s.Put(svc)
			}
			break
		}
	}
}
