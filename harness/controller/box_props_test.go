//go:build verif

package main

import (
	"fmt"
	"testing"
)

type boxOpts struct {
	events    int  // user events per history
	epochMax  int  // events injected between two forced quiescent points (1..epochMax)
	big       bool // astronomically large pool blocks too
	finalSync bool // C03: two forced re-syncs at the end (second must not write)
}

const boxMaxSteps = 6000

// boxHistory runs one history; crashAt != 0 schedules a crash at that crash point. Returns the box.
func boxHistory(c *vfCase, mon boxMonFlags, o boxOpts, genSeed, schedSeed uint64, crashAt int, faults []int) *cbox {
	g := &boxGen{r: vfNewRand(genSeed), big: o.big}
	cb := newCbox(c, mon, schedSeed)
	cb.k.CrashAt = crashAt
	cb.faultPlan = faults
	cb.seedStore(g)
	c.Logf("initial pools: %s", vfPoolDump(boxPoolList(cb.k.Store)))
	for _, k := range vfSortedKeys(cb.k.Store.Services) {
		c.Logf("initial service: %s", boxSvcDump(cb.k.Store.Services[k]))
	}
	cb.k.Start()
	var prev *boxQuiet
	settle := func(events []string) bool {
		if !cb.k.Settle(true, boxMaxSteps) {
			if !cb.k.Fatal {
				c.Violation("no-quiescence", fmt.Sprintf("the controller did not reach quiescence within %d scheduler steps after %v", boxMaxSteps, events), nil)
			}
			return false
		}
		cb.epoch++
		cb.quiescentChecks(prev, events)
		cur := cb.quietPoint()
		if mon.c03 && prev != nil {
			cb.stabilityWindow(prev, cur, events)
		}
		prev = cur
		return true
	}
	if !settle([]string{"boot"}) {
		cb.k.Kill()
		return cb
	}
	left := o.events
	for left > 0 {
		n := g.r.Range(1, o.epochMax)
		if n > left {
			n = left
		}
		left -= n
		var kinds []string
		for i := 0; i < n; i++ {
			ev := cb.randomEvent(g)
			kinds = append(kinds, ev.Kind)
			cb.k.Pending = append(cb.k.Pending, ev)
		}
		if !settle(kinds) {
			cb.k.Kill()
			return cb
		}
	}
	// every history ends on a valid resource set
	cb.k.Pending = append(cb.k.Pending, g.evPool("pool-fix"))
	if !settle([]string{"pool-fix"}) {
		cb.k.Kill()
		return cb
	}
	if o.finalSync {
		w0 := len(cb.writes)
		cb.k.Pending = append(cb.k.Pending, cb.evResync())
		if settle([]string{"resync"}) {
			per := map[string]int{}
			for _, w := range cb.writes[w0:] {
				per[w.Key]++
			}
			for k, n := range per {
				if n > 1 {
					c.Violation("resync:repeated-writes", fmt.Sprintf("a forced re-sync of a converged state wrote the status of %s %d times", k, n), nil)
				}
			}
			w1 := len(cb.writes)
			cb.k.Pending = append(cb.k.Pending, cb.evResync())
			if settle([]string{"resync"}) {
				c.Eval()
				c.Count("resyncs-checked-for-zero-writes")
				if len(cb.writes) != w1 {
					c.Violation("resync:second-resync-writes", fmt.Sprintf("the second forced re-sync of a converged state still wrote: %+v", cb.writes[w1:]), nil)
				}
			}
		}
	}
	cb.k.Kill()
	c.Distinct("schedules", cb.k.ScheduleSignature())
	c.CountN("handler-calls", cb.handlerCalls)
	c.CountN("status-conflicts", cb.conflicts)
	c.CountN("config-versions-delivered", len(cb.delivered))
	c.CountN("scheduler-steps", cb.k.Steps)
	c.Count("histories")
	return cb
}

// stabilityWindow is the C03 oracle between two consecutive quiescent points.
func (cb *cbox) stabilityWindow(prev, cur *boxQuiet, events []string) {
	c := cb.c
	versions := cb.delivered[prev.Versions:]
	writes := map[string]int{}
	for _, w := range cb.writes[prev.Writes:] {
		writes[w.Key]++
	}
	for _, k := range vfSortedKeys(prev.Specs) {
		if cur.Specs[k] != prev.Specs[k] {
			continue // changed, deleted
		}
		a := prev.IPs[k]
		if len(a) == 0 {
			continue
		}
		req := prev.Reqs[k]
		// admissible (own request + configuration; sharing partners are not the innocent party's problem)
		adm := true
		models := []*boxDelivered{}
		if prev.Cur != nil {
			models = append(models, prev.Cur)
		}
		models = append(models, versions...)
		for _, d := range models {
			w := &vfWorld{Pools: d.Model, Holdings: map[string]*vfHolding{}}
			if ok, _ := w.ipsAdmissible(req, a, false, true); !ok {
				adm = false
			}
		}
		if !adm || len(models) == 0 {
			continue
		}
		c.Eval()
		c.Count("innocent-service-windows")
		nontrivial := len(versions) > 0
		for _, e := range events {
			if e != "svc-create" && e != "resync" && e != "boot" {
				nontrivial = true
			}
		}
		if nontrivial {
			c.Count("innocent-service-windows-with-foreign-events")
			c.Nontrivial(fmt.Sprintf("%v|%v|%d", events, a, len(versions)))
		}
		b := cur.IPs[k]
		okSame := vfSameSet(a, b)
		okGain := false
		if !okSame && len(a) == 1 && len(b) == 2 && req.Policy == vfPolPrefer && (b[0] == a[0] || b[1] == a[0]) && cur.Cur != nil {
			okGain = vfPoolOf(cur.Cur.Model, b) == vfPoolOf(cur.Cur.Model, a)
		}
		if !okSame && !okGain {
			c.Violation("stability:address-changed", fmt.Sprintf("%s held %v, which stayed admissible through %v (%d configuration versions), but now holds %v; spec: %s",
				k, a, events, len(versions), b, boxSvcDump(cb.k.Store.Services[k])), nil)
		}
		if allowed := len(versions) + 1; writes[k] > allowed {
			c.Violation("stability:repeated-writes", fmt.Sprintf("%s was not touched and kept admissible addresses, yet its status was written %d times during %v (%d configuration versions)", k, writes[k], events, len(versions)), nil)
		}
	}
}

const boxRule = "controller box: the real controller, allocator, ServiceReconciler and PoolReconciler run against an in-memory API store under a seeded scheduler (interleaved reconciles, stale reads, write conflicts); histories of service create/mutate/delete, pool edits (new layout, re-group/rename, flag flips, drop, grow, shrink, invalid edit + fix), namespace relabels and forced re-syncs; "

func boxRun(t *testing.T, prop string, mon boxMonFlags, o boxOpts, sizes vfSizes, rule string) {
	vfMain(t, prop, sizes, boxRule+rule, func(c *vfCase) {
		cb := boxHistory(c, mon, o, c.R.U64(), c.R.U64(), 0, nil)
		if c.WantSample() && c.Idx >= 2 {
			tr := c.Trace()
			if len(tr) > 25 {
				tr = tr[:25]
			}
			c.Sample(map[string]any{"history_prefix": tr, "scheduler_steps": cb.k.Steps, "handler_calls": cb.handlerCalls})
		}
	})
}

func TestVerif_C01(t *testing.T) {
	boxRun(t, "C01", boxMonFlags{c01: true}, boxOpts{events: 24, epochMax: 3}, vfSizes{Quick: 100, Thorough: 2500},
		"non-trivial = distinct constellation of services sharing an address (allocator memory after a handler, statuses at quiescence)")
}

func TestVerif_C02(t *testing.T) {
	boxRun(t, "C02", boxMonFlags{c02: true}, boxOpts{events: 24, epochMax: 3}, vfSizes{Quick: 100, Thorough: 2500},
		"non-trivial = distinct allocation event (mode, chosen pool, competing pools)")
}

func TestVerif_C03(t *testing.T) {
	boxRun(t, "C03", boxMonFlags{c03: true}, boxOpts{events: 24, epochMax: 2, finalSync: true}, vfSizes{Quick: 100, Thorough: 2500},
		"non-trivial = distinct (untouched service with admissible addresses, window with foreign events or configuration versions)")
}

func TestVerif_C07(t *testing.T) {
	boxRun(t, "C07", boxMonFlags{c07: true}, boxOpts{events: 26, epochMax: 1}, vfSizes{Quick: 120, Thorough: 3000},
		"non-trivial = distinct quiescent point with a pending service whose admissible set the oracle found empty")
}

func TestVerif_C11(t *testing.T) {
	boxRun(t, "C11", boxMonFlags{c11: true}, boxOpts{events: 24, epochMax: 3, big: true}, vfSizes{Quick: 100, Thorough: 2500},
		"non-trivial = distinct (pool layout, usage) whose counters were checked after a handler")
}
