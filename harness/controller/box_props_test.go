//go:build verif

package main

import (
	"fmt"
	"testing"

	v1 "k8s.io/api/core/v1"
)

type boxOpts struct {
	events      int  // user events per history
	epochMax    int  // events injected between two forced quiescent points (1..epochMax)
	big         bool // astronomically large pool blocks too
	tight       bool // exhaustion bias (C07)
	pinned      bool // pinned-pool bias (C18)
	finalSync   bool // C03: two forced re-syncs at the end (second must not write)
	writeFaults bool // status writes fail now and then throughout the history (at most 12 per history)
}

const boxMaxSteps = 6000

// boxHistory runs one history; crashAt != 0 schedules a crash at that crash point. Returns the box.
func boxHistory(c *vfCase, mon boxMonFlags, o boxOpts, genSeed, schedSeed uint64, crashAt int, faults []int) *cbox {
	return boxHistoryOpt(c, mon, o, genSeed, schedSeed, crashAt, faults, false)
}

func boxHistoryOpt(c *vfCase, mon boxMonFlags, o boxOpts, genSeed, schedSeed uint64, crashAt int, faults []int, recordLabels bool) *cbox {
	g := &boxGen{r: vfNewRand(genSeed), big: o.big, tight: o.tight, pinned: o.pinned}
	cb := newCbox(c, mon, schedSeed)
	g.hot = func() string { return cb.lastFailed }
	cb.k.CrashAt = crashAt
	cb.k.RecordLabels = recordLabels
	cb.faultPlan = faults
	cb.k.OnCrash = func() {
		cb.recordCrash()
		if crashAt > 0 && crashAt <= len(cb.k.PointLabels) {
			cb.crashRec.Label = cb.k.PointLabels[crashAt-1]
		}
		// a fresh fault plan for the new instance
		cb.faultPlan = boxFaultPlan(g.r)
		if g.r.Chance(1, 3) {
			// the first listing(s) of all Services by the new instance fail: its initial load is retried;
			// meanwhile ordinary events arrive for services that are still waiting for an address
			cb.k.FailServiceLists = g.r.Range(1, 2)
			var pending []string
			for _, k := range vfSortedKeys(cb.k.Store.Services) {
				if svc := cb.k.Store.Services[k]; len(svc.Status.LoadBalancer.Ingress) == 0 && svc.Spec.Type == v1.ServiceTypeLoadBalancer {
					pending = append(pending, k)
				}
			}
			vfShuffle(g.r, pending)
			for i, k := range pending {
				if i >= 3 {
					break
				}
				victim := k
				ev := boxUserEvent{Kind: "svc-labels-while-loading", Apply: func(s *boxStore) string {
					svc := s.Services[victim]
					if svc == nil {
						return "skipped (gone)"
					}
					n := svc.DeepCopy()
					if n.Annotations == nil {
						n.Annotations = map[string]string{}
					}
					n.Annotations["example.com/touched"] = fmt.Sprint(len(n.Annotations))
					s.Put(n)
					return victim
				}}
				cb.k.Pending = append([]boxUserEvent{ev}, cb.k.Pending...)
			}
		}
		// hostile timing: every other restart, a service that has an address recorded is deleted (or
		// re-typed) while the new instance is still loading
		if g.r.Bool() {
			var rec []string
			for _, k := range vfSortedKeys(cb.k.Store.Services) {
				if len(cb.k.Store.Services[k].Status.LoadBalancer.Ingress) > 0 {
					rec = append(rec, k)
				}
			}
			if len(rec) > 0 {
				victim := vfPick(g.r, rec)
				kind := vfPick(g.r, []string{"svc-delete", "svc-delete", "svc-retype"})
				ev := boxUserEvent{Kind: kind + "-while-loading", Apply: func(s *boxStore) string {
					svc := s.Services[victim]
					if svc == nil {
						return "skipped (gone)"
					}
					if kind == "svc-delete" {
						s.Delete(svc)
					} else {
						n := svc.DeepCopy()
						n.Spec.Type = v1.ServiceTypeClusterIP
						s.Put(n)
					}
					return victim
				}}
				if g.r.Bool() {
					cb.k.Pending = append([]boxUserEvent{ev}, cb.k.Pending...)
				} else {
					cb.afterFailedLoad = func() {
						desc := ev.Apply(cb.k.Store)
						cb.c.Logf("EVENT %s (right after a load of all services that must be retried): %s", ev.Kind, desc)
					}
				}
			}
		}
	}
	cb.k.RecordLabels = true
	if o.writeFaults {
		cb.faultRand, cb.faultBudget = vfNewRand(vfMix(genSeed, 0xfa17)), 12
	}
	cb.seedStore(g)
	c.Logf("initial pools: %s", vfPoolDump(boxPoolList(cb.k.Store)))
	for _, k := range vfSortedKeys(cb.k.Store.Services) {
		c.Logf("initial service: %s", boxSvcDump(cb.k.Store.Services[k]))
	}
	cb.booted = true
	var prev *boxQuiet
	if mon.c03 {
		// the statuses the store starts with are holdings like any other: the window of the boot is judged too
		prev = cb.quietPoint()
	}
	cb.k.Start()
	settle := func(events []string) bool {
		if !cb.k.Settle(true, boxMaxSteps) {
			if !cb.k.Fatal {
				c.Violation("no-quiescence", fmt.Sprintf("the controller did not reach quiescence within %d scheduler steps after %v", boxMaxSteps, events), nil)
			}
			return false
		}
		cb.epoch++
		cb.quiescentChecks(prev, events)
		cur := cb.quietPoint()
		if mon.c03 && prev != nil {
			cb.stabilityWindow(prev, cur, events)
		}
		prev = cur
		return true
	}
	if !settle([]string{"boot"}) {
		cb.k.Kill()
		return cb
	}
	left := o.events
	for left > 0 {
		n := g.r.Range(1, o.epochMax)
		if n > left {
			n = left
		}
		left -= n
		var kinds []string
		for i := 0; i < n; i++ {
			ev := cb.randomEvent(g)
			kinds = append(kinds, ev.Kind)
			cb.k.Pending = append(cb.k.Pending, ev)
		}
		if !settle(kinds) {
			cb.k.Kill()
			return cb
		}
	}
	// every history ends on a valid resource set
	cb.k.Pending = append(cb.k.Pending, g.evPool("pool-fix"))
	if !settle([]string{"pool-fix"}) {
		cb.k.Kill()
		return cb
	}
	if mon.c06 && cb.crashRec != nil {
		cb.crashOracle()
	}
	if o.finalSync {
		w0 := len(cb.writes)
		cb.k.Pending = append(cb.k.Pending, cb.evResync())
		if settle([]string{"resync"}) {
			per := map[string]int{}
			for _, w := range cb.writes[w0:] {
				per[w.Key]++
			}
			for k, n := range per {
				if n > 1 {
					c.Violation("resync:repeated-writes", fmt.Sprintf("a forced re-sync of a converged state wrote the status of %s %d times", k, n), nil)
				}
			}
			w1 := len(cb.writes)
			cb.k.Pending = append(cb.k.Pending, cb.evResync())
			if settle([]string{"resync"}) {
				c.Eval()
				c.Count("resyncs-checked-for-zero-writes")
				if len(cb.writes) != w1 {
					c.Violation("resync:second-resync-writes", fmt.Sprintf("the second forced re-sync of a converged state still wrote: %+v", cb.writes[w1:]), nil)
				}
			}
		}
	}
	cb.k.Kill()
	c.Distinct("schedules", cb.k.ScheduleSignature())
	c.CountN("handler-calls", cb.handlerCalls)
	c.CountN("status-conflicts", cb.conflicts)
	c.CountN("status-write-faults-injected", cb.faultsInjected)
	c.CountN("config-versions-delivered", len(cb.delivered))
	c.CountN("scheduler-steps", cb.k.Steps)
	c.Count("histories")
	return cb
}

// stabilityWindow is the C03 oracle between two consecutive quiescent points.
func (cb *cbox) stabilityWindow(prev, cur *boxQuiet, events []string) {
	c := cb.c
	versions := cb.delivered[prev.Versions:]
	writes := map[string]int{}
	for _, w := range cb.writes[prev.Writes:] {
		writes[w.Key]++
	}
	for _, k := range vfSortedKeys(prev.Specs) {
		if cur.Specs[k] != prev.Specs[k] || cur.Touches[k] != prev.Touches[k] {
			continue // changed, deleted
		}
		a := prev.IPs[k]
		if len(a) == 0 {
			continue
		}
		req := prev.Reqs[k]
		// admissible (own request + configuration; sharing partners are not the innocent party's problem)
		adm := true
		models := []*boxDelivered{}
		if prev.Cur != nil {
			models = append(models, prev.Cur)
		}
		models = append(models, versions...)
		for _, d := range models {
			w := &vfWorld{Pools: d.Model, Holdings: map[string]*vfHolding{}}
			if ok, _ := w.ipsAdmissible(req, a, false, true); !ok {
				adm = false
			}
		}
		if !adm || len(models) == 0 {
			continue
		}
		c.Eval()
		c.Count("innocent-service-windows")
		nontrivial := len(versions) > 0
		for _, e := range events {
			if e != "svc-create" && e != "resync" && e != "boot" {
				nontrivial = true
			}
		}
		if nontrivial {
			c.Count("innocent-service-windows-with-foreign-events")
			c.Nontrivial(fmt.Sprintf("%v|%v|%d", events, a, len(versions)))
		}
		b := cur.IPs[k]
		okSame := vfSameSet(a, b)
		okGain := false
		if !okSame && len(a) == 1 && len(b) == 2 && req.Policy == vfPolPrefer && (b[0] == a[0] || b[1] == a[0]) && cur.Cur != nil {
			okGain = vfPoolOf(cur.Cur.Model, b) == vfPoolOf(cur.Cur.Model, a)
		}
		if okGain && len(req.ReqIPs) > 0 && !req.ReqBad && vfSameSet(req.ReqIPs, a) {
			// the gain is only permitted where the result is still what the service asks for: a service that pins
			// exactly the address it holds would lose everything at the next sync (request mismatch)
			c.Violation("stability:gain-contradicts-own-request", fmt.Sprintf("%s held %v, exactly what it requests (%v), and was given an additional family: now %v, which its own request does not admit; spec: %s",
				k, a, req.ReqIPs, b, boxSvcDump(cb.k.Store.Services[k])), nil)
		}
		if !okSame && !okGain && cb.gainedThenInadmissible(k, a, prev.Writes, req) {
			c.Count("windows-with-gain-then-inadmissible-pair")
			continue
		}
		if !okSame && !okGain {
			c.Violation("stability:address-changed", fmt.Sprintf("%s held %v, which stayed admissible through %v (%d configuration versions), but now holds %v; spec: %s",
				k, a, events, len(versions), b, boxSvcDump(cb.k.Store.Services[k])), nil)
		}
		if allowed := len(versions) + 1; writes[k] > allowed {
			c.Violation("stability:repeated-writes", fmt.Sprintf("%s was not touched and kept admissible addresses, yet its status was written %d times during %v (%d configuration versions)", k, writes[k], events, len(versions)), nil)
		}
	}
}

const boxRule = "controller box: the real controller, allocator, ServiceReconciler and PoolReconciler run against an in-memory API store under a seeded scheduler (interleaved reconciles, stale reads, write conflicts); histories of service create/mutate/delete, pool edits (new layout, re-group/rename, flag flips, drop, grow, shrink, invalid edit + fix), namespace relabels and forced re-syncs; "

func boxRun(t *testing.T, prop string, mon boxMonFlags, o boxOpts, sizes vfSizes, rule string) {
	boxRunOpt(t, prop, mon, func(*vfCase) boxOpts { return o }, sizes, rule)
}

func boxRunOpt(t *testing.T, prop string, mon boxMonFlags, of func(*vfCase) boxOpts, sizes vfSizes, rule string) {
	vfMain(t, prop, sizes, boxRule+rule, func(c *vfCase) {
		o := of(c)
		cb := boxHistory(c, mon, o, c.R.U64(), c.R.U64(), 0, nil)
		if c.WantSample() && c.Idx >= 2 {
			tr := c.Trace()
			if len(tr) > 25 {
				tr = tr[:25]
			}
			c.Sample(map[string]any{"history_prefix": tr, "scheduler_steps": cb.k.Steps, "handler_calls": cb.handlerCalls})
		}
	})
}

func TestVerif_C01(t *testing.T) {
	boxRun(t, "C01", boxMonFlags{c01: true}, boxOpts{events: 24, epochMax: 3}, vfSizes{Quick: 100, Thorough: 2500},
		"non-trivial = distinct constellation of services sharing an address (allocator memory after a handler, statuses at quiescence)")
}

func TestVerif_C02(t *testing.T) {
	boxRun(t, "C02", boxMonFlags{c02: true}, boxOpts{events: 24, epochMax: 3}, vfSizes{Quick: 300, Thorough: 3000},
		"non-trivial = distinct allocation event (mode, chosen pool, competing pools)")
}

func TestVerif_C03(t *testing.T) {
	boxRun(t, "C03", boxMonFlags{c03: true}, boxOpts{events: 24, epochMax: 2, finalSync: true}, vfSizes{Quick: 300, Thorough: 4000},
		"non-trivial = distinct (untouched service with admissible addresses, window with foreign events or configuration versions)")
}

func TestVerif_C04(t *testing.T) {
	// controller side of "all Services sharing an address elect the same node": exhaustion bias, so that
	// dual-stack services with one sharing key end up on the same addresses
	boxRunOpt(t, "C04", boxMonFlags{c04: true}, func(c *vfCase) boxOpts { return boxOpts{events: 24, epochMax: 2, tight: c.Idx%2 == 0} }, vfSizes{Quick: 500, Thorough: 3000},
		"at every quiescent point Services whose statuses share an address must list the same first address (the key of the speakers' election); non-trivial = distinct shared address among multi-address services")
}

func TestVerif_C07(t *testing.T) {
	// half of the histories are drawn with the exhaustion bias (1-2 pools of 1-4 addresses, one dominant
	// sharing key, two ports)
	boxRunOpt(t, "C07", boxMonFlags{c07: true}, func(c *vfCase) boxOpts {
		o := boxOpts{events: 26, epochMax: 1, tight: c.Idx%2 == 0, writeFaults: c.Idx%3 == 1}
		if c.Idx%6 == 1 {
			o.epochMax = 3 // user events may arrive while a failed write is waiting for its retry
		}
		return o
	}, vfSizes{Quick: 400, Thorough: 3000},
		"non-trivial = distinct quiescent point with a pending service whose admissible set the oracle found empty")
}

func TestVerif_C11(t *testing.T) {
	boxRun(t, "C11", boxMonFlags{c11: true}, boxOpts{events: 24, epochMax: 3, big: true}, vfSizes{Quick: 100, Thorough: 2500},
		"non-trivial = distinct (pool layout, usage) whose counters were checked after a handler")
}

// ---------------------------------------------------------------- C06: crash points x fault plans

type boxCrashRec struct {
	Point    int
	Label    string
	Versions int
	Writes   int
	MemLog   int
	Touches  map[string]int
	IPs      map[string][]string
	Specs    map[string]string
	Reqs     map[string]*vfSvcReq
}

func (cb *cbox) recordCrash() {
	r := &boxCrashRec{Point: cb.k.Points, Versions: len(cb.delivered), Writes: len(cb.writes), MemLog: len(cb.memLog), Touches: map[string]int{}, IPs: map[string][]string{}, Specs: map[string]string{}, Reqs: map[string]*vfSvcReq{}}
	for k, svc := range cb.k.Store.Services {
		q := vfSvcRequirement(svc)
		r.Reqs[k] = &q
		r.Specs[k] = boxSpecHash(svc)
		r.IPs[k] = q.StatusIPs
		r.Touches[k] = cb.touches[k]
	}
	cb.crashRec = r
}

// crashOracle runs at the final quiescent point of a history in which the controller crashed once.
func (cb *cbox) crashOracle() {
	c := cb.c
	rec := cb.crashRec
	after := cb.delivered[rec.Versions:]
	if len(after) == 0 || cb.cur == nil {
		c.Count("restarts-without-valid-config")
		return
	}
	c.Count("restarts-judged")
	final := cb.k.Store.Services
	untouched := func(k string) bool {
		return final[k] != nil && boxSpecHash(final[k]) == rec.Specs[k] && cb.touches[k] == rec.Touches[k]
	}
	admissibleAfter := func(k string) bool {
		for _, d := range after {
			w := &vfWorld{Pools: d.Model, Holdings: map[string]*vfHolding{}}
			if ok, _ := w.ipsAdmissible(rec.Reqs[k], rec.IPs[k], false, true); !ok {
				return false
			}
		}
		return true
	}
	conflict := func(k string) bool {
		for o, ips := range rec.IPs {
			if o == k || len(ips) == 0 {
				continue
			}
			shares := false
			for _, a := range ips {
				for _, b := range rec.IPs[k] {
					if a == b {
						shares = true
					}
				}
			}
			if !shares {
				continue
			}
			// only pairs the implementation is certainly meant to let share are "not in conflict"
			// (a Cluster/Local pair with identical selectors is allowed by the statement but refused
			// by the code: whoever is re-processed second has to move, legitimately)
			if !vfShareCertain(rec.Reqs[k], rec.Reqs[o]) {
				return true
			}
			if final[o] == nil && cb.touches[o]-rec.Touches[o] >= 2 {
				// the co-holder was changed after the crash and deleted later: what it asked for in between
				// (possibly something the two could not share) is not on record, nobody can be blamed
				return true
			}
			if final[o] != nil {
				fr := vfSvcRequirement(final[o])
				if !vfShareCertain(rec.Reqs[k], &fr) {
					return true
				}
			}
		}
		return false
	}
	// displacedBefore: before entry `at` of the allocator memory log after the crash, one of the addresses recorded
	// for the service was given to a service that had not recorded it (the service was itself robbed in this restart,
	// even when later events happen to bring it back to its recorded address)
	displacedBefore := func(svc string, at int) bool {
		for _, w := range cb.memLog[rec.MemLog : rec.MemLog+at] {
			if w.Key == svc {
				continue
			}
			for _, x := range w.IPs {
				cx, _, _ := vfCanonIP(x)
				own := false
				for _, y := range rec.IPs[w.Key] {
					if y == cx {
						own = true
					}
				}
				if own {
					continue
				}
				for _, y := range rec.IPs[svc] {
					if y == cx {
						return true
					}
				}
			}
		}
		return false
	}
	victims := map[string]bool{}
	var lost []string
	for _, k := range vfSortedKeys(rec.IPs) {
		a := rec.IPs[k]
		if len(a) == 0 {
			continue
		}
		c.Eval()
		if !untouched(k) {
			c.Count("recorded-services-touched-after-crash")
			continue
		}
		if !admissibleAfter(k) {
			c.Count("recorded-services-no-longer-admissible")
			continue
		}
		if conflict(k) {
			c.Count("recorded-services-in-recorded-conflict")
			continue
		}
		c.Count("recorded-services-that-must-keep-their-addresses")
		fr := vfSvcRequirement(final[k])
		b := fr.StatusIPs
		ok := vfSameSet(a, b)
		if !ok && len(a) == 1 && len(b) == 2 && fr.Policy == vfPolPrefer && (b[0] == a[0] || b[1] == a[0]) {
			ok = vfPoolOf(cb.cur.Model, b) == vfPoolOf(cb.cur.Model, a)
			if q := rec.Reqs[k]; ok && len(q.ReqIPs) > 0 && !q.ReqBad && vfSameSet(q.ReqIPs, a) {
				ok = false // it pins exactly what it had recorded: the pair is not what it asks for
			}
		}
		if !ok && cb.gainedThenInadmissible(k, a, rec.Writes, rec.Reqs[k]) {
			c.Count("recorded-services-that-gained-a-family-which-later-became-inadmissible")
			continue
		}
		if !ok {
			victims[k] = true
			lost = append(lost, k)
		}
	}
	for _, k := range lost {
		a := rec.IPs[k]
		b := vfSvcRequirement(final[k]).StatusIPs
		{
			// who took it? (first change of the allocator memory after the crash that gave one of the addresses to another service)
			thief, how, phase := "", "dropped", ""
			thiefAt := 0
			for wi, w := range cb.memLog[rec.MemLog:] {
				if w.Key == k || thief != "" {
					continue
				}
				thiefAt = wi
				for _, x := range w.IPs {
					cx, _, _ := vfCanonIP(x)
					recorded := false // a sharer re-adopting the address it had recorded itself is no thief
					for _, y := range rec.IPs[w.Key] {
						if y == cx {
							recorded = true
						}
					}
					for _, y := range a {
						if cx == y && !recorded && thief == "" {
							thief = w.Key
							phase = w.Phase
						}
					}
				}
			}
			if thief != "" {
				switch {
				case victims[thief] || displacedBefore(thief, thiefAt):
					how = "taken-by-displaced-service"
				case len(rec.IPs[thief]) == 0:
					how = "taken-by-unrecorded-service"
				case !untouched(thief):
					how = "taken-by-service-changed-after-the-crash"
				case !admissibleAfter(thief) || conflict(thief):
					how = "taken-by-service-whose-own-record-was-inadmissible"
				default:
					how = "taken-by-service-with-admissible-record"
					if len(rec.IPs[thief]) == 1 && rec.Reqs[thief].Policy == vfPolPrefer && len(rec.Reqs[thief].Families) == 2 {
						how = "taken-as-additional-family-by-recorded-service"
					}
				}
			}
			if thief != "" && phase == "during-first-full-sync" && len(rec.IPs[thief]) > 0 && len(a) > len(rec.IPs[thief]) && untouched(thief) {
				// the first full sync visits the services holding more addresses first, so the known weakness can
				// only rob a service of an address in favour of one that is visited no later than it
				how += ":from-service-that-is-visited-earlier"
			}
			if thief != "" && phase != "during-first-full-sync" {
				// the known weakness lives inside the first full sync only; anything else is another defect
				how += ":" + phase
			}
			c.Violation("restart:recorded-address-lost:"+how, fmt.Sprintf("%s had %v recorded when the controller stopped (point %d), the addresses stayed admissible, but after the restart it holds %v (%s %s); spec: %s",
				k, a, rec.Point, b, how, thief, boxSvcDump(final[k])), nil)
		}
	}
	// (ii) a service without a record never ends on an address recorded for another service
	for _, k := range vfSortedKeys(final) {
		if len(rec.IPs[k]) > 0 {
			continue
		}
		fr := vfSvcRequirement(final[k])
		for _, x := range fr.StatusIPs {
			for _, o := range vfSortedKeys(rec.IPs) {
				if o == k {
					continue
				}
				held := false
				for _, y := range rec.IPs[o] {
					if y == x {
						held = true
					}
				}
				if !held {
					continue
				}
				c.Eval()
				c.Count("unrecorded-service-on-previously-recorded-address")
				if !untouched(o) || !admissibleAfter(o) || conflict(o) || victims[o] || cb.gainedThenInadmissible(o, rec.IPs[o], rec.Writes, rec.Reqs[o]) {
					continue // the former holder legitimately gave it up (or lost it as reported above)
				}
				or := vfSvcRequirement(final[o])
				still := false
				for _, y := range or.StatusIPs {
					if y == x {
						still = true
					}
				}
				if still && vfShareOK(&fr, &or) {
					continue
				}
				c.Violation("restart:address-stolen-by-unrecorded-service", fmt.Sprintf("%s had no address recorded when the controller stopped (point %d) and ended on %s, which was recorded for %s (now holding %v)",
					k, rec.Point, x, o, or.StatusIPs), nil)
			}
		}
	}
}

func boxFaultPlan(r *vfRand) []int {
	n := r.Intn(5)
	var out []int
	for i := 0; i < n; i++ {
		out = append(out, vfPick(r, []int{boxFaultOK, boxFaultBefore, boxFaultAfter, boxFaultBefore}))
	}
	return out
}

func TestVerif_C06(t *testing.T) {
	rule := "each base history is first executed crash-free to enumerate its crash points (every scheduler yield, before/after every status write, after every user event), then re-executed with one crash at selected points (quick: up to 10 incl. status-write boundaries; thorough: up to 60) and a fault plan of <= 4 failing status writes (before/after apply); non-trivial = distinct (crash point label, pending/recorded constellation at the crash instant)"
	vfMain(t, "C06", vfSizes{Quick: 60, Thorough: 100}, boxRule+rule, func(c *vfCase) {
		genSeed, schedSeed := c.R.U64(), c.R.U64()
		o := boxOpts{events: 18, epochMax: 3}
		dry := boxHistoryOpt(c, boxMonFlags{}, o, genSeed, schedSeed, 0, nil, true)
		n := dry.k.Points
		labels := dry.k.PointLabels
		c.CountN("crash-points-enumerated", n)
		if n == 0 {
			return
		}
		budget := 10
		if vfTier() == "thorough" {
			budget = 60
		}
		// prefer status-write boundaries, then a seeded sample of the rest
		var writes, rest []int
		for i, l := range labels {
			if l == "before-status-write" || l == "after-status-write" {
				writes = append(writes, i+1)
			} else {
				rest = append(rest, i+1)
			}
		}
		vfShuffle(c.R, writes)
		vfShuffle(c.R, rest)
		var picks []int
		for len(picks) < budget/2 && len(writes) > 0 {
			picks = append(picks, writes[0])
			writes = writes[1:]
		}
		for len(picks) < budget && len(rest) > 0 {
			picks = append(picks, rest[0])
			rest = rest[1:]
		}
		for _, idx := range picks {
			faults := boxFaultPlan(c.R)
			c.ResetTrace()
			c.Logf("######## crash run: crash at point %d (%s), fault plan %v", idx, labels[idx-1], faults)
			oo := o
			oo.writeFaults = c.R.Bool() // half of the crash runs: writes also fail now and then later in the history
			cb := boxHistoryOpt(c, boxMonFlags{c06: true, c01: true, c02: true}, oo, genSeed, schedSeed, idx, faults, false)
			c.Count("crash-runs")
			if cb.k.Crashes > 0 && cb.crashRec != nil {
				c.Count("crashes-executed")
				lab := cb.crashRec.Label
				if lab == "" {
					lab = "?"
				}
				c.Count("crash-kind:" + boxCrashKind(lab))
				pend, recd := 0, 0
				for _, ips := range cb.crashRec.IPs {
					if len(ips) == 0 {
						pend++
					} else {
						recd++
					}
				}
				c.Nontrivial(fmt.Sprintf("%s|pending=%d|recorded=%d|faults=%v", lab, pend, recd, faults))
				if c.WantSample() {
					c.Sample(map[string]any{"crash_point_index": idx, "crash_point_label": lab, "crash_points_in_history": n, "fault_plan": faults,
						"recorded_services_at_crash": recd, "pending_services_at_crash": pend, "recorded": cb.crashRec.IPs,
						"scheduler_steps": cb.k.Steps, "events": cb.k.Events})
				}
			} else {
				c.Count("crash-point-not-reached")
			}
			c.CountN("failed-writes-injected", cb.faultsInjected)
		}
	})
}

func boxCrashKind(label string) string {
	switch {
	case label == "before-status-write" || label == "after-status-write" || label == "after-event":
		return label
	case len(label) > 4 && label[:4] == "svc:":
		return "in-service-reconcile"
	case len(label) > 5 && label[:5] == "pool:":
		return "in-pool-reconcile"
	}
	return "other"
}

// gainedThenInadmissible: the service gained the missing family after index w0 of the write log (the
// permitted change) and the pair it then held did not stay admissible under every later
// configuration version, so a later re-allocation is legitimate.
func (cb *cbox) gainedThenInadmissible(k string, a []string, w0 int, req *vfSvcReq) bool {
	if len(a) != 1 || req.Policy != vfPolPrefer || len(req.Families) != 2 {
		return false
	}
	for _, w := range cb.writes[w0:] {
		if w.Key != k || len(w.IPs) != 2 {
			continue
		}
		var pair []string
		has := false
		for _, x := range w.IPs {
			cx, _, _ := vfCanonIP(x)
			pair = append(pair, cx)
			if cx == a[0] {
				has = true
			}
		}
		if !has {
			continue
		}
		for _, d := range cb.delivered[w.Versions:] {
			wd := &vfWorld{Pools: d.Model, Holdings: map[string]*vfHolding{}}
			if ok, _ := wd.ipsAdmissible(req, pair, false, true); !ok {
				return true
			}
		}
	}
	return false
}

func TestVerif_C18(t *testing.T) {
	boxRunOpt(t, "C18", boxMonFlags{c18: true}, func(c *vfCase) boxOpts { return boxOpts{events: 24, epochMax: 3, pinned: c.Idx%2 == 0} }, vfSizes{Quick: 60, Thorough: 1500},
		"every call of the pool handler is compared with the previous one: pools and namespaces (by value, order-free) must have changed; non-trivial = distinct delivered resource set")
}
