//go:build verif

package main

import (
	"fmt"
	"net"
	"reflect"
	"sort"
	"strings"

	"go.universe.tf/metallb/internal/allocator"
	"go.universe.tf/metallb/internal/k8s/controllers"
	v1 "k8s.io/api/core/v1"
)

type boxPre struct {
	snap vfSnap
	had  bool
}

func (cb *cbox) snap() vfSnap { return cboxSnap(cb.ctl.ips.VerifSnapshot()) }

func (cb *cbox) beforeSvcHandler(name string, svc *v1.Service) *boxPre {
	s := cb.snap()
	_, had := s.Allocated[name]
	return &boxPre{snap: s, had: had}
}

func (cb *cbox) stepMonitors(snap vfSnap) {
	if cb.mon.c01 {
		vfCheckExclusivity(cb.c, snap, nil)
	}
	if cb.mon.c11 {
		vfCheckRebuild(cb.c, snap, cboxSnap(cb.ctl.ips.VerifRebuild().VerifSnapshot()))
		if cb.cur != nil {
			vfCheckCounters(cb.c, snap, cb.cur.Model)
		}
	}
	cb.c.Distinct("states", fmt.Sprintf("%v|%v", snap.Allocated, snap.PoolNames))
}

func (cb *cbox) afterPoolHandler() {
	cb.stepMonitors(cb.snap())
}

func (cb *cbox) afterSvcHandler(name string, svc *v1.Service, pre *boxPre, res controllers.SyncState) {
	cb.handlerCalls++
	snap := cb.snap()
	post, has := snap.Allocated[name]
	if svc == nil {
		cb.c.Logf("   SetBalancer(%s, deleted) -> %v", name, res)
	} else {
		cb.c.Logf("   SetBalancer(%s status=%v) -> %v; allocator now %v", name, vfSvcRequirement(svc).StatusIPs, res, post.IPs)
	}
	cb.stepMonitors(snap)
	if has && (!pre.had || !vfSameSet(pre.snap.Allocated[name].IPs, post.IPs)) {
		phase := "after-first-full-sync"
		if cb.fullSyncs == 0 {
			phase = "single-service-event-before-first-full-sync"
			if cb.k.Current("svc") == boxReloadReq {
				phase = "during-first-full-sync"
			}
		}
		cb.memLog = append(cb.memLog, boxWrite{Key: name, IPs: post.IPs, Versions: len(cb.delivered), Phase: phase})
	}
	if (cb.mon.c02 || cb.mon.c04) && svc != nil && cb.cur != nil && has {
		cb.allocationEvent(name, svc, pre, snap)
	}
	if cb.mon.c11 && pre.had && cb.cur != nil {
		cb.probeReleased(name, svc, pre, snap)
	}
}

// allocationEvent recognises a fresh allocation made during this handler call and judges the choice.
func (cb *cbox) allocationEvent(name string, svc *v1.Service, pre *boxPre, snap vfSnap) {
	req := vfSvcRequirement(svc)
	post := snap.Allocated[name]
	if vfSameSet(post.IPs, req.StatusIPs) {
		return // adoption of the recorded addresses, not an allocation
	}
	if pre.had && vfSameSet(pre.snap.Allocated[name].IPs, post.IPs) {
		return // kept what it had in memory
	}
	model := cb.cur.Model
	pn := vfPoolOf(model, post.IPs)
	if pn == "" || pn == "*" {
		return // reported by the placement monitor at quiescence
	}
	p := model[pn]
	if len(req.StatusIPs) == 1 && len(post.IPs) == 2 && (post.IPs[0] == req.StatusIPs[0] || post.IPs[1] == req.StatusIPs[0]) {
		cb.c.Count("event:additional-family")
		if cb.gainedLater == nil {
			cb.gainedLater = map[string]bool{}
		}
		cb.gainedLater[name] = true
		cb.c.Nontrivial("addfam|" + pn)
		return
	}
	if !cb.mon.c02 {
		return
	}
	if req.ReqBad {
		return
	}
	cb.c.Eval()
	switch {
	case len(req.ReqIPs) > 0:
		cb.c.Count("event:explicit-addresses")
		cb.c.Nontrivial(fmt.Sprintf("explicit-ips|%v|%s", req.ReqIPs, pn))
		if !vfSameSet(req.ReqIPs, post.IPs) {
			cb.c.Violation("alloc:differs-from-requested-addresses", fmt.Sprintf("%s requested %v but was allocated %v", name, req.ReqIPs, post.IPs), nil)
		}
		return
	case req.ReqPool != "":
		cb.c.Count("event:explicit-pool")
		cb.c.Nontrivial(fmt.Sprintf("explicit-pool|%s|%s", req.ReqPool, pn))
		if pn != req.ReqPool {
			cb.c.Violation("alloc:differs-from-requested-pool", fmt.Sprintf("%s requested pool %s but was allocated %v from %s", name, req.ReqPool, post.IPs, pn), nil)
		}
		return
	}
	// automatic allocation
	preWorld := cb.worldFromSnap(pre.snap, model, name)
	if !p.AutoAssign {
		cb.c.Violation("auto:from-autoassign-false-pool", fmt.Sprintf("%s was automatically allocated %v from pool %s which has autoAssign=false", name, post.IPs, pn), nil)
	}
	if !p.Admits(req.Namespace, req.Labels) {
		cb.c.Violation("auto:from-pool-that-does-not-admit", fmt.Sprintf("%s (ns %s labels %v) was automatically allocated %v from pool %s whose namespace / service selectors do not admit it", name, req.Namespace, req.Labels, post.IPs, pn), nil)
	}
	dualPrefer := len(req.Families) == 2 && req.Policy == vfPolPrefer
	var better, pinnedOK []string
	falseHad := false
	for _, n := range vfSortedKeys(model) {
		q := model[n]
		if !q.Admits(req.Namespace, req.Labels) {
			continue
		}
		ok := preWorld.poolSatisfies(q, &req, true)
		if !q.AutoAssign {
			if ok {
				falseHad = true
			}
			continue
		}
		if q.HasAlloc && ok {
			pinnedOK = append(pinnedOK, n)
			if vfRank(q) < vfRank(p) {
				better = append(better, n)
			}
		}
	}
	if falseHad {
		cb.c.Count("event:autoassign-false-pool-had-free-address")
	}
	if p.HasAlloc {
		cb.c.Count("event:pinned")
		cb.c.Nontrivial(fmt.Sprintf("pinned|%s|prio=%d|better=%v|%v", pn, p.Priority, better, req.Families))
		if len(better) > 0 {
			cb.c.Count("event:lower-rank-pool-had-address")
			if !dualPrefer {
				cb.c.Violation("auto:priority-inverted", fmt.Sprintf("%s was allocated %v from pinned pool %s (priority %d) although pinned pool(s) %v of better priority had an admissible address", name, post.IPs, pn, p.Priority, better), nil)
			} else {
				for _, bn := range better {
					if preWorld.poolGivesFamiliesOf(model[bn], &req, post.IPs, true) {
						cb.c.Violation("auto:priority-inverted:prefer-dual-stack", fmt.Sprintf("PreferDualStack %s was allocated %v from pinned pool %s (priority %d) although pinned pool %s of better priority had available addresses of the same families", name, post.IPs, pn, p.Priority, bn), nil)
					}
				}
			}
		}
	} else {
		cb.c.Count("event:unpinned")
		cb.c.Nontrivial(fmt.Sprintf("unpinned|%s|pinnedOK=%v|%v", pn, pinnedOK, req.Families))
		if len(pinnedOK) > 0 {
			cb.c.Violation("auto:unpinned-before-pinned", fmt.Sprintf("%s was allocated %v from unpinned pool %s although pinned pool(s) %v had an admissible address", name, post.IPs, pn, pinnedOK), nil)
		}
	}
}

// probeReleased (C11): an address the service gave up during this call is immediately assignable.
func (cb *cbox) probeReleased(name string, svc *v1.Service, pre *boxPre, snap vfSnap) {
	now := map[string]bool{}
	for _, ip := range snap.Allocated[name].IPs {
		now[ip] = true
	}
	for _, ip := range pre.snap.Allocated[name].IPs {
		if now[ip] || len(snap.ServicesOnIP[ip]) > 0 {
			continue
		}
		pn := vfPoolOf(cb.cur.Model, []string{ip})
		if pn == "" || pn == "*" {
			continue
		}
		p := cb.cur.Model[pn]
		if !p.ContainsUsable(ip) {
			continue
		}
		var probe *v1.Service
		for _, ns := range []string{"ns1", "ns2", "ns3"} {
			for _, l := range []map[string]string{nil, {"tier": "web"}, {"tier": "db"}} {
				if probe == nil && p.Admits(ns, l) {
					probe = &v1.Service{}
					probe.Namespace, probe.Name, probe.Labels = ns, "probe", l
				}
			}
		}
		if probe == nil {
			continue
		}
		cb.c.Eval()
		cb.c.Count("releases-probed")
		err := cb.ctl.ips.Assign("probe/probe", probe, []net.IP{net.ParseIP(ip)}, []allocator.Port{{Proto: "TCP", Port: 1}}, "", "")
		if err != nil {
			cb.c.Violation("release:address-not-reusable", fmt.Sprintf("address %s given up by %s cannot be assigned to a fresh service: %v", ip, name, err), nil)
			continue
		}
		cb.ctl.ips.Unassign("probe/probe")
		if d := vfSnapDiff(snap, cb.snap(), false); d != "" {
			cb.c.Violation("release:probe-left-trace", "assign+unassign of a probe service changed the bookkeeping: "+d, nil)
		}
	}
}

// ---------------------------------------------------------------- quiescent monitors

type boxQuiet struct {
	Specs    map[string]string   // key -> hash of everything the user controls
	IPs      map[string][]string // key -> status addresses
	Reqs     map[string]*vfSvcReq
	Touches  map[string]int
	Writes   int
	Versions int
	Cur      *boxDelivered
}

func boxSpecHash(svc *v1.Service) string {
	ann := map[string]string{}
	for k, v := range svc.Annotations {
		if k != AnnotationIPAllocateFromPool {
			ann[k] = v
		}
	}
	return vfJSON([]any{svc.Spec, svc.Labels, ann})
}

func (cb *cbox) quietPoint() *boxQuiet {
	q := &boxQuiet{Specs: map[string]string{}, IPs: map[string][]string{}, Reqs: map[string]*vfSvcReq{}, Touches: map[string]int{}, Writes: len(cb.writes), Versions: len(cb.delivered), Cur: cb.cur}
	for k, svc := range cb.k.Store.Services {
		q.Specs[k] = boxSpecHash(svc)
		r := vfSvcRequirement(svc)
		q.Reqs[k] = &r
		q.IPs[k] = r.StatusIPs
		q.Touches[k] = cb.touches[k]
	}
	return q
}

func (cb *cbox) placementSignature(p *vfMPool, why string) string {
	return why
}

// quiescentChecks: monitors that speak about "no pending work".
func (cb *cbox) quiescentChecks(prev *boxQuiet, epochEvents []string) {
	if cb.cur == nil {
		cb.c.Count("quiescent-points-without-config")
		return
	}
	cb.c.Count("quiescent-points")
	model := cb.cur.Model
	world := cb.worldFromStore(model)
	snap := cb.snap()
	keys := vfSortedKeys(cb.k.Store.Services)

	if cb.mon.c04 {
		// The speakers elect the layer-2 announcer of a Service from the FIRST address of its status
		// (sha256 of node#address). Services that share an address must therefore be written with the
		// same first address, or two nodes answer for the shared one.
		first := map[string]string{}
		byIP := map[string][]string{}
		for _, k := range keys {
			svc := cb.k.Store.Services[k]
			for i, ing := range svc.Status.LoadBalancer.Ingress {
				cip, _, ok := vfCanonIP(ing.IP)
				if !ok {
					continue
				}
				if i == 0 {
					first[k] = cip
				}
				byIP[cip] = append(byIP[cip], k)
			}
		}
		for _, ip := range vfSortedKeys(byIP) {
			hs := byIP[ip]
			if len(hs) < 2 {
				continue
			}
			sort.Strings(hs)
			cb.c.Eval()
			cb.c.Count("shared-addresses-checked-for-election-key")
			for _, h := range hs[1:] {
				if first[h] != first[hs[0]] {
					sig := "l2-election-key-differs-among-sharers:same-addresses-listed-in-different-order"
					if cb.gainedLater[h] || cb.gainedLater[hs[0]] {
						// a PreferDualStack service that gained its second address later keeps it appended
						sig += ":second-address-gained-later"
					}
					if !vfSameSet(world.Holdings[h].IPs, world.Holdings[hs[0]].IPs) {
						sig = "l2-election-key-differs-among-sharers:services-share-only-part-of-their-addresses"
					}
					cb.c.Violation(sig, fmt.Sprintf("at quiescence %s and %s both hold %s but their statuses start with %s and %s: the speakers elect the announcer from the first address, so two nodes can answer for %s", hs[0], h, ip, first[hs[0]], first[h], ip), nil)
				} else if len(cb.k.Store.Services[h].Status.LoadBalancer.Ingress) > 1 {
					cb.c.Nontrivial("dual-sharers|" + ip + "|" + first[h])
				}
			}
		}
	}
	if cb.mon.c01 {
		byIP := map[string][]string{}
		for k, h := range world.Holdings {
			for _, ip := range h.IPs {
				byIP[ip] = append(byIP[ip], k)
			}
		}
		for _, ip := range vfSortedKeys(byIP) {
			hs := byIP[ip]
			sort.Strings(hs)
			cb.c.Eval()
			if len(hs) > 1 {
				cb.c.Count("quiescent-shared-addresses")
				var d []string
				for _, h := range hs {
					r := world.Holdings[h].Req
					d = append(d, fmt.Sprintf("%s/%v/%v/%s", r.ShareKey, vfSortedKeys(r.Ports), r.Local, r.Selector))
				}
				sort.Strings(d)
				cb.c.Nontrivial("status-share:" + strings.Join(d, "+"))
			}
			for x := 0; x < len(hs); x++ {
				for y := x + 1; y < len(hs); y++ {
					a, b := world.Holdings[hs[x]].Req, world.Holdings[hs[y]].Req
					if !vfShareOK(a, b) {
						cb.c.Violation("status-share:"+vfShareWhyNot(a, b), fmt.Sprintf("at quiescence address %s is written to the statuses of %s (key %q ports %v local=%v selector %q) and %s (key %q ports %v local=%v selector %q)",
							ip, hs[x], a.ShareKey, vfSortedKeys(a.Ports), a.Local, a.Selector, hs[y], b.ShareKey, vfSortedKeys(b.Ports), b.Local, b.Selector), nil)
					}
				}
			}
		}
	}
	if cb.mon.c01 || cb.mon.c06 || cb.mon.c11 {
		// controller memory == statuses
		for _, k := range keys {
			r := vfSvcRequirement(cb.k.Store.Services[k])
			cb.c.Eval()
			if !vfSameSet(r.StatusIPs, snap.Allocated[k].IPs) {
				cb.c.Violation("memory-differs-from-status", fmt.Sprintf("at quiescence %s has status %v but the allocator records %v", k, r.StatusIPs, snap.Allocated[k].IPs), nil)
			}
		}
		for k := range snap.Allocated {
			if cb.k.Store.Services[k] == nil {
				cb.c.Violation("memory-holds-deleted-service", fmt.Sprintf("at quiescence the allocator still records %v for %s which does not exist", snap.Allocated[k].IPs, k), nil)
			}
		}
	}
	if cb.mon.c11 {
		// the usage reported to the user: IPAddressPool.status (written by the real PoolStatusReconciler)
		for _, pk := range vfSortedKeys(cb.k.Store.Pools) {
			p := cb.k.Store.Pools[pk]
			m := model[p.Name]
			if m == nil {
				continue // not part of the configuration the controller runs on (rejected resource set)
			}
			ctr, ok := snap.Counters[p.Name]
			if !ok {
				continue
			}
			same := false
			for i := range cb.cur.Pools {
				if cb.cur.Pools[i].Name == p.Name && reflect.DeepEqual(cb.cur.Pools[i].Spec, p.Spec) {
					same = true
				}
			}
			if !same {
				continue // the stored pool is a newer version the controller has not accepted (yet)
			}
			if at, ok := cb.notified[p.Name]; ok {
				cb.c.Eval()
				cb.c.Count("pool-counter-notifications-checked")
				if at != ctr {
					cb.c.Violation("pool-counters-changed-after-last-notification", fmt.Sprintf("pool %s: the counters read at its last change notification were %v, they are %v now: a status fetcher woken by that notification reports stale usage and nothing wakes it again", p.Name, at, ctr), nil)
				}
			}
			cb.c.Eval()
			cb.c.Count("pool-status-resources-checked")
			got := [4]int64{p.Status.AssignedIPv4, p.Status.AssignedIPv6, p.Status.AvailableIPv4, p.Status.AvailableIPv6}
			if got != ctr {
				cb.c.Violation("pool-status-resource-stale", fmt.Sprintf("at quiescence IPAddressPool %s reports status %v but the allocator's counters are %v (assigned v4, v6, available v4, v6)", p.Name, got, ctr), nil)
			}
		}
		vfCheckCounters(cb.c, snap, model)
	}
	if cb.mon.c02 {
		for _, k := range keys {
			svc := cb.k.Store.Services[k]
			r := vfSvcRequirement(svc)
			if len(r.StatusIPs) == 0 {
				continue
			}
			cb.c.Eval()
			cb.c.Count("placements-judged")
			if !r.IsLB {
				cb.c.Violation("status:non-loadbalancer-holds-address", fmt.Sprintf("%s is not a LoadBalancer but holds %v", k, r.StatusIPs), nil)
				continue
			}
			pn := vfPoolOf(model, r.StatusIPs)
			if pn == "" || pn == "*" {
				cb.c.Violation("status:not-in-one-pool", fmt.Sprintf("%s holds %v which lie in %q pool(s) of %s", k, r.StatusIPs, pn, vfPoolDump(cb.cur.Pools)), nil)
				continue
			}
			p := model[pn]
			for _, ip := range r.StatusIPs {
				if !p.ContainsUsable(ip) {
					cb.c.Violation("status:buggy-address", fmt.Sprintf("%s holds %s, a .0/.255 address of avoid-buggy pool %s", k, ip, pn), nil)
				}
			}
			if !p.Admits(r.Namespace, r.Labels) {
				sig := "status:pool-does-not-admit"
				if p.NsSelOnly && len(p.Namespaces) == 0 {
					sig += ":namespace-selector-matches-nothing"
				}
				cb.c.Violation(sig, fmt.Sprintf("%s (ns %s labels %v) holds %v of pool %s which does not admit it (%s)", k, r.Namespace, r.Labels, r.StatusIPs, pn, vfPoolDump(cb.cur.Pools)), nil)
			}
			if ok, why := vfFamilyRule(&r, r.StatusIPs); !ok && !(len(r.Families) == 2 && r.Policy == vfPolSingle) {
				cb.c.Violation("status:family-rule", fmt.Sprintf("%s (cluster families %v, policy %s) holds %v: %s", k, r.Families, r.Policy, r.StatusIPs, why), nil)
			}
			if r.PoolAnn != pn && !r.ReqBad {
				// (a service whose request is malformed is refused before the annotation is refreshed:
				// out of the statement's scope, see DESIGN 1.7)
				cb.c.Violation("status:pool-annotation-wrong", fmt.Sprintf("%s holds %v of pool %s but its ip-allocated-from-pool annotation says %q", k, r.StatusIPs, pn, r.PoolAnn), nil)
			}
			if !r.ReqBad && len(r.ReqIPs) > 0 && !vfSameSet(r.ReqIPs, r.StatusIPs) {
				cb.c.Violation("status:differs-from-requested-addresses", fmt.Sprintf("%s requests %v but holds %v", k, r.ReqIPs, r.StatusIPs), nil)
			}
			if r.ReqPool != "" && r.ReqPool != pn {
				cb.c.Violation("status:differs-from-requested-pool", fmt.Sprintf("%s requests pool %s but holds %v of pool %s", k, r.ReqPool, r.StatusIPs, pn), nil)
			}
		}
	}
	if cb.mon.c07 {
		pending := 0
		for _, k := range keys {
			svc := cb.k.Store.Services[k]
			r := vfSvcRequirement(svc)
			if len(r.StatusIPs) > 0 || !r.IsLB || r.Families == nil {
				continue
			}
			pending++
			cb.c.Eval()
			ok, witness := world.existsAdmissible(&r)
			if !ok {
				cb.c.Count("pending-with-empty-admissible-set")
				cb.c.Nontrivial(fmt.Sprintf("pending|%s|%v|%s|held=%d", r.Policy, r.Families, r.ReqPool, len(world.Holdings)))
				continue
			}
			cause := cb.starvationCause(prev, &r, world, epochEvents)
			cb.c.Violation("starved-after:"+cause, fmt.Sprintf("at quiescence %s is pending although an admissible assignment exists (%s); spec: %s; holdings: %s; pools: %s",
				k, witness, boxSvcDump(svc), boxHoldingsDump(world), vfPoolDump(cb.cur.Pools)), nil)
		}
		if pending > 0 {
			cb.c.Count("quiescent-points-with-pending-service")
		}
	}
}

func boxHoldingsDump(w *vfWorld) string {
	var out []string
	for _, k := range vfSortedKeys(w.Holdings) {
		h := w.Holdings[k]
		out = append(out, fmt.Sprintf("%s=%v(key %q ports %v)", k, h.IPs, h.Req.ShareKey, vfSortedKeys(h.Req.Ports)))
	}
	return strings.Join(out, " ")
}

// starvationCause names what made the assignment admissible since the previous quiescent point.
func (cb *cbox) starvationCause(prev *boxQuiet, s *vfSvcReq, world *vfWorld, epochEvents []string) string {
	if prev == nil || prev.Cur == nil {
		return "initial-sync"
	}
	// was it already admissible at the previous quiescent point (same spec)?
	pw := &vfWorld{Pools: prev.Cur.Model, Holdings: map[string]*vfHolding{}}
	for k, ips := range prev.IPs {
		if len(ips) > 0 {
			pw.Holdings[k] = &vfHolding{Req: prev.Reqs[k], IPs: ips}
		}
	}
	if pr := prev.Reqs[s.Key]; pr != nil && prev.Specs[s.Key] == boxSpecHash(cb.k.Store.Services[s.Key]) {
		if ok, _ := pw.existsAdmissible(pr); ok && len(prev.IPs[s.Key]) == 0 {
			return "persisting"
		}
	}
	causes := map[string]bool{}
	for k, h := range pw.Holdings {
		if k == s.Key {
			continue
		}
		nowSvc := cb.k.Store.Services[k]
		switch {
		case nowSvc == nil:
			causes["holder-deleted"] = true
		default:
			nr := vfSvcRequirement(nowSvc)
			switch {
			case !nr.IsLB && h.Req.IsLB:
				causes["holder-retyped"] = true
			case !vfSameSet(nr.StatusIPs, h.IPs):
				causes["holder-moved"] = true
			case len(nr.Ports) < len(h.Req.Ports):
				causes["holder-port-shrink"] = true
			case !sameKeys(nr.Ports, h.Req.Ports):
				causes["holder-port-change"] = true
			case nr.ShareKey != h.Req.ShareKey:
				causes["holder-rekey"] = true
			case nr.Local != h.Req.Local || nr.Selector != h.Req.Selector:
				causes["holder-policy-change"] = true
			}
		}
	}
	if len(cb.delivered) > prev.Versions {
		causes["pool-edit"] = true
	}
	if prev.Specs[s.Key] != "" && prev.Specs[s.Key] != boxSpecHash(cb.k.Store.Services[s.Key]) {
		causes["own-spec-change"] = true
	}
	if prev.Specs[s.Key] == "" {
		causes["created"] = true
	}
	if len(causes) == 0 {
		return "unknown(" + strings.Join(epochEvents, ",") + ")"
	}
	return strings.Join(vfSortedKeys(causes), "+")
}

func sameKeys(a, b map[string]bool) bool {
	if len(a) != len(b) {
		return false
	}
	for k := range a {
		if !b[k] {
			return false
		}
	}
	return true
}
