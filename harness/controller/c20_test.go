//go:build verif

package main

import (
	"fmt"
	"runtime"
	"sort"
	"strings"
	"sync"
	"sync/atomic"
	"testing"
	"time"

	"github.com/go-kit/log"
	metallbv1beta1 "go.universe.tf/metallb/api/v1beta1"
	"go.universe.tf/metallb/internal/allocator"
	"go.universe.tf/metallb/internal/config"
	"go.universe.tf/metallb/internal/k8s"
	"go.universe.tf/metallb/internal/k8s/controllers"
	v1 "k8s.io/api/core/v1"
	discovery "k8s.io/api/discovery/v1"
	metav1 "k8s.io/apimachinery/pkg/apis/meta/v1"
)

// c20 (controller side): real goroutines deliver service and pool events through the real
// k8s.Listener while fetchers call CountersForPool and a consumer drains the counters callback, all
// under the race detector. The handlers log their arguments from inside the Listener lock (the
// effective order); afterwards the log is replayed serially on a fresh controller and the outcomes
// must be equal.

type c20Entry struct {
	kind  string // "svc" | "pools"
	name  string
	svc   *v1.Service
	pools int // index of the pool version
}

type c20Client struct {
	mu     sync.Mutex
	writes []string // "key=ips/pool" in call order
	objs   map[string]*v1.Service
}

func (c *c20Client) UpdateStatus(svc *v1.Service) error {
	c.mu.Lock()
	defer c.mu.Unlock()
	key := svc.Namespace + "/" + svc.Name
	var ips []string
	for _, i := range svc.Status.LoadBalancer.Ingress {
		ips = append(ips, i.IP)
	}
	c.writes = append(c.writes, fmt.Sprintf("%s=%v/%s", key, ips, svc.Annotations[AnnotationIPAllocateFromPool]))
	if c.objs != nil {
		if cur := c.objs[key]; cur != nil {
			n := cur.DeepCopy()
			n.Status = *svc.Status.DeepCopy()
			n.Annotations = map[string]string{}
			for k, v := range svc.Annotations {
				n.Annotations[k] = v
			}
			c.objs[key] = n
		}
	}
	return nil
}
func (c *c20Client) Infof(svc *v1.Service, desc, msg string, args ...interface{})  {}
func (c *c20Client) Errorf(svc *v1.Service, desc, msg string, args ...interface{}) {}

// pool versions whose allocation choice is deterministic: pinned pools with distinct priorities per
// namespace and exactly one unpinned auto-assign pool.
func c20PoolVersions(r *vfRand) []*config.Pools {
	mk := func(name string, addrs []string, at *metallbv1beta1.ServiceAllocation, avoid bool) metallbv1beta1.IPAddressPool {
		p := metallbv1beta1.IPAddressPool{ObjectMeta: metav1.ObjectMeta{Name: name, Namespace: "metallb-system"}}
		p.Spec.Addresses = addrs
		p.Spec.AllocateTo = at
		p.Spec.AvoidBuggyIPs = avoid
		return p
	}
	ns := func(prio int, n ...string) *metallbv1beta1.ServiceAllocation {
		return &metallbv1beta1.ServiceAllocation{Priority: prio, Namespaces: n}
	}
	layouts := [][]metallbv1beta1.IPAddressPool{
		{mk("pa", []string{"10.0.0.0/29", "fc00::/126"}, nil, false), mk("pb", []string{"10.0.1.0/30"}, ns(1, "ns1"), false), mk("pc", []string{"10.0.2.0/30"}, ns(2, "ns1"), false), mk("pd", []string{"10.0.3.0/31"}, ns(1, "ns2"), false)},
		{mk("pa", []string{"10.0.0.0/29", "fc00::/126"}, nil, true), mk("pb", []string{"10.0.1.0/30"}, ns(1, "ns1"), true), mk("pd", []string{"10.0.3.0/31"}, ns(1, "ns2"), false)},
		{mk("qa", []string{"10.0.0.0/29", "fc00::/126"}, nil, false), mk("pb", []string{"10.0.1.0/30", "10.0.2.0/30"}, ns(3, "ns1"), false)},
		{mk("pa", []string{"10.0.0.0/30"}, nil, false), mk("pe", []string{"10.0.0.4/30", "fc00::/126"}, ns(1, "ns1", "ns2"), false)},
	}
	var out []*config.Pools
	for _, l := range layouts {
		cfg, err := config.For(config.ClusterResources{Pools: l, Namespaces: vfGenNamespaces()}, config.DontValidate)
		if err != nil {
			panic(err)
		}
		out = append(out, cfg.Pools)
	}
	return out
}

type c20Outcome struct {
	snap   vfSnap
	writes []string
}

func c20Replay(log []c20Entry, versions []*config.Pools) c20Outcome {
	cl := &c20Client{}
	ctl := &controller{ips: allocator.New(func(string) {}), client: cl}
	l := logNop()
	for _, e := range log {
		if e.kind == "pools" {
			ctl.SetPools(l, versions[e.pools])
		} else {
			ctl.SetBalancer(l, e.name, e.svc, nil)
		}
	}
	return c20Outcome{snap: cboxSnap(ctl.ips.VerifSnapshot()), writes: cl.writes}
}

func logNop() log.Logger { return log.NewNopLogger() }

func TestVerif_C20(t *testing.T) {
	rule := "rounds of 4-6 driver goroutines delivering ~400 service / pool events through the real k8s.Listener, 2 fetchers calling CountersForPool and a consumer of the counters callback, under the race detector; the effective handler order (logged inside the Listener lock) is replayed serially on a fresh controller; non-trivial = distinct effective order in which handler calls of different drivers interleaved"
	vfMain(t, "C20", vfSizes{Quick: 10, Thorough: 100}, rule, func(c *vfCase) {
		r := c.R
		versions := c20PoolVersions(r)
		// services: drawn with the box generator against a scratch store holding the first layout
		scratch := newBoxStore()
		for _, n := range vfGenNamespaces() {
			nn := n
			scratch.Put(&nn)
		}
		for _, p := range []string{"pa", "pb", "pc", "pd"} {
			pp := metallbv1beta1.IPAddressPool{ObjectMeta: metav1.ObjectMeta{Name: p, Namespace: "metallb-system"}}
			pp.Spec.Addresses = map[string][]string{"pa": {"10.0.0.0/29", "fc00::/126"}, "pb": {"10.0.1.0/30"}, "pc": {"10.0.2.0/30"}, "pd": {"10.0.3.0/31"}}[p]
			scratch.Put(&pp)
		}
		g := &boxGen{r: r.Fork()}
		cl := &c20Client{objs: map[string]*v1.Service{}}
		var keys []string
		for i := 0; i < 6; i++ {
			svc := g.newService(scratch)
			svc.ResourceVersion = "1"
			key := svc.Namespace + "/" + svc.Name
			cl.objs[key] = svc
			keys = append(keys, key)
		}
		events := make(chan string, 1<<16)
		ctl := &controller{client: cl}
		var notified, notifyChecks int64
		seenAtNotify := map[string]allocator.PoolCounters{}
		earlyNotify := map[string]string{}
		// after a handler returned (still inside the Listener lock): the counters seen at the LAST
		// notification of each pool must be the counters the handler left behind - every change is followed
		// by its notification, never preceded by it
		afterHandler := func(what string) {
			for pn, seen := range seenAtNotify {
				if now := ctl.ips.CountersForPool(pn); now != seen {
					earlyNotify[pn] = fmt.Sprintf("%s: at the last notification for pool %s a fetch returned %+v, after the handler the counters are %+v", what, pn, seen, now)
				}
				delete(seenAtNotify, pn)
			}
			atomic.AddInt64(&notifyChecks, 1)
		}
		ctl.ips = allocator.New(func(name string) {
			select {
			case events <- name:
			default:
			}
			// what a consumer fetching at the moment of the notification sees (the callback runs on the
			// handler's goroutine, inside the Listener lock, so seenAtNotify needs no lock of its own)
			seenAtNotify[name] = ctl.ips.CountersForPool(name)
			// every notification returns 200 us late (the notifying goroutine is descheduled after it woke the
			// consumer): the consumer may fetch before the notifier goes on
			atomic.AddInt64(&notified, 1)
			time.Sleep(200 * time.Microsecond)
		})
		var elog []c20Entry
		var inflight, overlapped, fetches int64
		lis := &k8s.Listener{
			ServiceChanged: func(l log.Logger, name string, svc *v1.Service, eps []discovery.EndpointSlice) controllers.SyncState {
				var cp *v1.Service
				if svc != nil {
					cp = svc.DeepCopy()
				}
				elog = append(elog, c20Entry{kind: "svc", name: name, svc: cp})
				atomic.AddInt64(&inflight, 1)
				defer atomic.AddInt64(&inflight, -1)
				defer afterHandler("SetBalancer(" + name + ")")
				return ctl.SetBalancer(l, name, svc, eps)
			},
			PoolChanged: func(l log.Logger, pools *config.Pools) controllers.SyncState {
				idx := -1
				for i, v := range versions {
					if v == pools {
						idx = i
					}
				}
				elog = append(elog, c20Entry{kind: "pools", pools: idx})
				atomic.AddInt64(&inflight, 1)
				defer atomic.AddInt64(&inflight, -1)
				defer afterHandler("SetPools")
				return ctl.SetPools(l, pools)
			},
		}
		ndrivers := r.Range(4, 6)
		perDriver := 400 / ndrivers
		var wg sync.WaitGroup
		stop := make(chan struct{})
		panics := make(chan string, 16)
		guard := func(what string) {
			if p := recover(); p != nil {
				buf := make([]byte, 8192)
				n := runtime.Stack(buf, false)
				select {
				case panics <- fmt.Sprintf("%s: %v\n%s", what, p, buf[:n]):
				default:
				}
			}
		}
		// conservation oracle of the fetchers: a counters snapshot is written in one critical section, so
		// assigned + available of a pool must equal the usable size of that pool in one of the round's
		// configuration versions (or 0/0 while the pool does not exist), whatever handler runs meanwhile
		allowedSums := map[string]map[[2]int64]bool{}
		for _, v := range versions {
			fa := allocator.New(func(string) {})
			fa.SetPools(v)
			for _, n := range []string{"pa", "pb", "pc", "pd", "pe", "qa"} {
				ct := fa.CountersForPool(n)
				if allowedSums[n] == nil {
					allowedSums[n] = map[[2]int64]bool{{0, 0}: true}
				}
				allowedSums[n][[2]int64{ct.AssignedIPv4 + ct.AvailableIPv4, ct.AssignedIPv6 + ct.AvailableIPv6}] = true
			}
		}
		var tornMu sync.Mutex
		torn := map[string]string{}
		// what the consumer of the counters callback would publish (the PoolStatusReconciler fetches when woken)
		published := map[string]allocator.PoolCounters{}
		publish := func(name string) {
			ct := ctl.ips.CountersForPool(name)
			tornMu.Lock()
			published[name] = ct
			tornMu.Unlock()
		}
		lis.PoolHandler(logNop(), versions[0])
		for d := 0; d < ndrivers; d++ {
			dr := r.Fork()
			wg.Add(1)
			go func(d int) {
				defer wg.Done()
				defer guard("driver")
				lg := logNop()
				for i := 0; i < perDriver; i++ {
					switch x := dr.Intn(100); {
					case x < 8:
						lis.PoolHandler(lg, versions[dr.Intn(len(versions))])
					case x < 16:
						// spec mutation of the cached object, then the event
						key := vfPick(dr, keys)
						cl.mu.Lock()
						if cur := cl.objs[key]; cur != nil {
							n := cur.DeepCopy()
							gg := &boxGen{r: dr.Fork()}
							switch dr.Intn(3) {
							case 0:
								gg.setPorts(n)
							case 1:
								gg.setShareKey(n)
							default:
								gg.setPolicy(n)
							}
							cl.objs[key] = n
						}
						cl.mu.Unlock()
						fallthrough
					default:
						key := vfPick(dr, keys)
						cl.mu.Lock()
						var svc *v1.Service
						if cur := cl.objs[key]; cur != nil && !dr.Chance(1, 25) {
							svc = cur.DeepCopy()
						}
						cl.mu.Unlock()
						lis.ServiceHandler(lg, key, svc, nil)
					}
					if dr.Chance(1, 4) {
						runtime.Gosched()
					}
				}
			}(d)
		}
		var fwg sync.WaitGroup
		for f := 0; f < 2; f++ {
			fwg.Add(1)
			go func() {
				defer fwg.Done()
				defer guard("fetcher")
				names := []string{"pa", "pb", "pc", "pd", "pe", "qa"}
				i := 0
				for {
					select {
					case <-stop:
						return
					default:
					}
					busy := atomic.LoadInt64(&inflight) > 0
					pn := names[i%len(names)]
					ctr := ctl.ips.CountersForPool(pn)
					if sum := [2]int64{ctr.AssignedIPv4 + ctr.AvailableIPv4, ctr.AssignedIPv6 + ctr.AvailableIPv6}; !allowedSums[pn][sum] {
						tornMu.Lock()
						torn[pn] = fmt.Sprintf("%+v (assigned+available v4/v6 = %v, usable sizes of the pool over the configuration versions: %v)", ctr, sum, allowedSums[pn])
						tornMu.Unlock()
					}
					atomic.AddInt64(&fetches, 1)
					if busy {
						atomic.AddInt64(&overlapped, 1)
					}
					i++
					if i%64 == 0 {
						runtime.Gosched()
					}
				}
			}()
		}
		fwg.Add(1)
		go func() { // consumer of the counters callback, as the PoolStatusReconciler would be woken
			defer fwg.Done()
			defer guard("consumer")
			for {
				select {
				case <-stop:
					return
				case name := <-events:
					publish(name)
				}
			}
		}()
		done := make(chan struct{})
		go func() { wg.Wait(); close(done) }()
		select {
		case <-done:
		case <-time.After(60 * time.Second):
			buf := make([]byte, 1<<20)
			n := runtime.Stack(buf, true)
			dump := string(buf[:n])
			if site := c20DeadlockSite(dump); site != "" {
				c.Violation("deadlock:"+site, "the drivers made no progress for 60 s and are parked inside MetalLB (handler waiting while holding a lock another party needs)", map[string]any{"goroutines": dump[:min(len(dump), 12000)]})
			} else {
				c.Inconclusive("drivers did not finish within 60 s and the goroutine dump does not show them parked inside MetalLB")
			}
			close(stop)
			c.Abort()
			return
		}
		close(stop)
		fwg.Wait()
		select {
		case p := <-panics:
			c.Violation("panic-in-concurrent-round", p, nil)
			return
		default:
		}
		c.Eval()
	drain:
		for {
			select {
			case name := <-events:
				publish(name)
			default:
				break drain
			}
		}
		for _, pn := range vfSortedKeys(published) {
			c.Count("published-counters-compared")
			if fin := ctl.ips.CountersForPool(pn); fin != published[pn] {
				c.Violation("consumer:published-counters-stale", fmt.Sprintf("after every notification was consumed the counters last fetched for pool %s are %+v but the allocator reports %+v: the last change was not followed by a notification", pn, published[pn], fin), nil)
			}
		}
		for _, pn := range vfSortedKeys(earlyNotify) {
			c.Violation("consumer:notified-before-counters-refreshed", earlyNotify[pn], nil)
		}
		c.CountN("handler-returns-with-notification-check", int(atomic.LoadInt64(&notifyChecks)))
		for _, pn := range vfSortedKeys(torn) {
			c.Violation("fetcher:counters-not-conserved", fmt.Sprintf("a concurrent CountersForPool(%s) returned %s: no serial order of the handlers produces such a snapshot", pn, torn[pn]), nil)
		}
		c.Count("rounds")
		c.CountN("handler-calls", len(elog))
		c.CountN("fetcher-calls", int(fetches))
		c.CountN("fetcher-calls-overlapping-a-handler", int(overlapped))
		// distinct effective orders: the sequence of (kind,name)
		var sig []string
		for _, e := range elog {
			sig = append(sig, e.kind+":"+e.name)
		}
		c.Nontrivial(fmt.Sprint(sig))
		got := c20Outcome{snap: cboxSnap(ctl.ips.VerifSnapshot()), writes: append([]string(nil), cl.writes...)}
		want := c20Replay(elog, versions)
		c.Count("replay-comparisons")
		if d := vfSnapDiff(got.snap, want.snap, false); d != "" {
			c.Violation("concurrent-differs-from-serial:allocator:"+vfDiffField(d), "the allocator state after the concurrent round differs from the serial replay of the same handler calls in their effective order: "+d, nil)
		}
		gw, ww := append([]string(nil), got.writes...), append([]string(nil), want.writes...)
		if fmt.Sprint(gw) != fmt.Sprint(ww) {
			sort.Strings(gw)
			sort.Strings(ww)
			c.Violation("concurrent-differs-from-serial:status-writes", fmt.Sprintf("status writes of the concurrent round differ from the serial replay: %d vs %d writes", len(got.writes), len(want.writes)), nil)
		}
		if c.WantSample() {
			k := len(sig)
			if k > 40 {
				k = 40
			}
			c.Sample(map[string]any{"effective_order_prefix": sig[:k], "drivers": ndrivers, "handler_calls": len(elog), "fetches": fetches, "overlapped": overlapped})
		}
	})
}

// c20DeadlockSite: in a goroutine dump, the innermost MetalLB frame of a goroutine that is parked on a
// channel send or a lock while a k8s.Listener handler is on its stack (the handler holds the Listener
// lock, so every other driver is queued behind it); for a goroutine parked in the Listener's own Lock
// the handler itself is the site.
func c20DeadlockSite(dump string) string {
	site := ""
	for _, g := range strings.Split(dump, "\n\n") {
		if !strings.Contains(g, "internal/k8s.(*Listener).") && !strings.Contains(g, "internal/k8s.Listener.") {
			continue
		}
		if !(strings.Contains(g, "[chan send") || strings.Contains(g, "[sync.Mutex.Lock") || strings.Contains(g, "[sync.RWMutex") || strings.Contains(g, "[semacquire")) {
			continue
		}
		for _, l := range strings.Split(g, "\n") {
			if strings.HasPrefix(l, "go.universe.tf/metallb/") && !strings.Contains(l, "TestVerif") && !strings.Contains(l, ".vf") {
				if k := strings.LastIndex(l, "("); k > 0 {
					l = l[:k]
				}
				l = strings.TrimPrefix(l, "go.universe.tf/metallb/")
				if !strings.Contains(l, "internal/k8s.") {
					return l
				}
				if site == "" {
					site = l
				}
				break
			}
		}
	}
	return site
}
