//go:build verif

package layer2

// C20, layer-2 side: the periodic interface scan (updateInterfaces) runs on its own goroutine, outside the
// handlers' lock and outside controller-runtime's panic recovery: a panic there ends the speaker.
// An announcer that holds responders for interfaces which no longer exist (fake indices 9001, 9002 with
// in-memory connections, as after an interface was removed) is scanned twice with the real
// updateInterfaces over the sandbox's real interfaces, while service handlers (SetBalancer /
// DeleteBalancer) and status fetchers run concurrently under the race detector. After the first scan the
// responders of the vanished interfaces must be closed and gone from both tables; the second scan must
// find nothing left to close; nothing may panic or stay parked.

import (
	"fmt"
	"net"
	"runtime"
	"sync"
	"testing"
	"time"

	"k8s.io/apimachinery/pkg/types"
	"k8s.io/apimachinery/pkg/util/sets"
)

func TestVerif_C20(t *testing.T) {
	rule := "the real updateInterfaces scans the sandbox's interfaces twice on an announcer that still holds responders of vanished interfaces, concurrently with SetBalancer / DeleteBalancer / GetStatus callers, under the race detector; non-trivial = scan that had responders to drop"
	vfMain(t, "C20", vfSizes{Quick: 6, Thorough: 60}, rule, func(c *vfCase) {
		v, err := VerifNewAnnounce(nil, "gone0", "gone1")
		if err != nil {
			c.Inconclusive("cannot build the announcer: " + err.Error())
			return
		}
		a := v.A
		planted := map[int]*arpResponder{}
		for i, r := range a.arps {
			planted[i] = r
		}
		var wg sync.WaitGroup
		stop := make(chan struct{})
		panics := make(chan string, 8)
		guard := func(what string) {
			if p := recover(); p != nil {
				buf := make([]byte, 4096)
				n := runtime.Stack(buf, false)
				select {
				case panics <- fmt.Sprintf("%s: %v\n%s", what, p, buf[:n]):
				default:
				}
			}
		}
		for w := 0; w < 3; w++ {
			wg.Add(1)
			go func(w int) { // service handlers
				defer wg.Done()
				defer guard("handler")
				for i := 0; ; i++ {
					select {
					case <-stop:
						return
					default:
					}
					name := fmt.Sprintf("ns/svc%d", (w+i)%4)
					if i%3 == 2 {
						a.DeleteBalancer(name)
					} else {
						a.SetBalancer(name, NewIPAdvertisement(net.IPv4(10, 20, byte(w), byte(i%5)), i%2 == 0, sets.New("gone0")))
					}
					for len(a.spamCh) > 0 {
						select {
						case <-a.spamCh:
						default:
						}
					}
				}
			}(w)
		}
		wg.Add(1)
		go func() { // status fetcher
			defer wg.Done()
			defer guard("fetcher")
			for i := 0; ; i++ {
				select {
				case <-stop:
					return
				default:
				}
				_ = a.GetStatus(types.NamespacedName{Namespace: "ns", Name: fmt.Sprintf("svc%d", i%4)})
				_ = a.GetInterfaces()
			}
		}()
		scan := func(n int) bool {
			done := make(chan struct{})
			go func() {
				defer close(done)
				defer guard(fmt.Sprintf("interface scan #%d", n))
				a.updateInterfaces()
			}()
			select {
			case <-done:
				return true
			case <-time.After(30 * time.Second):
				buf := make([]byte, 1<<18)
				k := runtime.Stack(buf, true)
				c.Violation("deadlock:interface-scan", fmt.Sprintf("interface scan #%d did not return within 30 s", n), map[string]any{"goroutines": string(buf[:min(k, 10000)])})
				return false
			}
		}
		ok := scan(1)
		if ok {
			a.RLock()
			for i, r := range planted {
				c.Eval()
				if a.arps[i] != nil {
					c.Violation("scan:responder-of-vanished-interface-kept", fmt.Sprintf("after a scan the ARP responder of interface index %d (%s), which does not exist, is still registered", i, r.intf), nil)
				}
				select {
				case <-r.closed:
				default:
					c.Violation("scan:responder-of-vanished-interface-not-closed", fmt.Sprintf("after a scan the ARP responder of the vanished interface %s is still open", r.intf), nil)
				}
			}
			a.RUnlock()
			c.Nontrivial(fmt.Sprintf("dropped=%d", len(planted)))
			ok = scan(2)
		}
		close(stop)
		wg.Wait()
		select {
		case p := <-panics:
			c.Violation("crash:"+vfPanicSite(p), "panic outside any recovery: "+p[:min(len(p), 600)], nil)
		default:
		}
		// the scan opened real responders on the sandbox's interfaces (where it is allowed to): close them
		a.Lock()
		for i, r := range a.arps {
			r.Close()
			delete(a.arps, i)
		}
		for i, r := range a.ndps {
			r.Close()
			delete(a.ndps, i)
		}
		a.Unlock()
		c.Count("interface-scans")
		if ok {
			c.Count("interface-scans")
		}
		if c.WantSample() {
			c.Sample(map[string]any{"variant": "interface-scan", "responders_of_vanished_interfaces": len(planted)})
		}
	})
}
