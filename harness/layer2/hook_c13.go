//go:build verif

// Tag-guarded introspection for the /verif check harnesses (C13 in this package, the speaker
// harnesses from package main of /repo/speaker). Additive only: nothing here is compiled without
// the build tag `verif`, no existing identifier is touched, no goroutine is started, no socket is
// opened (arp.New only lists the addresses of the given interface index, which does not exist).
package layer2

import (
	"errors"
	"fmt"
	"io"
	"net"
	"sort"
	"strings"
	"sync"
	"time"

	"github.com/go-kit/log"
	"github.com/mdlayher/arp"
)

// Drop reasons of the responder, exported as plain ints for harnesses outside this package.
const (
	VerifDropNone              = int(dropReasonNone)
	VerifDropClosed            = int(dropReasonClosed)
	VerifDropError             = int(dropReasonError)
	VerifDropARPReply          = int(dropReasonARPReply)
	VerifDropEthernetDest      = int(dropReasonEthernetDestination)
	VerifDropAnnounceIP        = int(dropReasonAnnounceIP)
	VerifDropNotMatchInterface = int(dropReasonNotMatchInterface)
)

// verifIfIndexBase is far above any real interface index, so that arp.New finds no address.
const verifIfIndexBase = 9001

// ErrVerifNoFrame is what VerifPacketConn.ReadFrom returns when nothing was injected: the
// connection never blocks (there is no reader goroutine to wake up).
var ErrVerifNoFrame = errors.New("verif: no frame queued")

// VerifFrame is one frame written by a responder.
type VerifFrame struct {
	Intf string `json:"intf"`
	Seq  int    `json:"seq"` // index in the connection's write log
	Dst  string `json:"dst"` // address handed to WriteTo
	Data []byte `json:"data"`
}

type verifAddr string

func (a verifAddr) Network() string { return "verif" }
func (a verifAddr) String() string  { return string(a) }

// VerifPacketConn is an in-memory net.PacketConn: ReadFrom pops frames queued with Inject,
// WriteTo appends a copy to a log.
type VerifPacketConn struct {
	intf    string
	mu      sync.Mutex
	in      [][]byte
	out     []VerifFrame
	closed  bool
	onWrite func()
	readErr error // returned once by the next ReadFrom (a transient socket error)
}

var _ net.PacketConn = (*VerifPacketConn)(nil)

func (p *VerifPacketConn) ReadFrom(b []byte) (int, net.Addr, error) {
	p.mu.Lock()
	defer p.mu.Unlock()
	if p.closed {
		return 0, nil, io.EOF
	}
	if p.readErr != nil {
		err := p.readErr
		p.readErr = nil
		return 0, nil, err
	}
	if len(p.in) == 0 {
		return 0, nil, ErrVerifNoFrame
	}
	f := p.in[0]
	p.in = p.in[1:]
	return copy(b, f), verifAddr(p.intf), nil
}

func (p *VerifPacketConn) WriteTo(b []byte, addr net.Addr) (int, error) {
	p.mu.Lock()
	hook := p.onWrite
	p.mu.Unlock()
	if hook != nil {
		hook() // a slow socket: the caller may be holding the announcer's read lock
	}
	p.mu.Lock()
	defer p.mu.Unlock()
	if p.closed {
		return 0, net.ErrClosed
	}
	dst := ""
	if addr != nil {
		dst = addr.String()
	}
	p.out = append(p.out, VerifFrame{Intf: p.intf, Seq: len(p.out), Dst: dst, Data: append([]byte(nil), b...)})
	return len(b), nil
}

func (p *VerifPacketConn) Close() error {
	p.mu.Lock()
	p.closed = true
	p.mu.Unlock()
	return nil
}

func (p *VerifPacketConn) LocalAddr() net.Addr { return verifAddr(p.intf) }

// Deadlines are meaningless for a connection that never blocks.
func (p *VerifPacketConn) SetDeadline(time.Time) error      { return nil }
func (p *VerifPacketConn) SetReadDeadline(time.Time) error  { return nil }
func (p *VerifPacketConn) SetWriteDeadline(time.Time) error { return nil }

// SetWriteHook installs fn (nil: none), run at the start of every WriteTo outside the
// connection's own lock; it stands for the time a real socket write takes.
func (p *VerifPacketConn) SetWriteHook(fn func()) {
	p.mu.Lock()
	p.onWrite = fn
	p.mu.Unlock()
}

// Inject queues one frame for the next ReadFrom.
func (p *VerifPacketConn) Inject(frame []byte) {
	p.mu.Lock()
	p.in = append(p.in, append([]byte(nil), frame...))
	p.mu.Unlock()
}

// Pending is the number of injected frames not yet read.
func (p *VerifPacketConn) Pending() int {
	p.mu.Lock()
	defer p.mu.Unlock()
	return len(p.in)
}

// DropPending discards injected frames that were not read.
func (p *VerifPacketConn) DropPending() {
	p.mu.Lock()
	p.in = nil
	p.mu.Unlock()
}

// Len is the number of frames written so far.
func (p *VerifPacketConn) Len() int {
	p.mu.Lock()
	defer p.mu.Unlock()
	return len(p.out)
}

// Frames returns a copy of the frames written with Seq >= from.
func (p *VerifPacketConn) Frames(from int) []VerifFrame {
	p.mu.Lock()
	defer p.mu.Unlock()
	if from < 0 {
		from = 0
	}
	if from >= len(p.out) {
		return nil
	}
	return append([]VerifFrame(nil), p.out[from:]...)
}

type verifIf struct {
	name string
	mac  net.HardwareAddr
	conn *VerifPacketConn
	resp *arpResponder
	mu   sync.Mutex // one request at a time per responder, as with the single run() goroutine
}

// VerifL2 is an Announce without background goroutines (no interface scan, no spam loop) whose
// ARP responders are fixed and sit on in-memory connections. NDP responders: none.
type VerifL2 struct {
	A   *Announce
	ifs []*verifIf
}

// VerifNewAnnounce builds the announcer. Interface names default to eth0, eth1; interface i gets
// index 9001+i and MAC 02:4c:32:00:00:(i+1).
func VerifNewAnnounce(l log.Logger, ifnames ...string) (*VerifL2, error) {
	if l == nil {
		l = log.NewNopLogger()
	}
	if len(ifnames) == 0 {
		ifnames = []string{"eth0", "eth1"}
	}
	a := &Announce{
		logger:         l,
		nodeInterfaces: append([]string{}, ifnames...),
		arps:           map[int]*arpResponder{},
		ndps:           map[int]*ndpResponder{},
		ips:            map[string][]IPAdvertisement{},
		ipRefcnt:       map[string]int{},
		spamCh:         make(chan IPAdvertisement, 1024),
	}
	v := &VerifL2{A: a}
	for i, name := range ifnames {
		mac := net.HardwareAddr{0x02, 0x4c, 0x32, 0x00, 0x00, byte(i + 1)}
		ifi := &net.Interface{
			Index: verifIfIndexBase + i, MTU: 1500, Name: name, HardwareAddr: mac,
			Flags: net.FlagUp | net.FlagBroadcast | net.FlagMulticast,
		}
		pc := &VerifPacketConn{intf: name}
		cl, err := arp.New(ifi, pc)
		if err != nil {
			return nil, fmt.Errorf("verif: arp client for %s: %w", name, err)
		}
		resp := &arpResponder{
			logger:       l,
			intf:         name,
			hardwareAddr: mac,
			conn:         cl,
			closed:       make(chan struct{}),
			announce:     a.shouldAnnounce,
		}
		a.arps[ifi.Index] = resp
		v.ifs = append(v.ifs, &verifIf{name: name, mac: mac, conn: pc, resp: resp})
	}
	return v, nil
}

func (v *VerifL2) find(ifname string) *verifIf {
	for _, x := range v.ifs {
		if x.name == ifname {
			return x
		}
	}
	return nil
}

// Interfaces lists the responder interfaces in construction order.
func (v *VerifL2) Interfaces() []string {
	out := make([]string, 0, len(v.ifs))
	for _, x := range v.ifs {
		out = append(out, x.name)
	}
	return out
}

// MAC is the hardware address of the responder on ifname (nil if unknown).
func (v *VerifL2) MAC(ifname string) net.HardwareAddr {
	if x := v.find(ifname); x != nil {
		return append(net.HardwareAddr(nil), x.mac...)
	}
	return nil
}

// Conn is the in-memory connection of the responder on ifname (nil if unknown).
func (v *VerifL2) Conn(ifname string) *VerifPacketConn {
	if x := v.find(ifname); x != nil {
		return x.conn
	}
	return nil
}

// ProcessARP delivers one raw ethernet frame to the responder on ifname and runs the real
// arpResponder.processRequest once on it. It returns the drop reason and every frame written to
// that interface's connection while the call was running (a concurrent gratuitous call may
// contribute frames: filter by destination). Calls for one interface are serialised. before/after,
// when non-nil, run inside that serialisation right before delivery / right after the return
// (for boundary timestamps).
func (v *VerifL2) ProcessARP(ifname string, frame []byte, before, after func()) (int, []VerifFrame) {
	x := v.find(ifname)
	if x == nil {
		return VerifDropError, nil
	}
	x.mu.Lock()
	defer x.mu.Unlock()
	x.conn.DropPending()
	n0 := x.conn.Len()
	if before != nil {
		before()
	}
	x.conn.Inject(frame)
	reason := x.resp.processRequest()
	if after != nil {
		after()
	}
	x.conn.DropPending()
	return int(reason), x.conn.Frames(n0)
}

// ProcessARPReadError lets the responder of ifname run one read that fails with err although the socket stays open
// (what a packet socket reports once while its interface is administratively down).
func (v *VerifL2) ProcessARPReadError(ifname string, err error, before, after func()) int {
	x := v.find(ifname)
	if x == nil {
		return VerifDropError
	}
	x.mu.Lock()
	defer x.mu.Unlock()
	x.conn.DropPending()
	if before != nil {
		before()
	}
	x.conn.mu.Lock()
	x.conn.readErr = err
	x.conn.mu.Unlock()
	reason := x.resp.processRequest()
	if after != nil {
		after()
	}
	x.conn.DropPending()
	return int(reason)
}

// ShouldAnnounce is the decision the NDP responder asks for a solicited target on ifname.
func (v *VerifL2) ShouldAnnounce(ip net.IP, ifname string) int {
	return int(v.A.shouldAnnounce(ip, ifname))
}

// VerifSetSpamCapacity replaces the queue SetBalancer feeds by one of the given capacity (to be called
// before the announcer is used): with a small queue the hand-over between SetBalancer and the
// consumer of the queue is exercised at every call, as it is in production whenever the queue is full.
func (v *VerifL2) VerifSetSpamCapacity(n int) { v.A.spamCh = make(chan IPAdvertisement, n) }

// VerifAdvText renders an advertisement (address, scope) for comparisons outside the package.
func VerifAdvText(adv IPAdvertisement) (ip string, scope string) {
	ifs := adv.interfaces.UnsortedList()
	sort.Strings(ifs)
	return adv.ip.String(), fmt.Sprintf("all=%v|%s", adv.allInterfaces, strings.Join(ifs, ","))
}

// SpamQueue exposes the receive side of the queue for a consumer that plays the spam loop.
func (v *VerifL2) SpamQueue() <-chan IPAdvertisement { return v.A.spamCh }

// Gratuitous runs the real gratuitous announcement for adv once (what spamLoop does per tick).
func (v *VerifL2) Gratuitous(adv IPAdvertisement) { v.A.gratuitous(adv) }

// DrainSpam empties the queue SetBalancer feeds (nobody else reads it here; it holds 1024 entries
// and SetBalancer blocks when it is full) and returns what was queued, oldest first.
func (v *VerifL2) DrainSpam() []IPAdvertisement {
	var out []IPAdvertisement
	for {
		select {
		case adv := <-v.A.spamCh:
			out = append(out, adv)
		default:
			return out
		}
	}
}

// VerifAdv is a copy of one IPAdvertisement.
type VerifAdv struct {
	IP            string   `json:"ip"`
	AllInterfaces bool     `json:"all"`
	Interfaces    []string `json:"interfaces"` // sorted
}

// VerifState is a copy of the announcer's bookkeeping taken under its own lock.
type VerifState struct {
	IPs    map[string][]VerifAdv `json:"ips"`    // service -> advertisements
	Refcnt map[string]int        `json:"refcnt"` // ip.String() -> count (zero entries included)
}

// VerifAdvOf copies an advertisement.
func VerifAdvOf(adv IPAdvertisement) VerifAdv {
	out := VerifAdv{IP: adv.ip.String(), AllInterfaces: adv.allInterfaces, Interfaces: []string{}}
	for k := range adv.interfaces {
		out.Interfaces = append(out.Interfaces, k)
	}
	sort.Strings(out.Interfaces)
	return out
}

// VerifSnapshot copies ips and ipRefcnt under the read lock.
func (a *Announce) VerifSnapshot() VerifState {
	a.RLock()
	defer a.RUnlock()
	st := VerifState{IPs: map[string][]VerifAdv{}, Refcnt: map[string]int{}}
	for svc, advs := range a.ips {
		cp := make([]VerifAdv, 0, len(advs))
		for _, adv := range advs {
			cp = append(cp, VerifAdvOf(adv))
		}
		st.IPs[svc] = cp
	}
	for ip, n := range a.ipRefcnt {
		st.Refcnt[ip] = n
	}
	return st
}
