//go:build verif

package layer2

// C13, NDP side on a real interface (only where the sandbox allows it: root, an interface that is up and
// has an IPv6 link-local address, /proc/net/igmp6 readable; otherwise the probe counts itself as
// unavailable and judges nothing). A node receives - and can therefore answer - neighbour solicitations
// for an address only while it is a member of the address's solicited-node multicast group. The probe
// drives the real Announce + ndpResponder (real socket) through random announce / withdraw histories over
// IPv6 addresses of which several share one group (same low 24 bits) and reads the kernel's membership
// after every operation: the node must be a member of a group iff an announced address maps to it.
// The groups are derived from the process id, shard and case, so concurrent checks never share one.

import (
	"encoding/hex"
	"fmt"
	"net"
	"os"
	"strings"
	"time"

	"github.com/go-kit/log"
	"github.com/mdlayher/ndp"
	"k8s.io/apimachinery/pkg/util/sets"
)

func c13NDPInterface() *net.Interface {
	ifs, err := net.Interfaces()
	if err != nil {
		return nil
	}
	for i := range ifs {
		ifi := ifs[i]
		if ifi.Flags&net.FlagUp == 0 || ifi.Flags&net.FlagLoopback != 0 {
			continue
		}
		addrs, _ := ifi.Addrs()
		for _, a := range addrs {
			if n, ok := a.(*net.IPNet); ok && n.IP.To4() == nil && n.IP.IsLinkLocalUnicast() {
				return &ifi
			}
		}
	}
	return nil
}

func c13KernelGroups(ifName string) (map[string]bool, bool) {
	b, err := os.ReadFile("/proc/net/igmp6")
	if err != nil {
		return nil, false
	}
	out := map[string]bool{}
	for _, line := range strings.Split(string(b), "\n") {
		f := strings.Fields(line)
		if len(f) >= 3 && f[1] == ifName {
			out[f[2]] = true
		}
	}
	return out, true
}

func c13NDPProbe(c *vfCase) {
	ifi := c13NDPInterface()
	if ifi == nil {
		c.Count("ndp-probe-unavailable:no-interface-with-ipv6-link-local")
		return
	}
	if _, ok := c13KernelGroups(ifi.Name); !ok {
		c.Count("ndp-probe-unavailable:no-proc-net-igmp6")
		return
	}
	a := &Announce{
		logger:   log.NewNopLogger(),
		arps:     map[int]*arpResponder{},
		ndps:     map[int]*ndpResponder{},
		ips:      map[string][]IPAdvertisement{},
		ipRefcnt: map[string]int{},
		spamCh:   make(chan IPAdvertisement, 4096),
	}
	resp, err := newNDPResponder(log.NewNopLogger(), ifi, a.shouldAnnounce)
	if err != nil {
		c.Count("ndp-probe-unavailable:cannot-open-ndp-socket")
		return
	}
	defer resp.Close()
	a.ndps[ifi.Index] = resp
	c.Count("ndp-probes")
	r := c.R
	// three groups private to this process / shard / case; two addresses in each of the first two
	base := uint32(os.Getpid())<<10 ^ uint32(vfEnvInt("VERIF_SHARD", 0))<<6 ^ uint32(c.Idx)*2654435761
	low := func(k int) [3]byte {
		v := (base + uint32(k)*7919) & 0xffffff
		return [3]byte{byte(v >> 16), byte(v >> 8), byte(v)}
	}
	mk := func(net16 byte, l [3]byte) net.IP {
		ip := net.ParseIP("2001:db8::")
		ip[5] = net16
		ip[13], ip[14], ip[15] = l[0], l[1], l[2]
		return ip
	}
	addrs := []net.IP{mk(1, low(0)), mk(2, low(0)), mk(1, low(1)), mk(3, low(1)), mk(1, low(2))}
	groupOf := func(ip net.IP) string {
		g, _ := ndp.SolicitedNodeMulticast(ip)
		return hex.EncodeToString(g.To16())
	}
	before, _ := c13KernelGroups(ifi.Name)
	for _, ip := range addrs {
		if before[groupOf(ip)] {
			c.Count("ndp-probe-unavailable:group-already-joined")
			return
		}
	}
	held := map[string]int{} // service -> address index
	check := func(what string) bool {
		now, ok := c13KernelGroups(ifi.Name)
		if !ok {
			return false
		}
		want := map[string][]string{}
		for svc, i := range held {
			want[groupOf(addrs[i])] = append(want[groupOf(addrs[i])], svc)
		}
		for i := range addrs {
			g := groupOf(addrs[i])
			c.Eval()
			c.Count("ndp-group-memberships-checked")
			// /proc/net/igmp6 is walked while other processes join and leave groups: a single read may
			// skip or repeat a line. A disagreement counts only if it persists over several reads.
			for retry := 0; retry < 8 && (len(want[g]) > 0) != now[g]; retry++ {
				time.Sleep(3 * time.Millisecond)
				c.Count("ndp-membership-rereads")
				if again, ok := c13KernelGroups(ifi.Name); ok {
					now = again
				}
			}
			switch {
			case len(want[g]) > 0 && !now[g]:
				c.Violation("ndp:not-listening-for-an-announced-address", fmt.Sprintf("after %s the node is not a member of the solicited-node group of %s although %v announce(s) an address of that group: it cannot receive, hence not answer, solicitations for it", what, addrs[i], want[g]), map[string]any{"trace": c.Trace()})
				return false
			case len(want[g]) == 0 && now[g]:
				c.Violation("ndp:still-listening-after-the-last-withdrawal", fmt.Sprintf("after %s the node is still a member of the solicited-node group of %s although nothing announces an address of that group", what, addrs[i]), map[string]any{"trace": c.Trace()})
				return false
			}
		}
		return true
	}
	defer func() { // leave nothing behind
		for svc := range held {
			a.DeleteBalancer(svc)
		}
	}()
	for step := 0; step < 14; step++ {
		svc := fmt.Sprintf("ns/svc%d", r.Intn(4))
		what := ""
		if i, ok := held[svc]; ok && r.Chance(3, 5) {
			a.DeleteBalancer(svc)
			delete(held, svc)
			what = fmt.Sprintf("DeleteBalancer(%s) [held %s]", svc, addrs[i])
		} else if !ok {
			i := r.Intn(len(addrs))
			a.SetBalancer(svc, NewIPAdvertisement(addrs[i], true, sets.Set[string]{}))
			held[svc] = i
			what = fmt.Sprintf("SetBalancer(%s, %s)", svc, addrs[i])
		} else {
			// re-announce (same address, as a re-sync does)
			a.SetBalancer(svc, NewIPAdvertisement(addrs[held[svc]], true, sets.Set[string]{}))
			what = fmt.Sprintf("SetBalancer(%s, %s) again", svc, addrs[held[svc]])
		}
		for len(a.spamCh) > 0 {
			<-a.spamCh
		}
		c.Logf("ndp: %s", what)
		if !check(what) {
			return
		}
	}
}
