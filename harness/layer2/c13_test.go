//go:build verif

package layer2

import (
	"syscall"
	"bytes"
	"encoding/json"
	"fmt"
	"net"
	"os"
	"runtime"
	"sort"
	"strings"
	"sync"
	"sync/atomic"
	"testing"
	"time"

	"github.com/anishathalye/porcupine"
	"k8s.io/apimachinery/pkg/util/sets"
)

// ---------------------------------------------------------------- universe

const (
	c13NSvc = 4
	c13NIP  = 4 // A (shared, v4), B (v4), C (v6), D (v4, never announced)

	c13IPA = 0
	c13IPB = 1
	c13IPC = 2
	c13IPD = 3

	// scope bits
	c13Eth0 = 0x01
	c13Eth1 = 0x02
	c13Eth2 = 0x04 // named in advertisements, no responder exists for it
	c13All  = 0x40
	c13Held = 0x80

	c13MaxOps = 60
)

var (
	c13IPStr    = [c13NIP]string{"10.13.0.1", "10.13.0.2", "fc00:13::1", "10.13.0.77"}
	c13IPName   = [c13NIP]string{"A", "B", "C", "D"}
	c13IntfName = [3]string{"eth0", "eth1", "eth2"}
	c13Bcast    = [6]byte{0xff, 0xff, 0xff, 0xff, 0xff, 0xff}
)

func c13SvcName(i int) string { return fmt.Sprintf("default/svc%d", i+1) }

func c13IsV6(ip int) bool { return ip == c13IPC }

func c13ScopeString(s uint8) string {
	var parts []string
	if s&c13All != 0 {
		parts = append(parts, "all")
	}
	for i := 0; i < 3; i++ {
		if s&(1<<i) != 0 {
			parts = append(parts, c13IntfName[i])
		}
	}
	if len(parts) == 0 {
		return "{}"
	}
	return "{" + strings.Join(parts, ",") + "}"
}

// c13Covers: the advertisement scope covers responder interface bit.
func c13Covers(cell uint8, intfBit uint8) bool {
	return cell&c13Held != 0 && (cell&c13All != 0 || cell&intfBit != 0)
}

// c13RespMask: responder interfaces on which an unsolicited announcement for (ip, scope) goes out
// in this set-up (ARP responders on eth0 and eth1, no NDP responder).
func c13RespMask(ip int, scope uint8) uint8 {
	if c13IsV6(ip) {
		return 0
	}
	if scope&c13All != 0 {
		return c13Eth0 | c13Eth1
	}
	return scope & (c13Eth0 | c13Eth1)
}

// ---------------------------------------------------------------- recorded operations

type c13State [c13NSvc][c13NIP]uint8

type c13Op struct {
	ID      int    `json:"id"`
	Client  int    `json:"client"`
	Phase   string `json:"phase"` // prefix | concurrent | probe | teardown | final
	Kind    string `json:"kind"`  // set | del | req | ask | grat | snap | bad
	Svc     int    `json:"svc"`
	IP      int    `json:"ip"`
	Scope   uint8  `json:"scope"`
	Intf    int    `json:"intf"`
	Variant string `json:"variant,omitempty"`
	Repr16  bool   `json:"repr16,omitempty"` // v4 address handed over in 16-byte form
	Drained bool   `json:"drained,omitempty"`
	Call    int64  `json:"call"`
	Ret     int64  `json:"ret"`

	// outputs
	Answered bool           `json:"answered,omitempty"`
	Reason   int            `json:"reason,omitempty"`
	ReplyBad string         `json:"reply_bad,omitempty"`
	Mask     uint8          `json:"mask,omitempty"`
	NFrames  int            `json:"nframes,omitempty"`
	Snap     *c13State      `json:"snap,omitempty"`
	Refcnt   map[string]int `json:"refcnt,omitempty"`
	Holders  map[string]int `json:"holders,omitempty"`
	SnapBad  string         `json:"snap_bad,omitempty"`

	pause  int   // generator: what to do before the operation
	ipMask uint8 // judge: addresses a projected snap is compared on
	advRaw *IPAdvertisement
}

func (o *c13Op) String() string {
	base := fmt.Sprintf("#%d c%d [%d,%d] %s ", o.ID, o.Client, o.Call, o.Ret, o.Phase)
	switch o.Kind {
	case "set":
		return base + fmt.Sprintf("Set(%s, %s, %s)", c13SvcName(o.Svc), c13IPName[o.IP], c13ScopeString(o.Scope))
	case "del":
		return base + fmt.Sprintf("Del(%s)", c13SvcName(o.Svc))
	case "req", "bad":
		return base + fmt.Sprintf("Req[%s](%s on %s) -> answered=%v reason=%d", o.Variant, c13IPName[o.IP], c13IntfName[o.Intf], o.Answered, o.Reason)
	case "ask":
		return base + fmt.Sprintf("Ask(%s on %s) -> answered=%v reason=%d", c13IPName[o.IP], c13IntfName[o.Intf], o.Answered, o.Reason)
	case "grat":
		return base + fmt.Sprintf("Grat(%s, %s) -> frames on %s (%d)", c13IPName[o.IP], c13ScopeString(o.Scope), c13ScopeString(o.Mask), o.NFrames)
	case "snap":
		return base + fmt.Sprintf("Snap -> %v refcnt=%v", c13StateString(o.Snap), o.Refcnt)
	}
	return base + o.Kind
}

func c13StateString(s *c13State) string {
	if s == nil {
		return "nil"
	}
	var parts []string
	for i := 0; i < c13NSvc; i++ {
		for j := 0; j < c13NIP; j++ {
			if s[i][j]&c13Held != 0 {
				parts = append(parts, fmt.Sprintf("svc%d:%s%s", i+1, c13IPName[j], c13ScopeString(s[i][j]&^c13Held)))
			}
		}
	}
	return "[" + strings.Join(parts, " ") + "]"
}

// ---------------------------------------------------------------- own ARP encoder / decoder

type c13Arp struct {
	dst, src  [6]byte
	op        uint16
	sha, tha  [6]byte
	spa, tpa  [4]byte
	ethertype uint16
}

func c13Encode(a c13Arp, pad bool) []byte {
	b := make([]byte, 0, 60)
	b = append(b, a.dst[:]...)
	b = append(b, a.src[:]...)
	b = append(b, byte(a.ethertype>>8), byte(a.ethertype))
	b = append(b, 0x00, 0x01, 0x08, 0x00, 6, 4, byte(a.op>>8), byte(a.op))
	b = append(b, a.sha[:]...)
	b = append(b, a.spa[:]...)
	b = append(b, a.tha[:]...)
	b = append(b, a.tpa[:]...)
	if pad {
		for len(b) < 60 {
			b = append(b, 0)
		}
	}
	return b
}

func c13Decode(b []byte) (c13Arp, bool) {
	var a c13Arp
	if len(b) < 42 {
		return a, false
	}
	copy(a.dst[:], b[0:6])
	copy(a.src[:], b[6:12])
	a.ethertype = uint16(b[12])<<8 | uint16(b[13])
	if a.ethertype != 0x0806 {
		return a, false
	}
	p := b[14:]
	if p[0] != 0 || p[1] != 1 || p[2] != 0x08 || p[3] != 0 || p[4] != 6 || p[5] != 4 {
		return a, false
	}
	a.op = uint16(p[6])<<8 | uint16(p[7])
	copy(a.sha[:], p[8:14])
	copy(a.spa[:], p[14:18])
	copy(a.tha[:], p[18:24])
	copy(a.tpa[:], p[24:28])
	return a, true
}

func c13V4(ip int) [4]byte {
	var out [4]byte
	copy(out[:], net.ParseIP(c13IPStr[ip]).To4())
	return out
}

// ---------------------------------------------------------------- generator

var c13Scopes = []uint8{
	c13All, c13All, c13All,
	c13Eth0, c13Eth0, c13Eth0,
	c13Eth1, c13Eth1, c13Eth1,
	c13Eth0 | c13Eth1,
	0,
	c13Eth2,
	c13Eth0 | c13Eth2,
	c13All | c13Eth1, // allInterfaces together with a (meaningless) list
}

var c13BadVariants = []string{"transient-read-error", "foreign-mac", "near-mac", "multicast-mac", "op-reply", "op-reply-unicast", "op-rarp", "op-zero", "op-inarp", "ethertype-ipv4", "truncated-arp", "truncated-ethernet"}

func c13BadClass(variant string) string {
	switch {
	case strings.HasSuffix(variant, "-mac"):
		return "foreign-destination"
	case strings.HasPrefix(variant, "op-"):
		return "non-request-operation"
	case strings.HasPrefix(variant, "truncated"):
		return "truncated-frame"
	case variant == "transient-read-error":
		return "read-error"
	default:
		return "non-arp-ethertype"
	}
}

type c13Plan struct {
	nsvc    int
	addrs   [c13NSvc][]int // addresses a service may announce in this history
	prefix  []c13Op
	clients [6][]c13Op
	delays  []int // events of other clients a frame write waits for during the concurrent phase
}

func c13Generate(r *vfRand) *c13Plan {
	p := &c13Plan{}
	p.nsvc = vfPick(r, []int{2, 3, 3, 4, 4, 4})
	// svc1 and svc2 share A; svc3 lives on B; svc4 anywhere. Some services are dual-stack (C) or
	// carry a second v4 address.
	p.addrs[0] = []int{c13IPA}
	p.addrs[1] = []int{c13IPA}
	p.addrs[2] = []int{c13IPB}
	p.addrs[3] = []int{vfPick(r, []int{c13IPA, c13IPB, c13IPC, c13IPC})}
	for s := 0; s < c13NSvc; s++ {
		if r.Chance(1, 3) {
			extra := vfPick(r, []int{c13IPC, c13IPC, c13IPA, c13IPB})
			if extra != p.addrs[s][0] {
				p.addrs[s] = append(p.addrs[s], extra)
			}
		}
	}
	switch r.Intn(5) {
	case 0: // fast writes
	case 1:
		p.delays = []int{0, 2, 0, 4, 1, 0, 8}
	default:
		for i := 0; i < 7; i++ {
			p.delays = append(p.delays, vfPick(r, []int{0, 0, 1, 2, 3, 5, 8, 12}))
		}
	}
	mut := func(client int, phase string) c13Op {
		s := r.Intn(p.nsvc)
		if s < 2 && r.Chance(1, 3) { // bias towards the services sharing A
			s = r.Intn(2)
		}
		op := c13Op{Client: client, Phase: phase, Svc: s, pause: r.Intn(4)}
		if phase != "prefix" && r.Chance(35, 100) {
			op.Kind = "del"
			return op
		}
		op.Kind = "set"
		op.IP = vfPick(r, p.addrs[s])
		op.Scope = vfPick(r, c13Scopes)
		op.Repr16 = r.Chance(1, 4)
		return op
	}
	for i, n := 0, r.Range(1, 4); i < n; i++ {
		p.prefix = append(p.prefix, mut(6, "prefix"))
	}
	for cl := 0; cl < 3; cl++ {
		for i, n := 0, r.Range(3, 5); i < n; i++ {
			p.clients[cl] = append(p.clients[cl], mut(cl, "concurrent"))
		}
	}
	for cl := 3; cl < 5; cl++ {
		for i, n := 0, r.Range(4, 7); i < n; i++ {
			op := c13Op{Client: cl, Phase: "concurrent", pause: r.Intn(4), Intf: r.Intn(2)}
			switch k := r.Intn(20); {
			case k < 11:
				op.Kind = "req"
				op.IP = vfPick(r, []int{c13IPA, c13IPA, c13IPA, c13IPA, c13IPA, c13IPB, c13IPB, c13IPB, c13IPD})
				op.Variant = vfPick(r, []string{"broadcast", "broadcast", "unicast", "broadcast-padded"})
			case k < 16:
				op.Kind = "ask"
				op.IP = vfPick(r, []int{c13IPC, c13IPC, c13IPC, c13IPA, c13IPB})
			default:
				op.Kind = "bad"
				op.IP = vfPick(r, []int{c13IPA, c13IPA, c13IPB})
				op.Variant = vfPick(r, c13BadVariants)
			}
			p.clients[cl] = append(p.clients[cl], op)
		}
	}
	for i, n := 0, r.Range(3, 6); i < n; i++ {
		op := c13Op{Client: 5, Phase: "concurrent", Kind: "grat", pause: r.Intn(4)}
		op.IP = vfPick(r, []int{c13IPA, c13IPA, c13IPA, c13IPB, c13IPB, c13IPC})
		op.Scope = vfPick(r, c13Scopes)
		op.Drained = r.Chance(1, 2) // prefer what SetBalancer queued for the spam loop, if anything
		p.clients[5] = append(p.clients[5], op)
	}
	return p
}

// ---------------------------------------------------------------- execution against the real code

type c13Exec struct {
	v     *VerifL2
	clk   atomic.Int64
	ip    [c13NIP]net.IP
	nbad  atomic.Int64
	conns [2]*VerifPacketConn
	macs  [2][6]byte
}

func (e *c13Exec) tick() int64 { return e.clk.Add(1) }

func c13NewExec() (*c13Exec, error) {
	v, err := VerifNewAnnounce(nil, "eth0", "eth1")
	if err != nil {
		return nil, err
	}
	e := &c13Exec{v: v}
	for i := range e.ip {
		e.ip[i] = net.ParseIP(c13IPStr[i])
	}
	for i := 0; i < 2; i++ {
		e.conns[i] = v.Conn(c13IntfName[i])
		copy(e.macs[i][:], v.MAC(c13IntfName[i]))
	}
	return e, nil
}

// slowWrites makes some frame writes take a while, as socket writes do: the write waits until k
// further events were recorded by other clients (bounded by a number of yields, never by
// wall-clock time). gratuitous writes while holding the announcer's read lock, so mutators and
// requesters pile up behind it and are released together; a reply is written after the decision
// was taken, so the request stays open while mutations go by.
func (e *c13Exec) slowWrites(table []int) {
	var n atomic.Int64
	hook := func() {
		k := int64(table[int(n.Add(1))%len(table)])
		entry := e.clk.Load()
		for y := 0; y < 400 && e.clk.Load() < entry+k; y++ {
			runtime.Gosched()
		}
	}
	for i := 0; i < 2; i++ {
		e.conns[i].SetWriteHook(hook)
	}
}

func (e *c13Exec) adv(ip int, scope uint8, repr16 bool) IPAdvertisement {
	addr := e.ip[ip]
	if v4 := addr.To4(); v4 != nil && !repr16 {
		addr = v4
	}
	var ifs sets.Set[string]
	if scope&c13All == 0 || scope&0x07 != 0 {
		ifs = sets.New[string]()
		for i := 0; i < 3; i++ {
			if scope&(1<<i) != 0 {
				ifs.Insert(c13IntfName[i])
			}
		}
	}
	return NewIPAdvertisement(append(net.IP(nil), addr...), scope&c13All != 0, ifs)
}

// advScope reads an advertisement back into (address index, scope bits).
func (e *c13Exec) advScope(adv IPAdvertisement) (int, uint8, bool) {
	ip := -1
	for i := range e.ip {
		if e.ip[i].Equal(adv.ip) {
			ip = i
		}
	}
	if ip < 0 {
		return 0, 0, false
	}
	var s uint8
	if adv.allInterfaces {
		s |= c13All
	}
	for name := range adv.interfaces {
		found := false
		for i := 0; i < 3; i++ {
			if c13IntfName[i] == name {
				s |= 1 << i
				found = true
			}
		}
		if !found {
			return 0, 0, false
		}
	}
	return ip, s, true
}

func c13Pause(n int) {
	switch n {
	case 1:
		runtime.Gosched()
	case 2:
		for i := 0; i < 200; i++ {
			_ = i
		}
	case 3:
		runtime.Gosched()
		runtime.Gosched()
	}
}

func (e *c13Exec) requestFrame(op *c13Op) ([]byte, [6]byte, [4]byte) {
	sender := [6]byte{0x02, 0xc1, 0x13, byte(op.Client), byte(op.ID >> 8), byte(op.ID)}
	senderIP := [4]byte{192, 0, 2, byte(1 + op.ID%250)}
	a := c13Arp{src: sender, op: 1, sha: sender, spa: senderIP, tpa: c13V4(op.IP), ethertype: 0x0806}
	a.dst = c13Bcast
	pad := false
	mac := e.macs[op.Intf]
	switch op.Variant {
	case "broadcast":
	case "broadcast-padded":
		pad = true
	case "unicast":
		a.dst = mac
		a.tha = mac
	case "foreign-mac":
		a.dst = [6]byte{0x02, 0xde, 0xad, 0x00, 0x00, 0x01}
	case "near-mac":
		a.dst = mac
		a.dst[5] ^= 0x10
	case "multicast-mac":
		a.dst = [6]byte{0x01, 0x00, 0x5e, 0x00, 0x00, 0x01}
	case "op-reply":
		a.op = 2
	case "op-reply-unicast":
		a.op = 2
		a.dst = mac
		a.tha = mac
	case "op-rarp":
		a.op = 3
	case "op-zero":
		a.op = 0
	case "op-inarp":
		a.op = 8
	case "ethertype-ipv4":
		a.ethertype = 0x0800
	case "truncated-arp": // ARP ethertype, body cut short (what a broken sender or a capture glitch puts on the wire)
		b := c13Encode(a, false)
		return b[:14+4+op.ID%20], sender, senderIP
	case "truncated-ethernet":
		b := c13Encode(a, false)
		return b[:3+op.ID%10], sender, senderIP
	default:
		panic("c13: unknown variant " + op.Variant)
	}
	return c13Encode(a, pad), sender, senderIP
}

func (e *c13Exec) exec(op *c13Op) {
	c13Pause(op.pause)
	switch op.Kind {
	case "set":
		adv := e.adv(op.IP, op.Scope, op.Repr16)
		name := c13SvcName(op.Svc)
		op.Call = e.tick()
		e.v.A.SetBalancer(name, adv)
		op.Ret = e.tick()
	case "del":
		name := c13SvcName(op.Svc)
		op.Call = e.tick()
		e.v.A.DeleteBalancer(name)
		op.Ret = e.tick()
	case "req", "bad":
		if op.Variant == "transient-read-error" {
			// the socket reports ENETDOWN once (interface flap) and works again afterwards: the responder keeps reading
			op.Reason = e.v.ProcessARPReadError(c13IntfName[op.Intf], &net.OpError{Op: "read", Net: "packet", Err: syscall.ENETDOWN},
				func() { op.Call = e.tick() }, func() { op.Ret = e.tick() })
			return
		}
		frame, sender, senderIP := e.requestFrame(op)
		reason, frames := e.v.ProcessARP(c13IntfName[op.Intf], frame,
			func() { op.Call = e.tick() }, func() { op.Ret = e.tick() })
		op.Reason = reason
		mac := e.macs[op.Intf]
		want := c13V4(op.IP)
		for _, f := range frames {
			if len(f.Data) < 6 || !bytes.Equal(f.Data[0:6], sender[:]) {
				continue // not addressed to this requester (gratuitous broadcast of the spammer)
			}
			op.Answered = true
			op.NFrames++
			a, ok := c13Decode(f.Data)
			switch {
			case !ok:
				op.ReplyBad = "not a well-formed ARP frame"
			case a.op != 2:
				op.ReplyBad = fmt.Sprintf("operation %d", a.op)
			case a.spa != want:
				op.ReplyBad = fmt.Sprintf("sender protocol address %v, asked for %v", a.spa, want)
			case a.sha != mac || a.src != mac:
				op.ReplyBad = fmt.Sprintf("hardware address %x/%x, responder has %x", a.sha, a.src, mac)
			case a.tha != sender || a.tpa != senderIP:
				op.ReplyBad = "not addressed to the requester at the ARP layer"
			}
		}
	case "ask":
		ip := e.ip[op.IP]
		intf := c13IntfName[op.Intf]
		op.Call = e.tick()
		reason := e.v.A.shouldAnnounce(ip, intf)
		op.Ret = e.tick()
		op.Reason = int(reason)
		op.Answered = reason == dropReasonNone
	case "grat":
		var adv IPAdvertisement
		if op.advRaw != nil {
			adv = *op.advRaw
		} else {
			adv = e.adv(op.IP, op.Scope, op.Repr16)
		}
		n0 := [2]int{e.conns[0].Len(), e.conns[1].Len()}
		op.Call = e.tick()
		e.v.A.gratuitous(adv)
		op.Ret = e.tick()
		if !c13IsV6(op.IP) {
			want := c13V4(op.IP)
			for i := 0; i < 2; i++ {
				for _, f := range e.conns[i].Frames(n0[i]) {
					a, ok := c13Decode(f.Data)
					if !ok || a.dst != c13Bcast {
						continue // replies to requesters are unicast
					}
					if a.spa != want {
						e.nbad.Add(1)
						continue
					}
					op.Mask |= 1 << i
					op.NFrames++
				}
			}
		} else {
			for i := 0; i < 2; i++ {
				for _, f := range e.conns[i].Frames(n0[i]) {
					if a, ok := c13Decode(f.Data); !ok || a.dst == c13Bcast {
						e.nbad.Add(1) // an ARP broadcast while announcing an IPv6 address
					}
				}
			}
		}
	case "snap":
		op.Call = e.tick()
		st := e.v.A.VerifSnapshot()
		op.Ret = e.tick()
		op.Snap, op.Holders, op.SnapBad = e.canon(st)
		op.Refcnt = st.Refcnt
	default:
		panic("c13: unknown kind " + op.Kind)
	}
}

// canon maps the announcer's bookkeeping onto the model's state space.
func (e *c13Exec) canon(st VerifState) (*c13State, map[string]int, string) {
	var out c13State
	holders := map[string]int{}
	bad := ""
	for svc, advs := range st.IPs {
		si := -1
		for i := 0; i < c13NSvc; i++ {
			if c13SvcName(i) == svc {
				si = i
			}
		}
		if si < 0 {
			bad = "unknown service " + svc
			continue
		}
		seen := map[string]bool{}
		for _, adv := range advs {
			if !seen[adv.IP] {
				seen[adv.IP] = true
				holders[adv.IP]++
			}
			ii := -1
			for i := range e.ip {
				if e.ip[i].Equal(net.ParseIP(adv.IP)) {
					ii = i
				}
			}
			if ii < 0 {
				bad = "unknown address " + adv.IP
				continue
			}
			cell := uint8(c13Held)
			if adv.AllInterfaces {
				cell |= c13All
			}
			for _, name := range adv.Interfaces {
				for i := 0; i < 3; i++ {
					if c13IntfName[i] == name {
						cell |= 1 << i
					}
				}
			}
			if out[si][ii] != 0 && out[si][ii] != cell {
				bad = fmt.Sprintf("service %s lists %s twice with different scopes", svc, adv.IP)
			}
			out[si][ii] = cell
		}
	}
	return &out, holders, bad
}

// run executes one history and returns every operation with its outputs.
func (e *c13Exec) run(p *c13Plan) []c13Op {
	var ops []c13Op
	nextID := 0
	seq := func(op c13Op) *c13Op {
		op.ID = nextID
		nextID++
		op.Client = 6
		e.exec(&op)
		ops = append(ops, op)
		return &ops[len(ops)-1]
	}
	for _, op := range p.prefix {
		seq(op)
	}
	// concurrent phase
	for cl := range p.clients {
		for i := range p.clients[cl] {
			p.clients[cl][i].ID = nextID
			nextID++
		}
	}
	if len(p.delays) > 0 {
		e.slowWrites(p.delays)
	}
	var ready atomic.Int32
	var start atomic.Bool
	var wg sync.WaitGroup
	for cl := range p.clients {
		wg.Add(1)
		go func(cl int) {
			defer wg.Done()
			mine := p.clients[cl]
			latest := map[int]IPAdvertisement{} // what the real spam loop would hold per address
			ready.Add(1)
			for !start.Load() {
				runtime.Gosched()
			}
			for i := range mine {
				op := &mine[i]
				if op.Kind == "grat" {
					for _, adv := range e.v.DrainSpam() {
						if ip, _, ok := e.advScope(adv); ok {
							latest[ip] = adv
						}
					}
					use := false
					if adv, ok := latest[op.IP]; ok && op.Drained {
						if _, sc, ok := e.advScope(adv); ok {
							cp := adv
							op.advRaw, op.Scope, use = &cp, sc, true
						}
					}
					op.Drained = use
				}
				e.exec(op)
			}
		}(cl)
	}
	for int(ready.Load()) < len(p.clients) {
		runtime.Gosched()
	}
	start.Store(true)
	wg.Wait()
	for cl := range p.clients {
		ops = append(ops, p.clients[cl]...)
	}
	for i := 0; i < 2; i++ {
		e.conns[i].SetWriteHook(nil)
	}
	e.v.DrainSpam()

	// quiescent probe: what does the node answer now, what does it hold
	var answered [][2]int
	for _, ip := range []int{c13IPA, c13IPB} {
		for intf := 0; intf < 2; intf++ {
			o := seq(c13Op{Phase: "probe", Kind: "req", IP: ip, Intf: intf, Variant: "broadcast"})
			if o.Answered {
				answered = append(answered, [2]int{ip, intf})
			}
		}
	}
	for intf := 0; intf < 2; intf++ {
		seq(c13Op{Phase: "probe", Kind: "ask", IP: c13IPC, Intf: intf})
	}
	for _, ip := range []int{c13IPA, c13IPB} {
		seq(c13Op{Phase: "probe", Kind: "grat", IP: ip, Scope: c13All})
	}
	seq(c13Op{Phase: "probe", Kind: "snap"})
	// frames that must never be answered, aimed at addresses that are being answered right now
	for i, pr := range answered {
		if i >= 3 {
			break
		}
		seq(c13Op{Phase: "probe", Kind: "bad", IP: pr[0], Intf: pr[1], Variant: []string{"foreign-mac", "near-mac", "multicast-mac"}[(i+nextID)%3]})
		seq(c13Op{Phase: "probe", Kind: "bad", IP: pr[0], Intf: pr[1], Variant: []string{"op-reply", "op-reply-unicast", "op-rarp", "ethertype-ipv4"}[(i+nextID)%4]})
	}
	// withdraw everything
	for s := 0; s < c13NSvc; s++ {
		seq(c13Op{Phase: "teardown", Kind: "del", Svc: s})
	}
	for _, ip := range []int{c13IPA, c13IPB, c13IPC} {
		seq(c13Op{Phase: "final", Kind: "grat", IP: ip, Scope: c13All})
	}
	seq(c13Op{Phase: "final", Kind: "req", IP: c13IPA, Intf: nextID % 2, Variant: "broadcast"})
	seq(c13Op{Phase: "final", Kind: "req", IP: c13IPB, Intf: (nextID / 2) % 2, Variant: "unicast"})
	seq(c13Op{Phase: "final", Kind: "ask", IP: c13IPC, Intf: nextID % 2})
	seq(c13Op{Phase: "final", Kind: "snap"})
	return ops
}

// ---------------------------------------------------------------- sequential model (porcupine)

func c13Model(strict bool) porcupine.Model {
	return porcupine.Model{
		Init: func() interface{} { return c13State{} },
		Step: func(state, input, output interface{}) (bool, interface{}) {
			st := state.(c13State)
			op := input.(*c13Op)
			switch op.Kind {
			case "set":
				st[op.Svc][op.IP] = c13Held | op.Scope
				return true, st
			case "del":
				st[op.Svc] = [c13NIP]uint8{}
				return true, st
			case "req", "ask":
				want := false
				for s := 0; s < c13NSvc; s++ {
					if c13Covers(st[s][op.IP], 1<<op.Intf) {
						want = true
					}
				}
				return want == op.Answered, st
			case "grat":
				held := false
				for s := 0; s < c13NSvc; s++ {
					if st[s][op.IP]&c13Held != 0 {
						held = true
					}
				}
				if !held {
					return op.Mask == 0, st
				}
				if !strict {
					return true, st
				}
				return op.Mask == c13RespMask(op.IP, op.Scope), st
			case "snap":
				if op.Snap == nil {
					return false, st
				}
				for s := 0; s < c13NSvc; s++ {
					for ip := 0; ip < c13NIP; ip++ {
						if op.ipMask&(1<<ip) != 0 && st[s][ip] != op.Snap[s][ip] {
							return false, st
						}
					}
				}
				return true, st
			}
			return false, st
		},
		Equal:             func(a, b interface{}) bool { return a.(c13State) == b.(c13State) },
		DescribeOperation: func(input, output interface{}) string { return input.(*c13Op).String() },
		DescribeState:     func(state interface{}) string { s := state.(c13State); return c13StateString(&s) },
	}
}

// c13Partitions splits the history per group of addresses that never meet in one service: every
// operation then touches exactly one group (DeleteBalancer touches all addresses of its service,
// which lie in one group by construction), so the history is linearizable iff every group is.
// Snapshots are taken at quiescence and are compared per group on the group's addresses.
func c13Partitions(ops []c13Op) (groups [][]*c13Op, masks []uint8) {
	parent := [c13NIP]int{0, 1, 2, 3}
	var find func(int) int
	find = func(x int) int {
		if parent[x] != x {
			parent[x] = find(parent[x])
		}
		return parent[x]
	}
	first := [c13NSvc]int{-1, -1, -1, -1}
	for i := range ops {
		if ops[i].Kind == "set" {
			s := ops[i].Svc
			if first[s] < 0 {
				first[s] = ops[i].IP
			} else {
				parent[find(ops[i].IP)] = find(first[s])
			}
		}
	}
	idx := map[int]int{}
	for ip := 0; ip < c13NIP; ip++ {
		root := find(ip)
		if _, ok := idx[root]; !ok {
			idx[root] = len(groups)
			groups = append(groups, nil)
			masks = append(masks, 0)
		}
		masks[idx[root]] |= 1 << ip
	}
	for i := range ops {
		op := &ops[i]
		switch op.Kind {
		case "set", "req", "ask", "grat":
			g := idx[find(op.IP)]
			groups[g] = append(groups[g], op)
		case "del":
			if first[op.Svc] >= 0 {
				g := idx[find(first[op.Svc])]
				groups[g] = append(groups[g], op)
			}
		case "snap":
			for g := range groups {
				cp := *op
				cp.ipMask = masks[g]
				groups[g] = append(groups[g], &cp)
			}
		}
	}
	return groups, masks
}

func c13Check(model porcupine.Model, ops []*c13Op, skip func(*c13Op) bool) porcupine.CheckResult {
	var h []porcupine.Operation
	for _, op := range ops {
		if skip != nil && skip(op) {
			continue
		}
		h = append(h, porcupine.Operation{ClientId: op.Client, Input: op, Output: op, Call: op.Call, Return: op.Ret})
	}
	return porcupine.CheckOperationsTimeout(model, h, 20*time.Second)
}

var c13ReadClasses = []struct {
	name string
	is   func(*c13Op) bool
}{
	{"request-answered-without-covering-holder", func(o *c13Op) bool { return (o.Kind == "req" || o.Kind == "ask") && o.Answered }},
	{"request-unanswered-despite-covering-holder", func(o *c13Op) bool { return (o.Kind == "req" || o.Kind == "ask") && !o.Answered }},
	{"gratuitous-frames-without-holder", func(o *c13Op) bool { return o.Kind == "grat" && o.Mask != 0 }},
	{"bookkeeping-snapshot-differs", func(o *c13Op) bool { return o.Kind == "snap" }},
}

// ---------------------------------------------------------------- judge (pure function of the recorded history)

func c13Detail(ops []c13Op, extra map[string]any) map[string]any {
	d := map[string]any{
		"history":    ops,
		"addresses":  c13IPStr,
		"interfaces": []string{"eth0", "eth1"},
		"format":     "scope bits: 1 eth0, 2 eth1, 4 eth2 (no responder), 64 all interfaces, 128 held; clients 0-2 mutators, 3-4 requesters, 5 spammer, 6 sequential phases; call/ret from one atomic counter",
	}
	for k, v := range extra {
		d[k] = v
	}
	return d
}

func c13Overlap(a, b *c13Op) bool { return a.Call < b.Ret && b.Call < a.Ret }

func c13Judge(c *vfCase, ops []c13Op) (clean bool) {
	nviol := 0
	violation := func(sig, summary string, detail any) {
		nviol++
		c.Violation(sig, summary, detail)
	}
	defer func() { clean = nviol == 0 }()
	if len(ops) > c13MaxOps+8 {
		c.Inconclusive(fmt.Sprintf("history has %d operations", len(ops)))
	}
	for i := range ops {
		c.Logf("%s", ops[i].String())
	}
	// (ii) frames that are not ARP requests to the node or to broadcast
	for i := range ops {
		op := &ops[i]
		if op.Kind != "bad" {
			continue
		}
		c.Eval()
		c.Count("never-answer-frames")
		if op.Phase == "probe" {
			c.Count("never-answer-frames-for-an-address-answered-at-that-moment")
		}
		if op.Answered {
			violation("answered:"+c13BadClass(op.Variant),
				fmt.Sprintf("frame variant %q for %s on %s was answered (drop reason %d)", op.Variant, c13IPStr[op.IP], c13IntfName[op.Intf], op.Reason),
				c13Detail(ops, map[string]any{"op": op.ID}))
		}
	}
	// answers must be answers for the address that was asked
	for i := range ops {
		op := &ops[i]
		if op.Kind == "req" || op.Kind == "bad" {
			if op.Answered != (op.Reason == int(dropReasonNone)) {
				c.Count("drop-reason-disagrees-with-frame")
			}
			c.Eval()
			if op.Reason == int(dropReasonClosed) {
				// the responder's loop ends on this verdict; the socket is open and services are announced
				violation("responder-gives-up-on-an-open-socket:"+op.Variant,
					fmt.Sprintf("frame variant %q on %s made the responder report its socket as closed: its loop ends and the node stops answering on %s", op.Variant, c13IntfName[op.Intf], c13IntfName[op.Intf]),
					c13Detail(ops, map[string]any{"op": op.ID}))
			}
			if op.Kind == "req" && op.Answered {
				c.Eval()
				c.Count("reply-frames-decoded")
				if op.ReplyBad != "" || op.NFrames != 1 {
					violation("reply:not-an-answer-for-the-requested-address",
						fmt.Sprintf("request for %s on %s: %d reply frame(s), %s", c13IPStr[op.IP], c13IntfName[op.Intf], op.NFrames, op.ReplyBad),
						c13Detail(ops, map[string]any{"op": op.ID}))
				}
			}
		}
	}
	// (iii) after the last withdraw: silence
	for i := range ops {
		op := &ops[i]
		if op.Phase != "final" {
			continue
		}
		switch op.Kind {
		case "grat":
			c.Eval()
			c.Count("gratuitous-after-last-withdraw")
			if op.Mask != 0 {
				violation("grat:frames-after-last-withdraw",
					fmt.Sprintf("all services deleted, gratuitous(%s, all interfaces) still emitted %d frame(s) on %s", c13IPStr[op.IP], op.NFrames, c13ScopeString(op.Mask)),
					c13Detail(ops, map[string]any{"op": op.ID}))
			}
		case "req", "ask":
			c.Eval()
			if op.Answered {
				violation("answered:after-last-withdraw",
					fmt.Sprintf("all services deleted, request for %s on %s still answered", c13IPStr[op.IP], c13IntfName[op.Intf]),
					c13Detail(ops, map[string]any{"op": op.ID}))
			}
		}
	}
	// (iv) reference counts at quiescent points
	for i := range ops {
		op := &ops[i]
		if op.Kind != "snap" {
			continue
		}
		c.Eval()
		c.Count("quiescent-refcount-checks")
		if op.SnapBad != "" {
			violation("state:unexpected-entry", op.SnapBad, c13Detail(ops, map[string]any{"op": op.ID}))
		}
		keys := map[string]bool{}
		for k := range op.Refcnt {
			keys[k] = true
		}
		for k := range op.Holders {
			keys[k] = true
		}
		shared := false
		for _, k := range vfSortedKeys(keys) {
			rc, h := op.Refcnt[k], op.Holders[k]
			if h >= 2 {
				shared = true
			}
			if rc < h {
				violation("refcnt:below-holders", fmt.Sprintf("%s phase: ipRefcnt[%s]=%d but %d service(s) hold it (%s)", op.Phase, k, rc, h, c13StateString(op.Snap)),
					c13Detail(ops, map[string]any{"op": op.ID}))
			} else if rc > h {
				violation("refcnt:above-holders", fmt.Sprintf("%s phase: ipRefcnt[%s]=%d but %d service(s) hold it (%s)", op.Phase, k, rc, h, c13StateString(op.Snap)),
					c13Detail(ops, map[string]any{"op": op.ID}))
			}
		}
		if shared {
			c.Count("quiescent-points-with-shared-address")
		}
		if op.Phase == "final" && op.Snap != nil && *op.Snap != (c13State{}) {
			violation("state:service-left-after-delete", "all services deleted but ips still holds "+c13StateString(op.Snap), c13Detail(ops, map[string]any{"op": op.ID}))
		}
	}

	// observation counters: contention
	touches := func(m *c13Op, ip int) bool { // m is a mutation of address ip
		if m.Kind == "set" {
			return m.IP == ip
		}
		if m.Kind == "del" {
			for j := range ops {
				if ops[j].Kind == "set" && ops[j].Svc == m.Svc && ops[j].IP == ip && ops[j].Call < m.Ret {
					return true
				}
			}
		}
		return false
	}
	contendedReq := 0
	for i := range ops {
		x := &ops[i]
		if x.Phase != "concurrent" {
			continue
		}
		var ips []int
		switch x.Kind {
		case "set", "req", "ask", "grat":
			ips = []int{x.IP}
		case "del":
			for ip := 0; ip < c13NIP; ip++ {
				if touches(x, ip) {
					ips = append(ips, ip)
				}
			}
		default:
			continue
		}
		cont := false
		for j := range ops {
			y := &ops[j]
			if i == j || (y.Kind != "set" && y.Kind != "del") || !c13Overlap(x, y) {
				continue
			}
			for _, ip := range ips {
				if touches(y, ip) {
					cont = true
				}
			}
		}
		if cont {
			c.Count("contended-operations")
			switch x.Kind {
			case "req", "ask":
				contendedReq++
				c.Count("contended-requests")
			case "grat":
				c.Count("contended-gratuitous")
			}
		}
	}
	if contendedReq > 0 {
		c.Count("histories-with-contended-request")
	}
	frames := 0
	for i := range ops {
		frames += ops[i].NFrames
		switch ops[i].Kind {
		case "req":
			if ops[i].Answered {
				c.Count("requests-answered")
			} else if ops[i].Reason == int(dropReasonNotMatchInterface) {
				c.Count("requests-refused-held-on-other-interface")
			} else {
				c.Count("requests-refused-not-held")
			}
		case "ask":
			if ops[i].Answered {
				c.Count("ndp-asks-answered")
			} else {
				c.Count("ndp-asks-refused")
			}
		case "grat":
			if ops[i].Mask != 0 {
				c.Count("gratuitous-calls-with-frames")
			} else {
				c.Count("gratuitous-calls-silent")
			}
			if ops[i].Drained {
				c.Count("gratuitous-calls-with-queued-advertisement")
			}
		}
	}
	for i := range ops {
		if ops[i].Phase == "concurrent" && ops[i].Ret-ops[i].Call > 1 {
			c.Count("operations-with-an-event-of-another-client-inside")
		}
	}
	c.CountN("frames-captured", frames)
	c.CountN("operations", len(ops))
	c.Count("histories")

	// (i) linearizability per address group
	groups, masks := c13Partitions(ops)
	c.CountN("partitions", len(groups))
	for g, part := range groups {
		if len(part) == 0 {
			continue
		}
		c.Eval()
		var names []string
		for ip := 0; ip < c13NIP; ip++ {
			if masks[g]&(1<<ip) != 0 {
				names = append(names, c13IPStr[ip])
			}
		}
		res := c13Check(c13Model(true), part, nil)
		if res == porcupine.Ok {
			continue
		}
		if res == porcupine.Unknown {
			c.Inconclusive("linearizability checker timed out")
			continue
		}
		var lines []string
		for _, op := range part {
			lines = append(lines, op.String())
		}
		extra := map[string]any{"partition_addresses": names, "partition_ops": lines}
		// what the statement itself demands: silence when not held, nothing about the frames when held
		lenient := c13Check(c13Model(false), part, nil)
		if lenient == porcupine.Unknown {
			c.Inconclusive("linearizability checker timed out")
			continue
		}
		if lenient == porcupine.Ok {
			violation("grat:frames-differ-from-advertised-scope",
				fmt.Sprintf("addresses %v: no linearization in which every gratuitous call for a held address emitted frames on exactly the responder interfaces its advertisement covers (history is linearizable once that clause is dropped)", names),
				c13Detail(ops, extra))
			continue
		}
		sig := "multiple-read-kinds"
		for _, cl := range c13ReadClasses {
			r := c13Check(c13Model(false), part, cl.is)
			if r == porcupine.Ok {
				sig = cl.name
				break
			}
		}
		why := fmt.Sprintf("removing the reads of class %q makes it linearizable", sig)
		if sig == "multiple-read-kinds" {
			why = "no single class of reads explains it"
		}
		violation("nonlinearizable:"+sig,
			fmt.Sprintf("addresses %v: the recorded history (%d operations) has no linearization against the sequential model svc -> {ip -> scope}; %s", names, len(part), why),
			c13Detail(ops, extra))
	}
	return
}

// ---------------------------------------------------------------- entry point

func TestVerif_C13(t *testing.T) {
	rule := "histories of <= 60 operations: 3 mutators (SetBalancer with changing interface scopes / DeleteBalancer over <= 4 services, 3 addresses, one shared) x 2 requesters " +
		"(ARP frames through arpResponder.processRequest, shouldAnnounce asks for the IPv6 address, frames that must never be answered) x 1 spammer (gratuitous), then quiescent probes, " +
		"withdraw of everything and probes again; non-trivial = history with >= 1 request overlapping a mutation of the address it asks for, distinct by the recorded order of calls and returns with outputs"
	vfMain(t, "C13", vfSizes{Quick: 2000, Thorough: 10000}, rule, func(c *vfCase) {
		if c.Replaying {
			if ops, ok := c13LoadReplay(); ok {
				c.Count("replayed-histories")
				c13Judge(c, ops)
				return
			}
		}
		plan := c13Generate(c.R)
		e, err := c13NewExec()
		if err != nil {
			c.Inconclusive("cannot build the announcer: " + err.Error())
			return
		}
		ops := e.run(plan)
		if n := e.nbad.Load(); n != 0 {
			c.Violation("grat:frame-for-another-address", fmt.Sprintf("%d broadcast frame(s) written during a gratuitous call name another address", n), c13Detail(ops, nil))
		}
		clean := c13Judge(c, ops)
		if c.Idx%4 == 0 {
			c13InflightGratuitous(c)
		}
		if c.Idx%50 == 7 {
			c13NDPProbe(c)
		}

		// evidence
		var key strings.Builder
		contended := false
		type ev struct {
			t    int64
			text string
		}
		var evs []ev
		for i := range ops {
			o := &ops[i]
			evs = append(evs, ev{o.Call, fmt.Sprintf("c%d:%s:%d:%d:%d:%d", o.Client, o.Kind, o.Svc, o.IP, o.Scope, o.Intf)})
			evs = append(evs, ev{o.Ret, fmt.Sprintf("r%d:%v:%d", o.Client, o.Answered, o.Mask)})
		}
		sort.Slice(evs, func(i, j int) bool { return evs[i].t < evs[j].t })
		for _, x := range evs {
			key.WriteString(x.text)
			key.WriteByte('|')
		}
		for i := range ops {
			x := &ops[i]
			if x.Phase != "concurrent" || (x.Kind != "req" && x.Kind != "ask") {
				continue
			}
			for j := range ops {
				y := &ops[j]
				if (y.Kind == "set" && y.IP == x.IP || y.Kind == "del") && c13Overlap(x, y) {
					contended = true
				}
			}
		}
		c.Distinct("interleavings", key.String())
		if contended {
			c.Nontrivial(key.String())
		}
		if c.WantSample() && contended && clean {
			var lines []string
			for i := range ops {
				if ops[i].Phase == "concurrent" || ops[i].Phase == "prefix" {
					lines = append(lines, ops[i].String())
				}
			}
			c.Sample(map[string]any{"case": c.Idx, "operations": len(ops), "prefix_and_concurrent_phase": lines, "verdict": "linearizable, quiescent checks passed"})
		}
	})
}

func c13LoadReplay() ([]c13Op, bool) {
	path := os.Getenv("VERIF_REPLAY_FILE")
	if path == "" {
		return nil, false
	}
	b, err := os.ReadFile(path)
	if err != nil {
		return nil, false
	}
	var f struct {
		Detail struct {
			History []c13Op `json:"history"`
		} `json:"detail"`
	}
	if err := json.Unmarshal(b, &f); err != nil || len(f.Detail.History) == 0 {
		return nil, false
	}
	return f.Detail.History, true
}

// c13InflightGratuitous is a directed interleaving: a gratuitous round is stopped inside its first frame
// write (it has passed the "do we still hold the address" check), then the last holder is withdrawn.
// "After the last such Service is withdrawn it ... stops sending unsolicited announcements": no frame
// write may start after DeleteBalancer returned. (On the unchanged tree DeleteBalancer cannot return
// before the round is over, because the round holds the announcer's read lock.)
func c13InflightGratuitous(c *vfCase) {
	e, err := c13NewExec()
	if err != nil {
		return
	}
	ip := c13IPA
	if c.Idx%8 == 0 {
		ip = c13IPB
	}
	adv := e.adv(ip, c13All, false)
	e.v.A.SetBalancer("default/inflight", adv)
	e.v.DrainSpam()
	var writes, late atomic.Int64
	var delReturned atomic.Bool
	gate := make(chan struct{})
	entered := make(chan struct{}, 16)
	hook := func() {
		if delReturned.Load() {
			late.Add(1)
		}
		if writes.Add(1) == 1 {
			entered <- struct{}{}
			<-gate
		}
	}
	for i := 0; i < 2; i++ {
		e.conns[i].SetWriteHook(hook)
	}
	gratDone, delDone := make(chan struct{}), make(chan struct{})
	go func() { defer close(gratDone); e.v.Gratuitous(adv) }()
	select {
	case <-entered:
	case <-gratDone:
		close(gate)
		c.Count("inflight-gratuitous-probes-without-frame")
		return
	}
	go func() {
		defer close(delDone)
		e.v.A.DeleteBalancer("default/inflight")
		delReturned.Store(true)
	}()
	for y := 0; y < 3000 && !delReturned.Load(); y++ {
		runtime.Gosched()
	}
	returnedEarly := delReturned.Load()
	close(gate)
	<-gratDone
	<-delDone
	for i := 0; i < 2; i++ {
		e.conns[i].SetWriteHook(nil)
	}
	c.Eval()
	c.Count("inflight-gratuitous-probes")
	if n := late.Load(); n > 0 {
		c.Violation("grat:frame-written-after-withdraw-returned", fmt.Sprintf("%d of %d gratuitous frame write(s) for %s started after DeleteBalancer of the last holder had returned (DeleteBalancer returned while the round was in flight: %v)",
			n, writes.Load(), c13IPStr[ip], returnedEarly), nil)
	}
}
