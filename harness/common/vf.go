//go:build verif

// Shared harness runtime, overlaid into every harnessed package by /verif/vcheck (the package
// clause is rewritten). All identifiers carry the vf prefix so they cannot clash with MetalLB's.
package vfcommon

import (
	"encoding/json"
	"fmt"
	"hash/fnv"
	"os"
	"runtime/debug"
	"sort"
	"strconv"
	"strings"
	"sync"
	"sync/atomic"
	"testing"
	"time"
)

// ---------------------------------------------------------------- PRNG (splitmix64)

type vfRand struct{ s uint64 }

func vfNewRand(seed uint64) *vfRand { return &vfRand{s: seed} }

func (r *vfRand) U64() uint64 {
	r.s += 0x9e3779b97f4a7c15
	z := r.s
	z = (z ^ (z >> 30)) * 0xbf58476d1ce4e5b9
	z = (z ^ (z >> 27)) * 0x94d049bb133111eb
	return z ^ (z >> 31)
}

func (r *vfRand) Intn(n int) int {
	if n <= 0 {
		return 0
	}
	return int(r.U64() % uint64(n))
}

// Range returns a value in [lo, hi].
func (r *vfRand) Range(lo, hi int) int { return lo + r.Intn(hi-lo+1) }
func (r *vfRand) Bool() bool           { return r.U64()&1 == 1 }

// Chance is true with probability num/den.
func (r *vfRand) Chance(num, den int) bool { return r.Intn(den) < num }

func (r *vfRand) Fork() *vfRand { return vfNewRand(r.U64()) }

func vfPick[T any](r *vfRand, xs []T) T { return xs[r.Intn(len(xs))] }

func vfShuffle[T any](r *vfRand, xs []T) {
	for i := len(xs) - 1; i > 0; i-- {
		j := r.Intn(i + 1)
		xs[i], xs[j] = xs[j], xs[i]
	}
}

func vfShuffled[T any](r *vfRand, xs []T) []T {
	out := append([]T(nil), xs...)
	vfShuffle(r, out)
	return out
}

// vfSubset returns each element with probability num/den.
func vfSubset[T any](r *vfRand, xs []T, num, den int) []T {
	var out []T
	for _, x := range xs {
		if r.Chance(num, den) {
			out = append(out, x)
		}
	}
	return out
}

func vfMix(a, b uint64) uint64 {
	x := vfNewRand(a ^ (b * 0xd6e8feb86659fd93))
	x.U64()
	return x.U64()
}

func vfHash(s string) uint64 {
	h := fnv.New64a()
	h.Write([]byte(s))
	return h.Sum64()
}

// ---------------------------------------------------------------- run state

type vfViolation struct {
	Signature string `json:"signature"`
	Summary   string `json:"summary"`
	Case      int    `json:"case"`
	Shard     int    `json:"shard"`
	Seed      uint64 `json:"seed"`
	Tier      string `json:"tier"`
	Detail    any    `json:"detail,omitempty"`
	Trace     []string `json:"trace,omitempty"`
}

type vfResult struct {
	Property     string            `json:"property"`
	Tier         string            `json:"tier"`
	Seed         uint64            `json:"seed"`
	Shard        int               `json:"shard"`
	NShards      int               `json:"nshards"`
	Evaluations  int64             `json:"evaluations"`
	Cases        int               `json:"cases"`
	Counters     map[string]int64  `json:"counters"`
	Distinct     map[string]int    `json:"distinct"`
	Nontrivial   []string          `json:"nontrivial_hashes"`
	NontrivialN  int               `json:"nontrivial_n"`
	Rule         string            `json:"rule"`
	Samples      []any             `json:"samples"`
	Violations   []vfViolation     `json:"violations"`
	ViolationsN  int               `json:"violations_n"`
	Inconclusive []string          `json:"inconclusive"`
	Exhaustive   bool              `json:"exhaustive"`
	Extra        map[string]any    `json:"extra,omitempty"`
	Completed    bool              `json:"completed"`
	WallS        float64           `json:"wall_s"`
}

type vfRun struct {
	mu        sync.Mutex
	res       vfResult
	distinct  map[string]map[uint64]struct{}
	nontriv   map[uint64]struct{}
	sigSeen   map[string]int
	maxSample int
	replay    bool
	replayCase int
	start     time.Time
	aborted   atomic.Bool
}

const vfMaxViolationsPerSig = 3
const vfMaxNontrivHashes = 200000

type vfCase struct {
	R     *vfRand
	Idx   int
	run   *vfRun
	tmu   sync.Mutex
	trace []string
	Replaying bool
	OnlyPrefix string // when set, only violations whose signature starts with it are recorded
}

func vfEnvInt(name string, def int) int {
	if v := os.Getenv(name); v != "" {
		if n, err := strconv.Atoi(v); err == nil {
			return n
		}
	}
	return def
}

func vfEnvU64(name string, def uint64) uint64 {
	if v := os.Getenv(name); v != "" {
		if n, err := strconv.ParseUint(v, 10, 64); err == nil {
			return n
		}
		if n, err := strconv.ParseInt(v, 10, 64); err == nil {
			return uint64(n)
		}
	}
	return def
}

func vfTier() string {
	t := os.Getenv("VERIF_TIER")
	if t != "thorough" {
		return "quick"
	}
	return t
}

// vfSizes gives the number of cases per shard for the two tiers.
type vfSizes struct{ Quick, Thorough int }

// vfMain drives one property harness: it derives an independent PRNG per case from
// (seed, shard, case index), runs fn for every case of this shard, recovers panics into
// violations and writes the result file named by VERIF_OUT.
func vfMain(t *testing.T, prop string, sizes vfSizes, rule string, fn func(c *vfCase)) {
	run := vfStart(prop, rule)
	defer run.finish(t)
	n := sizes.Quick
	if run.res.Tier == "thorough" {
		n = sizes.Thorough
	}
	if v := vfEnvInt("VERIF_CASES", 0); v > 0 {
		n = v
	}
	lo, hi := 0, n
	if run.replay {
		lo, hi = run.replayCase, run.replayCase+1
	}
	done := 0
	for i := lo; i < hi; i++ {
		run.runCase(i, fn)
		done++
		if run.aborted.Load() {
			break
		}
	}
	run.res.Cases = done
	run.res.Completed = true
}

func vfStart(prop, rule string) *vfRun {
	run := &vfRun{
		distinct: map[string]map[uint64]struct{}{},
		nontriv:  map[uint64]struct{}{},
		sigSeen:  map[string]int{},
		maxSample: 4,
		start:    time.Now(),
	}
	run.res = vfResult{
		Property: prop,
		Tier:     vfTier(),
		Seed:     vfEnvU64("VERIF_SEED", 1),
		Shard:    vfEnvInt("VERIF_SHARD", 0),
		NShards:  vfEnvInt("VERIF_NSHARDS", 1),
		Counters: map[string]int64{},
		Distinct: map[string]int{},
		Rule:     rule,
		Extra:    map[string]any{},
	}
	if rc := os.Getenv("VERIF_REPLAY_CASE"); rc != "" {
		run.replay = true
		run.replayCase, _ = strconv.Atoi(rc)
	}
	return run
}

func (run *vfRun) caseSeed(i int) uint64 {
	return vfMix(vfMix(run.res.Seed, uint64(run.res.Shard)+0x1000), uint64(i)+0x77)
}

func (run *vfRun) runCase(i int, fn func(c *vfCase)) {
	c := &vfCase{R: vfNewRand(run.caseSeed(i)), Idx: i, run: run, Replaying: run.replay}
	defer func() {
		if p := recover(); p != nil {
			st := string(debug.Stack())
			c.Violation("panic:"+vfPanicSite(st), fmt.Sprintf("panic: %v", p), map[string]any{"stack": vfTrimStack(st)})
		}
	}()
	fn(c)
}

// vfPanicSite names the innermost frame that belongs to MetalLB (not to the harness).
func vfPanicSite(stack string) string {
	lines := strings.Split(stack, "\n")
	afterPanic := false
	for i := 0; i+1 < len(lines); i++ {
		l := lines[i]
		if strings.HasPrefix(l, "panic(") {
			afterPanic = true
			continue
		}
		if !afterPanic {
			continue
		}
		if strings.HasPrefix(l, "go.universe.tf/metallb") && !strings.Contains(l, ".vf") && !strings.Contains(l, "TestVerif") {
			fnName := l
			if k := strings.Index(fnName, "("); k > 0 {
				fnName = fnName[:k]
			}
			return strings.TrimPrefix(fnName, "go.universe.tf/metallb/")
		}
	}
	return "unknown"
}

func vfTrimStack(st string) string {
	if len(st) > 6000 {
		return st[:6000]
	}
	return st
}

func (c *vfCase) Count(name string) { c.CountN(name, 1) }

func (c *vfCase) CountN(name string, n int) {
	c.run.mu.Lock()
	c.run.res.Counters[name] += int64(n)
	c.run.mu.Unlock()
}

// Eval counts one evaluation of the deciding oracle.
func (c *vfCase) Eval() { c.EvalN(1) }
func (c *vfCase) EvalN(n int) {
	c.run.mu.Lock()
	c.run.res.Evaluations += int64(n)
	c.run.mu.Unlock()
}

// Distinct records key in the distinct-set named class (reported as a count).
func (c *vfCase) Distinct(class, key string) {
	h := vfHash(key)
	c.run.mu.Lock()
	m := c.run.distinct[class]
	if m == nil {
		m = map[uint64]struct{}{}
		c.run.distinct[class] = m
	}
	m[h] = struct{}{}
	c.run.mu.Unlock()
}

// Nontrivial records a distinct non-trivial case (by the rule stated for the property).
func (c *vfCase) Nontrivial(key string) {
	h := vfHash(key)
	c.run.mu.Lock()
	if len(c.run.nontriv) < vfMaxNontrivHashes {
		c.run.nontriv[h] = struct{}{}
	}
	c.run.mu.Unlock()
}

func (c *vfCase) Sample(v any) {
	c.run.mu.Lock()
	if len(c.run.res.Samples) < c.run.maxSample {
		c.run.res.Samples = append(c.run.res.Samples, v)
	}
	c.run.mu.Unlock()
}

// WantSample tells whether another sample would be kept (avoid building costly dumps).
func (c *vfCase) WantSample() bool {
	c.run.mu.Lock()
	defer c.run.mu.Unlock()
	return len(c.run.res.Samples) < c.run.maxSample
}

func (c *vfCase) Logf(format string, args ...any) {
	c.tmu.Lock()
	if len(c.trace) < 12000 {
		c.trace = append(c.trace, fmt.Sprintf(format, args...))
	}
	c.tmu.Unlock()
}

// ResetTrace drops the trace collected so far (a case made of several independent runs keeps only the
// trace of the run in progress).
func (c *vfCase) ResetTrace() {
	c.tmu.Lock()
	c.trace = nil
	c.tmu.Unlock()
}

// SetExhaustive marks the run as having enumerated its finite space completely.
func (c *vfCase) SetExhaustive(v bool) {
	c.run.mu.Lock()
	c.run.res.Exhaustive = v
	c.run.mu.Unlock()
}

// SetExtra adds a key to the coverage section of the evidence.
func (c *vfCase) SetExtra(k string, v any) {
	c.run.mu.Lock()
	c.run.res.Extra[k] = v
	c.run.mu.Unlock()
}

func (c *vfCase) Trace() []string {
	c.tmu.Lock()
	defer c.tmu.Unlock()
	return append([]string(nil), c.trace...)
}

// Abort ends the shard after the current case: a round that left goroutines parked inside MetalLB
// would only make every later round of this process wait for its watchdog too.
func (c *vfCase) Abort() { c.run.aborted.Store(true) }

func (c *vfCase) Inconclusive(reason string) {
	c.run.mu.Lock()
	if len(c.run.res.Inconclusive) < 50 {
		c.run.res.Inconclusive = append(c.run.res.Inconclusive, fmt.Sprintf("case %d: %s", c.Idx, reason))
	}
	c.run.mu.Unlock()
}

// Violation records a violation. The signature names the cause, it is what
// /verif/known_findings.json is matched against.
func (c *vfCase) Violation(sig, summary string, detail any) {
	if c.OnlyPrefix != "" && !strings.HasPrefix(sig, c.OnlyPrefix) {
		// a harness borrowed from another property's check: its own verdicts are not this property's
		c.Logf("(not judged here) %s: %s", sig, summary)
		c.Count("borrowed-harness-verdicts-not-judged")
		return
	}
	tr := c.Trace()
	c.run.mu.Lock()
	defer c.run.mu.Unlock()
	c.run.res.ViolationsN++
	c.run.sigSeen[sig]++
	c.run.res.Counters["violation:"+sig]++
	if c.run.sigSeen[sig] > vfMaxViolationsPerSig {
		return
	}
	c.run.res.Violations = append(c.run.res.Violations, vfViolation{
		Signature: sig, Summary: summary, Case: c.Idx, Shard: c.run.res.Shard,
		Seed: c.run.res.Seed, Tier: c.run.res.Tier, Detail: detail, Trace: tr,
	})
}

func (run *vfRun) finish(t *testing.T) {
	run.mu.Lock()
	defer run.mu.Unlock()
	for k, m := range run.distinct {
		run.res.Distinct[k] = len(m)
	}
	hs := make([]string, 0, len(run.nontriv))
	for h := range run.nontriv {
		hs = append(hs, strconv.FormatUint(h, 36))
	}
	sort.Strings(hs)
	run.res.Nontrivial = hs
	run.res.NontrivialN = len(hs)
	run.res.WallS = time.Since(run.start).Seconds()
	if run.res.Samples == nil {
		run.res.Samples = []any{}
	}
	out := os.Getenv("VERIF_OUT")
	b, err := json.Marshal(run.res)
	if err != nil {
		// a sample or detail was not marshalable: drop them rather than lose the verdict
		run.res.Samples = []any{fmt.Sprintf("unmarshalable: %v", err)}
		for i := range run.res.Violations {
			run.res.Violations[i].Detail = fmt.Sprintf("%+v", run.res.Violations[i].Detail)
		}
		b, _ = json.Marshal(run.res)
	}
	if out != "" {
		if err := os.WriteFile(out+".tmp", b, 0o644); err == nil {
			os.Rename(out+".tmp", out)
		}
	}
	if t != nil {
		t.Logf("verif %s: cases=%d evaluations=%d nontrivial=%d violations=%d inconclusive=%d",
			run.res.Property, run.res.Cases, run.res.Evaluations, run.res.NontrivialN, run.res.ViolationsN, len(run.res.Inconclusive))
	}
}

// ---------------------------------------------------------------- starvation canary

// vfCanary measures scheduling gaps; timing-sensitive harnesses consult MaxGap before turning a
// missed deadline into a verdict.
type vfCanary struct {
	mu     sync.Mutex
	maxGap time.Duration
	stop   chan struct{}
	done   chan struct{}
}

func vfStartCanary() *vfCanary {
	c := &vfCanary{stop: make(chan struct{}), done: make(chan struct{})}
	go func() {
		defer close(c.done)
		last := time.Now()
		tk := time.NewTicker(5 * time.Millisecond)
		defer tk.Stop()
		for {
			select {
			case <-c.stop:
				return
			case now := <-tk.C:
				gap := now.Sub(last)
				last = now
				c.mu.Lock()
				if gap > c.maxGap {
					c.maxGap = gap
				}
				c.mu.Unlock()
			}
		}
	}()
	return c
}

func (c *vfCanary) MaxGap() time.Duration {
	c.mu.Lock()
	defer c.mu.Unlock()
	return c.maxGap
}

func (c *vfCanary) Reset() {
	c.mu.Lock()
	c.maxGap = 0
	c.mu.Unlock()
}

func (c *vfCanary) Stop() { close(c.stop); <-c.done }

func vfJSON(v any) string {
	b, err := json.Marshal(v)
	if err != nil {
		return fmt.Sprintf("%+v", v)
	}
	return string(b)
}

func vfSortedKeys[V any](m map[string]V) []string {
	ks := make([]string, 0, len(m))
	for k := range m {
		ks = append(ks, k)
	}
	sort.Strings(ks)
	return ks
}
