//go:build verif

package frr

import (
	"encoding/json"
	"fmt"
	"net"
	"net/netip"
	"reflect"
	"sort"
	"strings"
	"testing"
	"time"

	"github.com/go-kit/log"
	frrv1beta1 "github.com/metallb/frr-k8s/api/v1beta1"
	"go.universe.tf/metallb/internal/bgp"
	"go.universe.tf/metallb/internal/bgp/community"
	frrmode "go.universe.tf/metallb/internal/bgp/frr"
	metallbconfig "go.universe.tf/metallb/internal/config"
	"go.universe.tf/metallb/internal/logging"
	corev1 "k8s.io/api/core/v1"
)

// C15 — FRR-K8s mode: the FRRConfiguration handed to the config-changed callback lists for each
// neighbor exactly what was requested, and denotes the same per-neighbor routes as the FRR-mode
// text rendered from the same sessions (interpreted by harness/lib/frrinterp.go).

const c15Rule = "a generated session set in which some router has >= 2 neighbors whose requested prefix sets differ " +
	"(per-neighbor allowed / community / local-pref lists have to tell them apart); keyed by the canonical session set"

const (
	c15Node      = "verifnode"
	c15Namespace = "verif-ns"
)

func c15Params(s *vfFRRSessSpec) bgp.SessionParameters {
	p := bgp.SessionParameters{
		PeerAddress:     s.Addr,
		PeerInterface:   s.Iface,
		PeerPort:        s.Port,
		MyASN:           s.MyASN,
		PeerASN:         s.PeerASN,
		DynamicASN:      s.DynamicASN,
		Password:        s.Password,
		CurrentNode:     c15Node,
		BFDProfile:      s.BFDProfile,
		GracefulRestart: s.GR,
		EBGPMultiHop:    s.Multihop,
		VRFName:         s.VRF,
		DisableMP:       s.DisableMP,
		SessionName:     "peer-" + s.PeerKey(),
	}
	if s.SecretName != "" || s.SecretNS != "" {
		p.PasswordRef = corev1.SecretReference{Name: s.SecretName, Namespace: s.SecretNS}
	}
	if s.Src != "" {
		p.SourceAddress = net.ParseIP(s.Src)
	}
	if s.RouterID != "" {
		p.RouterID = net.ParseIP(s.RouterID)
	}
	if s.HoldS >= 0 {
		h := time.Duration(s.HoldS) * time.Second
		k := time.Duration(s.KeepaliveS) * time.Second
		p.HoldTime, p.KeepAliveTime = &h, &k
	}
	if s.ConnectS >= 0 {
		ct := time.Duration(s.ConnectS) * time.Second
		p.ConnectTime = &ct
	}
	return p
}

// c15Advs converts the advertisements the way the speaker does: canonical prefix, communities
// sorted with LessThan.
func c15Advs(ads []vfFRRAdSpec) ([]*bgp.Advertisement, error) {
	var out []*bgp.Advertisement
	for _, a := range ads {
		_, ipnet, err := net.ParseCIDR(a.Prefix)
		if err != nil {
			return nil, err
		}
		adv := &bgp.Advertisement{Prefix: ipnet, LocalPref: a.LocalPref}
		for _, cs := range a.Comms {
			cm, err := community.New(cs)
			if err != nil {
				return nil, err
			}
			adv.Communities = append(adv.Communities, cm)
		}
		sort.Slice(adv.Communities, func(i, j int) bool { return adv.Communities[i].LessThan(adv.Communities[j]) })
		out = append(out, adv)
	}
	return out, nil
}

func c15BFD(names []string) map[string]*metallbconfig.BFDProfile {
	if len(names) == 0 {
		return nil
	}
	out := map[string]*metallbconfig.BFDProfile{}
	for i, n := range names {
		p := &metallbconfig.BFDProfile{Name: n}
		if i == 0 {
			v := uint32(300)
			p.ReceiveInterval, p.TransmitInterval = &v, &v
			p.PassiveMode = true
		} else {
			v := uint32(5)
			p.DetectMultiplier = &v
			p.EchoMode = true
		}
		out[n] = p
	}
	return out
}

type c15Outcome struct {
	cfg      *frrv1beta1.FRRConfiguration
	refused  map[int]error // NewSession errors by session index
	setErr   map[int]error
	bfdErr   error
	callback int
	hostileAccepted bool
	hostileRejected int
}

// c15Build drives a fresh session manager: sessions created in `order`, then Set in `order`.
func c15Build(prog *vfFRRProgram, order []int, adShuffle *vfRand, hostile *vfRand) (*c15Outcome, error) {
	out := &c15Outcome{refused: map[int]error{}, setErr: map[int]error{}}
	l := log.NewNopLogger()
	sm := NewSessionManager(l, logging.LevelInfo, c15Node, c15Namespace)
	sm.SetEventCallback(func(v interface{}) {
		out.callback++
		if cfg, ok := v.(frrv1beta1.FRRConfiguration); ok {
			cp := cfg.DeepCopy()
			out.cfg = cp
		}
	})
	if len(prog.BFDProfiles) > 0 {
		out.bfdErr = sm.SyncBFDProfiles(c15BFD(prog.BFDProfiles))
	}
	created := map[int]bgp.Session{}
	for _, i := range order {
		s, err := sm.NewSession(l, c15Params(&prog.Sessions[i]))
		if err != nil {
			out.refused[i] = err
			continue
		}
		created[i] = s
	}
	for _, i := range order {
		s := created[i]
		if s == nil {
			continue
		}
		ads := prog.Sessions[i].Ads
		if adShuffle != nil {
			ads = vfShuffled(adShuffle, ads)
		}
		advs, err := c15Advs(ads)
		if err != nil {
			return nil, err
		}
		if err := s.Set(advs...); err != nil {
			out.setErr[i] = err
		}
	}
	if hostile != nil && len(created) >= 2 {
		// a rejected Set (an advertisement with more than 63 communities, not in first position) must leave
		// no trace: afterwards another session re-submits its own, unchanged advertisements, which
		// regenerates the resource; the oracle then judges it against the unchanged request
		var idx []int
		for i := range created {
			idx = append(idx, i)
		}
		sort.Ints(idx)
		j := idx[hostile.Intn(len(idx))]
		advs, err := c15Advs(prog.Sessions[j].Ads)
		if err == nil && len(advs) >= 1 && out.setErr[j] == nil {
			bad := *advs[len(advs)-1]
			bad.Communities = nil
			for x := 0; x < 64; x++ {
				cm, _ := community.New(fmt.Sprintf("650%02d:%d", x%90, x))
				bad.Communities = append(bad.Communities, cm)
			}
			extra := *advs[0]
			_, n, _ := net.ParseCIDR("203.0.113.0/24")
			if extra.Prefix.IP.To4() == nil {
				_, n, _ = net.ParseCIDR("2001:db8:113::/64")
			}
			extra.Prefix = n
			try := []*bgp.Advertisement{&extra, &bad}
			if err := created[j].Set(try...); err == nil {
				out.hostileAccepted = true
			} else {
				out.hostileRejected++
			}
			for _, k := range idx {
				if k == j || out.setErr[k] != nil {
					continue
				}
				again, err := c15Advs(prog.Sessions[k].Ads)
				if err == nil {
					_ = created[k].Set(again...)
				}
				break
			}
		}
	}
	return out, nil
}

type c15Checker struct {
	c    *vfCase
	prog *vfFRRProgram
	cfg  *frrv1beta1.FRRConfiguration
}

func (k *c15Checker) violation(sig, summary string, extra map[string]any) {
	d := map[string]any{"program": k.prog, "configuration": k.cfg}
	for a, b := range extra {
		d[a] = b
	}
	k.c.Violation(sig, summary, d)
}

func c15SessLabel(s *vfFRRSessSpec) string {
	peer := s.Addr
	if s.Iface != "" {
		peer = "interface " + s.Iface
	}
	vrf := s.VRF
	if vrf == "" {
		vrf = "default"
	}
	return fmt.Sprintf("%s (vrf %s, local AS %d)", peer, vrf, s.MyASN)
}

func c15CanonPrefix(p string) string {
	x, err := netip.ParsePrefix(p)
	if err != nil {
		return "invalid:" + p
	}
	return x.Masked().String()
}

func c15Set(xs []string) map[string]bool {
	m := map[string]bool{}
	for _, x := range xs {
		m[c15CanonPrefix(x)] = true
	}
	return m
}

func c15SortedOK(xs []string) bool {
	if sort.StringsAreSorted(xs) {
		return true
	}
	// numeric order of (address, length) is a sorted list as well
	for i := 1; i < len(xs); i++ {
		a, e1 := netip.ParsePrefix(xs[i-1])
		b, e2 := netip.ParsePrefix(xs[i])
		if e1 != nil || e2 != nil {
			return false
		}
		if c := a.Addr().Compare(b.Addr()); c > 0 || (c == 0 && a.Bits() > b.Bits()) {
			return false
		}
	}
	return true
}

func (k *c15Checker) checkNeighbor(s *vfFRRSessSpec, n *frrv1beta1.Neighbor) {
	c := k.c
	lbl := c15SessLabel(s)
	bad := func(name, want, got string) {
		k.violation("param:"+name, fmt.Sprintf("neighbor %s: %s requested %q, resource says %q", lbl, name, want, got), map[string]any{"session": s})
	}
	c.EvalN(12)
	c.CountN("comparisons", 12)
	if n.Address != s.Addr {
		bad("address", s.Addr, n.Address)
	}
	if n.Interface != s.Iface {
		bad("interface", s.Iface, n.Interface)
	}
	if n.ASN != s.PeerASN {
		bad("asn", fmt.Sprint(s.PeerASN), fmt.Sprint(n.ASN))
	}
	if string(n.DynamicASN) != s.DynamicASN {
		bad("dynamic-asn", s.DynamicASN, string(n.DynamicASN))
	}
	switch {
	case s.Port != 0 && (n.Port == nil || *n.Port != s.Port):
		bad("port", fmt.Sprint(s.Port), fmt.Sprint(n.Port))
	case s.Port == 0 && n.Port != nil && *n.Port != 0 && *n.Port != 179:
		bad("port", "unset", fmt.Sprint(*n.Port))
	}
	dur := func(name string, wantS int, got *time.Duration) {
		switch {
		case wantS >= 0 && (got == nil || *got != time.Duration(wantS)*time.Second):
			g := "unset"
			if got != nil {
				g = got.String()
			}
			bad(name, (time.Duration(wantS) * time.Second).String(), g)
		case wantS < 0 && got != nil:
			bad(name, "unset", got.String())
		}
	}
	var h, ka, ct *time.Duration
	if n.HoldTime != nil {
		h = &n.HoldTime.Duration
	}
	if n.KeepaliveTime != nil {
		ka = &n.KeepaliveTime.Duration
	}
	if n.ConnectTime != nil {
		ct = &n.ConnectTime.Duration
	}
	dur("hold-time", s.HoldS, h)
	dur("keepalive-time", s.KeepaliveS, ka)
	dur("connect-time", s.ConnectS, ct)
	if n.BFDProfile != s.BFDProfile {
		bad("bfd-profile", s.BFDProfile, n.BFDProfile)
	}
	if n.EnableGracefulRestart != s.GR {
		bad("graceful-restart", fmt.Sprint(s.GR), fmt.Sprint(n.EnableGracefulRestart))
	}
	if n.EBGPMultiHop != s.Multihop {
		bad("ebgp-multihop", fmt.Sprint(s.Multihop), fmt.Sprint(n.EBGPMultiHop))
	}
	if n.DisableMP != s.DisableMP {
		bad("disable-mp", fmt.Sprint(s.DisableMP), fmt.Sprint(n.DisableMP))
	}
	// password or secret reference, never both
	hasSecret := n.PasswordSecret.Name != "" || n.PasswordSecret.Namespace != ""
	if n.Password != "" && hasSecret {
		k.violation("password:both-password-and-secret", fmt.Sprintf("neighbor %s carries a password and a secret reference", lbl), map[string]any{"session": s})
	}
	if s.SecretName != "" {
		c.Count("neighbors-with-secret-reference")
		if n.PasswordSecret.Name != s.SecretName || n.PasswordSecret.Namespace != s.SecretNS {
			bad("password-secret", s.SecretNS+"/"+s.SecretName, n.PasswordSecret.Namespace+"/"+n.PasswordSecret.Name)
		}
		if n.Password != "" {
			bad("password", "", "(set)")
		}
	} else {
		if n.Password != s.Password {
			bad("password", s.Password, n.Password)
		}
		if hasSecret {
			bad("password-secret", "", n.PasswordSecret.Namespace+"/"+n.PasswordSecret.Name)
		}
	}

	// ---- allowed prefixes: sorted, no duplicates, exactly the requested ones
	want := vfFRRRequested(s)
	if len(want) == 0 {
		c.Count("neighbors-without-advertisement")
	}
	for _, w := range want {
		if w.Count > 1 {
			c.Count("merged-duplicates")
		}
	}
	allowed := n.ToAdvertise.Allowed.Prefixes
	c.EvalN(4)
	c.CountN("comparisons", 4)
	if n.ToAdvertise.Allowed.Mode == frrv1beta1.AllowAll {
		k.violation("allowed:mode-all", fmt.Sprintf("neighbor %s is allowed every prefix of the router", lbl), map[string]any{"session": s})
	}
	seen := map[string]bool{}
	dupReported := false
	for _, p := range allowed {
		cp := c15CanonPrefix(p)
		if seen[cp] && !dupReported {
			dupReported = true
			k.violation("allowed:duplicate", fmt.Sprintf("neighbor %s: allowed prefix %s is listed twice", lbl, p), map[string]any{"session": s, "allowed": allowed})
		}
		seen[cp] = true
	}
	if !c15SortedOK(allowed) {
		k.violation("allowed:unsorted", fmt.Sprintf("neighbor %s: allowed prefixes are not sorted: %v", lbl, allowed), map[string]any{"session": s})
	}
	for _, p := range vfSortedKeys(want) {
		c.Eval()
		c.Count("comparisons")
		if !seen[p] {
			k.violation("allowed:missing", fmt.Sprintf("neighbor %s: requested prefix %s is not allowed", lbl, p), map[string]any{"session": s, "allowed": allowed})
		}
	}
	for _, p := range vfSortedKeys(seen) {
		c.Eval()
		c.Count("comparisons")
		if want[p] == nil {
			k.violation("allowed:unrequested", fmt.Sprintf("neighbor %s: prefix %s is allowed but was not requested", lbl, p), map[string]any{"session": s, "allowed": allowed})
		}
	}

	// ---- each community lists exactly its requesters
	wantComm := map[string]map[string]bool{}
	wantLP := map[uint32]map[string]bool{}
	for _, a := range s.Ads {
		p := c15CanonPrefix(a.Prefix)
		for _, cm := range a.Comms {
			if wantComm[cm] == nil {
				wantComm[cm] = map[string]bool{}
			}
			wantComm[cm][p] = true
		}
		if a.LocalPref != 0 {
			if wantLP[a.LocalPref] == nil {
				wantLP[a.LocalPref] = map[string]bool{}
			}
			wantLP[a.LocalPref][p] = true
		}
	}
	gotComm := map[string]map[string]bool{}
	for _, e := range n.ToAdvertise.PrefixesWithCommunity {
		if gotComm[e.Community] == nil {
			gotComm[e.Community] = map[string]bool{}
		}
		for p := range c15Set(e.Prefixes) {
			gotComm[e.Community][p] = true
		}
	}
	for _, cm := range vfSortedKeys(gotComm) {
		for _, p := range vfSortedKeys(gotComm[cm]) {
			c.Eval()
			c.Count("comparisons")
			if wantComm[cm] == nil {
				k.violation("community:unrequested-community", fmt.Sprintf("neighbor %s: community %s was never requested", lbl, cm), map[string]any{"session": s})
				break
			}
			if !wantComm[cm][p] {
				c.Count("community-must-not-list-evaluations")
				k.violation("community:listed-for-non-requesting-prefix", fmt.Sprintf("neighbor %s: community %s is attached to %s which did not request it", lbl, cm, p), map[string]any{"session": s})
			}
		}
	}
	for _, cm := range vfSortedKeys(wantComm) {
		for _, p := range vfSortedKeys(wantComm[cm]) {
			c.Eval()
			c.Count("comparisons")
			if !gotComm[cm][p] {
				k.violation("community:missing-for-requesting-prefix", fmt.Sprintf("neighbor %s: community %s is not attached to %s", lbl, cm, p), map[string]any{"session": s})
			}
		}
		// a prefix of this neighbor that did not ask for the community is the interesting case
		for p := range want {
			if !wantComm[cm][p] {
				c.Count("community-selective-prefixes")
			}
		}
	}
	gotLP := map[uint32]map[string]bool{}
	for _, e := range n.ToAdvertise.PrefixesWithLocalPref {
		if gotLP[e.LocalPref] == nil {
			gotLP[e.LocalPref] = map[string]bool{}
		}
		for p := range c15Set(e.Prefixes) {
			gotLP[e.LocalPref][p] = true
		}
	}
	for lp, ps := range gotLP {
		if lp == 0 {
			continue // the statement speaks about non-zero local preferences only
		}
		for p := range ps {
			c.Eval()
			c.Count("comparisons")
			if !wantLP[lp][p] {
				k.violation("localpref:listed-for-non-requesting-prefix", fmt.Sprintf("neighbor %s: local preference %d is attached to %s which did not request it", lbl, lp, p), map[string]any{"session": s})
			}
		}
	}
	for lp, ps := range wantLP {
		for p := range ps {
			c.Eval()
			c.Count("comparisons")
			if !gotLP[lp][p] {
				k.violation("localpref:missing-for-requesting-prefix", fmt.Sprintf("neighbor %s: local preference %d is not attached to %s", lbl, lp, p), map[string]any{"session": s})
			}
		}
	}
}

// c15Denotes: what the resource says neighbor n gets for prefix p.
func c15Denotes(r *frrv1beta1.Router, n *frrv1beta1.Neighbor, p string) (offered bool, lps []uint32, comms, larges []string) {
	if n.ToAdvertise.Allowed.Mode == frrv1beta1.AllowAll {
		offered = c15Set(r.Prefixes)[p]
	} else {
		offered = c15Set(n.ToAdvertise.Allowed.Prefixes)[p]
	}
	if !offered {
		return
	}
	cs, ls := map[string]bool{}, map[string]bool{}
	for _, e := range n.ToAdvertise.PrefixesWithCommunity {
		if c15Set(e.Prefixes)[p] {
			if strings.HasPrefix(e.Community, "large:") {
				ls[strings.TrimPrefix(e.Community, "large:")] = true
			} else {
				cs[e.Community] = true
			}
		}
	}
	lpset := map[uint32]bool{}
	for _, e := range n.ToAdvertise.PrefixesWithLocalPref {
		if e.LocalPref != 0 && c15Set(e.Prefixes)[p] {
			lpset[e.LocalPref] = true
		}
	}
	for lp := range lpset {
		lps = append(lps, lp)
	}
	sort.Slice(lps, func(i, j int) bool { return lps[i] < lps[j] })
	return offered, lps, vfSortedSet(cs), vfSortedSet(ls)
}

func c15FindRouter(cfg *frrv1beta1.FRRConfiguration, asn uint32, vrf string) []*frrv1beta1.Router {
	var out []*frrv1beta1.Router
	for i := range cfg.Spec.BGP.Routers {
		r := &cfg.Spec.BGP.Routers[i]
		if r.ASN == asn && r.VRF == vrf {
			out = append(out, r)
		}
	}
	return out
}

func c15FindNeighbor(r *frrv1beta1.Router, s *vfFRRSessSpec) *frrv1beta1.Neighbor {
	for i := range r.Neighbors {
		n := &r.Neighbors[i]
		if s.Iface != "" {
			if n.Interface == s.Iface {
				return n
			}
			continue
		}
		if n.Interface != "" {
			continue
		}
		a, e1 := netip.ParseAddr(n.Address)
		b, e2 := netip.ParseAddr(s.Addr)
		if e1 == nil && e2 == nil && a.Unmap() == b.Unmap() {
			return n
		}
	}
	return nil
}

func c15Perms(n int) [][]int {
	var out [][]int
	var rec func(cur []int, used []bool)
	rec = func(cur []int, used []bool) {
		if len(cur) == n {
			out = append(out, append([]int(nil), cur...))
			return
		}
		for i := 0; i < n; i++ {
			if !used[i] {
				used[i] = true
				rec(append(cur, i), used)
				used[i] = false
			}
		}
	}
	rec(nil, make([]bool, n))
	return out
}

func c15Case(c *vfCase) {
	prog := vfFRRGenProgram(c.R, vfFRRGenOpts{Secrets: true})
	shuf := c.R.Fork()
	n := len(prog.Sessions)
	ident := make([]int, n)
	for i := range ident {
		ident[i] = i
	}
	var hostile *vfRand
	if c.R.Chance(1, 3) {
		hostile = c.R.Fork()
	}
	out, err := c15Build(&prog, ident, nil, hostile)
	if err != nil {
		c.Inconclusive("harness could not convert the program: " + err.Error())
		return
	}
	k := &c15Checker{c: c, prog: &prog, cfg: out.cfg}
	if out.bfdErr != nil {
		k.violation("build:bfd-profiles-refused", "SyncBFDProfiles failed: "+out.bfdErr.Error(), nil)
		return
	}
	// sessions with a password AND a secret reference must be refused (never both in the resource)
	var kept []int
	for i := range prog.Sessions {
		s := &prog.Sessions[i]
		both := s.Password != "" && (s.SecretName != "" || s.SecretNS != "")
		c.Eval()
		c.Count("comparisons")
		switch {
		case both && out.refused[i] != nil:
			c.Count("sessions-with-password-and-secret-refused")
		case both:
			kept = append(kept, i) // the structural oracle below reports the resource that carries both
			c.Count("sessions-with-password-and-secret-accepted")
		case out.refused[i] != nil:
			k.violation("build:valid-session-refused", fmt.Sprintf("NewSession for %s failed: %v", c15SessLabel(s), out.refused[i]), map[string]any{"session": s})
			return
		default:
			kept = append(kept, i)
		}
		if e := out.setErr[i]; e != nil {
			k.violation("build:set-refused", fmt.Sprintf("Set on %s failed: %v", c15SessLabel(s), e), map[string]any{"session": s})
			return
		}
	}
	if out.cfg == nil {
		if len(kept) == 0 {
			c.Count("programs-without-accepted-session")
			return
		}
		k.violation("callback:never-called", "the config-changed callback never received an FRRConfiguration", nil)
		return
	}
	c.Count("programs")
	cfg := out.cfg
	if out.hostileRejected > 0 {
		c.Count("rejected-sets-followed-by-regeneration")
	}
	if out.hostileAccepted {
		c.Count("oversized-community-list-accepted")
	}
	// what the reconciler does at debug level after applying the resource: dump it (passwords blanked).
	// The dump must work on a copy; the resource that keeps being applied must stay what it was.
	{
		before := cfg.DeepCopy()
		_, _ = ConfigToDump(*cfg)
		c.Eval()
		c.Count("comparisons")
		if !reflect.DeepEqual(before.Spec, cfg.Spec) {
			k.violation("dump:applied-configuration-mutated", "ConfigToDump changed the FRRConfiguration it was given (the reconciler dumps the desired configuration it keeps applying)", nil)
			cfg = before
			k.cfg = before
		}
	}
	if c.WantSample() {
		c.Sample(map[string]any{"program": prog, "routers": len(cfg.Spec.BGP.Routers)})
	}

	// ---- targets only this node
	c.Eval()
	c.Count("comparisons")
	sel := cfg.Spec.NodeSelector
	if len(sel.MatchExpressions) != 0 || len(sel.MatchLabels) != 1 || sel.MatchLabels["kubernetes.io/hostname"] != c15Node {
		k.violation("node-selector:not-this-node-only", fmt.Sprintf("node selector %v does not select exactly node %s", sel, c15Node), nil)
	}

	// ---- routers
	type rkey struct {
		asn uint32
		vrf string
	}
	wantRouters := map[rkey][]*vfFRRSessSpec{}
	var rorder []rkey
	for _, i := range kept {
		s := &prog.Sessions[i]
		key := rkey{s.MyASN, s.VRF}
		if _, ok := wantRouters[key]; !ok {
			rorder = append(rorder, key)
		}
		wantRouters[key] = append(wantRouters[key], s)
	}
	for i := range cfg.Spec.BGP.Routers {
		r := &cfg.Spec.BGP.Routers[i]
		c.Eval()
		c.Count("comparisons")
		if _, ok := wantRouters[rkey{r.ASN, r.VRF}]; !ok {
			k.violation("router:unexpected", fmt.Sprintf("router asn %d vrf %q was not requested", r.ASN, r.VRF), nil)
		}
	}
	differing, disjoint := false, false
	for _, key := range rorder {
		sess := wantRouters[key]
		rs := c15FindRouter(cfg, key.asn, key.vrf)
		c.Eval()
		c.Count("comparisons")
		if len(rs) != 1 {
			k.violation("router:missing-or-duplicated", fmt.Sprintf("%d routers with asn %d vrf %q, expected one", len(rs), key.asn, key.vrf), nil)
			continue
		}
		r := rs[0]
		if key.vrf != "" {
			c.Count("routers-in-vrf")
		}
		if sess[0].RouterID != "" && r.ID != sess[0].RouterID {
			k.violation("param:router-id", fmt.Sprintf("router asn %d vrf %q has id %q, requested %q", key.asn, key.vrf, r.ID, sess[0].RouterID), nil)
		}
		union := map[string]bool{}
		for _, s := range sess {
			for p := range vfFRRRequested(s) {
				union[p] = true
			}
		}
		got := c15Set(r.Prefixes)
		for _, p := range vfSortedKeys(union) {
			c.Eval()
			c.Count("comparisons")
			if !got[p] {
				k.violation("router-prefixes:missing", fmt.Sprintf("router asn %d vrf %q does not list requested prefix %s", key.asn, key.vrf, p), nil)
			}
		}
		for _, p := range vfSortedKeys(got) {
			c.Eval()
			c.Count("comparisons")
			if !union[p] {
				k.violation("router-prefixes:unrequested", fmt.Sprintf("router asn %d vrf %q lists %s which nobody requested", key.asn, key.vrf, p), nil)
			}
		}
		if len(r.Neighbors) != len(sess) {
			k.violation("neighbor:unexpected", fmt.Sprintf("router asn %d vrf %q has %d neighbors, %d sessions were requested", key.asn, key.vrf, len(r.Neighbors), len(sess)), nil)
		}
		for _, s := range sess {
			nb := c15FindNeighbor(r, s)
			c.Eval()
			c.Count("comparisons")
			if nb == nil {
				k.violation("neighbor:missing", fmt.Sprintf("neighbor %s is not in the resource", c15SessLabel(s)), map[string]any{"session": s})
				continue
			}
			if s.Iface != "" {
				c.Count("unnumbered-neighbors")
			}
			k.checkNeighbor(s, nb)
			// prefixes the router originates for other neighbors only
			mine := vfFRRRequested(s)
			for p := range union {
				if mine[p] == nil {
					c.Count("must-deny-evaluations")
				}
			}
		}
		for i := 0; i < len(sess); i++ {
			for j := i + 1; j < len(sess); j++ {
				a, b := vfFRRRequested(sess[i]), vfFRRRequested(sess[j])
				same := len(a) == len(b)
				common := 0
				for p := range a {
					if b[p] == nil {
						same = false
					} else {
						common++
					}
				}
				if !same {
					differing = true
				}
				if len(a) > 0 && len(b) > 0 && common == 0 {
					disjoint = true
				}
			}
		}
	}
	if differing {
		c.Count("programs-2+-neighbors-differing-requests")
		c.Nontrivial(prog.Key())
	}
	if disjoint {
		c.Count("programs-2+-neighbors-disjoint-requests")
	}
	c.Distinct("programs", prog.Key())

	// ---- determinism: equal objects for all creation orders / Set argument orders
	ref, _ := json.Marshal(cfg)
	orders := [][]int{ident}
	if n <= 3 {
		orders = append(orders, c15Perms(n)[1:]...)
	} else {
		for i := 0; i < 5; i++ {
			orders = append(orders, vfShuffled(shuf, ident))
		}
	}
	for oi, ord := range orders {
		var as *vfRand
		if oi > 0 {
			as = shuf.Fork()
		}
		o2, err := c15Build(&prog, ord, as, nil)
		c.Eval()
		c.Count("comparisons")
		c.Count("order-permutations-compared")
		if err != nil || o2.cfg == nil {
			k.violation("determinism:order-dependent-failure", fmt.Sprintf("creation order %v produced no configuration", ord), map[string]any{"order": ord})
			continue
		}
		b2, _ := json.Marshal(o2.cfg)
		if string(b2) != string(ref) {
			sig := "determinism:object-depends-on-order"
			if oi == 0 {
				sig = "determinism:object-differs-between-identical-histories"
			}
			k.violation(sig, fmt.Sprintf("creation order %v produces a different FRRConfiguration", ord), map[string]any{"order": ord, "other": o2.cfg})
		}
	}

	// ---- same per-neighbor routes as the FRR-mode text rendered from the same sessions
	k.crossCheck(kept)
}

func (k *c15Checker) crossCheck(kept []int) {
	c := k.c
	prog := k.prog
	for _, i := range kept {
		if vfFRRHasLocalPrefConflict(&prog.Sessions[i]) {
			// FRR mode legitimately refuses one prefix with two local preferences on one session
			c.Count("crosscheck-skipped-local-pref-conflict")
			return
		}
	}
	if vfFRRPeerLabelCollision(prog) {
		// FRR mode names the filters of two different neighbors alike for such sets (reported by
		// C14 as collision:filter-names-shared-by-two-neighbors); its text is no reference here
		c.Count("crosscheck-skipped-peer-label-collision")
		return
	}
	var sess []frrmode.VerifSession
	for _, i := range kept {
		s := &prog.Sessions[i]
		advs, err := c15Advs(s.Ads)
		if err != nil {
			c.Inconclusive("harness could not convert the program: " + err.Error())
			return
		}
		p := c15Params(s)
		p.PasswordRef = corev1.SecretReference{} // FRR mode is handed the resolved password only
		sess = append(sess, frrmode.VerifSession{Params: p, Advs: advs, Resubmit: -1})
	}
	text, stage, err := frrmode.VerifRender("verifhost", c15BFD(prog.BFDProfiles), sess)
	if err != nil {
		c.Inconclusive(fmt.Sprintf("FRR-mode rendering of the same sessions failed at %s: %v", stage, err))
		return
	}
	tc := vfFRRParse(text)
	if len(tc.Unknown) > 0 || len(tc.Errors) > 0 {
		c.Inconclusive(fmt.Sprintf("interpreter cannot judge the FRR-mode text: unknown=%v errors=%v", tc.Unknown, tc.Errors))
		return
	}
	c.Count("crosscheck-programs")
	for _, i := range kept {
		s := &prog.Sessions[i]
		lbl := c15SessLabel(s)
		tr := tc.FindRouter(s.MyASN, s.VRF)
		rs := c15FindRouter(k.cfg, s.MyASN, s.VRF)
		if tr == nil || len(rs) != 1 {
			continue // reported by the structural oracle / by C14
		}
		tn := tr.FindNeighbor(s.Addr, s.Iface)
		rn := c15FindNeighbor(rs[0], s)
		if tn == nil || rn == nil {
			continue
		}
		// probes: everything either side originates + the fixed universe
		probe := map[string]bool{}
		for _, v6 := range []bool{false, true} {
			for _, p := range tr.Networks[v6] {
				probe[p.String()] = true
			}
		}
		for p := range c15Set(rs[0].Prefixes) {
			probe[p] = true
		}
		for _, p := range vfFRRPrefixUniverse {
			probe[c15CanonPrefix(p)] = true
		}
		for _, ps := range vfSortedKeys(probe) {
			p, err := netip.ParsePrefix(ps)
			if err != nil {
				continue
			}
			res := tc.vfFRROffer(tr, tn, p)
			c.Eval()
			c.Count("comparisons")
			c.Count("crosscheck-comparisons")
			if !res.Activated {
				continue // the family is not exchanged in FRR mode; C14 judges activation
			}
			offered, lps, comms, larges := c15Denotes(rs[0], rn, ps)
			detail := map[string]any{"session": s, "prefix": ps, "frr_text": vfFRRExcerpt(text), "frr_trail": res.Trail}
			if offered != res.Permitted {
				k.violation("crosscheck:offered-set-differs", fmt.Sprintf("neighbor %s, prefix %s: FRR-K8s resource offers=%v, FRR-mode text offers=%v", lbl, ps, offered, res.Permitted), detail)
				continue
			}
			if !offered {
				continue
			}
			var lp uint32
			if len(lps) > 1 {
				k.violation("crosscheck:ambiguous-local-pref", fmt.Sprintf("neighbor %s, prefix %s: resource lists local preferences %v", lbl, ps, lps), detail)
				continue
			}
			if len(lps) == 1 {
				lp = lps[0]
			}
			if lp != res.LocalPref {
				k.violation("crosscheck:local-pref-differs", fmt.Sprintf("neighbor %s, prefix %s: resource local-pref %d, FRR-mode text %d", lbl, ps, lp, res.LocalPref), detail)
			}
			if !vfFRRSameStrings(comms, res.Comms) || !vfFRRSameStrings(larges, res.Larges) {
				k.violation("crosscheck:communities-differ", fmt.Sprintf("neighbor %s, prefix %s: resource communities %v large %v, FRR-mode text %v large %v", lbl, ps, comms, larges, res.Comms, res.Larges), detail)
			}
		}
	}
}

func TestVerif_C15(t *testing.T) {
	vfMain(t, "C15", vfSizes{Quick: 1500, Thorough: 40000}, c15Rule, c15Case)
}
