//go:build verif

package frr

// C15, third run: the session manager under concurrent handlers. The speaker's service, node and
// configuration handlers are serialized by the k8s.Listener, but the manager publishes every
// regenerated FRRConfiguration through a callback whose consumer (FRRK8sReconciler.UpdateConfig)
// first has to win its own lock - which Reconcile holds across API calls - and keeps only the last
// resource it was handed. "The desired resource is a deterministic function of the session set" then
// needs the manager to hand over its snapshots in the order it built them. Each case creates the
// sessions of a random program, lets one goroutine per session call Set several times (intermediate
// advertisement lists, then the final one) against a consumer that is sometimes slow before it stores,
// and compares the resource the consumer holds at the end with the one a fresh manager produces for the
// final session set, sequentially.

import (
	"reflect"
	"sync"
	"testing"
	"time"

	"github.com/go-kit/log"
	frrv1beta1 "github.com/metallb/frr-k8s/api/v1beta1"
	"go.universe.tf/metallb/internal/bgp"
	"go.universe.tf/metallb/internal/logging"
)

const c15xRule = "one goroutine per session calls Set 2-4 times (intermediate lists, then the final one) on one frr-k8s session manager while the consumer of the configuration callback is sometimes slow before it stores; the resource the consumer holds after all calls returned must equal the resource a fresh manager produces sequentially for the final session set; non-trivial = distinct final resource with at least 2 sessions that was compared"

func c15xCase(c *vfCase) {
	prog := vfFRRGenProgram(c.R, vfFRRGenOpts{Secrets: true})
	l := log.NewNopLogger()
	type store struct {
		mu    sync.Mutex
		cfg   *frrv1beta1.FRRConfiguration
		calls int
	}
	mk := func(slow *vfRand) (bgp.SessionManager, *store) {
		st := &store{}
		var rmu sync.Mutex
		sm := NewSessionManager(l, logging.LevelInfo, c15Node, c15Namespace)
		sm.SetEventCallback(func(v interface{}) {
			if slow != nil {
				rmu.Lock()
				d := 0
				if slow.Chance(1, 2) {
					d = slow.Range(20, 400)
				}
				rmu.Unlock()
				if d > 0 {
					time.Sleep(time.Duration(d) * time.Microsecond) // waiting for the consumer's lock
				}
			}
			st.mu.Lock()
			defer st.mu.Unlock()
			st.calls++
			if cfg, ok := v.(frrv1beta1.FRRConfiguration); ok {
				st.cfg = cfg.DeepCopy()
			}
		})
		return sm, st
	}
	type sess struct {
		idx   int
		final []*bgp.Advertisement
		inter [][]*bgp.Advertisement
	}
	build := func(sm bgp.SessionManager) ([]*sess, map[int]bgp.Session, bool) {
		if len(prog.BFDProfiles) > 0 {
			if err := sm.SyncBFDProfiles(c15BFD(prog.BFDProfiles)); err != nil {
				return nil, nil, false
			}
		}
		created := map[int]bgp.Session{}
		var ss []*sess
		for i := range prog.Sessions {
			s, err := sm.NewSession(l, c15Params(&prog.Sessions[i]))
			if err != nil {
				continue
			}
			created[i] = s
			ss = append(ss, &sess{idx: i})
		}
		return ss, created, true
	}
	smC, stC := mk(c.R.Fork())
	ss, created, ok := build(smC)
	if !ok || len(ss) < 2 {
		c.Count("programs-with-fewer-than-2-sessions")
		return
	}
	for _, s := range ss {
		ads := prog.Sessions[s.idx].Ads
		fin, err := c15Advs(ads)
		if err != nil {
			c.Inconclusive("harness could not convert the program: " + err.Error())
			return
		}
		s.final = fin
		for k := c.R.Range(1, 3); k > 0; k-- {
			sub := vfShuffled(c.R, ads)
			sub = sub[:c.R.Intn(len(sub)+1)]
			in, err := c15Advs(sub)
			if err != nil {
				c.Inconclusive("harness could not convert the program: " + err.Error())
				return
			}
			s.inter = append(s.inter, in)
		}
	}
	finalErr := make([]error, len(ss))
	var wg sync.WaitGroup
	start := make(chan struct{})
	for n, s := range ss {
		wg.Add(1)
		go func(n int, s *sess) {
			defer wg.Done()
			<-start
			for _, in := range s.inter {
				_ = created[s.idx].Set(in...)
			}
			finalErr[n] = created[s.idx].Set(s.final...)
		}(n, s)
	}
	close(start)
	done := make(chan struct{})
	go func() { wg.Wait(); close(done) }()
	select {
	case <-done:
	case <-time.After(60 * time.Second):
		c.Inconclusive("concurrent Set calls did not return within 60 s")
		return
	}
	// the reference: a fresh manager, same sessions, final lists, one call at a time
	smS, stS := mk(nil)
	_, createdS, ok := build(smS)
	if !ok {
		return
	}
	for n, s := range ss {
		rs := createdS[s.idx]
		if rs == nil {
			c.Inconclusive("the fresh manager refused a session the first one accepted")
			return
		}
		err := rs.Set(s.final...)
		if (err == nil) != (finalErr[n] == nil) {
			// a refused final Set keeps what the session advertised before, which depends on the
			// interleaving: such programs are left to the sequential runs
			c.Count("programs-with-refused-final-set")
			return
		}
		if err != nil {
			c.Count("programs-with-refused-final-set")
			return
		}
	}
	stC.mu.Lock()
	got, calls := stC.cfg, stC.calls
	stC.mu.Unlock()
	want := stS.cfg
	c.Eval()
	c.Count("concurrent-programs-compared")
	c.CountN("callbacks-delivered", calls)
	if got == nil || want == nil {
		c.Violation("concurrent:no-resource-delivered", "no FRRConfiguration reached the consumer", nil)
		return
	}
	c.Nontrivial(vfJSON(want.Spec))
	if !reflect.DeepEqual(got.Spec, want.Spec) {
		c.Violation("concurrent:stale-resource-delivered-last", "after concurrent Set calls returned, the resource held by the consumer differs from the one a fresh manager produces for the final session set: a snapshot built earlier was handed over later", map[string]any{"held": got.Spec, "sequential": want.Spec, "program": prog})
	}
}

func TestVerif_C15X(t *testing.T) {
	vfMain(t, "C15", vfSizes{Quick: 300, Thorough: 6000}, c15xRule, c15xCase)
}
