//go:build verif

// Deterministic cluster simulator ("box", DESIGN.md 1.3): an in-memory API store behind a minimal
// client.Client, controller-runtime-like work queues, and a scheduler that runs the real reconcilers
// one goroutine at a time with seeded choices. Shared by the controller box and the speaker box.
package vfcommon

import (
	"context"
	"fmt"
	"reflect"
	"runtime/debug"
	"sort"

	metallbv1beta1 "go.universe.tf/metallb/api/v1beta1"
	metallbv1beta2 "go.universe.tf/metallb/api/v1beta2"
	corev1 "k8s.io/api/core/v1"
	discovery "k8s.io/api/discovery/v1"
	apierrors "k8s.io/apimachinery/pkg/api/errors"
	"k8s.io/apimachinery/pkg/runtime/schema"
	"k8s.io/apimachinery/pkg/types"
	ctrl "sigs.k8s.io/controller-runtime"
	"sigs.k8s.io/controller-runtime/pkg/client"
)

// ---------------------------------------------------------------- store

type boxStore struct {
	rv          int64
	Services    map[string]*corev1.Service
	Slices      map[string]*discovery.EndpointSlice
	Pools       map[string]*metallbv1beta1.IPAddressPool
	L2Advs      map[string]*metallbv1beta1.L2Advertisement
	BGPAdvs     map[string]*metallbv1beta1.BGPAdvertisement
	Peers       map[string]*metallbv1beta2.BGPPeer
	Communities map[string]*metallbv1beta1.Community
	BFDs        map[string]*metallbv1beta1.BFDProfile
	Nodes       map[string]*corev1.Node
	Namespaces  map[string]*corev1.Namespace
	Secrets     map[string]*corev1.Secret
	ConfigMaps  map[string]*corev1.ConfigMap
	onEvent     func(kind string, key types.NamespacedName, old, new client.Object)
}

func newBoxStore() *boxStore {
	return &boxStore{
		Services: map[string]*corev1.Service{}, Slices: map[string]*discovery.EndpointSlice{},
		Pools: map[string]*metallbv1beta1.IPAddressPool{}, L2Advs: map[string]*metallbv1beta1.L2Advertisement{},
		BGPAdvs: map[string]*metallbv1beta1.BGPAdvertisement{}, Peers: map[string]*metallbv1beta2.BGPPeer{},
		Communities: map[string]*metallbv1beta1.Community{}, BFDs: map[string]*metallbv1beta1.BFDProfile{},
		Nodes: map[string]*corev1.Node{}, Namespaces: map[string]*corev1.Namespace{},
		Secrets: map[string]*corev1.Secret{}, ConfigMaps: map[string]*corev1.ConfigMap{},
	}
}

func boxKey(o client.Object) string {
	if o.GetNamespace() == "" {
		return o.GetName()
	}
	return o.GetNamespace() + "/" + o.GetName()
}

func boxKind(o client.Object) string {
	switch o.(type) {
	case *corev1.Service:
		return "Service"
	case *discovery.EndpointSlice:
		return "EndpointSlice"
	case *metallbv1beta1.IPAddressPool:
		return "IPAddressPool"
	case *metallbv1beta1.L2Advertisement:
		return "L2Advertisement"
	case *metallbv1beta1.BGPAdvertisement:
		return "BGPAdvertisement"
	case *metallbv1beta2.BGPPeer:
		return "BGPPeer"
	case *metallbv1beta1.Community:
		return "Community"
	case *metallbv1beta1.BFDProfile:
		return "BFDProfile"
	case *corev1.Node:
		return "Node"
	case *corev1.Namespace:
		return "Namespace"
	case *corev1.Secret:
		return "Secret"
	case *corev1.ConfigMap:
		return "ConfigMap"
	}
	return "?"
}

// mapFor returns get/set/delete closures for the kind of o.
func (s *boxStore) slot(o client.Object) (get func(string) client.Object, set func(string, client.Object), del func(string)) {
	switch o.(type) {
	case *corev1.Service:
		return func(k string) client.Object { return nilIfNil(s.Services[k]) }, func(k string, v client.Object) { s.Services[k] = v.(*corev1.Service) }, func(k string) { delete(s.Services, k) }
	case *discovery.EndpointSlice:
		return func(k string) client.Object { return nilIfNil(s.Slices[k]) }, func(k string, v client.Object) { s.Slices[k] = v.(*discovery.EndpointSlice) }, func(k string) { delete(s.Slices, k) }
	case *metallbv1beta1.IPAddressPool:
		return func(k string) client.Object { return nilIfNil(s.Pools[k]) }, func(k string, v client.Object) { s.Pools[k] = v.(*metallbv1beta1.IPAddressPool) }, func(k string) { delete(s.Pools, k) }
	case *metallbv1beta1.L2Advertisement:
		return func(k string) client.Object { return nilIfNil(s.L2Advs[k]) }, func(k string, v client.Object) { s.L2Advs[k] = v.(*metallbv1beta1.L2Advertisement) }, func(k string) { delete(s.L2Advs, k) }
	case *metallbv1beta1.BGPAdvertisement:
		return func(k string) client.Object { return nilIfNil(s.BGPAdvs[k]) }, func(k string, v client.Object) { s.BGPAdvs[k] = v.(*metallbv1beta1.BGPAdvertisement) }, func(k string) { delete(s.BGPAdvs, k) }
	case *metallbv1beta2.BGPPeer:
		return func(k string) client.Object { return nilIfNil(s.Peers[k]) }, func(k string, v client.Object) { s.Peers[k] = v.(*metallbv1beta2.BGPPeer) }, func(k string) { delete(s.Peers, k) }
	case *metallbv1beta1.Community:
		return func(k string) client.Object { return nilIfNil(s.Communities[k]) }, func(k string, v client.Object) { s.Communities[k] = v.(*metallbv1beta1.Community) }, func(k string) { delete(s.Communities, k) }
	case *metallbv1beta1.BFDProfile:
		return func(k string) client.Object { return nilIfNil(s.BFDs[k]) }, func(k string, v client.Object) { s.BFDs[k] = v.(*metallbv1beta1.BFDProfile) }, func(k string) { delete(s.BFDs, k) }
	case *corev1.Node:
		return func(k string) client.Object { return nilIfNil(s.Nodes[k]) }, func(k string, v client.Object) { s.Nodes[k] = v.(*corev1.Node) }, func(k string) { delete(s.Nodes, k) }
	case *corev1.Namespace:
		return func(k string) client.Object { return nilIfNil(s.Namespaces[k]) }, func(k string, v client.Object) { s.Namespaces[k] = v.(*corev1.Namespace) }, func(k string) { delete(s.Namespaces, k) }
	case *corev1.Secret:
		return func(k string) client.Object { return nilIfNil(s.Secrets[k]) }, func(k string, v client.Object) { s.Secrets[k] = v.(*corev1.Secret) }, func(k string) { delete(s.Secrets, k) }
	case *corev1.ConfigMap:
		return func(k string) client.Object { return nilIfNil(s.ConfigMaps[k]) }, func(k string, v client.Object) { s.ConfigMaps[k] = v.(*corev1.ConfigMap) }, func(k string) { delete(s.ConfigMaps, k) }
	}
	panic(fmt.Sprintf("box store: unsupported kind %T", o))
}

func nilIfNil[T any](p *T) client.Object {
	if p == nil {
		return nil
	}
	return any(p).(client.Object)
}

// Put creates or replaces an object (a deep copy is stored), bumps the resource version and emits
// the watch event.
func (s *boxStore) Put(o client.Object) {
	get, set, _ := s.slot(o)
	k := boxKey(o)
	old := get(k)
	n := o.DeepCopyObject().(client.Object)
	s.rv++
	n.SetResourceVersion(fmt.Sprint(s.rv))
	if old != nil {
		n.SetGeneration(old.GetGeneration())
		if boxSpecChanged(old, n) {
			n.SetGeneration(old.GetGeneration() + 1)
		}
	} else {
		n.SetGeneration(1)
	}
	set(k, n)
	if s.onEvent != nil {
		s.onEvent(boxKind(o), types.NamespacedName{Namespace: o.GetNamespace(), Name: o.GetName()}, old, n)
	}
}

func (s *boxStore) Delete(o client.Object) {
	get, _, del := s.slot(o)
	k := boxKey(o)
	old := get(k)
	if old == nil {
		return
	}
	s.rv++
	del(k)
	if s.onEvent != nil {
		s.onEvent(boxKind(o), types.NamespacedName{Namespace: o.GetNamespace(), Name: o.GetName()}, old, nil)
	}
}

func boxSpecChanged(old, n client.Object) bool {
	ov := reflect.ValueOf(old).Elem().FieldByName("Spec")
	nv := reflect.ValueOf(n).Elem().FieldByName("Spec")
	if !ov.IsValid() || !nv.IsValid() {
		return false
	}
	return !reflect.DeepEqual(ov.Interface(), nv.Interface())
}

// all objects of the store (for the initial adds after a boot)
func (s *boxStore) all() []client.Object {
	var out []client.Object
	add := func(k []string, get func(string) client.Object) {
		sort.Strings(k)
		for _, x := range k {
			out = append(out, get(x))
		}
	}
	add(vfSortedKeys(s.Services), func(k string) client.Object { return s.Services[k] })
	add(vfSortedKeys(s.Slices), func(k string) client.Object { return s.Slices[k] })
	add(vfSortedKeys(s.Pools), func(k string) client.Object { return s.Pools[k] })
	add(vfSortedKeys(s.L2Advs), func(k string) client.Object { return s.L2Advs[k] })
	add(vfSortedKeys(s.BGPAdvs), func(k string) client.Object { return s.BGPAdvs[k] })
	add(vfSortedKeys(s.Peers), func(k string) client.Object { return s.Peers[k] })
	add(vfSortedKeys(s.Communities), func(k string) client.Object { return s.Communities[k] })
	add(vfSortedKeys(s.BFDs), func(k string) client.Object { return s.BFDs[k] })
	add(vfSortedKeys(s.Nodes), func(k string) client.Object { return s.Nodes[k] })
	add(vfSortedKeys(s.Namespaces), func(k string) client.Object { return s.Namespaces[k] })
	add(vfSortedKeys(s.Secrets), func(k string) client.Object { return s.Secrets[k] })
	add(vfSortedKeys(s.ConfigMaps), func(k string) client.Object { return s.ConfigMaps[k] })
	return out
}

// ---------------------------------------------------------------- work queue (client-go semantics)

type boxQueue struct {
	queue      []ctrl.Request
	dirty      map[ctrl.Request]bool
	processing map[ctrl.Request]bool
}

func newBoxQueue() *boxQueue {
	return &boxQueue{dirty: map[ctrl.Request]bool{}, processing: map[ctrl.Request]bool{}}
}

func (q *boxQueue) Add(r ctrl.Request) {
	if q.dirty[r] {
		return
	}
	q.dirty[r] = true
	if q.processing[r] {
		return
	}
	q.queue = append(q.queue, r)
}

func (q *boxQueue) Len() int { return len(q.queue) }

func (q *boxQueue) Get() ctrl.Request {
	r := q.queue[0]
	q.queue = q.queue[1:]
	q.processing[r] = true
	delete(q.dirty, r)
	return r
}

func (q *boxQueue) Done(r ctrl.Request) {
	delete(q.processing, r)
	if q.dirty[r] {
		q.queue = append(q.queue, r)
	}
}

// ---------------------------------------------------------------- kernel

type boxDie struct{}

type boxRec struct {
	name      string
	reconcile func(context.Context, ctrl.Request) (ctrl.Result, error)
	q         *boxQueue
	retries   []ctrl.Request
	state     int // 0 idle, 1 running, 2 parked
	resume    chan bool
	cur       ctrl.Request
	parkedAt  string
	reconciles int
}

type boxMsg struct {
	rec    *boxRec
	parked bool
	err    error
	died   bool
	panicV any
	stack  string
}

type boxUserEvent struct {
	Kind  string
	Apply func(s *boxStore) string // applies the event to the store, returns its description
}

type boxEnq struct {
	Rec string
	Req ctrl.Request
}

type boxKernel struct {
	c     *vfCase
	sched *vfRand
	Store *boxStore
	recs  map[string]*boxRec
	order []string
	back  chan boxMsg

	// Route maps a watch event to queue additions (predicates included). Set by the package harness.
	Route func(kind string, key types.NamespacedName, old, new client.Object) []boxEnq
	// Boot builds a fresh instance (controller / speaker + reconcilers) and registers its
	// reconcilers with AddReconciler. Called at start and after every crash.
	Boot func(k *boxKernel)
	// AfterStep runs after every scheduler step (drain channels etc.).
	AfterStep func(k *boxKernel)

	Pending []boxUserEvent // user events not yet injected
	Points  int            // crash points passed so far (yield points + explicit ones)
	CrashAt int            // crash when Points reaches this value (0 = never)
	crashReq bool
	Crashes  int
	Steps    int
	Fatal    bool
	Booting    bool // true while the initial adds of a (re)started instance are delivered
	Generation int // instance generation (incremented at every boot)
	StickyNum, StickyDen int // probability of continuing the worker that just parked
	lastRec  string
	sig      []byte // scheduler choice sequence (for distinct-interleaving counting)
	// LastEvent is the kind of the user event injected most recently; Events all kinds so far.
	LastEvent string
	Events    []string
	// ListOrderRand drives the order of List results.
	listRand *vfRand
	// FailServiceLists: that many of the next listings of all Services fail.
	FailServiceLists int
	// OnStatusWrite is called after a status sub-resource write was applied.
	OnStatusWrite func(rec string, obj client.Object)
	// OnDone is called when a reconcile returned (not when it was killed by a crash).
	OnDone func(rec string, req ctrl.Request, err error)
	// OnCrash is called at the crash instant, before the new instance boots.
	OnCrash func()
	// PointLabels records the label of every crash point (dry runs use it to pick crash indices).
	RecordLabels bool
	PointLabels  []string
	// hook for the harness to observe every List (kind -> objects as returned)
	OnList func(rec string, kind string, items []client.Object)
}

func newBoxKernel(c *vfCase, schedSeed uint64) *boxKernel {
	k := &boxKernel{c: c, sched: vfNewRand(schedSeed), Store: newBoxStore(), recs: map[string]*boxRec{}, back: make(chan boxMsg),
		StickyNum: 3, StickyDen: 4, listRand: vfNewRand(schedSeed ^ 0x5555)}
	k.Store.onEvent = func(kind string, key types.NamespacedName, old, new client.Object) {
		if k.Route == nil {
			return
		}
		for _, e := range k.Route(kind, key, old, new) {
			k.Enqueue(e.Rec, e.Req)
		}
	}
	return k
}

func (k *boxKernel) AddReconciler(name string, fn func(context.Context, ctrl.Request) (ctrl.Result, error)) {
	k.recs[name] = &boxRec{name: name, reconcile: fn, q: newBoxQueue(), resume: make(chan bool)}
	k.order = append(k.order, name)
}

// Current returns the request the reconciler is working on (valid inside its handler).
func (k *boxKernel) Current(rec string) ctrl.Request {
	if r := k.recs[rec]; r != nil {
		return r.cur
	}
	return ctrl.Request{}
}

func (k *boxKernel) Enqueue(rec string, req ctrl.Request) {
	if r := k.recs[rec]; r != nil {
		r.q.Add(req)
	}
}

// Start boots the first instance and delivers the initial adds.
func (k *boxKernel) Start() {
	k.boot()
}

func (k *boxKernel) boot() {
	k.Booting = true
	defer func() { k.Booting = false }()
	k.recs = map[string]*boxRec{}
	k.order = nil
	k.Generation++
	k.Boot(k)
	objs := k.Store.all()
	vfShuffle(k.sched, objs)
	for _, o := range objs {
		for _, e := range k.Route(boxKind(o), types.NamespacedName{Namespace: o.GetNamespace(), Name: o.GetName()}, nil, o) {
			k.Enqueue(e.Rec, e.Req)
		}
	}
}

// Yield parks the calling reconciler goroutine; the scheduler decides who runs next.
func (k *boxKernel) Yield(rec, label string) {
	r := k.recs[rec]
	if r == nil || r.state != 1 {
		return // not under the scheduler (direct call from a monitor)
	}
	k.Points++
	if k.RecordLabels {
		k.PointLabels = append(k.PointLabels, rec+":"+label)
	}
	if k.CrashAt != 0 && k.Points == k.CrashAt {
		k.crashReq = true
		k.c.Logf("   crash requested at point %d (%s yield %s)", k.Points, rec, label)
	}
	r.parkedAt = label
	r.state = 2
	k.back <- boxMsg{rec: r, parked: true}
	if ok := <-r.resume; !ok {
		panic(boxDie{})
	}
}

// CrashPoint is a crash opportunity where the goroutine cannot be parked (inside a handler).
func (k *boxKernel) CrashPoint(label string) {
	k.Points++
	if k.RecordLabels {
		k.PointLabels = append(k.PointLabels, label)
	}
	if k.CrashAt != 0 && k.Points == k.CrashAt {
		k.crashReq = true
		k.c.Logf("   crash at point %d (%s)", k.Points, label)
		panic(boxDie{})
	}
}

func (k *boxKernel) launch(r *boxRec) {
	req := r.q.Get()
	r.cur = req
	r.state = 1
	r.reconciles++
	gen := k.Generation
	go func() {
		var err error
		defer func() {
			if p := recover(); p != nil {
				if _, ok := p.(boxDie); ok {
					k.back <- boxMsg{rec: r, died: true}
					return
				}
				k.back <- boxMsg{rec: r, panicV: p, stack: string(debug.Stack())}
				return
			}
			k.back <- boxMsg{rec: r, err: err}
		}()
		_ = gen
		_, err = r.reconcile(context.Background(), req)
	}()
	k.wait()
}

func (k *boxKernel) resumeRec(r *boxRec) {
	r.state = 1
	r.resume <- true
	k.wait()
}

// wait blocks until the running goroutine parks or finishes.
func (k *boxKernel) wait() {
	m := <-k.back
	r := m.rec
	switch {
	case m.parked:
		// state already 2
	case m.died:
		r.state = 0
	case m.panicV != nil:
		r.state = 0
		k.Fatal = true
		k.c.Violation("panic:"+vfPanicSite(m.stack), fmt.Sprintf("panic in reconciler %s: %v", r.name, m.panicV), map[string]any{"stack": vfTrimStack(m.stack)})
	default:
		r.state = 0
		r.q.Done(r.cur)
		if m.err != nil {
			r.retries = append(r.retries, r.cur)
		}
		if k.OnDone != nil {
			k.OnDone(r.name, r.cur, m.err)
		}
	}
	if k.AfterStep != nil {
		k.AfterStep(k)
	}
	if k.crashReq {
		k.doCrash()
	}
}

func (k *boxKernel) doCrash() {
	k.crashReq = false
	k.Crashes++
	if k.OnCrash != nil {
		k.OnCrash()
	}
	for _, n := range k.order {
		r := k.recs[n]
		if r.state == 2 {
			r.resume <- false
			m := <-k.back
			_ = m
			r.state = 0
		}
	}
	k.c.Logf("   === crash #%d: new instance boots", k.Crashes)
	k.boot()
}

// Crash kills the instance now (between steps) and boots a new one.
func (k *boxKernel) Crash() {
	k.doCrash()
}

type boxChoice struct {
	kind int // 0 inject, 1 launch, 2 resume, 3 retry
	rec  *boxRec
	idx  int
}

func (k *boxKernel) choices(allowInject bool) []boxChoice {
	var cs []boxChoice
	if allowInject && len(k.Pending) > 0 {
		cs = append(cs, boxChoice{kind: 0})
	}
	for _, n := range k.order {
		r := k.recs[n]
		switch r.state {
		case 0:
			if r.q.Len() > 0 {
				cs = append(cs, boxChoice{kind: 1, rec: r})
			}
		case 2:
			cs = append(cs, boxChoice{kind: 2, rec: r})
		}
		for i := range r.retries {
			cs = append(cs, boxChoice{kind: 3, rec: r, idx: i})
		}
	}
	return cs
}

// Step executes one scheduler choice. Returns false when nothing can run.
func (k *boxKernel) Step(allowInject bool) bool {
	if k.Fatal {
		return false
	}
	cs := k.choices(allowInject)
	if len(cs) == 0 {
		return false
	}
	var ch boxChoice
	picked := false
	// stickiness: mostly let the reconciler that ran last continue, so that most reconciles finish
	// quickly and interleavings stay short but diverse
	if k.lastRec != "" && k.sched.Chance(k.StickyNum, k.StickyDen) {
		for _, c := range cs {
			if c.kind == 2 && c.rec.name == k.lastRec {
				ch, picked = c, true
				break
			}
		}
	}
	if !picked {
		ch = cs[k.sched.Intn(len(cs))]
	}
	k.Steps++
	switch ch.kind {
	case 0:
		ev := k.Pending[0]
		k.Pending = k.Pending[1:]
		k.sig = append(k.sig, 'E')
		desc := ev.Apply(k.Store)
		k.LastEvent = ev.Kind
		k.Events = append(k.Events, ev.Kind)
		k.c.Logf("EVENT %s: %s", ev.Kind, desc)
		k.Points++
		if k.RecordLabels {
			k.PointLabels = append(k.PointLabels, "after-event")
		}
		if k.CrashAt != 0 && k.Points == k.CrashAt {
			k.c.Logf("   crash at point %d (after event)", k.Points)
			k.doCrash()
		}
	case 1:
		k.lastRec = ch.rec.name
		k.sig = append(k.sig, 'L', ch.rec.name[0])
		k.c.Logf(" run %s %s", ch.rec.name, ch.rec.q.queue[0].String())
		k.launch(ch.rec)
	case 2:
		k.lastRec = ch.rec.name
		k.sig = append(k.sig, 'R', ch.rec.name[0])
		k.resumeRec(ch.rec)
	case 3:
		r := ch.rec
		req := r.retries[ch.idx]
		r.retries = append(r.retries[:ch.idx], r.retries[ch.idx+1:]...)
		k.sig = append(k.sig, 'T', r.name[0])
		r.q.Add(req)
	}
	return true
}

// Settle runs until nothing is left to do (without injecting user events unless inject is set).
// Returns false if maxSteps was exhausted first.
func (k *boxKernel) Settle(inject bool, maxSteps int) bool {
	for i := 0; i < maxSteps; i++ {
		if !k.Step(inject) {
			return !k.Fatal
		}
	}
	return false
}

func (k *boxKernel) Quiescent() bool {
	return len(k.choices(true)) == 0
}

// Kill unwinds parked goroutines at the end of a case (nothing may leak into the next case).
func (k *boxKernel) Kill() {
	for _, n := range k.order {
		r := k.recs[n]
		if r.state == 2 {
			r.resume <- false
			<-k.back
			r.state = 0
		}
	}
}

func (k *boxKernel) ScheduleSignature() string { return string(k.sig) }

// ---------------------------------------------------------------- client

// boxClient is the client.Client handed to a reconciler. Only Get and List are implemented; any other
// call panics on the nil embedded interface (the reconcilers under test never make one).
type boxClient struct {
	client.Client
	k   *boxKernel
	rec string
}

func (k *boxKernel) ClientFor(rec string) client.Client { return &boxClient{k: k, rec: rec} }

func (b *boxClient) Get(ctx context.Context, key client.ObjectKey, obj client.Object, opts ...client.GetOption) error {
	b.k.Yield(b.rec, "get")
	get, _, _ := b.k.Store.slot(obj)
	kk := key.Name
	if key.Namespace != "" {
		kk = key.Namespace + "/" + key.Name
	}
	cur := get(kk)
	if cur == nil {
		return apierrors.NewNotFound(schema.GroupResource{Resource: boxKind(obj)}, key.Name)
	}
	cp := cur.DeepCopyObject()
	reflect.ValueOf(obj).Elem().Set(reflect.ValueOf(cp).Elem())
	return nil
}

func (b *boxClient) List(ctx context.Context, list client.ObjectList, opts ...client.ListOption) error {
	b.k.Yield(b.rec, "list")
	lo := &client.ListOptions{}
	for _, o := range opts {
		o.ApplyToList(lo)
	}
	s := b.k.Store
	var items []client.Object
	switch l := list.(type) {
	case *corev1.ServiceList:
		if b.k.FailServiceLists > 0 {
			// an API failure: the listing of all Services (the reload of a starting controller) is refused
			b.k.FailServiceLists--
			b.k.c.Logf("   List(services) by %s fails (injected)", b.rec)
			return apierrors.NewServiceUnavailable("injected: the API server refused the list")
		}
		for _, k := range vfShuffled(b.k.listRand, vfSortedKeys(s.Services)) {
			l.Items = append(l.Items, *s.Services[k].DeepCopy())
			items = append(items, s.Services[k])
		}
	case *discovery.EndpointSliceList:
		want := ""
		if lo.FieldSelector != nil {
			if v, ok := lo.FieldSelector.RequiresExactMatch("ServiceName"); ok {
				want = v
			}
		}
		for _, k := range vfShuffled(b.k.listRand, vfSortedKeys(s.Slices)) {
			sl := s.Slices[k]
			if want != "" && sl.Namespace+"/"+sl.Labels["kubernetes.io/service-name"] != want {
				continue
			}
			l.Items = append(l.Items, *sl.DeepCopy())
			items = append(items, sl)
		}
	case *metallbv1beta1.IPAddressPoolList:
		for _, k := range vfShuffled(b.k.listRand, vfSortedKeys(s.Pools)) {
			l.Items = append(l.Items, *s.Pools[k].DeepCopy())
			items = append(items, s.Pools[k])
		}
	case *metallbv1beta1.L2AdvertisementList:
		for _, k := range vfShuffled(b.k.listRand, vfSortedKeys(s.L2Advs)) {
			l.Items = append(l.Items, *s.L2Advs[k].DeepCopy())
			items = append(items, s.L2Advs[k])
		}
	case *metallbv1beta1.BGPAdvertisementList:
		for _, k := range vfShuffled(b.k.listRand, vfSortedKeys(s.BGPAdvs)) {
			l.Items = append(l.Items, *s.BGPAdvs[k].DeepCopy())
			items = append(items, s.BGPAdvs[k])
		}
	case *metallbv1beta2.BGPPeerList:
		for _, k := range vfShuffled(b.k.listRand, vfSortedKeys(s.Peers)) {
			l.Items = append(l.Items, *s.Peers[k].DeepCopy())
			items = append(items, s.Peers[k])
		}
	case *metallbv1beta1.CommunityList:
		for _, k := range vfShuffled(b.k.listRand, vfSortedKeys(s.Communities)) {
			l.Items = append(l.Items, *s.Communities[k].DeepCopy())
			items = append(items, s.Communities[k])
		}
	case *metallbv1beta1.BFDProfileList:
		for _, k := range vfShuffled(b.k.listRand, vfSortedKeys(s.BFDs)) {
			l.Items = append(l.Items, *s.BFDs[k].DeepCopy())
			items = append(items, s.BFDs[k])
		}
	case *corev1.NodeList:
		for _, k := range vfShuffled(b.k.listRand, vfSortedKeys(s.Nodes)) {
			l.Items = append(l.Items, *s.Nodes[k].DeepCopy())
			items = append(items, s.Nodes[k])
		}
	case *corev1.NamespaceList:
		for _, k := range vfShuffled(b.k.listRand, vfSortedKeys(s.Namespaces)) {
			l.Items = append(l.Items, *s.Namespaces[k].DeepCopy())
			items = append(items, s.Namespaces[k])
		}
	case *corev1.SecretList:
		for _, k := range vfShuffled(b.k.listRand, vfSortedKeys(s.Secrets)) {
			l.Items = append(l.Items, *s.Secrets[k].DeepCopy())
			items = append(items, s.Secrets[k])
		}
	case *corev1.ConfigMapList:
		for _, k := range vfShuffled(b.k.listRand, vfSortedKeys(s.ConfigMaps)) {
			l.Items = append(l.Items, *s.ConfigMaps[k].DeepCopy())
			items = append(items, s.ConfigMaps[k])
		}
	default:
		panic(fmt.Sprintf("box client: List of %T not supported", list))
	}
	if b.k.OnList != nil {
		b.k.OnList(b.rec, fmt.Sprintf("%T", list), items)
	}
	return nil
}

// ---------------------------------------------------------------- status sub-resource (IPAddressPool only)

type boxStatusWriter struct {
	client.SubResourceWriter
	b *boxClient
}

func (b *boxClient) Status() client.SubResourceWriter { return &boxStatusWriter{b: b} }

func (w *boxStatusWriter) Update(ctx context.Context, obj client.Object, opts ...client.SubResourceUpdateOption) error {
	w.b.k.Yield(w.b.rec, "status-update")
	p, ok := obj.(*metallbv1beta1.IPAddressPool)
	if !ok {
		panic(fmt.Sprintf("box client: Status().Update of %T not supported", obj))
	}
	s := w.b.k.Store
	cur := s.Pools[boxKey(p)]
	if cur == nil {
		return apierrors.NewNotFound(schema.GroupResource{Resource: "ipaddresspools"}, p.Name)
	}
	if cur.ResourceVersion != p.ResourceVersion {
		return apierrors.NewConflict(schema.GroupResource{Resource: "ipaddresspools"}, p.Name, fmt.Errorf("the object has been modified"))
	}
	n := cur.DeepCopy()
	n.Status = p.Status
	s.Put(n)
	if w.b.k.OnStatusWrite != nil {
		w.b.k.OnStatusWrite(w.b.rec, n)
	}
	return nil
}
