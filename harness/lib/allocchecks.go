//go:build verif

// Monitors over a snapshot of the allocator's bookkeeping, shared by the allocator-API harness
// (package allocator) and the controller box (package main). Each package converts its
// allocator.VerifSnapshot into the plain vfSnap below.
package vfcommon

import (
	"fmt"
	"math"
	"reflect"
	"sort"
	"strings"
)

type vfSnapAlloc struct {
	Pool       string
	IPs        []string
	Ports      []string
	SharingKey string
	BackendKey string
}

type vfSnap struct {
	Allocated       map[string]vfSnapAlloc
	SharingKeyForIP map[string][2]string
	PortsInUse      map[string]map[string]string
	ServicesOnIP    map[string][]string
	PoolIPsInUse    map[string]map[string]int
	PoolIPV4InUse   map[string]map[string]int
	PoolIPV6InUse   map[string]map[string]int
	PoolNames       []string
	Counters        map[string][4]int64 // assigned4, assigned6, available4, available6
}

func vfSnapDiff(a, b vfSnap, ignoreCounters bool) string {
	type f struct {
		name string
		x, y any
	}
	fs := []f{
		{"allocated", a.Allocated, b.Allocated}, {"sharingKeyForIP", a.SharingKeyForIP, b.SharingKeyForIP},
		{"portsInUse", a.PortsInUse, b.PortsInUse}, {"servicesOnIP", a.ServicesOnIP, b.ServicesOnIP},
		{"poolIPsInUse", a.PoolIPsInUse, b.PoolIPsInUse}, {"poolIPV4InUse", a.PoolIPV4InUse, b.PoolIPV4InUse},
		{"poolIPV6InUse", a.PoolIPV6InUse, b.PoolIPV6InUse},
	}
	if !ignoreCounters {
		fs = append(fs, f{"counters", a.Counters, b.Counters})
	}
	for _, x := range fs {
		if !reflect.DeepEqual(x.x, x.y) {
			return fmt.Sprintf("%s: %v != %v", x.name, x.x, x.y)
		}
	}
	return ""
}

func vfDiffField(d string) string {
	if i := strings.Index(d, ":"); i > 0 {
		return d[:i]
	}
	return d
}

func vfMapOrEmpty(m map[string]string) map[string]string {
	if m == nil {
		return map[string]string{}
	}
	return m
}

// vfCheckExclusivity is the C01 step monitor on the allocator's memory: pairwise sharing rule by
// the recorded keys/ports, by the recorded Service specs (if known), and coherence of the maps.
func vfCheckExclusivity(c *vfCase, snap vfSnap, recorded map[string]*vfSvcReq) {
	byIP := map[string][]string{}
	for svc, al := range snap.Allocated {
		for _, ip := range al.IPs {
			byIP[ip] = append(byIP[ip], svc)
		}
	}
	shared := false
	for _, ip := range vfSortedKeys(byIP) {
		hs := byIP[ip]
		sort.Strings(hs)
		c.Eval()
		if len(hs) >= 2 {
			shared = true
			var desc []string
			for _, h := range hs {
				al := snap.Allocated[h]
				desc = append(desc, fmt.Sprintf("%s/%s/%v", al.SharingKey, al.BackendKey, al.Ports))
			}
			sort.Strings(desc)
			c.Nontrivial("share:" + strings.Join(desc, "+"))
		}
		overlap := false
		for x := 0; x < len(hs); x++ {
			for y := x + 1; y < len(hs); y++ {
				a, b := snap.Allocated[hs[x]], snap.Allocated[hs[y]]
				why := ""
				switch {
				case a.SharingKey == "" || b.SharingKey == "":
					why = "no-sharing-key"
				case a.SharingKey != b.SharingKey:
					why = "different-sharing-keys"
				case a.BackendKey != b.BackendKey:
					why = "different-backends"
				default:
					for _, p := range a.Ports {
						for _, q := range b.Ports {
							if p == q {
								why = "overlapping-ports"
							}
						}
					}
				}
				if why == "overlapping-ports" {
					overlap = true
				}
				if why != "" {
					c.Violation("exclusivity:"+why, fmt.Sprintf("address %s is held by %s (key %q backend %q ports %v) and %s (key %q backend %q ports %v)",
						ip, hs[x], a.SharingKey, a.BackendKey, a.Ports, hs[y], b.SharingKey, b.BackendKey, b.Ports), nil)
				}
				ra, rb := recorded[hs[x]], recorded[hs[y]]
				if ra != nil && rb != nil && !vfShareOK(ra, rb) {
					c.Violation("share:"+vfShareWhyNot(ra, rb), fmt.Sprintf("address %s is shared by %s (key %q ports %v local=%v selector %q) and %s (key %q ports %v local=%v selector %q), which may not share it",
						ip, hs[x], ra.ShareKey, vfSortedKeys(ra.Ports), ra.Local, ra.Selector, hs[y], rb.ShareKey, vfSortedKeys(rb.Ports), rb.Local, rb.Selector), nil)
				}
			}
		}
		want := map[string]string{}
		for _, h := range hs {
			for _, p := range snap.Allocated[h].Ports {
				want[p] = h
			}
		}
		if !overlap && !reflect.DeepEqual(want, vfMapOrEmpty(snap.PortsInUse[ip])) {
			c.Violation("incoherent:portsInUse", fmt.Sprintf("address %s: portsInUse=%v but holders declare %v", ip, snap.PortsInUse[ip], want), nil)
		}
		if !reflect.DeepEqual(hs, snap.ServicesOnIP[ip]) {
			c.Violation("incoherent:servicesOnIP", fmt.Sprintf("address %s: servicesOnIP=%v but holders are %v", ip, snap.ServicesOnIP[ip], hs), nil)
		}
		if k, ok := snap.SharingKeyForIP[ip]; !ok {
			if len(want) > 0 {
				c.Violation("incoherent:sharingKeyForIP-missing", fmt.Sprintf("address %s held by %v has no recorded sharing key", ip, hs), nil)
			}
		} else if len(hs) > 1 {
			for _, h := range hs {
				al := snap.Allocated[h]
				if al.SharingKey != k[0] || al.BackendKey != k[1] {
					c.Violation("incoherent:sharingKeyForIP", fmt.Sprintf("address %s records key %v but holder %s has (%q,%q)", ip, k, h, al.SharingKey, al.BackendKey), nil)
				}
			}
		}
	}
	for ip := range snap.ServicesOnIP {
		if len(byIP[ip]) == 0 {
			c.Violation("incoherent:ghost-servicesOnIP", fmt.Sprintf("address %s has servicesOnIP=%v but nobody holds it", ip, snap.ServicesOnIP[ip]), nil)
		}
	}
	for ip := range snap.PortsInUse {
		if len(byIP[ip]) == 0 {
			c.Violation("incoherent:ghost-portsInUse", fmt.Sprintf("address %s has portsInUse=%v but nobody holds it", ip, snap.PortsInUse[ip]), nil)
		}
	}
	for ip := range snap.SharingKeyForIP {
		if len(byIP[ip]) == 0 {
			c.Violation("incoherent:ghost-sharingKey", fmt.Sprintf("address %s keeps a sharing key but nobody holds it", ip), nil)
		}
	}
	if shared {
		c.Count("step-checks-with-shared-address")
	}
}

func vfLayoutClass(p *vfMPool) string {
	cls := "plain"
	for _, s := range p.Strs {
		switch {
		case strings.HasPrefix(s, "::ffff:"):
			return "ipv4-mapped"
		case strings.HasSuffix(s, "/64") || strings.HasSuffix(s, "/48") || strings.HasSuffix(s, "/66") || strings.Contains(s, "ffff:ffff:ffff:ffff"):
			cls = "astronomical-ipv6"
		case (strings.HasSuffix(s, ".0/32") || strings.HasSuffix(s, ".255/32")) && p.AvoidBuggy && cls == "plain":
			cls = "single-buggy-address"
		case strings.HasSuffix(s, "/31") || strings.HasSuffix(s, "/32") || strings.HasSuffix(s, "/127") || strings.HasSuffix(s, "/128"):
			if cls == "plain" {
				cls = "tiny-block"
			}
		}
	}
	if cls == "astronomical-ipv6" && len(p.Strs) > 1 {
		cls = "astronomical-ipv6+other"
	}
	return cls
}

// vfCheckCounters is the C11 counting oracle: per pool assigned == distinct in-use addresses of the
// family, assigned+available == usable addresses (saturating), nothing negative.
func vfCheckCounters(c *vfCase, snap vfSnap, model map[string]*vfMPool) {
	for _, pn := range snap.PoolNames {
		p := model[pn]
		if p == nil {
			continue
		}
		ctr, ok := snap.Counters[pn]
		if !ok {
			c.Violation("counters:missing", fmt.Sprintf("pool %s has no counters", pn), nil)
			continue
		}
		used4, used6 := map[string]bool{}, map[string]bool{}
		for _, al := range snap.Allocated {
			for _, ip := range al.IPs {
				if !p.Contains(ip) {
					continue
				}
				if _, f, _ := vfCanonIP(ip); f == 4 {
					used4[ip] = true
				} else {
					used6[ip] = true
				}
			}
		}
		layout := vfLayoutClass(p)
		c.Eval()
		c.Distinct("pool-layouts", strings.Join(p.Strs, ";")+fmt.Sprint(p.AvoidBuggy))
		c.Count("counter-checks:" + layout)
		c.Nontrivial(fmt.Sprintf("%v|%v|%d|%d", p.Strs, p.AvoidBuggy, len(used4), len(used6)))
		if ctr[0] < 0 || ctr[1] < 0 || ctr[2] < 0 || ctr[3] < 0 {
			c.Violation("counters:negative:"+layout, fmt.Sprintf("pool %s %v avoidBuggy=%v reports assigned v4=%d v6=%d available v4=%d v6=%d", pn, p.Strs, p.AvoidBuggy, ctr[0], ctr[1], ctr[2], ctr[3]), nil)
			continue
		}
		if ctr[0] != int64(len(used4)) || ctr[1] != int64(len(used6)) {
			c.Violation("counters:assigned-wrong", fmt.Sprintf("pool %s reports assigned v4=%d v6=%d but %d / %d distinct addresses are in use", pn, ctr[0], ctr[1], len(used4), len(used6)), nil)
		}
		for _, fam := range []int{4, 6} {
			exact, astro := p.UsableCount(fam)
			got := ctr[0] + ctr[2]
			if fam == 6 {
				got = ctr[1] + ctr[3]
			}
			okExact := exact.IsInt64() && exact.Int64() == got
			okSat := (astro || !exact.IsInt64()) && got == math.MaxInt64
			if !okExact && !okSat {
				c.Violation("counters:total-wrong:"+layout, fmt.Sprintf("pool %s %v avoidBuggy=%v family %d: assigned+available=%d, usable addresses=%s (astronomical=%v)", pn, p.Strs, p.AvoidBuggy, fam, got, exact, astro), nil)
			}
		}
	}
}

// vfCheckRebuild compares the bookkeeping with that of a freshly rebuilt allocator.
func vfCheckRebuild(c *vfCase, snap, fresh vfSnap) {
	c.Eval()
	if d := vfSnapDiff(snap, fresh, false); d != "" {
		c.Violation("rebuild-differs:"+vfDiffField(d), "allocator bookkeeping differs from a fresh rebuild of the surviving assignments: "+d, nil)
	}
	for _, l := range snap.ServicesOnIP {
		if len(l) > 1 {
			c.Count("rebuild-compared-with-shared-address")
			break
		}
	}
}
