//go:build verif

// Interval arithmetic over addresses, independent of MetalLB's net.IPNet / ipaddr code.
// Addresses live in one space: family 4 (32 bit) or family 6 (128 bit); IPv4-mapped IPv6 addresses
// are normalised to family 4.
package vfcommon

import (
	"fmt"
	"math/big"
	"net"
	"net/netip"
	"sort"
	"strings"
)

type vfIval struct {
	Fam    int // 4 or 6
	Lo, Hi *big.Int
}

func (i vfIval) String() string {
	return fmt.Sprintf("%s-%s", vfAddrString(i.Fam, i.Lo), vfAddrString(i.Fam, i.Hi))
}

func vfAddrString(fam int, v *big.Int) string {
	if fam == 4 {
		b := v.FillBytes(make([]byte, 4))
		return net.IP(b).String()
	}
	b := v.FillBytes(make([]byte, 16))
	a, _ := netip.AddrFromSlice(b)
	return a.String()
}

// vfAddr converts an address to (family, value) with 4in6 normalised to family 4.
func vfAddr(a netip.Addr) (int, *big.Int) {
	a = a.Unmap()
	if a.Is4() {
		b := a.As4()
		return 4, new(big.Int).SetBytes(b[:])
	}
	b := a.As16()
	return 6, new(big.Int).SetBytes(b[:])
}

func vfAddrOfIP(ip net.IP) (int, *big.Int, bool) {
	a, ok := netip.AddrFromSlice(ip)
	if !ok {
		return 0, nil, false
	}
	f, v := vfAddr(a)
	return f, v, true
}

func vfParseAddr(s string) (int, *big.Int, bool) {
	a, err := netip.ParseAddr(strings.TrimSpace(s))
	if err != nil || a.Zone() != "" {
		return 0, nil, false
	}
	f, v := vfAddr(a)
	return f, v, true
}

func vfBits(fam int) int {
	if fam == 4 {
		return 32
	}
	return 128
}

// vfPrefixIval is the interval of addresses sharing the first plen bits with v.
func vfPrefixIval(fam int, v *big.Int, plen int) vfIval {
	bits := vfBits(fam)
	if plen > bits {
		plen = bits
	}
	if plen < 0 {
		plen = 0
	}
	host := uint(bits - plen)
	lo := new(big.Int).Rsh(v, host)
	lo.Lsh(lo, host)
	span := new(big.Int).Lsh(big.NewInt(1), host)
	hi := new(big.Int).Add(lo, span)
	hi.Sub(hi, big.NewInt(1))
	return vfIval{Fam: fam, Lo: lo, Hi: hi}
}

const (
	vfAddrCIDR   = "cidr"
	vfAddrRange  = "range"
	vfAddrMixed  = "mixed-family-range"
	vfAddrBad    = "unparsable"
	vfAddrBackwd = "backward-range"
)

// vfParsePoolAddress is the oracle's reading of one IPAddressPool address string.
// kind is one of the vfAddr* constants; for cidr also the prefix length in the normalised family.
func vfParsePoolAddress(s string) (kind string, iv vfIval, plen int) {
	if strings.Contains(s, "-") {
		fs := strings.SplitN(s, "-", 2)
		f1, lo, ok1 := vfParseAddr(fs[0])
		f2, hi, ok2 := vfParseAddr(fs[1])
		if !ok1 || !ok2 {
			return vfAddrBad, vfIval{}, 0
		}
		if f1 != f2 {
			return vfAddrMixed, vfIval{}, 0
		}
		if lo.Cmp(hi) > 0 {
			return vfAddrBackwd, vfIval{}, 0
		}
		return vfAddrRange, vfIval{Fam: f1, Lo: lo, Hi: hi}, 0
	}
	i := strings.LastIndex(s, "/")
	if i < 0 {
		return vfAddrBad, vfIval{}, 0
	}
	a, err := netip.ParseAddr(s[:i])
	if err != nil || a.Zone() != "" {
		return vfAddrBad, vfIval{}, 0
	}
	n := 0
	if len(s[i+1:]) == 0 || len(s[i+1:]) > 3 {
		return vfAddrBad, vfIval{}, 0
	}
	for _, ch := range s[i+1:] {
		if ch < '0' || ch > '9' {
			return vfAddrBad, vfIval{}, 0
		}
		n = n*10 + int(ch-'0')
	}
	if a.Is4() {
		if n > 32 {
			return vfAddrBad, vfIval{}, 0
		}
		f, v := vfAddr(a)
		return vfAddrCIDR, vfPrefixIval(f, v, n), n
	}
	if n > 128 {
		return vfAddrBad, vfIval{}, 0
	}
	// an IPv6-notation prefix: compute in 128-bit space, then normalise if it is entirely inside
	// ::ffff:0:0/96.
	b := a.As16()
	v := new(big.Int).SetBytes(b[:])
	iv6 := vfPrefixIval(6, v, n)
	if a.Is4In6() && n >= 96 {
		_, v4 := vfAddr(a)
		return vfAddrCIDR, vfPrefixIval(4, v4, n-96), n - 96
	}
	return vfAddrCIDR, iv6, n
}

// vfIPNetIval converts a net.IPNet produced by the code under test into an interval.
func vfIPNetIval(n *net.IPNet) (vfIval, bool) {
	ones, bits := n.Mask.Size()
	if bits == 0 {
		return vfIval{}, false
	}
	a, ok := netip.AddrFromSlice(n.IP)
	if !ok {
		return vfIval{}, false
	}
	if bits == 32 {
		if !a.Unmap().Is4() {
			return vfIval{}, false
		}
		_, v := vfAddr(a)
		return vfPrefixIval(4, v, ones), true
	}
	// 128-bit mask
	if a.Is4() {
		a = netip.AddrFrom16(a.As16())
	}
	b := a.As16()
	v := new(big.Int).SetBytes(b[:])
	if a.Is4In6() && ones >= 96 {
		_, v4 := vfAddr(a)
		return vfPrefixIval(4, v4, ones-96), true
	}
	return vfPrefixIval(6, v, ones), true
}

// vfIvalSet is a normalised (sorted, merged) list of intervals.
type vfIvalSet []vfIval

func vfNormalize(in []vfIval) vfIvalSet {
	xs := append([]vfIval(nil), in...)
	sort.Slice(xs, func(i, j int) bool {
		if xs[i].Fam != xs[j].Fam {
			return xs[i].Fam < xs[j].Fam
		}
		return xs[i].Lo.Cmp(xs[j].Lo) < 0
	})
	var out vfIvalSet
	one := big.NewInt(1)
	for _, x := range xs {
		if n := len(out); n > 0 && out[n-1].Fam == x.Fam {
			lim := new(big.Int).Add(out[n-1].Hi, one)
			if x.Lo.Cmp(lim) <= 0 {
				if x.Hi.Cmp(out[n-1].Hi) > 0 {
					out[n-1].Hi = x.Hi
				}
				continue
			}
		}
		out = append(out, vfIval{Fam: x.Fam, Lo: x.Lo, Hi: x.Hi})
	}
	return out
}

func (s vfIvalSet) Equal(o vfIvalSet) bool {
	if len(s) != len(o) {
		return false
	}
	for i := range s {
		if s[i].Fam != o[i].Fam || s[i].Lo.Cmp(o[i].Lo) != 0 || s[i].Hi.Cmp(o[i].Hi) != 0 {
			return false
		}
	}
	return true
}

func (s vfIvalSet) String() string {
	var parts []string
	for _, i := range s {
		parts = append(parts, i.String())
	}
	return "{" + strings.Join(parts, ", ") + "}"
}

func (s vfIvalSet) Contains(fam int, v *big.Int) bool {
	for _, i := range s {
		if i.Fam == fam && i.Lo.Cmp(v) <= 0 && v.Cmp(i.Hi) <= 0 {
			return true
		}
	}
	return false
}

func (s vfIvalSet) ContainsIval(x vfIval) bool {
	for _, i := range s {
		if i.Fam == x.Fam && i.Lo.Cmp(x.Lo) <= 0 && x.Hi.Cmp(i.Hi) <= 0 {
			return true
		}
	}
	return false
}

// Overlap returns a witness interval if the two sets intersect.
func (s vfIvalSet) Overlap(o vfIvalSet) (vfIval, bool) {
	for _, a := range s {
		for _, b := range o {
			if a.Fam != b.Fam {
				continue
			}
			lo := a.Lo
			if b.Lo.Cmp(lo) > 0 {
				lo = b.Lo
			}
			hi := a.Hi
			if b.Hi.Cmp(hi) < 0 {
				hi = b.Hi
			}
			if lo.Cmp(hi) <= 0 {
				return vfIval{Fam: a.Fam, Lo: lo, Hi: hi}, true
			}
		}
	}
	return vfIval{}, false
}

func (s vfIvalSet) HasFam(f int) bool {
	for _, i := range s {
		if i.Fam == f {
			return true
		}
	}
	return false
}

// Count is the number of addresses of family fam (0 = both).
func (s vfIvalSet) Count(fam int) *big.Int {
	n := new(big.Int)
	for _, i := range s {
		if fam != 0 && i.Fam != fam {
			continue
		}
		d := new(big.Int).Sub(i.Hi, i.Lo)
		d.Add(d, big.NewInt(1))
		n.Add(n, d)
	}
	return n
}

// Addrs enumerates the addresses (only for small sets; stops at limit).
func (s vfIvalSet) Addrs(limit int) []string {
	var out []string
	one := big.NewInt(1)
	for _, i := range s {
		for v := new(big.Int).Set(i.Lo); v.Cmp(i.Hi) <= 0; v.Add(v, one) {
			out = append(out, vfAddrString(i.Fam, v))
			if len(out) >= limit {
				return out
			}
		}
	}
	return out
}

// vfIsBuggyV4 tells whether an IPv4 address ends in .0 or .255.
func vfIsBuggyV4(fam int, v *big.Int) bool {
	if fam != 4 {
		return false
	}
	last := new(big.Int).And(v, big.NewInt(255)).Int64()
	return last == 0 || last == 255
}
