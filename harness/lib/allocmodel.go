//go:build verif

// Reference model of MetalLB's allocation rules, written from the statements of C01/C02/C07/C11 over
// the *resources* (IPAddressPool CRs, Namespaces, Services) and interval sets, not over config.Pools.
package vfcommon

import (
	"fmt"
	"math"
	"math/big"
	"sort"
	"strings"

	metallbv1beta1 "go.universe.tf/metallb/api/v1beta1"
	corev1 "k8s.io/api/core/v1"
	metav1 "k8s.io/apimachinery/pkg/apis/meta/v1"
	"k8s.io/apimachinery/pkg/labels"
)

// ---------------------------------------------------------------- pools

type vfMPool struct {
	Name       string
	Strs       []string
	Set        vfIvalSet
	AvoidBuggy bool
	AutoAssign bool
	HasAlloc   bool // serviceAllocation present => "pinned" pool
	Priority   int
	NsRestrict bool // namespaces and/or namespaceSelectors given
	Namespaces map[string]bool
	NsSelOnly  bool // restriction comes from selectors only (no explicit namespace)
	SvcSels    []labels.Selector
	BadParse   bool
}

func vfModelPool(p metallbv1beta1.IPAddressPool, nss []corev1.Namespace) *vfMPool {
	m := &vfMPool{Name: p.Name, Strs: p.Spec.Addresses, AvoidBuggy: p.Spec.AvoidBuggyIPs, AutoAssign: true, Namespaces: map[string]bool{}}
	if p.Spec.AutoAssign != nil {
		m.AutoAssign = *p.Spec.AutoAssign
	}
	var ivs []vfIval
	for _, s := range p.Spec.Addresses {
		kind, iv, _ := vfParsePoolAddress(s)
		if kind != vfAddrCIDR && kind != vfAddrRange {
			m.BadParse = true
			continue
		}
		ivs = append(ivs, iv)
	}
	m.Set = vfNormalize(ivs)
	if at := p.Spec.AllocateTo; at != nil {
		m.HasAlloc = true
		m.Priority = at.Priority
		if len(at.Namespaces) > 0 || len(at.NamespaceSelectors) > 0 {
			m.NsRestrict = true
			m.NsSelOnly = len(at.Namespaces) == 0
			for _, n := range at.Namespaces {
				m.Namespaces[n] = true
			}
			for i := range at.NamespaceSelectors {
				sel, err := metav1.LabelSelectorAsSelector(&at.NamespaceSelectors[i])
				if err != nil {
					continue
				}
				for _, ns := range nss {
					if sel.Matches(labels.Set(ns.Labels)) {
						m.Namespaces[ns.Name] = true
					}
				}
			}
		}
		for i := range at.ServiceSelectors {
			sel, err := metav1.LabelSelectorAsSelector(&at.ServiceSelectors[i])
			if err == nil {
				m.SvcSels = append(m.SvcSels, sel)
			}
		}
	}
	return m
}

func vfModelPools(ps []metallbv1beta1.IPAddressPool, nss []corev1.Namespace) map[string]*vfMPool {
	out := map[string]*vfMPool{}
	for _, p := range ps {
		out[p.Name] = vfModelPool(p, nss)
	}
	return out
}

// Admits: the pool's namespace / service selectors admit the service.
func (p *vfMPool) Admits(ns string, lbls map[string]string) bool {
	if !p.HasAlloc {
		return true
	}
	if p.NsRestrict && !p.Namespaces[ns] {
		return false
	}
	if len(p.SvcSels) > 0 {
		ok := false
		for _, s := range p.SvcSels {
			if s.Matches(labels.Set(lbls)) {
				ok = true
			}
		}
		if !ok {
			return false
		}
	}
	return true
}

// ContainsUsable: address string belongs to the pool and is not an avoided buggy address.
func (p *vfMPool) ContainsUsable(ip string) bool {
	f, v, ok := vfParseAddr(ip)
	if !ok {
		return false
	}
	if !p.Set.Contains(f, v) {
		return false
	}
	if p.AvoidBuggy && vfIsBuggyV4(f, v) {
		return false
	}
	return true
}

func (p *vfMPool) Contains(ip string) bool {
	f, v, ok := vfParseAddr(ip)
	return ok && p.Set.Contains(f, v)
}

// UsableAddrs enumerates the usable addresses of a family (small pools; capped).
func (p *vfMPool) UsableAddrs(fam int, limit int) []string {
	var out []string
	one := big.NewInt(1)
	for _, i := range p.Set {
		if i.Fam != fam {
			continue
		}
		for v := new(big.Int).Set(i.Lo); v.Cmp(i.Hi) <= 0; v.Add(v, one) {
			if p.AvoidBuggy && vfIsBuggyV4(fam, v) {
				continue
			}
			out = append(out, vfAddrString(fam, v))
			if len(out) >= limit {
				return out
			}
		}
	}
	return out
}

// UsableCount: number of usable addresses of a family, and whether the range is "astronomical"
// (>= 2^62 addresses in one written block), for which a saturated report is acceptable.
func (p *vfMPool) UsableCount(fam int) (exact *big.Int, astronomical bool) {
	n := new(big.Int)
	lim := new(big.Int).Lsh(big.NewInt(1), 62)
	for _, i := range p.Set {
		if i.Fam != fam {
			continue
		}
		d := new(big.Int).Sub(i.Hi, i.Lo)
		d.Add(d, big.NewInt(1))
		if d.Cmp(lim) >= 0 {
			astronomical = true
		}
		n.Add(n, d)
		if fam == 4 && p.AvoidBuggy {
			n.Sub(n, vfCountBuggy(i))
		}
	}
	return n, astronomical
}

// vfCountBuggy counts addresses ending in .0 or .255 inside an IPv4 interval.
func vfCountBuggy(i vfIval) *big.Int {
	// count of x in [lo,hi] with x mod 256 == r  is floor((hi-r)/256) - floor((lo-1-r)/256)
	cnt := func(r int64) int64 {
		lo, hi := i.Lo.Int64(), i.Hi.Int64()
		fl := func(a int64) int64 { return int64(math.Floor(float64(a) / 256.0)) }
		return fl(hi-r) - fl(lo-1-r)
	}
	return big.NewInt(cnt(0) + cnt(255))
}

// vfPoolOf finds the unique pool containing all addresses (usable ones), "" if none, "*" if ambiguous.
func vfPoolOf(pools map[string]*vfMPool, ips []string) string {
	found := ""
	for _, n := range vfSortedKeys(pools) {
		p := pools[n]
		all := true
		for _, ip := range ips {
			if !p.Contains(ip) {
				all = false
			}
		}
		if all && len(ips) > 0 {
			if found != "" {
				return "*"
			}
			found = n
		}
	}
	return found
}

// ---------------------------------------------------------------- services

const (
	vfPolSingle  = "SingleStack"
	vfPolPrefer  = "PreferDualStack"
	vfPolRequire = "RequireDualStack"
)

type vfSvcReq struct {
	Key        string
	Namespace  string
	Labels     map[string]string
	IsLB       bool
	Families   []int // from cluster IPs: [4] [6] [4,6] [6,4]; nil if unusable
	Policy     string
	Ports      map[string]bool
	ShareKey   string
	Local      bool
	Selector   string
	ReqIPs     []string // canonical strings
	ReqBad     bool     // malformed / contradictory request: "exactly what was requested" is off
	ReqPool    string
	StatusIPs  []string
	PoolAnn    string
	LBClassSet bool
}

func vfCanonIP(s string) (string, int, bool) {
	f, v, ok := vfParseAddr(s)
	if !ok {
		return "", 0, false
	}
	return vfAddrString(f, v), f, true
}

func vfAnn(ann map[string]string, stable, deprecated string) (string, bool) {
	if v, ok := ann[stable]; ok {
		return v, true
	}
	if v, ok := ann[deprecated]; ok {
		return v, true
	}
	return "", false
}

func vfSvcRequirement(svc *corev1.Service) vfSvcReq {
	r := vfSvcReq{Key: svc.Namespace + "/" + svc.Name, Namespace: svc.Namespace, Labels: svc.Labels, Ports: map[string]bool{}}
	r.IsLB = svc.Spec.Type == corev1.ServiceTypeLoadBalancer
	cips := svc.Spec.ClusterIPs
	if len(cips) == 0 && svc.Spec.ClusterIP != "" {
		cips = []string{svc.Spec.ClusterIP}
	}
	okFam := len(cips) == 1 || len(cips) == 2
	for _, c := range cips {
		_, f, ok := vfCanonIP(c)
		if !ok {
			okFam = false
			break
		}
		r.Families = append(r.Families, f)
	}
	if len(r.Families) == 2 && r.Families[0] == r.Families[1] {
		okFam = false
	}
	if !okFam {
		r.Families = nil
	}
	r.Policy = vfPolSingle
	if svc.Spec.IPFamilyPolicy != nil {
		r.Policy = string(*svc.Spec.IPFamilyPolicy)
	}
	for _, p := range svc.Spec.Ports {
		r.Ports[fmt.Sprintf("%s/%d", p.Protocol, p.Port)] = true
	}
	r.ShareKey, _ = vfAnn(svc.Annotations, "metallb.io/allow-shared-ip", "metallb.universe.tf/allow-shared-ip")
	r.Local = svc.Spec.ExternalTrafficPolicy == corev1.ServiceExternalTrafficPolicyTypeLocal
	r.Selector = labels.Set(svc.Spec.Selector).String()
	annIPs, _ := vfAnn(svc.Annotations, "metallb.io/loadBalancerIPs", "metallb.universe.tf/loadBalancerIPs")
	if annIPs != "" && svc.Spec.LoadBalancerIP != "" {
		r.ReqBad = true
	} else if annIPs != "" {
		for _, s := range strings.Split(annIPs, ",") {
			c, _, ok := vfCanonIP(s)
			if !ok {
				r.ReqBad = true
				break
			}
			r.ReqIPs = append(r.ReqIPs, c)
		}
	} else if svc.Spec.LoadBalancerIP != "" {
		c, _, ok := vfCanonIP(svc.Spec.LoadBalancerIP)
		if !ok {
			r.ReqBad = true
		} else {
			r.ReqIPs = []string{c}
		}
	}
	if r.ReqBad {
		r.ReqIPs = nil
	}
	r.ReqPool, _ = vfAnn(svc.Annotations, "metallb.io/address-pool", "metallb.universe.tf/address-pool")
	for _, ing := range svc.Status.LoadBalancer.Ingress {
		if ing.IP == "" {
			continue
		}
		if c, _, ok := vfCanonIP(ing.IP); ok {
			r.StatusIPs = append(r.StatusIPs, c)
		} else {
			r.StatusIPs = append(r.StatusIPs, ing.IP)
		}
	}
	r.PoolAnn = svc.Annotations["metallb.io/ip-allocated-from-pool"]
	return r
}

func vfPortsDisjoint(a, b map[string]bool) bool {
	for p := range a {
		if b[p] {
			return false
		}
	}
	return true
}

// vfShareOK: the sharing relation of the C01 statement.
func vfShareOK(a, b *vfSvcReq) bool {
	if a.ShareKey == "" || a.ShareKey != b.ShareKey {
		return false
	}
	if !vfPortsDisjoint(a.Ports, b.Ports) {
		return false
	}
	if !a.Local && !b.Local {
		return true
	}
	return a.Selector == b.Selector
}

// vfShareCertain: pairs every reading of the statement lets share AND the implementation is meant
// to let share (both Cluster, or both Local with identical selectors). Used where "shareable" feeds
// a liveness-style verdict (C07), so that a mixed Cluster/Local pair is never demanded.
func vfShareCertain(a, b *vfSvcReq) bool {
	if !vfShareOK(a, b) {
		return false
	}
	return a.Local == b.Local
}

// vfShareWhyNot classifies a forbidden pair (signature material).
func vfShareWhyNot(a, b *vfSvcReq) string {
	switch {
	case a.ShareKey == "" || b.ShareKey == "":
		return "no-sharing-key"
	case a.ShareKey != b.ShareKey:
		return "different-sharing-keys"
	case !vfPortsDisjoint(a.Ports, b.Ports):
		return "overlapping-ports"
	default:
		x, y := a, b
		if !x.Local {
			x, y = y, x
		}
		// x is Local
		if !y.Local {
			if x.Selector == "" {
				return "local-empty-selector+cluster"
			}
			return "local+cluster-different-selectors"
		}
		return "local+local-different-selectors"
	}
}

// ---------------------------------------------------------------- state & admissibility

// vfHolding: who holds what (from statuses or from allocator memory).
type vfHolding struct {
	Req *vfSvcReq
	IPs []string
}

type vfWorld struct {
	Pools    map[string]*vfMPool
	Holdings map[string]*vfHolding // by service key
}

func (w *vfWorld) holdersOf(ip string, except string) []*vfHolding {
	var out []*vfHolding
	for _, k := range vfSortedKeys(w.Holdings) {
		if k == except {
			continue
		}
		for _, x := range w.Holdings[k].IPs {
			if x == ip {
				out = append(out, w.Holdings[k])
			}
		}
	}
	return out
}

// addrAvailable: ip is free or every current holder may share with s (strict => certain reading).
func (w *vfWorld) addrAvailable(s *vfSvcReq, ip string, strict bool) bool {
	for _, h := range w.holdersOf(ip, s.Key) {
		if strict {
			if !vfShareCertain(s, h.Req) {
				return false
			}
		} else if !vfShareOK(s, h.Req) {
			return false
		}
	}
	return true
}

func (w *vfWorld) poolHasFamily(p *vfMPool, s *vfSvcReq, fam int, strict bool) bool {
	for _, ip := range p.UsableAddrs(fam, 4096) {
		if w.addrAvailable(s, ip, strict) {
			return true
		}
	}
	return false
}

// poolGivesFamiliesOf: pool p has, right now, an available address of every family present in ips.
// (For a PreferDualStack service the outcome may be one family or two; among pools able to give the
// SAME outcome the better-ranked one has to be tried first.)
func (w *vfWorld) poolGivesFamiliesOf(p *vfMPool, s *vfSvcReq, ips []string, strict bool) bool {
	if len(ips) == 0 {
		return false
	}
	for _, ip := range ips {
		_, fam, ok := vfCanonIP(ip)
		if !ok || !w.poolHasFamily(p, s, fam, strict) {
			return false
		}
	}
	return true
}

// poolSatisfies: pool p can serve the family policy of s right now.
func (w *vfWorld) poolSatisfies(p *vfMPool, s *vfSvcReq, strict bool) bool {
	if len(s.Families) == 1 {
		return w.poolHasFamily(p, s, s.Families[0], strict)
	}
	if len(s.Families) == 2 {
		h4 := w.poolHasFamily(p, s, 4, strict)
		h6 := w.poolHasFamily(p, s, 6, strict)
		switch s.Policy {
		case vfPolRequire:
			return h4 && h6
		case vfPolPrefer:
			return h4 || h6
		}
	}
	return false
}

// ipsAdmissible: may s hold exactly ips under the configuration and the other holdings?
// (membership in one pool, usable, pool admits s, family rule, request, sharing with other holders)
func (w *vfWorld) ipsAdmissible(s *vfSvcReq, ips []string, strict bool, ignoreSharing bool) (bool, string) {
	if len(ips) == 0 {
		return false, "no address"
	}
	if !s.IsLB {
		return false, "not a LoadBalancer"
	}
	pn := vfPoolOf(w.Pools, ips)
	if pn == "" || pn == "*" {
		return false, "not in exactly one pool"
	}
	p := w.Pools[pn]
	for _, ip := range ips {
		if !p.ContainsUsable(ip) {
			return false, "buggy address of an avoid-buggy pool"
		}
	}
	if !p.Admits(s.Namespace, s.Labels) {
		return false, "pool does not admit the service"
	}
	if ok, why := vfFamilyRule(s, ips); !ok {
		return false, why
	}
	if len(s.ReqIPs) > 0 && !vfSameSet(s.ReqIPs, ips) {
		return false, "differs from the requested addresses"
	}
	if s.ReqPool != "" && s.ReqPool != pn {
		return false, "differs from the requested pool"
	}
	if !ignoreSharing {
		for _, ip := range ips {
			if !w.addrAvailable(s, ip, strict) {
				return false, "address held by a service it cannot share with"
			}
		}
	}
	return true, ""
}

func vfSameSet(a, b []string) bool {
	if len(a) != len(b) {
		return false
	}
	x := append([]string(nil), a...)
	y := append([]string(nil), b...)
	sort.Strings(x)
	sort.Strings(y)
	for i := range x {
		if x[i] != y[i] {
			return false
		}
	}
	return true
}

func vfFamilyRule(s *vfSvcReq, ips []string) (bool, string) {
	var fams []int
	for _, ip := range ips {
		_, f, ok := vfCanonIP(ip)
		if !ok {
			return false, "unparsable address"
		}
		fams = append(fams, f)
	}
	switch len(s.Families) {
	case 1:
		if len(fams) == 1 && fams[0] == s.Families[0] {
			return true, ""
		}
		return false, "single-family service must hold exactly one address of its family"
	case 2:
		if len(fams) == 2 && fams[0] != fams[1] {
			return true, ""
		}
		if len(fams) == 1 && s.Policy == vfPolPrefer {
			return true, ""
		}
		return false, "dual-stack service must hold one address per family (PreferDualStack: at least one)"
	}
	return false, "service has no usable cluster IPs"
}

// existsAdmissible: is there any assignment MetalLB is required to find for the pending service s?
// Uses the strict sharing reading, so that only certain cases are demanded.
func (w *vfWorld) existsAdmissible(s *vfSvcReq) (bool, string) {
	if !s.IsLB || s.Families == nil || s.ReqBad {
		return false, ""
	}
	if len(s.Families) == 2 && s.Policy == vfPolSingle {
		return false, ""
	}
	if len(s.Families) == 1 && s.Policy == vfPolRequire {
		return false, ""
	}
	if len(s.ReqIPs) > 0 {
		// explicit addresses: family of the request must equal the family of the service
		if len(s.ReqIPs) != len(s.Families) {
			return false, ""
		}
		ok, _ := w.ipsAdmissible(s, s.ReqIPs, true, false)
		if ok {
			return true, "explicit addresses " + strings.Join(s.ReqIPs, ",")
		}
		return false, ""
	}
	if s.ReqPool != "" {
		p := w.Pools[s.ReqPool]
		if p == nil || !p.Admits(s.Namespace, s.Labels) {
			return false, ""
		}
		if w.poolSatisfies(p, s, true) {
			return true, "requested pool " + p.Name
		}
		return false, ""
	}
	for _, n := range vfSortedKeys(w.Pools) {
		p := w.Pools[n]
		if !p.AutoAssign || !p.Admits(s.Namespace, s.Labels) {
			continue
		}
		if w.poolSatisfies(p, s, true) {
			return true, "auto-assign pool " + p.Name
		}
	}
	return false, ""
}

// vfRank orders pinned pools: ascending priority number, 0 last.
func vfRank(p *vfMPool) int {
	if p.Priority == 0 {
		return math.MaxInt32
	}
	return p.Priority
}
