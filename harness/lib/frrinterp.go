//go:build verif

// Parser and interpreter of FRR configuration text (the subset bgpd needs to decide what a
// neighbor is offered), written from FRR's user documentation (bgp.rst, routemap.rst, filter.rst),
// NOT from MetalLB's templates. It is the oracle side of the translation validation of C14/C15.
//
// Semantics implemented (trusted base):
//   - `router bgp ASN [vrf NAME]` opens (or re-enters) one BGP instance per (ASN, VRF).
//   - `neighbor P remote-as N|internal|external`, `neighbor IF interface remote-as ...` create a
//     neighbor; every other neighbor line needs the neighbor to exist.
//   - With `no bgp default ipv4-unicast` a neighbor exchanges a family only if it is activated in
//     `address-family ipv4|ipv6 unicast`; without it ipv4 unicast is active by default.
//   - `network P` inside an address-family originates P (host bits masked) in that family.
//   - `neighbor P route-map NAME in|out` inside an address-family filters that family. A referenced
//     route-map that does not exist denies everything. No route-map = everything passes unchanged.
//   - Route-map: entries in sequence order. An entry matches if all its match clauses match (none =
//     matches everything). deny+match: route denied, stop. permit+match: apply the set clauses;
//     `on-match next` continues with the next entry, `on-match goto N` with the first entry >= N,
//     otherwise the route is permitted. No entry matched at the end (or the last evaluated entry did
//     not match): denied (implicit deny). If the last evaluated entry matched with `on-match next`
//     and there is no further entry the route is permitted.
//   - `match ip address prefix-list L` only ever matches IPv4 routes, `match ipv6 address prefix-list L`
//     only IPv6 routes; `ip prefix-list` and `ipv6 prefix-list` are separate name spaces.
//   - Prefix-list: entries in sequence order, first matching entry decides, no match = deny. Without
//     ge/le an entry matches exactly its prefix; with ge/le every more specific prefix whose length
//     is in [ge, le] (only ge: [ge, max]; only le: [len, le]); `any` = 0/0 le max. A prefix-list that
//     is referenced but not defined "acts as permit" (filter.rst: "If no ip prefix-list is
//     specified, it acts as permit") — the reading that is least favourable to the generator.
//   - `set local-preference N`; `set community A.. [additive]` replaces the standard communities
//     unless additive; `set community none` clears; same for `set large-community`.
package vfcommon

import (
	"fmt"
	"net/netip"
	"sort"
	"strconv"
	"strings"
)

// ---------------------------------------------------------------- data model of the parsed text

type vfFRRPrefixListEntry struct {
	Seq    int
	Permit bool
	Any    bool
	Prefix netip.Prefix
	GE, LE int // 0 = not given
	Line   int
}

type vfFRRPrefixList struct {
	Name    string
	V6      bool
	Entries []*vfFRRPrefixListEntry // kept sorted by Seq
}

type vfFRRCommSet struct {
	Values   []string
	Additive bool
	None     bool
}

type vfFRRRouteMapEntry struct {
	Seq         int
	Permit      bool
	HasMatchV4  bool
	MatchV4     string // prefix-list name (ip name space)
	HasMatchV6  bool
	MatchV6     string // prefix-list name (ipv6 name space)
	SetLocal    *uint32
	SetComm     *vfFRRCommSet
	SetLarge    *vfFRRCommSet
	OnMatchNext bool
	OnMatchGoto int // 0 = none
	Unsupported []string
	Line        int
}

type vfFRRRouteMap struct {
	Name    string
	Entries []*vfFRRRouteMapEntry // kept sorted by Seq
}

type vfFRRNeighborAF struct {
	Activated bool
	MapIn     string
	MapOut    string
}

type vfFRRNeighbor struct {
	Peer                  string // address or interface name as written
	Interface             bool   // `neighbor X interface ...` (unnumbered)
	RemoteAS              string // number, "internal" or "external"
	Port                  int    // 0 = not given
	HasTimers             bool
	Keepalive, Hold       int
	ConnectTimer          int // 0 = not given
	Password              string
	UpdateSource          string
	EBGPMultihop          bool
	BFD                   bool
	BFDProfile            string
	GracefulRestart       bool
	DisableConnectedCheck bool
	AF                    map[bool]*vfFRRNeighborAF // key: v6?
	Other                 []string
}

type vfFRRRouter struct {
	ASN                  uint32
	VRF                  string
	RouterID             string
	NoDefaultIPv4Unicast bool
	Flags                []string
	Neighbors            map[string]*vfFRRNeighbor
	NeighborOrder        []string
	Networks             map[bool][]netip.Prefix // key: v6?
}

type vfFRRConfig struct {
	Routers     []*vfFRRRouter
	PrefixLists map[string]*vfFRRPrefixList // key "4|name" / "6|name"
	RouteMaps   map[string]*vfFRRRouteMap
	BFDProfiles []string
	Hostname    string
	// Unknown holds lines the parser does not understand; Errors holds lines FRR would reject
	// (neighbor used before remote-as, malformed prefix, ...). A sound verdict needs both empty.
	Unknown []string
	Errors  []string
}

func vfFRRPLKey(v6 bool, name string) string {
	if v6 {
		return "6|" + name
	}
	return "4|" + name
}

func (r *vfFRRRouter) af(n *vfFRRNeighbor, v6 bool) *vfFRRNeighborAF {
	a := n.AF[v6]
	if a == nil {
		a = &vfFRRNeighborAF{}
		n.AF[v6] = a
	}
	return a
}

// FindNeighbor looks a neighbor up by address (compared as addresses, not as strings) or by
// interface name.
func (r *vfFRRRouter) FindNeighbor(addr, iface string) *vfFRRNeighbor {
	if iface != "" {
		if n := r.Neighbors[iface]; n != nil && n.Interface {
			return n
		}
		return nil
	}
	want, err := netip.ParseAddr(addr)
	if err != nil {
		return nil
	}
	for _, k := range r.NeighborOrder {
		n := r.Neighbors[k]
		if n.Interface {
			continue
		}
		if a, err := netip.ParseAddr(n.Peer); err == nil && a.Unmap() == want.Unmap() {
			return n
		}
	}
	return nil
}

func (c *vfFRRConfig) FindRouter(asn uint32, vrf string) *vfFRRRouter {
	for _, r := range c.Routers {
		if r.ASN == asn && r.VRF == vrf {
			return r
		}
	}
	return nil
}

// RoutersInVRF returns every instance configured for the VRF (FRR accepts one).
func (c *vfFRRConfig) RoutersInVRF(vrf string) []*vfFRRRouter {
	var out []*vfFRRRouter
	for _, r := range c.Routers {
		if r.VRF == vrf {
			out = append(out, r)
		}
	}
	return out
}

// ---------------------------------------------------------------- parser

type vfFRRParser struct {
	cfg *vfFRRConfig
	// context
	ctx     string // "", "rmap", "router", "af", "bfd", "bfdprofile"
	rmEntry *vfFRRRouteMapEntry
	router  *vfFRRRouter
	afV6    bool
	lineNo  int
}

func vfFRRParse(text string) *vfFRRConfig {
	p := &vfFRRParser{cfg: &vfFRRConfig{
		PrefixLists: map[string]*vfFRRPrefixList{},
		RouteMaps:   map[string]*vfFRRRouteMap{},
	}}
	for i, raw := range strings.Split(text, "\n") {
		p.lineNo = i + 1
		line := strings.TrimSpace(strings.TrimRight(raw, "\r"))
		if line == "" || strings.HasPrefix(line, "!") || strings.HasPrefix(line, "#") {
			continue
		}
		p.line(line)
	}
	return p.cfg
}

func (p *vfFRRParser) unknown(line string) {
	p.cfg.Unknown = append(p.cfg.Unknown, fmt.Sprintf("line %d [%s]: %s", p.lineNo, p.ctx, line))
}

func (p *vfFRRParser) errorf(format string, a ...any) {
	p.cfg.Errors = append(p.cfg.Errors, fmt.Sprintf("line %d: ", p.lineNo)+fmt.Sprintf(format, a...))
}

func (p *vfFRRParser) line(line string) {
	f := strings.Fields(line)
	for tries := 0; tries < 4; tries++ {
		switch p.ctx {
		case "rmap":
			if p.rmapLine(line, f) {
				return
			}
			p.ctx = ""
		case "af":
			if p.afLine(line, f) {
				return
			}
			p.ctx = "router"
		case "router":
			if p.routerLine(line, f) {
				return
			}
			p.ctx = ""
		case "bfdprofile":
			if p.bfdProfileLine(f) {
				return
			}
			p.ctx = "bfd"
		case "bfd":
			if p.bfdLine(f) {
				return
			}
			p.ctx = ""
		default:
			p.topLine(line, f)
			return
		}
	}
}

func (p *vfFRRParser) topLine(line string, f []string) {
	switch {
	case f[0] == "route-map":
		p.routeMapHeader(line, f)
	case len(f) >= 2 && (f[0] == "ip" || f[0] == "ipv6") && f[1] == "prefix-list":
		p.prefixList(line, f)
	case len(f) >= 3 && f[0] == "router" && f[1] == "bgp":
		p.routerHeader(line, f)
	case f[0] == "bfd" && len(f) == 1:
		p.ctx = "bfd"
	case f[0] == "hostname" && len(f) == 2:
		p.cfg.Hostname = f[1]
	case f[0] == "log", f[0] == "debug", f[0] == "end", f[0] == "exit",
		f[0] == "frr" && len(f) >= 2 && (f[1] == "version" || f[1] == "defaults"),
		f[0] == "service" && len(f) >= 2 && f[1] == "integrated-vtysh-config",
		len(f) == 3 && (f[0] == "ip" || f[0] == "ipv6") && f[1] == "nht" && f[2] == "resolve-via-default":
		// no influence on what neighbors are offered
	default:
		p.unknown(line)
	}
}

func (p *vfFRRParser) routeMapHeader(line string, f []string) {
	// route-map NAME permit|deny SEQ
	if len(f) != 4 || (f[2] != "permit" && f[2] != "deny") {
		p.errorf("malformed route-map header %q", line)
		return
	}
	seq, err := strconv.Atoi(f[3])
	if err != nil || seq < 1 || seq > 65535 {
		p.errorf("bad route-map sequence %q", line)
		return
	}
	rm := p.cfg.RouteMaps[f[1]]
	if rm == nil {
		rm = &vfFRRRouteMap{Name: f[1]}
		p.cfg.RouteMaps[f[1]] = rm
	}
	var e *vfFRRRouteMapEntry
	for _, x := range rm.Entries {
		if x.Seq == seq {
			e = x
		}
	}
	if e == nil {
		e = &vfFRRRouteMapEntry{Seq: seq, Line: p.lineNo}
		rm.Entries = append(rm.Entries, e)
		sort.SliceStable(rm.Entries, func(i, j int) bool { return rm.Entries[i].Seq < rm.Entries[j].Seq })
	}
	e.Permit = f[2] == "permit"
	p.rmEntry = e
	p.ctx = "rmap"
}

func vfFRRParseCommSet(args []string) *vfFRRCommSet {
	cs := &vfFRRCommSet{}
	for _, a := range args {
		switch a {
		case "additive":
			cs.Additive = true
		case "none":
			cs.None = true
		default:
			cs.Values = append(cs.Values, a)
		}
	}
	return cs
}

func (p *vfFRRParser) rmapLine(line string, f []string) bool {
	e := p.rmEntry
	switch f[0] {
	case "match":
		if len(f) == 5 && f[2] == "address" && f[3] == "prefix-list" && f[1] == "ip" {
			e.HasMatchV4, e.MatchV4 = true, f[4]
			return true
		}
		if len(f) == 5 && f[2] == "address" && f[3] == "prefix-list" && f[1] == "ipv6" {
			e.HasMatchV6, e.MatchV6 = true, f[4]
			return true
		}
		e.Unsupported = append(e.Unsupported, line)
		p.unknown(line)
		return true
	case "set":
		switch {
		case len(f) == 3 && f[1] == "local-preference":
			v, err := strconv.ParseUint(f[2], 10, 32)
			if err != nil {
				p.errorf("bad local-preference %q", line)
				return true
			}
			lp := uint32(v)
			e.SetLocal = &lp
		case len(f) >= 3 && f[1] == "community":
			e.SetComm = vfFRRParseCommSet(f[2:])
		case len(f) >= 3 && f[1] == "large-community":
			e.SetLarge = vfFRRParseCommSet(f[2:])
		default:
			e.Unsupported = append(e.Unsupported, line)
			p.unknown(line)
		}
		return true
	case "on-match":
		if len(f) == 2 && f[1] == "next" {
			e.OnMatchNext = true
			return true
		}
		if len(f) == 3 && f[1] == "goto" {
			n, err := strconv.Atoi(f[2])
			if err != nil {
				p.errorf("bad goto %q", line)
				return true
			}
			e.OnMatchGoto = n
			return true
		}
		p.unknown(line)
		return true
	case "description":
		return true
	case "call", "continue":
		e.Unsupported = append(e.Unsupported, line)
		p.unknown(line)
		return true
	case "exit":
		p.ctx = ""
		return true
	}
	return false
}

func (p *vfFRRParser) prefixList(line string, f []string) {
	// ip|ipv6 prefix-list NAME [seq N] permit|deny (PREFIX [ge N] [le N] | any)
	v6 := f[0] == "ipv6"
	if len(f) < 5 {
		p.errorf("malformed prefix-list %q", line)
		return
	}
	name := f[2]
	rest := f[3:]
	if rest[0] == "description" {
		return
	}
	key := vfFRRPLKey(v6, name)
	pl := p.cfg.PrefixLists[key]
	if pl == nil {
		pl = &vfFRRPrefixList{Name: name, V6: v6}
		p.cfg.PrefixLists[key] = pl
	}
	e := &vfFRRPrefixListEntry{Line: p.lineNo}
	if rest[0] == "seq" {
		if len(rest) < 4 {
			p.errorf("malformed prefix-list %q", line)
			return
		}
		n, err := strconv.Atoi(rest[1])
		if err != nil || n < 1 {
			p.errorf("bad prefix-list sequence %q", line)
			return
		}
		e.Seq = n
		rest = rest[2:]
	} else {
		// automatic numbering: next multiple of 5 above the highest sequence
		max := 0
		for _, x := range pl.Entries {
			if x.Seq > max {
				max = x.Seq
			}
		}
		e.Seq = (max/5 + 1) * 5
	}
	if len(rest) < 2 || (rest[0] != "permit" && rest[0] != "deny") {
		p.errorf("malformed prefix-list %q", line)
		return
	}
	e.Permit = rest[0] == "permit"
	rest = rest[1:]
	if rest[0] == "any" {
		if len(rest) != 1 {
			p.errorf("malformed prefix-list %q", line)
			return
		}
		e.Any = true
	} else {
		pfx, err := netip.ParsePrefix(rest[0])
		if err != nil {
			p.errorf("bad prefix in %q", line)
			return
		}
		if pfx.Addr().Is6() != v6 || pfx.Addr().Is4In6() {
			p.errorf("prefix of the wrong family in %q", line)
			return
		}
		e.Prefix = pfx.Masked()
		rest = rest[1:]
		for len(rest) > 0 {
			if len(rest) < 2 || (rest[0] != "ge" && rest[0] != "le") {
				p.errorf("malformed prefix-list %q", line)
				return
			}
			n, err := strconv.Atoi(rest[1])
			if err != nil || n < 0 || n > pfx.Addr().BitLen() {
				p.errorf("bad ge/le in %q", line)
				return
			}
			if rest[0] == "ge" {
				e.GE = n
			} else {
				e.LE = n
			}
			rest = rest[2:]
		}
	}
	// an entry with an existing sequence number replaces it
	for i, x := range pl.Entries {
		if x.Seq == e.Seq {
			pl.Entries[i] = e
			return
		}
	}
	pl.Entries = append(pl.Entries, e)
	sort.SliceStable(pl.Entries, func(i, j int) bool { return pl.Entries[i].Seq < pl.Entries[j].Seq })
}

func (p *vfFRRParser) routerHeader(line string, f []string) {
	// router bgp ASN [vrf NAME]
	asn, err := strconv.ParseUint(f[2], 10, 32)
	if err != nil {
		p.errorf("bad ASN in %q", line)
		return
	}
	vrf := ""
	switch {
	case len(f) == 3:
	case len(f) == 5 && f[3] == "vrf":
		vrf = f[4]
	default:
		p.errorf("malformed router header %q", line)
		return
	}
	r := p.cfg.FindRouter(uint32(asn), vrf)
	if r == nil {
		r = &vfFRRRouter{ASN: uint32(asn), VRF: vrf, Neighbors: map[string]*vfFRRNeighbor{}, Networks: map[bool][]netip.Prefix{}}
		p.cfg.Routers = append(p.cfg.Routers, r)
	}
	p.router = r
	p.ctx = "router"
}

func (p *vfFRRParser) neighbor(name string) *vfFRRNeighbor {
	n := p.router.Neighbors[name]
	if n == nil {
		p.errorf("neighbor %s used before remote-as", name)
	}
	return n
}

func (p *vfFRRParser) routerLine(line string, f []string) bool {
	r := p.router
	switch f[0] {
	case "neighbor":
		if len(f) < 3 {
			p.errorf("malformed neighbor line %q", line)
			return true
		}
		name := f[1]
		args := f[2:]
		// creation
		if args[0] == "remote-as" && len(args) == 2 || args[0] == "interface" && len(args) == 3 && args[1] == "remote-as" {
			n := r.Neighbors[name]
			if n == nil {
				n = &vfFRRNeighbor{Peer: name, AF: map[bool]*vfFRRNeighborAF{}}
				r.Neighbors[name] = n
				r.NeighborOrder = append(r.NeighborOrder, name)
			}
			n.Interface = args[0] == "interface"
			n.RemoteAS = args[len(args)-1]
			if !n.Interface {
				if _, err := netip.ParseAddr(name); err != nil {
					p.errorf("neighbor %q is not an address", name)
				}
			}
			if n.RemoteAS != "internal" && n.RemoteAS != "external" {
				if _, err := strconv.ParseUint(n.RemoteAS, 10, 32); err != nil {
					p.errorf("bad remote-as in %q", line)
				}
			}
			return true
		}
		n := p.neighbor(name)
		if n == nil {
			return true
		}
		switch {
		case args[0] == "ebgp-multihop" && len(args) <= 2:
			n.EBGPMultihop = true
		case args[0] == "port" && len(args) == 2:
			v, err := strconv.Atoi(args[1])
			if err != nil || v < 0 || v > 65535 {
				p.errorf("bad port in %q", line)
				return true
			}
			n.Port = v
		case args[0] == "timers" && len(args) == 3 && args[1] == "connect":
			v, err := strconv.Atoi(args[2])
			if err != nil {
				p.errorf("bad connect timer in %q", line)
				return true
			}
			n.ConnectTimer = v
		case args[0] == "timers" && len(args) == 3:
			k, err1 := strconv.Atoi(args[1])
			h, err2 := strconv.Atoi(args[2])
			if err1 != nil || err2 != nil {
				p.errorf("bad timers in %q", line)
				return true
			}
			n.HasTimers, n.Keepalive, n.Hold = true, k, h
		case args[0] == "password" && len(args) >= 2:
			// the password is the rest of the line
			idx := strings.Index(line, " password ")
			n.Password = strings.TrimSpace(line[idx+len(" password "):])
		case args[0] == "update-source" && len(args) == 2:
			n.UpdateSource = args[1]
		case args[0] == "graceful-restart" && len(args) == 1:
			n.GracefulRestart = true
		case args[0] == "bfd" && len(args) == 1:
			n.BFD = true
		case args[0] == "bfd" && len(args) == 3 && args[1] == "profile":
			n.BFD = true
			n.BFDProfile = args[2]
		case args[0] == "disable-connected-check" && len(args) == 1:
			n.DisableConnectedCheck = true
		case args[0] == "activate" && len(args) == 1:
			// outside an address-family block this is ipv4 unicast
			r.af(n, false).Activated = true
		case args[0] == "route-map" && len(args) == 3 && (args[2] == "in" || args[2] == "out"):
			if args[2] == "in" {
				r.af(n, false).MapIn = args[1]
			} else {
				r.af(n, false).MapOut = args[1]
			}
		default:
			n.Other = append(n.Other, line)
			p.unknown(line)
		}
		return true
	case "no":
		switch strings.Join(f[1:], " ") {
		case "bgp default ipv4-unicast":
			r.NoDefaultIPv4Unicast = true
		case "bgp ebgp-requires-policy", "bgp network import-check":
			r.Flags = append(r.Flags, line)
		default:
			p.unknown(line)
		}
		return true
	case "bgp":
		switch {
		case len(f) == 3 && f[1] == "router-id":
			r.RouterID = f[2]
		case strings.HasPrefix(line, "bgp graceful-restart"):
			r.Flags = append(r.Flags, line)
		default:
			p.unknown(line)
		}
		return true
	case "network":
		p.network(line, f, false)
		return true
	case "address-family":
		if len(f) == 3 && f[2] == "unicast" && (f[1] == "ipv4" || f[1] == "ipv6") {
			p.afV6 = f[1] == "ipv6"
			p.ctx = "af"
			return true
		}
		p.unknown(line)
		return true
	case "exit":
		p.ctx = ""
		return true
	}
	return false
}

func (p *vfFRRParser) network(line string, f []string, v6 bool) {
	if len(f) != 2 {
		p.unknown(line)
		return
	}
	pfx, err := netip.ParsePrefix(f[1])
	if err != nil {
		p.errorf("bad network %q", line)
		return
	}
	if pfx.Addr().Is6() != v6 || pfx.Addr().Is4In6() {
		p.errorf("network of the wrong family: %q", line)
		return
	}
	pfx = pfx.Masked()
	for _, x := range p.router.Networks[v6] {
		if x == pfx {
			return
		}
	}
	p.router.Networks[v6] = append(p.router.Networks[v6], pfx)
}

func (p *vfFRRParser) afLine(line string, f []string) bool {
	r := p.router
	switch f[0] {
	case "exit-address-family":
		p.ctx = "router"
		return true
	case "network":
		p.network(line, f, p.afV6)
		return true
	case "neighbor":
		if len(f) < 3 {
			p.errorf("malformed neighbor line %q", line)
			return true
		}
		args := f[2:]
		isAF := args[0] == "activate" && len(args) == 1 ||
			args[0] == "route-map" && len(args) == 3 && (args[2] == "in" || args[2] == "out")
		if !isAF {
			// session-level neighbor commands are not valid inside an address-family; FRR leaves the
			// address-family node and retries in the router node
			return false
		}
		n := p.neighbor(f[1])
		if n == nil {
			return true
		}
		a := r.af(n, p.afV6)
		switch {
		case args[0] == "activate":
			a.Activated = true
		case args[2] == "in":
			a.MapIn = args[1]
		default:
			a.MapOut = args[1]
		}
		return true
	}
	return false
}

func (p *vfFRRParser) bfdLine(f []string) bool {
	switch {
	case f[0] == "profile" && len(f) == 2:
		p.cfg.BFDProfiles = append(p.cfg.BFDProfiles, f[1])
		p.ctx = "bfdprofile"
		return true
	case f[0] == "exit":
		p.ctx = ""
		return true
	}
	return false
}

func (p *vfFRRParser) bfdProfileLine(f []string) bool {
	switch f[0] {
	case "receive-interval", "transmit-interval", "detect-multiplier", "echo-interval", "minimum-ttl":
		return len(f) == 2
	case "echo-mode", "passive-mode", "shutdown":
		return len(f) == 1
	case "echo":
		return len(f) == 3 && (f[1] == "receive-interval" || f[1] == "transmit-interval")
	case "exit":
		p.ctx = "bfd"
		return true
	}
	return false
}

// ---------------------------------------------------------------- interpreter

// vfFRRPrefixListMatch: does the list (in the name space of the route's family) permit p?
func (c *vfFRRConfig) vfFRRPrefixListPermits(v6 bool, name string, p netip.Prefix) (permit bool, undefined bool) {
	pl := c.PrefixLists[vfFRRPLKey(v6, name)]
	if pl == nil || len(pl.Entries) == 0 {
		return true, true // "if no prefix-list is specified it acts as permit"
	}
	max := p.Addr().BitLen()
	for _, e := range pl.Entries {
		if e.Any {
			return e.Permit, false
		}
		if e.Prefix.Bits() > p.Bits() || !e.Prefix.Contains(p.Addr()) {
			continue
		}
		lo, hi := e.Prefix.Bits(), e.Prefix.Bits()
		switch {
		case e.GE != 0 && e.LE != 0:
			lo, hi = e.GE, e.LE
		case e.GE != 0:
			lo, hi = e.GE, max
		case e.LE != 0:
			hi = e.LE
		}
		if p.Bits() < lo || p.Bits() > hi {
			continue
		}
		return e.Permit, false
	}
	return false, false
}

type vfFRRRouteResult struct {
	Activated bool     // the family is exchanged with the neighbor at all
	Permitted bool     // the route passes the filter
	LocalPref uint32   // 0 = not set
	Comms     []string // standard communities, sorted
	Larges    []string // large communities, sorted
	Trail     []string // explanation: which entries matched
	Undefined []string // names referenced but not defined
}

func vfSortedSet(m map[string]bool) []string {
	out := make([]string, 0, len(m))
	for k, v := range m {
		if v {
			out = append(out, k)
		}
	}
	sort.Strings(out)
	return out
}

// vfFRREvalRouteMap runs route-map `name` on prefix p (a route without attributes).
func (c *vfFRRConfig) vfFRREvalRouteMap(name string, p netip.Prefix) vfFRRRouteResult {
	res := vfFRRRouteResult{Activated: true}
	p = p.Masked()
	v6 := p.Addr().Is6()
	rm := c.RouteMaps[name]
	if rm == nil || len(rm.Entries) == 0 {
		res.Undefined = append(res.Undefined, "route-map "+name)
		res.Trail = append(res.Trail, "route-map "+name+" not defined: deny")
		return res
	}
	comms := map[string]bool{}
	larges := map[string]bool{}
	var lp uint32
	permitted := false
	i := 0
	steps := 0
	for i < len(rm.Entries) {
		steps++
		if steps > 10000 {
			res.Trail = append(res.Trail, "loop")
			permitted = false
			break
		}
		e := rm.Entries[i]
		match := true
		if e.HasMatchV4 {
			if v6 {
				match = false
			} else {
				ok, undef := c.vfFRRPrefixListPermits(false, e.MatchV4, p)
				if undef {
					res.Undefined = append(res.Undefined, "ip prefix-list "+e.MatchV4)
				}
				match = match && ok
			}
		}
		if e.HasMatchV6 {
			if !v6 {
				match = false
			} else {
				ok, undef := c.vfFRRPrefixListPermits(true, e.MatchV6, p)
				if undef {
					res.Undefined = append(res.Undefined, "ipv6 prefix-list "+e.MatchV6)
				}
				match = match && ok
			}
		}
		if len(e.Unsupported) > 0 {
			res.Trail = append(res.Trail, fmt.Sprintf("seq %d has clauses the interpreter does not model", e.Seq))
		}
		if !match {
			permitted = false
			i++
			continue
		}
		if !e.Permit {
			res.Trail = append(res.Trail, fmt.Sprintf("seq %d deny matched", e.Seq))
			permitted = false
			break
		}
		res.Trail = append(res.Trail, fmt.Sprintf("seq %d permit matched", e.Seq))
		permitted = true
		if e.SetLocal != nil {
			lp = *e.SetLocal
		}
		if e.SetComm != nil {
			if !e.SetComm.Additive || e.SetComm.None {
				comms = map[string]bool{}
			}
			for _, v := range e.SetComm.Values {
				comms[v] = true
			}
		}
		if e.SetLarge != nil {
			if !e.SetLarge.Additive || e.SetLarge.None {
				larges = map[string]bool{}
			}
			for _, v := range e.SetLarge.Values {
				larges[v] = true
			}
		}
		switch {
		case e.OnMatchGoto != 0:
			j := i + 1
			for j < len(rm.Entries) && rm.Entries[j].Seq < e.OnMatchGoto {
				j++
			}
			i = j
			continue
		case e.OnMatchNext:
			i++
			continue
		}
		break
	}
	res.Permitted = permitted
	if permitted {
		res.LocalPref = lp
		res.Comms = vfSortedSet(comms)
		res.Larges = vfSortedSet(larges)
	}
	return res
}

// vfFRROffer decides what neighbor n of router r is sent for the originated prefix p:
// (exchanged at all?, permitted?, local-pref, standard communities, large communities).
func (c *vfFRRConfig) vfFRROffer(r *vfFRRRouter, n *vfFRRNeighbor, p netip.Prefix) vfFRRRouteResult {
	v6 := p.Addr().Is6()
	a := n.AF[v6]
	active := a != nil && a.Activated
	if !v6 && !r.NoDefaultIPv4Unicast {
		active = true
	}
	if !active {
		return vfFRRRouteResult{Trail: []string{"family not activated"}}
	}
	if a == nil || a.MapOut == "" {
		return vfFRRRouteResult{Activated: true, Permitted: true, Trail: []string{"no outbound route-map"}}
	}
	return c.vfFRREvalRouteMap(a.MapOut, p)
}

// vfFRRAccepts decides whether a route for p received from n would pass the inbound filter.
func (c *vfFRRConfig) vfFRRAccepts(r *vfFRRRouter, n *vfFRRNeighbor, p netip.Prefix) vfFRRRouteResult {
	v6 := p.Addr().Is6()
	a := n.AF[v6]
	active := a != nil && a.Activated
	if !v6 && !r.NoDefaultIPv4Unicast {
		active = true
	}
	if !active {
		return vfFRRRouteResult{Trail: []string{"family not activated"}}
	}
	if a == nil || a.MapIn == "" {
		return vfFRRRouteResult{Activated: true, Permitted: true, Trail: []string{"no inbound route-map"}}
	}
	return c.vfFRREvalRouteMap(a.MapIn, p)
}

// ---------------------------------------------------------------- session-set specifications
//
// Plain-data description of a set of BGP sessions and their advertisements, shared by the C14 and
// C15 harnesses (each converts it to bgp.SessionParameters / bgp.Advertisement itself), and the
// "what was requested" model derived from it.

type vfFRRAdSpec struct {
	Prefix    string   `json:"prefix"`
	LocalPref uint32   `json:"localPref"`
	Comms     []string `json:"communities"` // "A:B" or "large:A:B:C"
}

type vfFRRSessSpec struct {
	VRF        string `json:"vrf"`
	MyASN      uint32 `json:"myASN"`
	PeerASN    uint32 `json:"peerASN"`
	DynamicASN string `json:"dynamicASN"`
	Addr       string `json:"addr"`
	Iface      string `json:"iface"`
	Port       uint16 `json:"port"`
	HoldS      int    `json:"holdS"`      // -1 = not set (then keepalive is not set either)
	KeepaliveS int    `json:"keepaliveS"` // -1 = not set
	ConnectS   int    `json:"connectS"`   // -1 = not set
	Password   string `json:"password"`
	SecretName string `json:"secretName"`
	SecretNS   string `json:"secretNS"`
	Src        string `json:"src"`
	RouterID   string `json:"routerID"`
	Multihop   bool   `json:"multihop"`
	BFDProfile string `json:"bfdProfile"`
	GR         bool   `json:"gr"`
	DisableMP  bool   `json:"disableMP"`

	Ads []vfFRRAdSpec `json:"ads"`
}

type vfFRRProgram struct {
	Sessions    []vfFRRSessSpec `json:"sessions"`
	BFDProfiles []string        `json:"bfdProfiles"`
	Class       string          `json:"class"`
}

func (s *vfFRRSessSpec) PeerKey() string {
	if s.Iface != "" {
		return s.Iface + "%" + s.VRF
	}
	return s.Addr + "%" + s.VRF
}

// Canonical key of the program (independent of the order of sessions and advertisements).
func (p *vfFRRProgram) Key() string {
	var ss []string
	for _, s := range p.Sessions {
		var ads []string
		for _, a := range s.Ads {
			ads = append(ads, fmt.Sprintf("%s/%d/%s", a.Prefix, a.LocalPref, strings.Join(a.Comms, ",")))
		}
		sort.Strings(ads)
		c := s
		c.Ads = nil
		ss = append(ss, vfJSON(c)+"|"+strings.Join(ads, ";"))
	}
	sort.Strings(ss)
	return strings.Join(ss, "\n") + "\n" + strings.Join(p.BFDProfiles, ",")
}

var vfFRRPrefixUniverse = []string{
	"10.20.0.0/24",
	"10.20.0.0/25", // more specific of the first one
	"10.20.1.7/32",
	"192.168.100.0/22",
	"fc00:f853:ccd:e799::/64",
	"fc00:f853:ccd:e799::1/128", // inside the /64
}

// Prefixes nobody ever requests: they must be rejected outbound for everybody.
var vfFRRForeignPrefixes = []string{
	"0.0.0.0/0", "10.20.0.0/16", "10.20.0.128/25", "10.20.0.0/26", "10.20.1.6/31", "192.168.100.0/24",
	"::/0", "fc00:f853:ccd:e799::/65", "fc00:f853:ccd:e799::/48", "fc00:f853:ccd:e799::2/128",
}

// the numeric and the lexicographic order of these differ (900 < 65000, "65000" < "900"; 3 < 20, "20" < "3")
var vfFRRCommUniverse = []string{
	"100:3", "100:20", "900:5", "65000:300",
	"large:64512:1:2", "large:64512:10:0", "large:900:0:1",
}

type vfFRRGenOpts struct {
	Secrets bool // generate password-secret references (FRR-K8s mode)
}

// vfFRRGenProgram draws a session set the FRR-mode validator accepts: one router id for all
// peers, one local ASN per VRF, unique peer (address or interface) per VRF.
func vfFRRGenProgram(r *vfRand, o vfFRRGenOpts) vfFRRProgram {
	var prog vfFRRProgram
	prog.Class = "plain"
	vrfs := vfPick(r, [][]string{{""}, {""}, {"red"}, {"", "red"}, {"", "red"}, {"red", "blue"}})
	routerID := vfPick(r, []string{"10.1.1.254", "10.1.1.254", ""})
	asnOf := map[string]uint32{}
	for _, v := range vrfs {
		asnOf[v] = vfPick(r, []uint32{64512, 64512, 64513, 4200000001})
	}
	nprof := r.Intn(3)
	for i := 0; i < nprof; i++ {
		prog.BFDProfiles = append(prog.BFDProfiles, []string{"fast", "slow"}[i])
	}
	peers := []string{"10.2.2.254", "10.2.2.253", "172.30.0.3", "fc00:f853:ccd:e793::5", "fc00:f853:ccd:e793::6", "@net0", "@eth1"}
	if r.Chance(1, 6) {
		// an IPv4 peer spelled as an IPv4-mapped IPv6 address: it is an IPv4 neighbor
		peers = append(peers, "::ffff:10.2.2.252", "::ffff:10.2.2.252")
	}
	if r.Chance(1, 25) {
		// interface names containing a dash next to a VRF whose name follows the dash
		prog.Class = "dashed-interface"
		vrfs = []string{"", "red"}
		if _, ok := asnOf["red"]; !ok {
			asnOf["red"] = 64513
		}
		if _, ok := asnOf[""]; !ok {
			asnOf[""] = 64512
		}
		peers = []string{"@eth0-red", "@eth0", "10.2.2.254", "@eth0-red", "@eth0"}
	}
	n := vfPick(r, []int{1, 2, 2, 3, 3, 4})
	used := map[string]bool{}
	for len(prog.Sessions) < n {
		var s vfFRRSessSpec
		s.VRF = vfPick(r, vrfs)
		s.MyASN = asnOf[s.VRF]
		s.RouterID = routerID
		peer := vfPick(r, peers)
		if strings.HasPrefix(peer, "@") {
			s.Iface = peer[1:]
		} else {
			s.Addr = peer
		}
		if used[s.PeerKey()] {
			if r.Chance(1, 8) {
				n-- // avoid spinning when few combinations are left
			}
			continue
		}
		used[s.PeerKey()] = true
		switch r.Intn(6) {
		case 0:
			s.PeerASN = s.MyASN // iBGP
		case 1:
			s.DynamicASN = "internal"
		case 2:
			s.DynamicASN = "external"
		default:
			s.PeerASN = vfPick(r, []uint32{64600, 64601, 4200000002})
		}
		s.Port = vfPick(r, []uint16{179, 179, 179, 1179, 2179, 0})
		s.HoldS, s.KeepaliveS, s.ConnectS = -1, -1, -1
		switch r.Intn(4) {
		case 0:
			s.HoldS, s.KeepaliveS = 90, 30
		case 1:
			s.HoldS, s.KeepaliveS = vfPick(r, []int{3, 9, 180}), vfPick(r, []int{1, 2, 3})
		case 2:
			s.HoldS, s.KeepaliveS = 0, 0
		}
		if r.Chance(1, 3) {
			s.ConnectS = vfPick(r, []int{1, 10, 45})
		}
		switch r.Intn(4) {
		case 0:
			s.Password = vfPick(r, []string{"password", "s3cret!", "two words"})
		case 1:
			if o.Secrets {
				s.SecretName, s.SecretNS = vfPick(r, []string{"bgp-secret", "other-secret"}), "metallb-system"
				if r.Chance(1, 5) {
					s.Password = "both"
					switch r.Intn(4) { // the reference next to the password may be a partial one
					case 0:
						s.SecretNS = ""
					case 1:
						s.SecretName = ""
					}
				}
			} else {
				s.Password = "fromsecret"
			}
		}
		if r.Chance(1, 2) {
			if s.Addr != "" && strings.Contains(s.Addr, ":") && !strings.HasPrefix(s.Addr, "::ffff:") {
				s.Src = vfPick(r, []string{"fc00:f853:ccd:e793::100", "fc00:f853:ccd:e793::101"})
			} else {
				s.Src = vfPick(r, []string{"10.1.1.254", "10.1.1.100"})
			}
		}
		if s.PeerASN != s.MyASN && r.Chance(1, 4) {
			s.Multihop = true
		}
		if len(prog.BFDProfiles) > 0 && r.Chance(1, 2) {
			s.BFDProfile = vfPick(r, prog.BFDProfiles)
		}
		s.GR = r.Chance(1, 4)
		s.DisableMP = r.Chance(1, 4)
		prog.Sessions = append(prog.Sessions, s)
	}
	// advertisements: per (session, prefix) one local preference, so that repeated prefixes
	// normally merge; rarely a conflicting one (FRR mode must then refuse the Set).
	for i := range prog.Sessions {
		s := &prog.Sessions[i]
		nads := vfPick(r, []int{0, 1, 2, 2, 3, 3, 4, 5, 6})
		lpOf := map[string]uint32{}
		// sessions tend to share a prefix pool so that neighbors of one router get different subsets
		pool := vfFRRPrefixUniverse
		if r.Chance(1, 3) {
			pool = vfSubset(r, vfFRRPrefixUniverse, 1, 2)
			if len(pool) == 0 {
				pool = vfFRRPrefixUniverse[:1]
			}
		}
		for j := 0; j < nads; j++ {
			var a vfFRRAdSpec
			a.Prefix = vfPick(r, pool)
			lp, ok := lpOf[a.Prefix]
			if !ok {
				lp = vfPick(r, []uint32{0, 0, 100, 200})
				lpOf[a.Prefix] = lp
			}
			a.LocalPref = lp
			if r.Chance(1, 60) {
				a.LocalPref = vfPick(r, []uint32{0, 100, 200})
			}
			a.Comms = vfSubset(r, vfFRRCommUniverse, 1, vfPick(r, []int{2, 4, 4, 7}))
			s.Ads = append(s.Ads, a)
		}
	}
	return prog
}

// ---------------------------------------------------------------- what was requested

type vfFRRWant struct {
	LocalPrefs map[uint32]bool // all local preferences requested for the prefix (conflict if > 1)
	Comms      map[string]bool // standard
	Larges     map[string]bool // large, without the "large:" marker
	Count      int             // advertisements naming the prefix
}

func (w *vfFRRWant) LocalPref() uint32 {
	for lp := range w.LocalPrefs {
		return lp
	}
	return 0
}

// vfFRRRequested: prefix (canonical string) -> what the session asked for.
func vfFRRRequested(s *vfFRRSessSpec) map[string]*vfFRRWant {
	out := map[string]*vfFRRWant{}
	for _, a := range s.Ads {
		p := netip.MustParsePrefix(a.Prefix).Masked().String()
		w := out[p]
		if w == nil {
			w = &vfFRRWant{LocalPrefs: map[uint32]bool{}, Comms: map[string]bool{}, Larges: map[string]bool{}}
			out[p] = w
		}
		w.Count++
		w.LocalPrefs[a.LocalPref] = true
		for _, c := range a.Comms {
			if strings.HasPrefix(c, "large:") {
				w.Larges[strings.TrimPrefix(c, "large:")] = true
			} else {
				w.Comms[c] = true
			}
		}
	}
	return out
}

// vfFRRHasLocalPrefConflict: some session asks for one prefix with two different local preferences
// (FRR mode legitimately refuses such a Set).
func vfFRRHasLocalPrefConflict(s *vfFRRSessSpec) bool {
	for _, w := range vfFRRRequested(s) {
		if len(w.LocalPrefs) > 1 {
			return true
		}
	}
	return false
}

// vfFRRWantsFamily: which families the session is expected to exchange. ok=false: the request
// does not determine it (unnumbered peer with MP disabled).
func vfFRRWantsFamily(s *vfFRRSessSpec, v6 bool) (want bool, ok bool) {
	if !s.DisableMP {
		return true, true
	}
	if s.Iface != "" {
		return false, false
	}
	a, err := netip.ParseAddr(s.Addr)
	if err != nil {
		return false, false
	}
	return a.Unmap().Is6() == v6, true
}

func vfFRRSameStrings(a, b []string) bool {
	if len(a) != len(b) {
		return false
	}
	for i := range a {
		if a[i] != b[i] {
			return false
		}
	}
	return true
}

// vfFRRPeerLabelCollision: two sessions whose "<peer>[-<vrf>]" labels coincide (an interface name
// that ends in "-<vrf of another peer with the interface name before the dash>"). Only used to
// name the cause of a violation, never to decide one.
func vfFRRPeerLabelCollision(prog *vfFRRProgram) bool {
	seen := map[string]bool{}
	for _, s := range prog.Sessions {
		id := s.Addr
		if s.Iface != "" {
			id = s.Iface
		}
		if s.VRF != "" {
			id += "-" + s.VRF
		}
		if seen[id] {
			return true
		}
		seen[id] = true
	}
	return false
}

// vfFRRExcerpt keeps violation details small.
func vfFRRExcerpt(text string) string {
	if len(text) > 12000 {
		return text[:12000] + "\n[...]"
	}
	return text
}
