//go:build verif

// Generators of pool layouts shared by the allocator-API harness and the controller box.
package vfcommon

import (
	"fmt"
	"strings"

	metallbv1beta1 "go.universe.tf/metallb/api/v1beta1"
	corev1 "k8s.io/api/core/v1"
	metav1 "k8s.io/apimachinery/pkg/apis/meta/v1"
	"k8s.io/utils/ptr"
)

var vfBlocksSmall = []string{
	"10.0.0.0/30", "10.0.0.4/31", "10.0.0.8-10.0.0.10", "10.0.1.254-10.0.2.1", "10.0.3.0/32", "10.0.3.255/32",
	"10.0.4.0/29", "10.0.5.255-10.0.6.0", "10.0.7.7/32",
	"fc00::/126", "fc00::10-fc00::12", "fc00:1::/127", "fc00:2::5/128",
}

var vfBlocksBig = []string{
	"fc00:a::/64", "fc00:b::/48", "fc00:c::/66", "fc00:d::/67", "10.8.0.0/16", "10.9.0.0/23", "10.10.0.128/25",
	"10.11.0.0/25", "fc00:e::/96", "fc00:f::-fc00:f::ffff:ffff:ffff:ffff", "10.12.0.0-10.12.3.255",
	"fd00::/8", "2001::/16", "2400::/24", // IPv6 prefixes as short as the IPv4 ones the buggy-address arithmetic is written for
}

func vfGenNamespaces() []corev1.Namespace {
	mk := func(n string, l map[string]string) corev1.Namespace {
		return corev1.Namespace{ObjectMeta: metav1.ObjectMeta{Name: n, Labels: l}}
	}
	return []corev1.Namespace{mk("ns1", map[string]string{"team": "a"}), mk("ns2", map[string]string{"team": "b"}), mk("ns3", nil)}
}


// vfGenPools cuts 1..4 pools from the block palettes (every block used at most once).
func vfGenPools(r *vfRand, withBig bool, names []string) []metallbv1beta1.IPAddressPool {
	blocks := vfShuffled(r, vfBlocksSmall)
	if withBig {
		big := vfShuffled(r, vfBlocksBig)
		blocks = append(big[:r.Range(1, 4)], blocks...)
		vfShuffle(r, blocks)
	}
	n := r.Range(1, len(names))
	var out []metallbv1beta1.IPAddressPool
	bi := 0
	for i := 0; i < n && bi < len(blocks); i++ {
		p := metallbv1beta1.IPAddressPool{ObjectMeta: metav1.ObjectMeta{Name: names[i], Namespace: "metallb-system"}}
		k := vfPick(r, []int{1, 1, 2, 2, 3})
		for j := 0; j < k && bi < len(blocks); j++ {
			p.Spec.Addresses = append(p.Spec.Addresses, blocks[bi])
			bi++
		}
		p.Spec.AvoidBuggyIPs = r.Chance(1, 3)
		if r.Chance(1, 4) {
			p.Spec.AutoAssign = ptr.To(false)
		}
		if r.Chance(1, 2) {
			at := &metallbv1beta1.ServiceAllocation{Priority: vfPick(r, []int{0, 0, 1, 2, 3})}
			switch r.Intn(8) {
			case 6: // a namespace list AND namespace selectors: the pool serves the union
				at.Namespaces = []string{vfPick(r, []string{"ns1", "ns2", "ns3"})}
				at.NamespaceSelectors = []metav1.LabelSelector{{MatchLabels: map[string]string{"team": vfPick(r, []string{"a", "b", "nobody"})}}}
			case 7: // all three kinds of restriction
				at.Namespaces = []string{vfPick(r, []string{"ns1", "ns2"})}
				at.NamespaceSelectors = []metav1.LabelSelector{{MatchLabels: map[string]string{"team": vfPick(r, []string{"a", "b"})}}}
				at.ServiceSelectors = []metav1.LabelSelector{{MatchLabels: map[string]string{"tier": vfPick(r, []string{"web", "db"})}}, {MatchLabels: map[string]string{"tier": "cache"}}}
			case 0:
				at.Namespaces = vfSubset(r, []string{"ns1", "ns2", "ns3"}, 1, 2)
			case 1:
				at.NamespaceSelectors = []metav1.LabelSelector{{MatchLabels: map[string]string{"team": vfPick(r, []string{"a", "a", "b", "b", "nobody"})}}}
			case 2:
				at.ServiceSelectors = []metav1.LabelSelector{{MatchLabels: map[string]string{"tier": vfPick(r, []string{"web", "db"})}}}
				switch r.Intn(5) {
				case 0: // negative requirements select a service without labels too
					at.ServiceSelectors = []metav1.LabelSelector{{MatchExpressions: []metav1.LabelSelectorRequirement{{Key: "tier", Operator: metav1.LabelSelectorOpNotIn, Values: []string{vfPick(r, []string{"web", "db"})}}}}}
				case 1:
					at.ServiceSelectors = []metav1.LabelSelector{{MatchExpressions: []metav1.LabelSelectorRequirement{{Key: "tier", Operator: metav1.LabelSelectorOpDoesNotExist}}}}
				}
			case 3:
				at.Namespaces = []string{vfPick(r, []string{"ns1", "ns2"})}
				at.ServiceSelectors = []metav1.LabelSelector{{MatchLabels: map[string]string{"tier": "web"}}}
			case 4:
				// priority only: pinned to every service
			default:
				at.Namespaces = []string{"ns1", "ns2", "ns3"}
			}
			p.Spec.AllocateTo = at
		}
		out = append(out, p)
	}
	return out
}

func vfPoolDump(crs []metallbv1beta1.IPAddressPool) string {
	var parts []string
	for _, p := range crs {
		at := ""
		if p.Spec.AllocateTo != nil {
			at = fmt.Sprintf(" allocTo{prio=%d ns=%v nssel=%d svcsel=%d}", p.Spec.AllocateTo.Priority, p.Spec.AllocateTo.Namespaces, len(p.Spec.AllocateTo.NamespaceSelectors), len(p.Spec.AllocateTo.ServiceSelectors))
		}
		aa := true
		if p.Spec.AutoAssign != nil {
			aa = *p.Spec.AutoAssign
		}
		parts = append(parts, fmt.Sprintf("%s%v avoid=%v auto=%v%s", p.Name, p.Spec.Addresses, p.Spec.AvoidBuggyIPs, aa, at))
	}
	return strings.Join(parts, " | ")
}

func vfRegroupPools(r *vfRand, crs []metallbv1beta1.IPAddressPool) []metallbv1beta1.IPAddressPool {
	var all []string
	seen := map[string]bool{}
	for _, p := range crs {
		for _, a := range p.Spec.Addresses {
			if !seen[a] {
				seen[a] = true
				all = append(all, a)
			}
		}
	}
	names := vfShuffled(r, []string{"p1", "p2", "p3", "p4", "q1", "q2"})
	n := r.Range(1, 3)
	out := make([]metallbv1beta1.IPAddressPool, n)
	for i := range out {
		out[i] = metallbv1beta1.IPAddressPool{ObjectMeta: metav1.ObjectMeta{Name: names[i], Namespace: "metallb-system"}}
	}
	for i, a := range all {
		k := i % n
		if r.Chance(1, 3) {
			k = r.Intn(n)
		}
		out[k].Spec.Addresses = append(out[k].Spec.Addresses, a)
	}
	var res []metallbv1beta1.IPAddressPool
	for _, p := range out {
		if len(p.Spec.Addresses) > 0 {
			res = append(res, p)
		}
	}
	return res
}

func vfFlipPools(r *vfRand, crs []metallbv1beta1.IPAddressPool) []metallbv1beta1.IPAddressPool {
	out := make([]metallbv1beta1.IPAddressPool, len(crs))
	for i := range crs {
		out[i] = *crs[i].DeepCopy()
		if r.Chance(1, 2) {
			out[i].Spec.AvoidBuggyIPs = !out[i].Spec.AvoidBuggyIPs
		}
		if r.Chance(1, 3) {
			out[i].Spec.AutoAssign = ptr.To(r.Bool())
		}
		if r.Chance(1, 3) {
			if out[i].Spec.AllocateTo == nil {
				out[i].Spec.AllocateTo = &metallbv1beta1.ServiceAllocation{Priority: r.Intn(3), Namespaces: []string{vfPick(r, []string{"ns1", "ns2"})}}
			} else {
				out[i].Spec.AllocateTo = nil
			}
		}
	}
	return out
}

