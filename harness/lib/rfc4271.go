//go:build verif

// Independent BGP-4 message codec for the C16 / C17 checks.
//
// Written from the RFC texts (RFC 4271 sections 4.1-4.5 and 6.1-6.3, RFC 5492 capabilities,
// RFC 4760 section 8 multiprotocol capability, RFC 6793 four-octet AS numbers, RFC 1997
// communities), not from MetalLB's encoder: it works on byte slices with explicit offsets and
// never uses encoding/binary struct (de)serialisation, which is what the code under test uses.
//
// The decoder is strict: it is used to judge a *sender*, so everything a conforming receiver would
// answer with a NOTIFICATION (or, under RFC 7606, treat as malformed) is an error here. Every error
// carries a short stable code that the harnesses use inside violation signatures.
package vfcommon

import (
	"fmt"
	"io"
	"sort"
	"strings"
)

const (
	vfBGPOpen         = 1
	vfBGPUpdate       = 2
	vfBGPNotification = 3
	vfBGPKeepalive    = 4

	vfBGPHeaderLen = 19
	vfBGPMaxLen    = 4096
	vfBGPASTrans   = 23456

	vfBGPCapMP  = 1
	vfBGPCapAS4 = 65

	vfBGPAttrOrigin      = 1
	vfBGPAttrASPath      = 2
	vfBGPAttrNextHop     = 3
	vfBGPAttrMED         = 4
	vfBGPAttrLocalPref   = 5
	vfBGPAttrAtomicAggr  = 6
	vfBGPAttrAggregator  = 7
	vfBGPAttrCommunities = 8
)

// ---------------------------------------------------------------- errors

type vfBGPError struct {
	Code string // stable, e.g. "update:nlri-truncated"
	Msg  string
}

func (e *vfBGPError) Error() string { return e.Code + ": " + e.Msg }

func vfBGPErrf(code, format string, args ...any) *vfBGPError {
	return &vfBGPError{Code: code, Msg: fmt.Sprintf(format, args...)}
}

// vfBGPErrCode returns the stable code of a decoder error ("io" for anything else).
func vfBGPErrCode(err error) string {
	if e, ok := err.(*vfBGPError); ok {
		return e.Code
	}
	return "io"
}

func vfBE16(b []byte) int { return int(b[0])<<8 | int(b[1]) }
func vfBE32(b []byte) uint32 {
	return uint32(b[0])<<24 | uint32(b[1])<<16 | uint32(b[2])<<8 | uint32(b[3])
}

func vfHex(b []byte) string {
	const digits = "0123456789abcdef"
	var sb strings.Builder
	for _, x := range b {
		sb.WriteByte(digits[x>>4])
		sb.WriteByte(digits[x&15])
	}
	return sb.String()
}

// ---------------------------------------------------------------- decoded forms

type vfBGPCap struct {
	Code  byte
	Value []byte
}

type vfBGPOptParam struct {
	Type  byte
	Value []byte
	Caps  []vfBGPCap // parsed when Type == 2
}

type vfBGPAfiSafi struct {
	AFI      int
	Reserved byte
	SAFI     int
}

type vfBGPOpenMsg struct {
	Version  byte
	ASN16    int
	HoldTime int
	RouterID [4]byte
	Params   []vfBGPOptParam

	// derived from the capability parameters
	Caps   []vfBGPCap
	MP     []vfBGPAfiSafi
	HasAS4 bool
	AS4    []uint32 // every value of capability 65 in order of appearance
}

// ASN is the peer's AS number: the four-octet capability wins over the fixed field.
func (o *vfBGPOpenMsg) ASN() uint32 {
	if o.HasAS4 {
		return o.AS4[0]
	}
	return uint32(o.ASN16)
}

func (o *vfBGPOpenMsg) HasMP(afi, safi int) bool {
	for _, m := range o.MP {
		if m.AFI == afi && m.SAFI == safi {
			return true
		}
	}
	return false
}

func (o *vfBGPOpenMsg) OnlyCapabilityParams() bool {
	for _, p := range o.Params {
		if p.Type != 2 {
			return false
		}
	}
	return true
}

type vfBGPPrefix struct {
	Len      int
	Addr     [4]byte // as on the wire, zero padded to four octets
	Trailing bool    // bits beyond Len were set in the last octet (irrelevant per RFC 4271 4.3)
}

// Masked returns the address with every bit beyond Len cleared.
func (p vfBGPPrefix) Masked() [4]byte {
	var out [4]byte
	bits := p.Len
	for i := 0; i < 4; i++ {
		switch {
		case bits >= 8:
			out[i] = p.Addr[i]
			bits -= 8
		case bits > 0:
			out[i] = p.Addr[i] & ^byte(0xff>>uint(bits))
			bits = 0
		}
	}
	return out
}

func (p vfBGPPrefix) String() string {
	m := p.Masked()
	return fmt.Sprintf("%d.%d.%d.%d/%d", m[0], m[1], m[2], m[3], p.Len)
}

type vfBGPAttr struct {
	Flags  byte
	Type   byte
	ExtLen bool
	Value  []byte
}

type vfBGPASSegment struct {
	Type byte // 1 AS_SET, 2 AS_SEQUENCE (3, 4: confederation, RFC 5065)
	ASNs []uint32
}

type vfBGPUpdateMsg struct {
	Withdrawn []vfBGPPrefix
	Attrs     []vfBGPAttr
	NLRI      []vfBGPPrefix

	HasOrigin      bool
	Origin         byte
	HasASPath      bool
	ASPath         []vfBGPASSegment
	HasNextHop     bool
	NextHop        [4]byte
	HasMED         bool
	MED            uint32
	HasLocalPref   bool
	LocalPref      uint32
	HasCommunities bool
	Communities    []uint32
	Unknown        []byte // type codes of attributes the decoder does not interpret
}

// FlatASPath returns the AS numbers of all segments in order.
func (u *vfBGPUpdateMsg) FlatASPath() []uint32 {
	var out []uint32
	for _, s := range u.ASPath {
		out = append(out, s.ASNs...)
	}
	return out
}

// AttrTypes lists the attribute type codes in order of appearance.
func (u *vfBGPUpdateMsg) AttrTypes() []int {
	var out []int
	for _, a := range u.Attrs {
		out = append(out, int(a.Type))
	}
	return out
}

type vfBGPNotificationMsg struct {
	Code, Subcode byte
	Data          []byte
}

type vfBGPMsg struct {
	Type   byte
	Len    int // announced length
	Open   *vfBGPOpenMsg
	Update *vfBGPUpdateMsg
	Notif  *vfBGPNotificationMsg
}

// ---------------------------------------------------------------- framing

// vfBGPParseHeader checks the 19-octet header (RFC 4271 4.1) and returns announced length and type.
func vfBGPParseHeader(b []byte) (length int, typ byte, err error) {
	if len(b) < vfBGPHeaderLen {
		return 0, 0, vfBGPErrf("header:truncated", "%d octets, a header has 19", len(b))
	}
	for i := 0; i < 16; i++ {
		if b[i] != 0xff {
			return 0, 0, vfBGPErrf("header:marker", "marker octet %d is 0x%02x", i, b[i])
		}
	}
	length = vfBE16(b[16:18])
	typ = b[18]
	if length < vfBGPHeaderLen || length > vfBGPMaxLen {
		return length, typ, vfBGPErrf("header:length-range", "length %d outside 19..4096", length)
	}
	if typ < 1 || typ > 4 {
		return length, typ, vfBGPErrf("header:type", "message type %d", typ)
	}
	return length, typ, nil
}

// vfBGPReadFrame reads exactly one message (header + announced length) from a stream.
func vfBGPReadFrame(r io.Reader) ([]byte, error) {
	hdr := make([]byte, vfBGPHeaderLen)
	if _, err := io.ReadFull(r, hdr); err != nil {
		return nil, err
	}
	length, _, err := vfBGPParseHeader(hdr)
	if err != nil {
		return hdr, err
	}
	msg := make([]byte, length)
	copy(msg, hdr)
	if _, err := io.ReadFull(r, msg[vfBGPHeaderLen:]); err != nil {
		return msg[:vfBGPHeaderLen], err
	}
	return msg, nil
}

// vfBGPSplit cuts a byte string into messages by their announced lengths; the messages must cover
// the string exactly ("length equal to the bytes written").
func vfBGPSplit(b []byte) ([][]byte, error) {
	var out [][]byte
	for len(b) > 0 {
		length, _, err := vfBGPParseHeader(b)
		if err != nil {
			return out, err
		}
		if length > len(b) {
			return out, vfBGPErrf("header:length-mismatch", "announced length %d but only %d octets were written", length, len(b))
		}
		out = append(out, b[:length])
		b = b[length:]
	}
	return out, nil
}

// ---------------------------------------------------------------- decoder

// vfBGPDecode decodes one complete message. as4 tells whether AS numbers in AS_PATH / AGGREGATOR are
// four octets wide (both sides announced capability 65) or two.
func vfBGPDecode(msg []byte, as4 bool) (*vfBGPMsg, error) {
	length, typ, err := vfBGPParseHeader(msg)
	if err != nil {
		return nil, err
	}
	if length != len(msg) {
		return nil, vfBGPErrf("header:length-mismatch", "announced length %d, message has %d octets", length, len(msg))
	}
	body := msg[vfBGPHeaderLen:]
	m := &vfBGPMsg{Type: typ, Len: length}
	switch typ {
	case vfBGPOpen:
		m.Open, err = vfBGPDecodeOpenBody(body)
	case vfBGPUpdate:
		m.Update, err = vfBGPDecodeUpdateBody(body, as4)
	case vfBGPNotification:
		if len(body) < 2 {
			return nil, vfBGPErrf("notification:too-short", "length %d < 21", length)
		}
		m.Notif = &vfBGPNotificationMsg{Code: body[0], Subcode: body[1], Data: append([]byte(nil), body[2:]...)}
	case vfBGPKeepalive:
		if len(body) != 0 {
			return nil, vfBGPErrf("keepalive:length", "length %d, a KEEPALIVE is exactly 19 octets", length)
		}
	}
	if err != nil {
		return nil, err
	}
	return m, nil
}

func vfBGPDecodeOpenBody(body []byte) (*vfBGPOpenMsg, error) {
	// version(1) my-as(2) hold(2) identifier(4) opt-parm-len(1)
	if len(body) < 10 {
		return nil, vfBGPErrf("open:too-short", "length %d < 29", len(body)+vfBGPHeaderLen)
	}
	o := &vfBGPOpenMsg{Version: body[0], ASN16: vfBE16(body[1:3]), HoldTime: vfBE16(body[3:5])}
	copy(o.RouterID[:], body[5:9])
	optLen := int(body[9])
	if o.Version != 4 {
		return nil, vfBGPErrf("open:version", "version %d", o.Version)
	}
	if 10+optLen != len(body) {
		return nil, vfBGPErrf("open:optparm-length", "optional parameters length %d but %d octets follow", optLen, len(body)-10)
	}
	if o.HoldTime == 1 || o.HoldTime == 2 {
		return nil, vfBGPErrf("open:hold-time", "hold time %d", o.HoldTime)
	}
	rest := body[10:]
	for len(rest) > 0 {
		if len(rest) < 2 {
			return nil, vfBGPErrf("open:param-truncated", "one stray octet at the end of the optional parameters")
		}
		pt, pl := rest[0], int(rest[1])
		if 2+pl > len(rest) {
			return nil, vfBGPErrf("open:param-truncated", "parameter type %d announces %d octets, %d left", pt, pl, len(rest)-2)
		}
		p := vfBGPOptParam{Type: pt, Value: append([]byte(nil), rest[2:2+pl]...)}
		rest = rest[2+pl:]
		if pt == 2 {
			cv := p.Value
			for len(cv) > 0 {
				if len(cv) < 2 {
					return nil, vfBGPErrf("open:cap-truncated", "one stray octet at the end of a capabilities parameter")
				}
				cc, cl := cv[0], int(cv[1])
				if 2+cl > len(cv) {
					return nil, vfBGPErrf("open:cap-truncated", "capability %d announces %d octets, %d left", cc, cl, len(cv)-2)
				}
				c := vfBGPCap{Code: cc, Value: append([]byte(nil), cv[2:2+cl]...)}
				cv = cv[2+cl:]
				switch cc {
				case vfBGPCapMP:
					if cl != 4 {
						return nil, vfBGPErrf("open:cap-mp-length", "multiprotocol capability of %d octets", cl)
					}
					o.MP = append(o.MP, vfBGPAfiSafi{AFI: vfBE16(c.Value[0:2]), Reserved: c.Value[2], SAFI: int(c.Value[3])})
				case vfBGPCapAS4:
					if cl != 4 {
						return nil, vfBGPErrf("open:cap-as4-length", "four-octet AS capability of %d octets", cl)
					}
					o.HasAS4 = true
					o.AS4 = append(o.AS4, vfBE32(c.Value))
				}
				p.Caps = append(p.Caps, c)
				o.Caps = append(o.Caps, c)
			}
		}
		o.Params = append(o.Params, p)
	}
	return o, nil
}

func vfBGPDecodePrefixes(b []byte, what string) ([]vfBGPPrefix, error) {
	var out []vfBGPPrefix
	for len(b) > 0 {
		bits := int(b[0])
		if bits > 32 {
			return nil, vfBGPErrf("update:"+what+"-prefix-length", "prefix length %d > 32", bits)
		}
		n := bits >> 3
		if bits&7 != 0 {
			n++
		}
		if 1+n > len(b) {
			return nil, vfBGPErrf("update:"+what+"-truncated", "prefix of %d bits needs %d octets, %d left", bits, n, len(b)-1)
		}
		p := vfBGPPrefix{Len: bits}
		copy(p.Addr[:], b[1:1+n])
		if p.Masked() != p.Addr {
			p.Trailing = true
		}
		out = append(out, p)
		b = b[1+n:]
	}
	return out, nil
}

func vfBGPDecodeUpdateBody(body []byte, as4 bool) (*vfBGPUpdateMsg, error) {
	if len(body) < 4 {
		return nil, vfBGPErrf("update:too-short", "length %d < 23", len(body)+vfBGPHeaderLen)
	}
	wl := vfBE16(body[0:2])
	if 2+wl+2 > len(body) {
		return nil, vfBGPErrf("update:withdrawn-length", "withdrawn routes length %d overruns the message (%d octets of body)", wl, len(body))
	}
	al := vfBE16(body[2+wl : 4+wl])
	if 4+wl+al > len(body) {
		return nil, vfBGPErrf("update:attr-total-length", "total path attribute length %d overruns the message (%d octets left)", al, len(body)-4-wl)
	}
	u := &vfBGPUpdateMsg{}
	var err error
	if u.Withdrawn, err = vfBGPDecodePrefixes(body[2:2+wl], "withdrawn"); err != nil {
		return nil, err
	}
	if err = vfBGPDecodeAttrs(u, body[4+wl:4+wl+al], as4); err != nil {
		return nil, err
	}
	if u.NLRI, err = vfBGPDecodePrefixes(body[4+wl+al:], "nlri"); err != nil {
		return nil, err
	}
	if len(u.NLRI) > 0 {
		if !u.HasOrigin {
			return nil, vfBGPErrf("update:missing-origin", "NLRI present without ORIGIN")
		}
		if !u.HasASPath {
			return nil, vfBGPErrf("update:missing-as-path", "NLRI present without AS_PATH")
		}
		if !u.HasNextHop {
			return nil, vfBGPErrf("update:missing-next-hop", "NLRI present without NEXT_HOP")
		}
	}
	return u, nil
}

// well-known attributes: optional 0, transitive 1, partial 0 (RFC 4271 4.3, 5)
func vfBGPWellKnownFlags(f byte) bool { return f&0xe0 == 0x40 }

func vfBGPDecodeAttrs(u *vfBGPUpdateMsg, b []byte, as4 bool) error {
	seen := map[byte]bool{}
	for len(b) > 0 {
		if len(b) < 3 {
			return vfBGPErrf("update:attr-truncated", "%d stray octets at the end of the path attributes", len(b))
		}
		a := vfBGPAttr{Flags: b[0], Type: b[1]}
		var vl, hl int
		if a.Flags&0x10 != 0 {
			a.ExtLen = true
			if len(b) < 4 {
				return vfBGPErrf("update:attr-truncated", "extended-length attribute %d without its length octets", a.Type)
			}
			vl, hl = vfBE16(b[2:4]), 4
		} else {
			vl, hl = int(b[2]), 3
		}
		if hl+vl > len(b) {
			return vfBGPErrf("update:attr-length", "attribute %d announces %d octets, %d left", a.Type, vl, len(b)-hl)
		}
		a.Value = append([]byte(nil), b[hl:hl+vl]...)
		b = b[hl+vl:]
		if a.Flags&0x0f != 0 {
			return vfBGPErrf("update:attr-flags-reserved", "attribute %d has flags 0x%02x (low bits must be zero)", a.Type, a.Flags)
		}
		if a.Flags&0x80 == 0 && a.Flags&0x40 == 0 {
			return vfBGPErrf("update:attr-flags", "attribute %d: well-known attributes must be transitive (flags 0x%02x)", a.Type, a.Flags)
		}
		if a.Flags&0x80 == 0 && a.Flags&0x20 != 0 {
			return vfBGPErrf("update:attr-flags", "attribute %d: partial bit on a well-known attribute (flags 0x%02x)", a.Type, a.Flags)
		}
		if a.Flags&0xc0 == 0x80 && a.Flags&0x20 != 0 {
			return vfBGPErrf("update:attr-flags", "attribute %d: partial bit on an optional non-transitive attribute", a.Type)
		}
		if seen[a.Type] {
			return vfBGPErrf("update:attr-duplicate", "attribute %d appears twice", a.Type)
		}
		seen[a.Type] = true
		u.Attrs = append(u.Attrs, a)
		wk := vfBGPWellKnownFlags(a.Flags)
		switch a.Type {
		case vfBGPAttrOrigin:
			if !wk {
				return vfBGPErrf("update:attr-flags-origin", "ORIGIN with flags 0x%02x", a.Flags)
			}
			if vl != 1 {
				return vfBGPErrf("update:attr-len-origin", "ORIGIN of %d octets", vl)
			}
			if a.Value[0] > 2 {
				return vfBGPErrf("update:origin-value", "ORIGIN value %d", a.Value[0])
			}
			u.HasOrigin, u.Origin = true, a.Value[0]
		case vfBGPAttrASPath:
			if !wk {
				return vfBGPErrf("update:attr-flags-as-path", "AS_PATH with flags 0x%02x", a.Flags)
			}
			size := 2
			if as4 {
				size = 4
			}
			v := a.Value
			for len(v) > 0 {
				if len(v) < 2 {
					return vfBGPErrf("update:as-path-malformed", "stray octet at the end of AS_PATH")
				}
				st, cnt := v[0], int(v[1])
				if st < 1 || st > 4 {
					return vfBGPErrf("update:as-path-malformed", "path segment type %d", st)
				}
				if cnt == 0 {
					return vfBGPErrf("update:as-path-malformed", "path segment with zero AS numbers")
				}
				if 2+cnt*size > len(v) {
					return vfBGPErrf("update:as-path-malformed", "segment of %d x %d-octet AS numbers, %d octets left", cnt, size, len(v)-2)
				}
				seg := vfBGPASSegment{Type: st}
				for i := 0; i < cnt; i++ {
					f := v[2+i*size : 2+(i+1)*size]
					if as4 {
						seg.ASNs = append(seg.ASNs, vfBE32(f))
					} else {
						seg.ASNs = append(seg.ASNs, uint32(vfBE16(f)))
					}
				}
				u.ASPath = append(u.ASPath, seg)
				v = v[2+cnt*size:]
			}
			u.HasASPath = true
		case vfBGPAttrNextHop:
			if !wk {
				return vfBGPErrf("update:attr-flags-next-hop", "NEXT_HOP with flags 0x%02x", a.Flags)
			}
			if vl != 4 {
				return vfBGPErrf("update:attr-len-next-hop", "NEXT_HOP of %d octets", vl)
			}
			u.HasNextHop = true
			copy(u.NextHop[:], a.Value)
		case vfBGPAttrMED:
			if a.Flags&0xc0 != 0x80 {
				return vfBGPErrf("update:attr-flags-med", "MULTI_EXIT_DISC with flags 0x%02x", a.Flags)
			}
			if vl != 4 {
				return vfBGPErrf("update:attr-len-med", "MULTI_EXIT_DISC of %d octets", vl)
			}
			u.HasMED, u.MED = true, vfBE32(a.Value)
		case vfBGPAttrLocalPref:
			if !wk {
				return vfBGPErrf("update:attr-flags-local-pref", "LOCAL_PREF with flags 0x%02x", a.Flags)
			}
			if vl != 4 {
				return vfBGPErrf("update:attr-len-local-pref", "LOCAL_PREF of %d octets", vl)
			}
			u.HasLocalPref, u.LocalPref = true, vfBE32(a.Value)
		case vfBGPAttrAtomicAggr:
			if !wk {
				return vfBGPErrf("update:attr-flags-atomic-aggregate", "ATOMIC_AGGREGATE with flags 0x%02x", a.Flags)
			}
			if vl != 0 {
				return vfBGPErrf("update:attr-len-atomic-aggregate", "ATOMIC_AGGREGATE of %d octets", vl)
			}
		case vfBGPAttrAggregator:
			if a.Flags&0xc0 != 0xc0 {
				return vfBGPErrf("update:attr-flags-aggregator", "AGGREGATOR with flags 0x%02x", a.Flags)
			}
			want := 6
			if as4 {
				want = 8
			}
			if vl != want {
				return vfBGPErrf("update:attr-len-aggregator", "AGGREGATOR of %d octets, want %d", vl, want)
			}
		case vfBGPAttrCommunities:
			if a.Flags&0xc0 != 0xc0 {
				return vfBGPErrf("update:attr-flags-communities", "COMMUNITIES with flags 0x%02x (optional transitive expected)", a.Flags)
			}
			if vl == 0 || vl%4 != 0 {
				return vfBGPErrf("update:attr-len-communities", "COMMUNITIES of %d octets", vl)
			}
			for i := 0; i < vl; i += 4 {
				u.Communities = append(u.Communities, vfBE32(a.Value[i:i+4]))
			}
			u.HasCommunities = true
		default:
			if a.Flags&0x80 == 0 {
				return vfBGPErrf("update:attr-unrecognized-well-known", "unrecognized well-known attribute %d", a.Type)
			}
			u.Unknown = append(u.Unknown, a.Type)
		}
	}
	return nil
}

// ---------------------------------------------------------------- encoder (test inputs and the scripted peer)

func vfBGPPut16(b []byte, v int) []byte { return append(b, byte(v>>8), byte(v)) }
func vfBGPPut32(b []byte, v uint32) []byte {
	return append(b, byte(v>>24), byte(v>>16), byte(v>>8), byte(v))
}

func vfBGPFrame(typ byte, body []byte) []byte {
	out := make([]byte, 0, vfBGPHeaderLen+len(body))
	for i := 0; i < 16; i++ {
		out = append(out, 0xff)
	}
	out = vfBGPPut16(out, vfBGPHeaderLen+len(body))
	out = append(out, typ)
	return append(out, body...)
}

// vfBGPOpenSpec describes an OPEN to encode. Every element of Params becomes one optional
// parameter; a parameter of type 2 is built from Caps, any other from Raw.
type vfBGPOpenSpec struct {
	Version  byte
	ASN16    int
	HoldTime int
	RouterID [4]byte
	Params   []vfBGPParamSpec
}

type vfBGPParamSpec struct {
	Type byte
	Caps []vfBGPCap
	Raw  []byte
}

func vfBGPCapMPValue(afi, safi int) vfBGPCap {
	return vfBGPCap{Code: vfBGPCapMP, Value: []byte{byte(afi >> 8), byte(afi), 0, byte(safi)}}
}

func vfBGPCapAS4Value(asn uint32) vfBGPCap {
	return vfBGPCap{Code: vfBGPCapAS4, Value: vfBGPPut32(nil, asn)}
}

// vfBGPEncodeOpen returns the message and the offsets of the length fields inside it (for
// structure-aware mutation): offsets of every optional-parameter length octet and every capability
// length octet. The optional-parameters-length octet is always at offset 28, the message length at 16.
func vfBGPEncodeOpen(s vfBGPOpenSpec) (msg []byte, paramLenOffs, capLenOffs []int) {
	body := []byte{s.Version}
	body = vfBGPPut16(body, s.ASN16)
	body = vfBGPPut16(body, s.HoldTime)
	body = append(body, s.RouterID[:]...)
	body = append(body, 0) // optional parameters length, patched below
	for _, p := range s.Params {
		body = append(body, p.Type, 0)
		lenAt := len(body) - 1
		paramLenOffs = append(paramLenOffs, vfBGPHeaderLen+lenAt)
		start := len(body)
		if p.Type == 2 && p.Raw == nil {
			for _, c := range p.Caps {
				body = append(body, c.Code, byte(len(c.Value)))
				capLenOffs = append(capLenOffs, vfBGPHeaderLen+len(body)-1)
				body = append(body, c.Value...)
			}
		} else {
			body = append(body, p.Raw...)
		}
		body[lenAt] = byte(len(body) - start)
	}
	body[9] = byte(len(body) - 10)
	return vfBGPFrame(vfBGPOpen, body), paramLenOffs, capLenOffs
}

// vfBGPSimpleOpen builds a well-formed OPEN for a speaker with the given AS number: the fixed field
// carries AS_TRANS when the number does not fit, the four-octet capability is added when as4 is set.
func vfBGPSimpleOpen(asn uint32, as4 bool, hold int, id [4]byte, extra []vfBGPCap, onePerParam bool) []byte {
	asn16 := int(asn)
	if asn > 0xffff {
		asn16 = vfBGPASTrans
	}
	caps := append([]vfBGPCap(nil), extra...)
	if as4 {
		caps = append(caps, vfBGPCapAS4Value(asn))
	}
	s := vfBGPOpenSpec{Version: 4, ASN16: asn16, HoldTime: hold, RouterID: id}
	if len(caps) > 0 {
		if onePerParam {
			for _, c := range caps {
				s.Params = append(s.Params, vfBGPParamSpec{Type: 2, Caps: []vfBGPCap{c}})
			}
		} else {
			s.Params = []vfBGPParamSpec{{Type: 2, Caps: caps}}
		}
	}
	msg, _, _ := vfBGPEncodeOpen(s)
	return msg
}

func vfBGPEncodeKeepalive() []byte { return vfBGPFrame(vfBGPKeepalive, nil) }

func vfBGPEncodeNotification(code, sub byte, data []byte) []byte {
	return vfBGPFrame(vfBGPNotification, append([]byte{code, sub}, data...))
}

// ---------------------------------------------------------------- small helpers shared by C16 / C17

func vfSortedU32(xs []uint32) []uint32 {
	out := append([]uint32(nil), xs...)
	sort.Slice(out, func(i, j int) bool { return out[i] < out[j] })
	return out
}

func vfEqualU32(a, b []uint32) bool {
	if len(a) != len(b) {
		return false
	}
	for i := range a {
		if a[i] != b[i] {
			return false
		}
	}
	return true
}
