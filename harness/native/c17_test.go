//go:build verif

package native

import (
	"context"
	"errors"
	"fmt"
	"net"
	"os"
	"runtime"
	"sort"
	"strings"
	"sync"
	"sync/atomic"
	"syscall"
	"testing"
	"time"

	"github.com/go-kit/log"
	"go.universe.tf/metallb/internal/bgp"
	"go.universe.tf/metallb/internal/bgp/community"
	"golang.org/x/sys/unix"
)

// C17 — native BGP session convergence. A scripted BGP peer (own RFC 4271 decoder) listens on
// 127.0.0.1, the real session dials it; the peer injects faults per connection, the caller script
// issues Set/Close. Oracle: bounded-progress convergence of the peer's table to the last requested
// set + safety clauses (see DESIGN.md "C17").

const (
	c17ConvergeLimit = 20 * time.Second
	c17Settle        = 40 * time.Millisecond
	c17Confirm       = 2 * time.Second
	c17CloseWindow   = 2500 * time.Millisecond
	c17CloseGrace    = 200 * time.Millisecond
	c17StarvedGap    = 250 * time.Millisecond
	c17CallLimit     = 30 * time.Second // a Set / Close may wait for a connect attempt in progress (10 s at most), never longer
	c17Parallel      = 8
)

// ---------------------------------------------------------------- scenario description (JSON-able)

type c17Route struct {
	Prefix    string   `json:"prefix"`
	LocalPref uint32   `json:"local_pref"`
	Comms     []uint32 `json:"communities,omitempty"`
}

type c17Op struct {
	Gap     string     `json:"gap"` // none | yield | sleep
	GapMs   int        `json:"gap_ms,omitempty"`
	Kind    string     `json:"kind"`
	Invalid string     `json:"invalid,omitempty"` // v6-prefix | 64-communities: Set must fail and change nothing
	Routes  []c17Route `json:"routes"`
}

type c17ConnScript struct {
	HoldOpenMs int    `json:"hold_open_reply_ms,omitempty"`
	OpenStyle  string `json:"open_style"` // plain | wrong-field | wrong-cap | cap-wins | as-trans-no-cap
	AS4        string `json:"announces_4_octet_as,omitempty"` // "" (as the scenario says) | yes | no: what this connection's OPEN says
	Fault      string `json:"fault,omitempty"`
	K          int    `json:"k,omitempty"`
	IdleMs     int    `json:"idle_ms,omitempty"`
	StallMs    int    `json:"stall_ms,omitempty"`
	RST        bool   `json:"rst,omitempty"`
}

type c17Scenario struct {
	ID           int             `json:"id"`
	Class        string          `json:"class"` // normal | as4-unrepresentable | big
	MyASN        uint32          `json:"my_asn"`
	PeerASN      uint32          `json:"peer_asn"`
	PeerAS4      bool            `json:"peer_announces_4_octet_as"`
	HoldS        int             `json:"hold_s"`
	PeerHoldS    int             `json:"peer_hold_s"`
	SmallRcvBuf  bool            `json:"small_receive_buffer,omitempty"`
	Conns        []c17ConnScript `json:"connection_scripts"`
	Ops          []c17Op         `json:"caller_script"`
	SourceAddr   bool            `json:"source_address_configured,omitempty"` // spec.sourceAddress = 127.0.0.1, in the 16-octet form net.ParseIP gives the configuration
	CloseEarly   bool            `json:"close_without_waiting,omitempty"`
	CloseDelayMs int             `json:"close_delay_ms,omitempty"`
}

func (s *c17Scenario) ibgp() bool { return s.MyASN == s.PeerASN }

// ---------------------------------------------------------------- peer state

type c17Req struct {
	idx      int
	startSeq int
	retSeq   int // -1 until Set returned
	routes   map[string][]c17Route
}

type c17Got struct {
	HasLP     bool
	LocalPref uint32
	Comms     []uint32 // sorted
}

type c17Rec struct {
	seq int
	upd *vfBGPUpdateMsg
}

type c17Conn struct {
	idx         int
	tc          *net.TCPConn
	script      c17ConnScript
	scripted    bool
	as4         bool // this connection's OPEN carries the four-octet capability
	acceptSeq   int
	acceptedAt  time.Time
	afterClose  bool
	gotOpen     bool
	replied     bool
	established bool
	wrongASN    bool
	nKeepalive  int
	nMsgs       int
	recs        []c17Rec
	table       map[string]c17Got
	version     int
	ended       bool
	byScript    bool
	endReason   string
	faultFired  string
}

type c17Peer struct {
	c      *vfCase
	sc     *c17Scenario
	canary *vfCanary
	ln     net.Listener
	port   int
	t0     time.Time
	wg     sync.WaitGroup

	mu            sync.Mutex
	seq           int
	progress      int // accepts, UPDATEs, connection ends (not keepalives)
	reqs          []*c17Req
	conns         []*c17Conn
	lastFault     time.Time
	closeReturned bool
	closeAt       time.Time
	closedFlag    atomic.Bool // set together with closeReturned, readable without mu
	hung          atomic.Bool // a Set or Close call did not return within c17CallLimit
	finishing     bool
	unjudged      string
	fired         map[string]bool
}

var errC17DropPoint = errors.New("scripted drop point reached")

type c17CountReader struct {
	tc    *net.TCPConn
	n     int
	limit int // < 0: none
}

func (r *c17CountReader) Read(p []byte) (int, error) {
	if r.limit >= 0 {
		if r.n >= r.limit {
			return 0, errC17DropPoint
		}
		if len(p) > r.limit-r.n {
			p = p[:r.limit-r.n]
		}
	}
	k, err := r.tc.Read(p)
	r.n += k
	return k, err
}

func (p *c17Peer) violation(sig, summary string) {
	p.c.Violation(sig, fmt.Sprintf("scenario %d: %s", p.sc.ID, summary), p.dump())
}

// starvedGap is the largest scheduling gap the canary saw. A gap is recorded only when the canary's next
// tick is delivered, so a stall that has just ended (and made this goroutine late) may not be on record
// yet: give the canary a few ticks first.
func (p *c17Peer) starvedGap() time.Duration {
	time.Sleep(40 * time.Millisecond)
	return p.canary.MaxGap()
}

// vfc17KernelEventAge: how long ago the kernel saw the last event on this socket that moves its
// "last data received" stamp (arrival of a data segment; for an accepted socket also its creation).
// Used to date arrivals independently of when the reading goroutine got to run.
func vfc17KernelEventAge(tc *net.TCPConn) (time.Duration, bool) {
	rc, err := tc.SyscallConn()
	if err != nil {
		return 0, false
	}
	var age time.Duration
	ok := false
	_ = rc.Control(func(fd uintptr) {
		if ti, err := unix.GetsockoptTCPInfo(int(fd), unix.IPPROTO_TCP, unix.TCP_INFO); err == nil {
			age, ok = time.Duration(ti.Last_data_recv)*time.Millisecond, true
		}
	})
	return age, ok
}

// timed reports a violation that rests on a wall-clock deadline, unless the process was starved.
func (p *c17Peer) timed(sig, summary string) {
	if g := p.starvedGap(); g > c17StarvedGap {
		p.c.Inconclusive(fmt.Sprintf("scenario %d: %s — not judged, scheduling gap of %s observed", p.sc.ID, summary, g))
		return
	}
	p.violation(sig, summary)
}

func (p *c17Peer) dump() map[string]any {
	p.mu.Lock()
	defer p.mu.Unlock()
	var conns []map[string]any
	for _, cn := range p.conns {
		m := map[string]any{"index": cn.idx, "accepted_ms": cn.acceptedAt.Sub(p.t0).Milliseconds(), "accept_seq": cn.acceptSeq,
			"got_open": cn.gotOpen, "established": cn.established, "wrong_asn_sent": cn.wrongASN, "keepalives": cn.nKeepalive,
			"updates": len(cn.recs), "ended": cn.ended, "end_reason": cn.endReason, "fault_fired": cn.faultFired,
			"accepted_after_close": cn.afterClose, "table_size": len(cn.table)}
		if cn.scripted {
			m["script"] = cn.script
		}
		var first []string
		for i, rc := range cn.recs {
			if i >= 24 {
				first = append(first, "...")
				break
			}
			first = append(first, fmt.Sprintf("#%d %s", rc.seq, vfc17UpdString(rc.upd)))
		}
		m["first_updates"] = first
		if len(cn.table) <= 24 {
			m["table"] = vfc17TableStrings(cn.table)
		}
		conns = append(conns, m)
	}
	var sets []string
	for _, rq := range p.reqs {
		sets = append(sets, fmt.Sprintf("Set#%d start-seq=%d return-seq=%d prefixes=%d", rq.idx, rq.startSeq, rq.retSeq, len(rq.routes)))
	}
	d := map[string]any{"scenario": vfc17Lite(p.sc), "connections": conns, "sets": sets}
	if p.closeReturned {
		d["close_returned_ms"] = p.closeAt.Sub(p.t0).Milliseconds()
	}
	return d
}

// vfc17Lite is the scenario with long route lists cut down (violation details stay readable).
func vfc17Lite(sc *c17Scenario) *c17Scenario {
	out := *sc
	out.Ops = nil
	for _, op := range sc.Ops {
		if len(op.Routes) > 30 {
			op.Kind = fmt.Sprintf("%s (%d routes, first 3 shown)", op.Kind, len(op.Routes))
			op.Routes = op.Routes[:3]
		}
		out.Ops = append(out.Ops, op)
	}
	return &out
}

func vfc17UpdString(u *vfBGPUpdateMsg) string {
	var parts []string
	for _, w := range u.Withdrawn {
		parts = append(parts, "-"+w.String())
	}
	for _, n := range u.NLRI {
		s := "+" + n.String()
		if u.HasLocalPref {
			s += fmt.Sprintf(" lp=%d", u.LocalPref)
		}
		if len(u.Communities) > 0 {
			s += fmt.Sprintf(" comms=%d", len(u.Communities))
		}
		parts = append(parts, s)
	}
	if len(parts) > 6 {
		parts = append(parts[:6], fmt.Sprintf("... (%d entries)", len(u.Withdrawn)+len(u.NLRI)))
	}
	return strings.Join(parts, " ")
}

func vfc17TableStrings(t map[string]c17Got) []string {
	var out []string
	for k, g := range t {
		out = append(out, fmt.Sprintf("%s lp=%v/%d comms=%v", k, g.HasLP, g.LocalPref, g.Comms))
	}
	sort.Strings(out)
	return out
}

// ---------------------------------------------------------------- matching

func vfc17Matches(rt c17Route, g c17Got, ibgp bool) bool {
	if ibgp && (!g.HasLP || g.LocalPref != rt.LocalPref) {
		return false
	}
	return vfEqualU32(vfSortedU32(rt.Comms), g.Comms)
}

func vfc17MatchesAny(rts []c17Route, g c17Got, ibgp bool) bool {
	for _, rt := range rts {
		if vfc17Matches(rt, g, ibgp) {
			return true
		}
	}
	return false
}

// lastReq: the most recent Set that was accepted (caller holds mu). nil = nothing requested yet.
func (p *c17Peer) lastReq() *c17Req {
	if len(p.reqs) == 0 {
		return nil
	}
	return p.reqs[len(p.reqs)-1]
}

func (p *c17Peer) liveConn() *c17Conn {
	if len(p.conns) == 0 {
		return nil
	}
	cn := p.conns[len(p.conns)-1]
	if cn.ended || !cn.established || cn.wrongASN || cn.afterClose {
		return nil
	}
	return cn
}

// tableDiff compares a connection's table with the wanted set (caller holds mu).
func (p *c17Peer) tableDiff(cn *c17Conn, want *c17Req) (stale, missing, attrs []string) {
	ibgp := p.sc.ibgp()
	var wr map[string][]c17Route
	if want != nil {
		wr = want.routes
	}
	for k, g := range cn.table {
		rts, ok := wr[k]
		if !ok {
			stale = append(stale, k)
		} else if !vfc17MatchesAny(rts, g, ibgp) {
			attrs = append(attrs, k)
		}
	}
	for k := range wr {
		if _, ok := cn.table[k]; !ok {
			missing = append(missing, k)
		}
	}
	sort.Strings(stale)
	sort.Strings(missing)
	sort.Strings(attrs)
	return
}

// ---------------------------------------------------------------- the scripted peer

func (p *c17Peer) listen() error {
	lc := net.ListenConfig{}
	if p.sc.SmallRcvBuf {
		lc.Control = func(network, address string, rc syscall.RawConn) error {
			return rc.Control(func(fd uintptr) {
				// a small window, and a small MSS so that the window stays a multiple of the segment size
				// (a receive buffer below the 64 KiB loopback MSS makes TCP itself stall for tens of seconds)
				_ = syscall.SetsockoptInt(int(fd), syscall.IPPROTO_TCP, syscall.TCP_MAXSEG, 1000)
				_ = syscall.SetsockoptInt(int(fd), syscall.SOL_SOCKET, syscall.SO_RCVBUF, 16384)
			})
		}
	}
	ln, err := lc.Listen(context.Background(), "tcp4", "127.0.0.1:0")
	if err != nil {
		return err
	}
	p.ln = ln
	p.port = ln.Addr().(*net.TCPAddr).Port
	return nil
}

func (p *c17Peer) acceptLoop() {
	defer p.wg.Done()
	for {
		nc, err := p.ln.Accept()
		if err != nil {
			return
		}
		now := time.Now()
		tc := nc.(*net.TCPConn)
		if p.closedFlag.Load() { // date the connection by the kernel's clock, not by when Accept got to run
			if age, ok := vfc17KernelEventAge(tc); ok {
				now = now.Add(-age)
			}
		}
		p.mu.Lock()
		if p.finishing {
			p.mu.Unlock()
			tc.Close()
			return
		}
		p.seq++
		p.progress++
		cn := &c17Conn{idx: len(p.conns), tc: tc, acceptSeq: p.seq, acceptedAt: now, table: map[string]c17Got{}, script: c17ConnScript{OpenStyle: "plain"}}
		if cn.idx < len(p.sc.Conns) {
			cn.script, cn.scripted = p.sc.Conns[cn.idx], true
		}
		cn.as4 = p.sc.PeerAS4
		switch {
		case cn.script.OpenStyle == "cap-wins" || cn.script.OpenStyle == "wrong-cap":
			cn.as4 = true
		case cn.script.AS4 == "yes":
			cn.as4 = true
		case cn.script.AS4 == "no":
			cn.as4 = false
		}
		var lateBy time.Duration
		if p.closeReturned {
			cn.afterClose = true
			lateBy = now.Sub(p.closeAt)
		}
		p.conns = append(p.conns, cn)
		p.wg.Add(1)
		p.mu.Unlock()
		p.c.Count("connections")
		if lateBy > c17CloseGrace {
			p.timed("close:connection-after-close", fmt.Sprintf("a connection was established %s after Close() returned", lateBy))
		}
		go p.serve(cn)
	}
}

func (p *c17Peer) end(cn *c17Conn, reason string, byScript bool) {
	p.mu.Lock()
	if p.finishing && !byScript {
		reason = "harness-finished (" + reason + ")"
	}
	cn.ended, cn.endReason, cn.byScript = true, reason, byScript
	if byScript {
		p.lastFault = time.Now()
	}
	p.seq++
	p.progress++
	p.mu.Unlock()
	cn.tc.Close()
}

func (p *c17Peer) fire(cn *c17Conn, what string) {
	p.mu.Lock()
	cn.faultFired = what
	p.fired[what] = true
	p.lastFault = time.Now()
	p.mu.Unlock()
	p.c.Count("faults:" + what)
}

func (p *c17Peer) peerOpen(cn *c17Conn) []byte {
	style := cn.script.OpenStyle
	sc := p.sc
	asn := sc.PeerASN
	id := [4]byte{10, 255, 0, byte(1 + sc.ID%200)}
	extras := []vfBGPCap{vfBGPCapMPValue(1, 1), {Code: 2}}
	switch style {
	case "wrong-field": // no capability, wrong number in the fixed field
		wrong := asn + 1
		if wrong > 0xffff {
			wrong = 64999
		}
		return vfBGPSimpleOpen(wrong, false, sc.PeerHoldS, id, extras, false)
	case "wrong-cap": // fixed field as expected, the four-octet capability (which wins) says something else
		spec := vfBGPOpenSpec{Version: 4, ASN16: int(asn & 0xffff), HoldTime: sc.PeerHoldS, RouterID: id}
		if asn > 0xffff {
			spec.ASN16 = vfBGPASTrans
		}
		spec.Params = []vfBGPParamSpec{{Type: 2, Caps: append(extras, vfBGPCapAS4Value(asn+7))}}
		msg, _, _ := vfBGPEncodeOpen(spec)
		return msg
	case "as-trans-no-cap": // the peer is configured with a four-octet number; this one says 23456 and has no capability: its AS is 23456
		return vfBGPSimpleOpen(vfBGPASTrans, false, sc.PeerHoldS, id, extras, false)
	case "cap-wins": // AS_TRANS in the fixed field, the right number in the capability
		spec := vfBGPOpenSpec{Version: 4, ASN16: vfBGPASTrans, HoldTime: sc.PeerHoldS, RouterID: id}
		spec.Params = []vfBGPParamSpec{{Type: 2, Caps: []vfBGPCap{vfBGPCapAS4Value(asn)}}, {Type: 2, Caps: extras}}
		msg, _, _ := vfBGPEncodeOpen(spec)
		return msg
	}
	return vfBGPSimpleOpen(asn, cn.as4, sc.PeerHoldS, id, extras, sc.ID%2 == 0)
}

func (p *c17Peer) dropConn(cn *c17Conn) {
	if cn.script.RST {
		_ = cn.tc.SetLinger(0)
	}
}

func vfc17IsTimeout(err error) bool {
	var ne net.Error
	return errors.As(err, &ne) && ne.Timeout()
}

func (p *c17Peer) serve(cn *c17Conn) {
	defer p.wg.Done()
	sc := cn.script
	tc := cn.tc
	// 1. the speaker's OPEN
	_ = tc.SetReadDeadline(time.Now().Add(10 * time.Second))
	raw, err := vfBGPReadFrame(tc)
	if err != nil {
		if _, ok := err.(*vfBGPError); ok {
			p.violation("wire:malformed:"+vfBGPErrCode(err), fmt.Sprintf("connection %d: first message does not frame: %v (%s)", cn.idx, err, vfHex(raw)))
		}
		p.end(cn, "no OPEN received: "+err.Error(), false)
		return
	}
	_ = tc.SetReadDeadline(time.Time{})
	m, derr := vfBGPDecode(raw, false)
	if derr != nil {
		p.violation("wire:malformed:"+vfBGPErrCode(derr), fmt.Sprintf("connection %d: malformed first message: %v (%s)", cn.idx, derr, vfHex(raw)))
		p.end(cn, "malformed OPEN", false)
		return
	}
	if m.Type != vfBGPOpen {
		p.violation("wire:first-message-not-open", fmt.Sprintf("connection %d starts with a message of type %d", cn.idx, m.Type))
		p.end(cn, "no OPEN", false)
		return
	}
	p.c.Eval()
	o := m.Open
	want16 := int(p.sc.MyASN)
	if p.sc.MyASN > 0xffff {
		want16 = vfBGPASTrans
	}
	if o.ASN16 != want16 || (p.sc.MyASN > 0xffff && (!o.HasAS4 || o.AS4[0] != p.sc.MyASN)) || o.HoldTime != p.sc.HoldS {
		p.violation("wire:open-content", fmt.Sprintf("connection %d: OPEN carries AS %d / capability %v / hold %d, session has AS %d hold %d", cn.idx, o.ASN16, o.AS4, o.HoldTime, p.sc.MyASN, p.sc.HoldS))
	}
	p.mu.Lock()
	cn.gotOpen = true
	p.seq++
	p.mu.Unlock()

	// 2. reply (possibly late, possibly never, possibly with the wrong AS number)
	if sc.HoldOpenMs > 0 {
		time.Sleep(time.Duration(sc.HoldOpenMs) * time.Millisecond)
		p.c.Count("open-replies-held")
	}
	if sc.Fault == "drop-before-open-reply" {
		p.fire(cn, "drop:during-open")
		p.dropConn(cn)
		p.end(cn, "scripted drop before the OPEN reply", true)
		return
	}
	wrong := sc.OpenStyle == "wrong-field" || sc.OpenStyle == "wrong-cap" || sc.OpenStyle == "as-trans-no-cap"
	reply := p.peerOpen(cn)
	if !wrong {
		reply = append(reply, vfBGPEncodeKeepalive()...)
	}
	p.mu.Lock()
	cn.replied = true
	cn.wrongASN = wrong
	if wrong {
		p.lastFault = time.Now()
	}
	p.mu.Unlock()
	_, _ = tc.Write(reply)
	if wrong {
		p.c.Count("wrong-asn-opens-sent")
		_ = tc.SetReadDeadline(time.Now().Add(5 * time.Second))
		buf := make([]byte, 512)
		n, rerr := tc.Read(buf)
		p.c.Eval()
		switch {
		case n > 0:
			p.violation("wrong-asn:data-after-open", fmt.Sprintf("connection %d: peer announced an unexpected AS (%s) and still received %d octets: %s", cn.idx, sc.OpenStyle, n, vfHex(buf[:n])))
		case vfc17IsTimeout(rerr):
			p.timed("wrong-asn:connection-kept-open", fmt.Sprintf("connection %d: peer announced an unexpected AS (%s), the connection was still open 5 s later", cn.idx, sc.OpenStyle))
		default:
			p.c.Count("wrong-asn-refusals-verified")
		}
		p.mu.Lock()
		p.lastFault = time.Now()
		p.mu.Unlock()
		p.end(cn, "peer sent an unexpected AS", true)
		return
	}
	if sc.OpenStyle == "cap-wins" {
		p.c.Count("open-replies-with-as-trans-field")
	}

	// 3. established: read and interpret until a fault point or the end of the connection
	cr := &c17CountReader{tc: tc, limit: -1}
	if sc.Fault == "drop-after-bytes" {
		cr.limit = sc.K
	}
	stalled := false
	for nmsgs := 0; ; nmsgs++ {
		if sc.Fault == "drop-after-msgs" && nmsgs >= sc.K {
			p.fire(cn, "drop:between-messages")
			p.dropConn(cn)
			p.end(cn, fmt.Sprintf("scripted drop after %d messages", nmsgs), true)
			return
		}
		if sc.Fault == "stall" && nmsgs >= sc.K && !stalled {
			stalled = true
			p.fire(cn, "stall")
			time.Sleep(time.Duration(sc.StallMs) * time.Millisecond)
			p.mu.Lock()
			p.lastFault = time.Now()
			p.mu.Unlock()
		}
		if sc.Fault == "drop-idle" && nmsgs > 0 {
			_ = tc.SetReadDeadline(time.Now().Add(time.Duration(sc.IdleMs) * time.Millisecond))
		}
		before := cr.n
		raw, err := vfBGPReadFrame(cr)
		if err != nil {
			switch {
			case errors.Is(err, errC17DropPoint):
				if cr.n > before {
					p.fire(cn, "drop:inside-message")
				} else {
					p.fire(cn, "drop:between-messages")
				}
				p.dropConn(cn)
				p.end(cn, fmt.Sprintf("scripted drop after %d octets", cr.n), true)
			case sc.Fault == "drop-idle" && vfc17IsTimeout(err):
				p.fire(cn, "drop:idle")
				p.dropConn(cn)
				p.end(cn, fmt.Sprintf("scripted drop after %d ms of silence", sc.IdleMs), true)
			default:
				if _, ok := err.(*vfBGPError); ok {
					sig := "wire:malformed:" + vfBGPErrCode(err)
					if len(raw) >= vfBGPHeaderLen && vfBGPErrCode(err) == "header:length-range" && vfBE16(raw[16:18]) > vfBGPMaxLen {
						sig = "wire:message-longer-than-4096-octets"
					}
					p.violation(sig, fmt.Sprintf("connection %d: message %d does not frame: %v (%s)", cn.idx, nmsgs, err, vfHex(raw)))
				}
				p.end(cn, "closed by the speaker: "+err.Error(), false)
			}
			return
		}
		if !p.onMessage(cn, raw, sc.Fault == "stall") {
			p.end(cn, "malformed message", false)
			return
		}
	}
}

// onMessage interprets one message of an established connection.
func (p *c17Peer) onMessage(cn *c17Conn, raw []byte, wasStalled bool) bool {
	now := time.Now()
	if p.closedFlag.Load() { // date the message by its arrival in the kernel, not by when this goroutine read it
		if age, ok := vfc17KernelEventAge(cn.tc); ok {
			now = now.Add(-age)
		}
	}
	m, err := vfBGPDecode(raw, cn.as4)
	p.c.Eval()
	if err != nil {
		p.violation("wire:malformed:"+vfBGPErrCode(err), fmt.Sprintf("connection %d: malformed message: %v (%s)", cn.idx, err, vfHex(raw)))
		return false
	}
	var bad [][2]string
	p.mu.Lock()
	p.seq++
	seq := p.seq
	cn.nMsgs++
	if cn.afterClose {
		bad = append(bad, [2]string{"close:connection-after-close", fmt.Sprintf("connection %d was accepted after Close() returned and carries a message of type %d", cn.idx, m.Type)})
	} else if p.closeReturned && now.Sub(p.closeAt) > c17CloseGrace && !wasStalled {
		bad = append(bad, [2]string{"T", fmt.Sprintf("connection %d: a message of type %d arrived %s after Close() returned", cn.idx, m.Type, now.Sub(p.closeAt))})
	}
	switch m.Type {
	case vfBGPKeepalive:
		cn.nKeepalive++
		cn.established = true
	case vfBGPOpen:
		bad = append(bad, [2]string{"wire:second-open", fmt.Sprintf("connection %d: a second OPEN", cn.idx)})
	case vfBGPNotification:
		// the speaker never sends one today; nothing in the statement forbids it
	case vfBGPUpdate:
		u := m.Update
		if !cn.established {
			bad = append(bad, [2]string{"wire:update-before-keepalive", fmt.Sprintf("connection %d: UPDATE before the KEEPALIVE that accepts the OPEN", cn.idx)})
		}
		cn.recs = append(cn.recs, c17Rec{seq: seq, upd: u})
		cn.version++
		p.progress++
		for _, w := range u.Withdrawn {
			k := w.String()
			if _, ok := cn.table[k]; !ok {
				bad = append(bad, [2]string{"C", "withdraws-of-absent-route"})
			}
			delete(cn.table, k)
		}
		if len(u.Withdrawn) > 0 {
			bad = append(bad, [2]string{"C", "withdraw-messages"})
		}
		ibgp := p.sc.ibgp()
		for _, n := range u.NLRI {
			k := n.String()
			g := c17Got{HasLP: u.HasLocalPref, LocalPref: u.LocalPref, Comms: vfSortedU32(u.Communities)}
			bad = append(bad, [2]string{"C", "announcements"})
			// every announced route was requested by some Set that had started before
			found := false
			for _, rq := range p.reqs {
				if vfc17MatchesAny(rq.routes[k], g, ibgp) {
					found = true
					break
				}
			}
			if !found {
				bad = append(bad, [2]string{"announce:never-requested", fmt.Sprintf("connection %d announces %s (local-pref %v/%d, communities %v) which no Set issued so far contains", cn.idx, k, g.HasLP, g.LocalPref, g.Comms)})
			}
			path := u.FlatASPath()
			wantAS := p.sc.MyASN
			if wantAS > 0xffff && !cn.as4 {
				wantAS = vfBGPASTrans
			}
			switch {
			case ibgp && (len(path) != 0 || !u.HasLocalPref):
				bad = append(bad, [2]string{"announce:ibgp-attributes", fmt.Sprintf("iBGP announcement of %s with AS_PATH %v, LOCAL_PREF present=%v", k, path, u.HasLocalPref)})
			case !ibgp && (len(path) != 1 || path[0] != wantAS || u.HasLocalPref):
				bad = append(bad, [2]string{"announce:ebgp-attributes", fmt.Sprintf("eBGP announcement of %s with AS_PATH %v (want [%d]), LOCAL_PREF present=%v", k, path, wantAS, u.HasLocalPref)})
			}
			if ra, ok := cn.tc.RemoteAddr().(*net.TCPAddr); ok {
				if ip4 := ra.IP.To4(); ip4 != nil && [4]byte{ip4[0], ip4[1], ip4[2], ip4[3]} != u.NextHop {
					bad = append(bad, [2]string{"announce:next-hop", fmt.Sprintf("announcement of %s with NEXT_HOP %v on a connection from %s", k, u.NextHop, ra.IP)})
				}
			}
			cn.table[k] = g
		}
	}
	p.mu.Unlock()
	for _, b := range bad {
		switch b[0] {
		case "C":
			p.c.Count(b[1])
		case "T":
			p.timed("close:message-after-close", b[1])
		default:
			p.violation(b[0], b[1])
		}
	}
	return true
}

// checkResend: "each new connection starts with a full re-send" — the first UPDATEs of the connection
// are exactly the routes of one requested set that is not older than the last Set that had returned
// when the connection was accepted (caller holds mu).
func (p *c17Peer) checkResend(cn *c17Conn) (verified int, failure string) {
	ibgp := p.sc.ibgp()
	j0 := -1
	for i, rq := range p.reqs {
		if rq.retSeq >= 0 && rq.retSeq < cn.acceptSeq {
			j0 = i
		}
	}
	if j0 < 0 {
		return 0, "" // nothing had been requested for sure: an empty start is right
	}
	var why []string
	for _, rq := range p.reqs[j0:] {
		n := len(rq.routes)
		m := n
		partial := false
		if len(cn.recs) < n { // the connection ended before the re-send could complete
			m, partial = len(cn.recs), true
		}
		seen := map[string]bool{}
		ok := true
		for i := 0; i < m && ok; i++ {
			u := cn.recs[i].upd
			if len(u.Withdrawn) != 0 || len(u.NLRI) != 1 {
				ok = false
				why = append(why, fmt.Sprintf("Set#%d: message %d is not a single announcement", rq.idx, i))
				break
			}
			k := u.NLRI[0].String()
			g := c17Got{HasLP: u.HasLocalPref, LocalPref: u.LocalPref, Comms: vfSortedU32(u.Communities)}
			if seen[k] || !vfc17MatchesAny(rq.routes[k], g, ibgp) {
				ok = false
				why = append(why, fmt.Sprintf("Set#%d: message %d announces %s which is repeated or not a route of that set", rq.idx, i, k))
			}
			seen[k] = true
		}
		if ok {
			if partial {
				return 0, ""
			}
			return n, ""
		}
	}
	if len(why) > 6 {
		why = why[:6]
	}
	return 0, strings.Join(why, "; ")
}

// ---------------------------------------------------------------- caller side

func vfc17Adv(rt c17Route) *bgp.Advertisement {
	_, n, err := net.ParseCIDR(rt.Prefix)
	if err != nil {
		panic(err)
	}
	adv := &bgp.Advertisement{Prefix: n, LocalPref: rt.LocalPref}
	for _, v := range rt.Comms {
		cm, err := community.New(fmt.Sprintf("%d:%d", v>>16, v&0xffff))
		if err != nil {
			panic(err)
		}
		adv.Communities = append(adv.Communities, cm)
	}
	return adv
}

func (p *c17Peer) doSet(sess bgp.Session, idx int, op c17Op) {
	switch op.Gap {
	case "yield":
		runtime.Gosched()
	case "sleep":
		time.Sleep(time.Duration(op.GapMs) * time.Millisecond)
	}
	var advs []*bgp.Advertisement
	rq := &c17Req{idx: idx, retSeq: -1, routes: map[string][]c17Route{}}
	for _, rt := range op.Routes {
		advs = append(advs, vfc17Adv(rt))
		rq.routes[rt.Prefix] = append(rq.routes[rt.Prefix], rt)
	}
	switch op.Invalid {
	case "v6-prefix":
		_, n, _ := net.ParseCIDR("2001:db8::/64")
		advs = append(advs, &bgp.Advertisement{Prefix: n})
	case "64-communities":
		rt := c17Route{Prefix: "10.7.99.0/24"}
		for i := 0; i < 64; i++ {
			rt.Comms = append(rt.Comms, uint32(65000<<16|i))
		}
		advs = append(advs, vfc17Adv(rt))
	}
	p.mu.Lock()
	p.seq++
	rq.startSeq = p.seq
	if op.Invalid == "" {
		p.reqs = append(p.reqs, rq)
	}
	p.mu.Unlock()
	t0 := time.Now()
	var err error
	if p.hung.Load() {
		return // an earlier call never returned: the session lock is lost for good
	}
	doneSet := make(chan struct{})
	go func() { err = sess.Set(advs...); close(doneSet) }()
	select {
	case <-doneSet:
	case <-time.After(c17CallLimit):
		p.hung.Store(true)
		if p.starvedGap() > c17StarvedGap {
			p.c.Inconclusive(fmt.Sprintf("scenario %d: Set#%d did not return within %s, but the process was starved", p.sc.ID, idx, c17CallLimit))
		} else {
			p.violation("set:call-never-returns", fmt.Sprintf("Set#%d did not return within %s (the caller - the speaker's event handler - is blocked for good)", idx, c17CallLimit))
		}
		return
	}
	dt := time.Since(t0)
	p.mu.Lock()
	p.seq++
	rq.retSeq = p.seq
	if op.Invalid != "" && err == nil {
		p.unjudged = "a Set the generator meant to be rejected (" + op.Invalid + ") was accepted"
	}
	p.mu.Unlock()
	p.c.Count("sets")
	p.c.Count("sets:" + op.Kind)
	if dt > 50*time.Millisecond {
		p.c.Count("sets-blocked-over-50ms")
	}
	switch {
	case op.Invalid != "" && err != nil:
		p.c.Count("sets-rejected-as-intended")
	case op.Invalid == "" && err != nil:
		p.violation("set:unexpected-error", fmt.Sprintf("Set#%d with %d valid routes failed: %v", idx, len(op.Routes), err))
	}
}

// awaitConvergence: bounded progress. After the last scripted fault the table of the live connection
// must equal the last requested set within c17ConvergeLimit and stay so for c17Settle.
func (p *c17Peer) awaitConvergence() bool {
	ok, sig, sum := p.awaitConvergenceOnce(c17ConvergeLimit, true)
	if ok || sig == "" {
		return ok
	}
	// The deadline passed. It is turned into a verdict only over a confirmation period in which the
	// process was demonstrably not starved (canary clean) and in which the peer saw no progress at all.
	for attempt := 0; attempt < 8; attempt++ {
		p.canary.Reset()
		p.mu.Lock()
		stamp := p.progress
		p.mu.Unlock()
		ok2, sig2, sum2 := p.awaitConvergenceOnce(c17Confirm, false)
		if ok2 {
			p.c.Count("converged-after-the-deadline")
			p.debugDump("late-convergence", sum)
			return true
		}
		if sig2 == "" {
			return false
		}
		p.mu.Lock()
		moved := p.progress != stamp
		p.mu.Unlock()
		if g := p.starvedGap(); g <= c17StarvedGap && !moved {
			p.violation(sig2, fmt.Sprintf("%s (still so after a further %s without any scheduling gap and without any message)", sum, c17Confirm))
			return false
		}
		_ = sum2
		p.c.Count("convergence-confirmation-periods-repeated")
	}
	p.c.Inconclusive(fmt.Sprintf("scenario %d: %s — not judged, no confirmation period without scheduling gaps", p.sc.ID, sum))
	return false
}

// debugDump leaves the scenario history in the work directory (kept with --keep) for events that are
// not violations but worth a look.
func (p *c17Peer) debugDump(what, note string) {
	dir := os.Getenv("VERIF_WORK")
	if dir == "" {
		return
	}
	d := p.dump()
	d["note"] = note
	d["elapsed_ms"] = time.Since(p.t0).Milliseconds()
	_ = os.WriteFile(fmt.Sprintf("%s/c17-%s-shard%s-scenario%d.json", dir, what, os.Getenv("VERIF_SHARD"), p.sc.ID), []byte(vfJSON(d)), 0o644)
}

// awaitConvergenceOnce returns (true, "", "") on convergence, (false, "", "") when the scenario is not
// judged or a violation was already reported, (false, signature, summary) when the deadline passed.
func (p *c17Peer) awaitConvergenceOnce(limit time.Duration, restartOnFault bool) (bool, string, string) {
	start := time.Now()
	var stableConn *c17Conn
	stableVer := -1
	var stableSince time.Time
	for {
		now := time.Now()
		p.mu.Lock()
		want := p.lastReq()
		live := p.liveConn()
		eq := false
		ver := -1
		if live != nil {
			st, mi, at := p.tableDiff(live, want)
			eq = len(st)+len(mi)+len(at) == 0
			ver = live.version
		}
		nconn := len(p.conns)
		base := start
		if restartOnFault && p.lastFault.After(base) {
			base = p.lastFault
		}
		unjudged := p.unjudged
		p.mu.Unlock()
		if unjudged != "" {
			p.c.Count("scenarios-not-judged")
			p.c.Logf("scenario %d not judged: %s", p.sc.ID, unjudged)
			return false, "", ""
		}
		if eq {
			if stableConn == live && stableVer == ver {
				if now.Sub(stableSince) >= c17Settle {
					return true, "", ""
				}
			} else {
				stableConn, stableVer, stableSince = live, ver, now
			}
		} else {
			stableConn = nil
		}
		if nconn > len(p.sc.Conns)+12 {
			p.violation("converge:session-flapping", fmt.Sprintf("%d connections although only %d were scripted to fail", nconn, len(p.sc.Conns)))
			return false, "", ""
		}
		if now.Sub(base) > limit {
			p.mu.Lock()
			sig, sum := "converge:no-established-session", "no established connection"
			if live := p.liveConn(); live != nil {
				st, mi, at := p.tableDiff(live, p.lastReq())
				switch {
				case len(st) > 0:
					sig, sum = "converge:stale-route-not-withdrawn", fmt.Sprintf("routes %v are still in the peer's table but not in the last requested set", st)
				case len(mi) > 0:
					sig, sum = "converge:route-not-announced", fmt.Sprintf("routes %v of the last requested set are not in the peer's table", mi)
				default:
					sig, sum = "converge:attributes-not-updated", fmt.Sprintf("routes %v are in the peer's table with attributes of an earlier request", at)
				}
			}
			p.mu.Unlock()
			return false, sig, fmt.Sprintf("%s after the last Set returned and the last scripted fault: %s", c17ConvergeLimit, sum)
		}
		time.Sleep(2 * time.Millisecond)
	}
}

// awaitAS4Outcome: the session's AS number needs four octets and the peer has no four-octet
// capability. Acceptable: the peer is refused (nothing after the OPEN), or routes arrive with AS_TRANS.
func (p *c17Peer) awaitAS4Outcome() {
	start := time.Now()
	for time.Since(start) < 6*time.Second {
		p.mu.Lock()
		refused, flaps := 0, 0
		for _, cn := range p.conns {
			if !cn.ended || cn.byScript {
				continue
			}
			switch {
			case cn.replied && cn.nMsgs == 0:
				refused++
			case cn.established && len(cn.recs) == 0:
				flaps++
			}
		}
		live := p.liveConn()
		conv := false
		if live != nil && len(p.reqs) > 0 {
			st, mi, at := p.tableDiff(live, p.lastReq())
			conv = len(st)+len(mi)+len(at) == 0 && len(live.table) > 0
		}
		p.mu.Unlock()
		p.c.Eval()
		switch {
		case flaps >= 4:
			p.violation("as4:session-established-with-2-octet-peer-then-dropped",
				fmt.Sprintf("local AS %d cannot be sent to a peer without the four-octet capability, yet the session was established %d times (KEEPALIVE sent) and torn down by the speaker before any route, reconnecting without back-off", p.sc.MyASN, flaps))
			return
		case refused >= 2:
			p.c.Count("as4-2-octet-peer-refused")
			return
		case conv:
			p.c.Count("as4-2-octet-peer-served-with-as-trans")
			return
		}
		time.Sleep(5 * time.Millisecond)
	}
	p.timed("as4:no-outcome", "neither refusal nor convergence within 6 s")
}

// ---------------------------------------------------------------- one scenario

// c17ParamProbe, when set (the C18 run of this package), is called at the end of a scenario with the
// parameters the session was created from and the hold time variable they point to.
var c17ParamProbe func(c *vfCase, sc *c17Scenario, params *bgp.SessionParameters, holdTimeNow time.Duration)

func vfc17RunScenario(c *vfCase, sc *c17Scenario) {
	canary := vfStartCanary()
	defer canary.Stop()
	p := &c17Peer{c: c, sc: sc, canary: canary, t0: time.Now(), fired: map[string]bool{}}
	if err := p.listen(); err != nil {
		c.Inconclusive(fmt.Sprintf("scenario %d: cannot listen on loopback: %v", sc.ID, err))
		return
	}
	p.wg.Add(1)
	go p.acceptLoop()
	c.Count("scenarios")
	c.Count("scenarios:" + sc.Class)

	ht := time.Duration(sc.HoldS) * time.Second
	params := bgp.SessionParameters{
		PeerAddress: "127.0.0.1", PeerPort: uint16(p.port), MyASN: sc.MyASN, PeerASN: sc.PeerASN,
		RouterID: net.ParseIP("10.0.0.1"), HoldTime: &ht, CurrentNode: "verif-node", SessionName: fmt.Sprintf("verif-%d", sc.ID),
	}
	if sc.SourceAddr {
		params.SourceAddress = net.ParseIP("127.0.0.1")
	}
	if c17ParamProbe != nil {
		defer func() { c17ParamProbe(c, sc, &params, ht) }()
	}
	sess, err := NewSessionManager(log.NewNopLogger()).NewSession(log.NewNopLogger(), params)
	if err != nil {
		c.Violation("session:new-session-error", fmt.Sprintf("scenario %d: NewSession failed: %v", sc.ID, err), sc)
		p.finish()
		return
	}
	for i, op := range sc.Ops {
		p.doSet(sess, i, op)
	}
	converged := false
	switch {
	case sc.CloseEarly:
		time.Sleep(time.Duration(sc.CloseDelayMs) * time.Millisecond)
	case sc.Class == "as4-unrepresentable":
		p.awaitAS4Outcome()
	default:
		tw := time.Now()
		converged = p.awaitConvergence()
		if os.Getenv("VERIF_C17_DEBUG") != "" {
			p.debugDump("debug", fmt.Sprintf("converged=%v", converged))
		}
		if converged {
			c.Count("scenarios:converged")
			switch d := time.Since(tw); {
			case d < 100*time.Millisecond:
				c.Count("convergence-wait:under-100ms")
			case d < time.Second:
				c.Count("convergence-wait:under-1s")
			case d < 5*time.Second:
				c.Count("convergence-wait:under-5s")
			default:
				c.Count("convergence-wait:over-5s")
				p.debugDump("slow-convergence", d.String())
			}
		}
	}
	// Close, then watch
	if g := p.canary.MaxGap(); g > c17StarvedGap {
		c.Count("scenarios-with-scheduling-gap-before-close")
		c.Logf("scenario %d: scheduling gap %s before Close", sc.ID, g)
	}
	p.canary.Reset()
	if p.hung.Load() {
		p.finish()
		return
	}
	doneClose := make(chan struct{})
	go func() { _ = sess.Close(); close(doneClose) }()
	select {
	case <-doneClose:
	case <-time.After(c17CallLimit):
		p.hung.Store(true)
		if p.starvedGap() > c17StarvedGap {
			c.Inconclusive(fmt.Sprintf("scenario %d: Close did not return within %s, but the process was starved", sc.ID, c17CallLimit))
		} else {
			p.violation("close:call-never-returns", fmt.Sprintf("Close() did not return within %s", c17CallLimit))
		}
		p.finish()
		return
	}
	now := time.Now()
	p.mu.Lock()
	p.closeReturned, p.closeAt = true, now
	p.closedFlag.Store(true)
	p.seq++
	p.mu.Unlock()
	time.Sleep(c17CloseWindow)
	c.Count("close-windows-watched")
	if g := p.canary.MaxGap(); g > c17StarvedGap {
		c.Count("scenarios-with-scheduling-gap-in-close-window")
		c.Logf("scenario %d: scheduling gap %s in the close window", sc.ID, g)
	}
	c.Eval()
	p.finish()

	// evidence
	p.mu.Lock()
	var faults []string
	for f := range p.fired {
		faults = append(faults, f)
	}
	sort.Strings(faults)
	nconn := len(p.conns)
	var kinds []string
	for _, op := range sc.Ops {
		kinds = append(kinds, op.Kind)
	}
	p.mu.Unlock()
	if converged && (len(faults) > 0 || len(sc.Ops) >= 3) {
		c.Nontrivial(fmt.Sprintf("%s|ibgp=%v|as4=%v|conns=%d|faults=%v|scripts=%v|ops=%v", sc.Class, sc.ibgp(), sc.PeerAS4, nconn, faults, sc.Conns, kinds))
	}
	if c.WantSample() && converged && len(faults) > 0 {
		c.Sample(map[string]any{"scenario": vfc17Lite(sc), "connections": nconn, "faults_fired": faults, "verdict": "converged, closed cleanly"})
	}
}

// finish stops the peer and evaluates the per-connection clauses.
func (p *c17Peer) finish() {
	p.mu.Lock()
	p.finishing = true
	conns := append([]*c17Conn(nil), p.conns...)
	var lingering []int
	for _, cn := range conns {
		if cn.afterClose && !cn.ended && cn.gotOpen {
			lingering = append(lingering, cn.idx)
		}
	}
	p.mu.Unlock()
	if len(lingering) > 0 {
		p.violation("close:connection-after-close", fmt.Sprintf("connections %v were opened after Close() returned and are still open %s later", lingering, c17CloseWindow))
	}
	p.ln.Close()
	for _, cn := range conns {
		cn.tc.Close()
	}
	done := make(chan struct{})
	go func() { p.wg.Wait(); close(done) }()
	select {
	case <-done:
	case <-time.After(10 * time.Second):
		p.c.Inconclusive(fmt.Sprintf("scenario %d: peer goroutines did not stop", p.sc.ID))
		return
	}
	p.mu.Lock()
	type fail struct {
		idx int
		why string
	}
	var fails []fail
	for _, cn := range p.conns {
		if cn.established {
			p.c.Count("connections:established")
		}
		if !cn.established || cn.wrongASN || cn.afterClose {
			continue
		}
		n, why := p.checkResend(cn)
		p.c.Eval()
		if why != "" {
			fails = append(fails, fail{cn.idx, why})
		} else if n > 0 {
			if cn.idx > 0 {
				p.c.Count("reconnect-resends-verified")
			} else {
				p.c.Count("initial-sends-verified")
			}
		}
	}
	p.mu.Unlock()
	for _, f := range fails {
		p.violation("reconnect:no-full-resend", fmt.Sprintf("connection %d does not start with the complete set of any request that was current when it was accepted: %s", f.idx, f.why))
	}
}

// ---------------------------------------------------------------- generators

var c17Universe = []string{"10.7.0.1/32", "10.7.0.2/32", "10.7.0.3/32", "10.7.0.4/32", "10.7.0.5/32", "10.7.0.6/32", "10.7.0.77/32",
	"10.7.1.0/24", "10.7.2.0/23", "192.0.2.128/25", "10.8.0.0/13", "203.0.113.77/32", "0.0.0.0/0", "198.51.100.64/27"}

func vfc17Attrs(r *vfRand, prefix string) c17Route {
	rt := c17Route{Prefix: prefix, LocalPref: vfPick(r, []uint32{0, 100, 100, 200, 4294967295})}
	switch r.Intn(5) {
	case 0, 1:
	case 2:
		rt.Comms = []uint32{65000<<16 | 1}
	case 3:
		rt.Comms = []uint32{65000<<16 | 1, 65000<<16 | 2}
	default:
		for i := r.Range(1, 6); i > 0; i-- {
			rt.Comms = append(rt.Comms, vfPick(r, []uint32{0xffffff01, 0xffffff02, 64512<<16 | 100, 64512<<16 | 200, 1<<16 | 1, 65535<<16 | 65535}))
		}
	}
	return rt
}

func vfc17SameAttrs(a, b c17Route) bool {
	return a.LocalPref == b.LocalPref && vfEqualU32(a.Comms, b.Comms)
}

func vfc17GenOps(r *vfRand, n int) []c17Op {
	cur := map[string]c17Route{}
	var ops []c17Op
	present := func() []string {
		var out []string
		for _, u := range c17Universe {
			if _, ok := cur[u]; ok {
				out = append(out, u)
			}
		}
		return out
	}
	absent := func() []string {
		var out []string
		for _, u := range c17Universe {
			if _, ok := cur[u]; !ok {
				out = append(out, u)
			}
		}
		return out
	}
	for i := 0; i < n; i++ {
		op := c17Op{}
		switch r.Intn(6) {
		case 0, 1:
			op.Gap = "none"
		case 2:
			op.Gap = "yield"
		case 3, 4:
			op.Gap, op.GapMs = "sleep", r.Range(1, 20)
		default:
			op.Gap, op.GapMs = "sleep", r.Range(40, 120)
		}
		kind := vfPick(r, []string{"grow", "grow", "shrink", "shrink", "empty", "attributes", "attributes", "shift-communities", "identical", "subset", "replace", "flip-back"})
		if i == 0 && r.Chance(3, 4) {
			kind = "grow"
		}
		pr, ab := present(), absent()
		if kind == "flip-back" {
			// the requested set changes and, without any pause, goes back to exactly what it was (a service created
			// and deleted at once, a flap): the change comes after a pause long enough for the former set to be on the
			// wire, so the second call asks for what the peer already holds while the first is still pending
			prev := map[string]c17Route{}
			for k, v := range cur {
				prev[k] = v
			}
			routesOf := func(m map[string]c17Route) []c17Route {
				var out []c17Route
				for _, u := range c17Universe {
					if rt, ok := m[u]; ok {
						out = append(out, rt)
					}
				}
				return out
			}
			switch {
			case len(ab) > 0 && (len(pr) == 0 || r.Bool()):
				u := vfPick(r, ab)
				cur[u] = vfc17Attrs(r, u)
			case len(pr) > 0 && r.Bool():
				delete(cur, vfPick(r, pr))
			case len(pr) > 0:
				u := vfPick(r, pr)
				for try := 0; try < 8; try++ {
					if nr := vfc17Attrs(r, u); !vfc17SameAttrs(nr, cur[u]) {
						cur[u] = nr
						break
					}
				}
			}
			ops = append(ops, c17Op{Kind: "flip-back:change", Gap: "sleep", GapMs: 150, Routes: routesOf(cur)})
			cur = prev
			ops = append(ops, c17Op{Kind: "flip-back:revert", Gap: vfPick(r, []string{"none", "none", "yield"}), Routes: routesOf(cur)})
			continue
		}
		switch kind {
		case "grow":
			vfShuffle(r, ab)
			for k := 0; k < r.Range(1, 4) && k < len(ab); k++ {
				cur[ab[k]] = vfc17Attrs(r, ab[k])
			}
		case "shrink":
			vfShuffle(r, pr)
			for k := 0; k < r.Range(1, 3) && k < len(pr); k++ {
				delete(cur, pr[k])
			}
		case "empty":
			cur = map[string]c17Route{}
		case "attributes":
			vfShuffle(r, pr)
			for k := 0; k < r.Range(1, 3) && k < len(pr); k++ {
				for try := 0; try < 8; try++ {
					nr := vfc17Attrs(r, pr[k])
					if !vfc17SameAttrs(nr, cur[pr[k]]) {
						cur[pr[k]] = nr
						break
					}
				}
			}
		case "shift-communities":
			// same number of communities, every value moved the same way (an element-wise comparison
			// that only looks in one direction takes the two lists for equal)
			d := uint32(1)
			if r.Bool() {
				d = ^uint32(0) // -1
			}
			any := false
			for _, u := range pr {
				if rt := cur[u]; len(rt.Comms) > 0 {
					nr := c17Route{Prefix: rt.Prefix, LocalPref: rt.LocalPref}
					for _, cm := range rt.Comms {
						nr.Comms = append(nr.Comms, cm+d)
					}
					cur[u] = nr
					any = true
				}
			}
			if !any && len(pr) > 0 {
				rt := cur[pr[0]]
				rt.Comms = []uint32{64512<<16 | 300}
				cur[pr[0]] = rt
			}
		case "identical":
		case "subset":
			cur = map[string]c17Route{}
			for _, u := range vfSubset(r, c17Universe, 1, 2) {
				cur[u] = vfc17Attrs(r, u)
			}
		case "replace":
			next := map[string]c17Route{}
			vfShuffle(r, ab)
			for k := 0; k < r.Range(1, 4) && k < len(ab); k++ {
				next[ab[k]] = vfc17Attrs(r, ab[k])
			}
			cur = next
		}
		op.Kind = kind
		for _, u := range present() {
			op.Routes = append(op.Routes, cur[u])
		}
		vfShuffle(r, op.Routes)
		if len(op.Routes) > 0 && r.Chance(1, 8) { // the same prefix twice with different attributes: either is acceptable
			base := vfPick(r, op.Routes)
			for try := 0; try < 8; try++ {
				nr := vfc17Attrs(r, base.Prefix)
				if !vfc17SameAttrs(nr, base) {
					op.Routes = append(op.Routes, nr)
					cur[base.Prefix] = nr
					op.Kind += "+duplicate"
					break
				}
			}
		}
		if r.Chance(1, 12) { // a call that must fail and leave the requested set as it was
			inv := op
			inv.Kind, inv.Invalid = "invalid", vfPick(r, []string{"v6-prefix", "64-communities"})
			inv.Routes = nil
			if r.Bool() { // valid routes (other than the requested ones) in front of the one that is refused
				for _, u := range vfSubset(r, c17Universe, 1, 4) {
					inv.Routes = append(inv.Routes, vfc17Attrs(r, u))
				}
				inv.Kind = "invalid-after-valid"
			}
			if i == n-1 || r.Chance(1, 3) { // the refused call comes after the valid one: the requested set stays that of the valid one
				inv.Gap, inv.GapMs = vfPick(r, []string{"none", "sleep"}), r.Range(1, 30)
				ops = append(ops, op, inv)
				continue
			}
			ops = append(ops, inv)
			op.Gap, op.GapMs = "none", 0
		}
		ops = append(ops, op)
	}
	return ops
}

func vfc17GenConnScripts(r *vfRand, sc *c17Scenario) {
	n := vfPick(r, []int{0, 1, 1, 2, 2, 3})
	backoffs := 0
	for i := 0; i < n; i++ {
		cs := c17ConnScript{OpenStyle: "plain", RST: r.Bool()}
		if r.Chance(2, 5) {
			cs.HoldOpenMs = r.Range(20, 300)
		}
		switch k := r.Intn(20); {
		case k < 3 && backoffs < 2:
			cs.OpenStyle = vfPick(r, []string{"wrong-field", "wrong-cap"})
			if sc.PeerASN > 0xffff && sc.PeerASN != vfBGPASTrans && r.Bool() {
				cs.OpenStyle = "as-trans-no-cap"
			}
			backoffs++
		case k < 5 && sc.PeerAS4:
			cs.OpenStyle = "cap-wins"
		}
		if cs.OpenStyle == "plain" && sc.MyASN <= 0xffff && sc.PeerASN <= 0xffff && r.Chance(1, 3) {
			cs.AS4 = vfPick(r, []string{"yes", "no"}) // the capability may differ from one connection to the next (peer restarted with another configuration)
		}
		if cs.OpenStyle == "plain" || cs.OpenStyle == "cap-wins" {
			switch k := r.Intn(20); {
			case k < 2:
			case k < 7:
				cs.Fault, cs.IdleMs = "drop-idle", r.Range(15, 80)
			case k < 11:
				cs.Fault, cs.K = "drop-after-msgs", r.Intn(22)
			case k < 17:
				cs.Fault, cs.K = "drop-after-bytes", vfPick(r, []int{r.Range(1, 18), 19, r.Range(20, 90), r.Range(20, 90), r.Range(91, 700)})
			case k < 19:
				cs.Fault, cs.K, cs.StallMs = "stall", r.Intn(4), r.Range(80, 500)
			default:
				if backoffs < 2 {
					cs.Fault = "drop-before-open-reply"
					backoffs++
				}
			}
		}
		sc.Conns = append(sc.Conns, cs)
	}
}

func vfc17GenScenario(r *vfRand, id int) *c17Scenario {
	sc := &c17Scenario{ID: id, Class: "normal", HoldS: vfPick(r, []int{3, 3, 90, 180}), PeerHoldS: vfPick(r, []int{0, 3, 90, 90, 240})}
	switch r.Intn(6) {
	case 0, 1: // iBGP
		sc.MyASN = vfPick(r, []uint32{64512, 65535, 65536, 4200000000})
		sc.PeerASN = sc.MyASN
		sc.PeerAS4 = sc.MyASN > 0xffff || r.Bool()
	default:
		sc.MyASN = vfPick(r, []uint32{64512, 65000, 65535, 65536, 4200000001})
		sc.PeerASN = vfPick(r, []uint32{64513, 65001, 23456, 65535, 65537, 4200000002})
		sc.PeerAS4 = sc.MyASN > 0xffff || sc.PeerASN > 0xffff || r.Bool()
	}
	vfc17GenConnScripts(r, sc)
	sc.SourceAddr = r.Chance(1, 4)
	sc.Ops = vfc17GenOps(r, r.Range(3, 10))
	if r.Chance(1, 5) {
		sc.CloseEarly, sc.CloseDelayMs = true, vfPick(r, []int{0, 0, 1, 5, 30, 120})
	}
	return sc
}

// vfc17BigScenario: many large UPDATEs against a peer that stops reading (back-pressure), then resumes.
func vfc17BigScenario(r *vfRand, id int) *c17Scenario {
	sc := &c17Scenario{ID: id, Class: "big", MyASN: 64512, PeerASN: vfPick(r, []uint32{64512, 64513}), PeerAS4: true, HoldS: 90, PeerHoldS: 90, SmallRcvBuf: true}
	sc.Conns = []c17ConnScript{{OpenStyle: "plain", Fault: "stall", K: r.Range(1, 3), StallMs: r.Range(400, 900)}}
	if r.Bool() {
		sc.Conns = append(sc.Conns, c17ConnScript{OpenStyle: "plain", Fault: "drop-after-bytes", K: r.Range(2000, 200000), RST: r.Bool()})
		sc.Conns[0].Fault, sc.Conns[0].K, sc.Conns[0].StallMs = "drop-after-bytes", r.Range(5000, 150000), 0
	}
	var comms []uint32
	for i := 0; i < 60; i++ {
		comms = append(comms, uint32(64512<<16|i))
	}
	// 800 routes: a withdraw of all of them (the speaker puts all withdrawn prefixes of one change into one
	// UPDATE) still fits into 4096 octets; C16 probes the sizes beyond that
	var all []c17Route
	for i := 0; i < 800; i++ {
		all = append(all, c17Route{Prefix: fmt.Sprintf("10.%d.%d.%d/32", 100+i/60000, (i/250)%250, i%250+1), LocalPref: 100, Comms: comms})
	}
	half := append([]c17Route(nil), all[:400]...)
	for i := 0; i < 100; i++ {
		half[i].LocalPref = 200
		half[i].Comms = comms[:10]
	}
	sc.Ops = []c17Op{
		{Gap: "none", Kind: "grow", Routes: all},
		{Gap: "sleep", GapMs: r.Range(1, 60), Kind: "shrink+attributes", Routes: half},
		{Gap: "sleep", GapMs: r.Range(1, 60), Kind: "shrink", Routes: half[:vfPick(r, []int{0, 1, 200})]},
	}
	return sc
}

func vfc17Directed() []*c17Scenario {
	routes := []c17Route{{Prefix: "10.7.0.1/32", LocalPref: 100}, {Prefix: "10.7.1.0/24", LocalPref: 100, Comms: []uint32{65000<<16 | 1}}}
	set := func(rs ...c17Route) c17Op { return c17Op{Gap: "sleep", GapMs: 5, Kind: "directed", Routes: rs} }
	wait := func(rs ...c17Route) c17Op { return c17Op{Gap: "sleep", GapMs: 200, Kind: "flip-back:change", Routes: rs} }
	now := func(rs ...c17Route) c17Op { return c17Op{Gap: "none", Kind: "flip-back:revert", Routes: rs} }
	as4 := func(my uint32, peerAS4 bool) *c17Scenario {
		sc := &c17Scenario{Class: "normal", MyASN: my, PeerASN: 64513, PeerAS4: peerAS4, HoldS: 90, PeerHoldS: 90, Ops: []c17Op{set(routes...)}}
		if my > 0xffff && !peerAS4 {
			sc.Class = "as4-unrepresentable"
		}
		return sc
	}
	ds := []*c17Scenario{
		as4(65536, false), // the speaker cannot express its AS number to this peer
		as4(65537, false),
		as4(65536, true),
		as4(65535, false),
		// iBGP, short hold time (keepalives every second), grow / attribute change / shrink / empty / grow
		{Class: "normal", MyASN: 64512, PeerASN: 64512, PeerAS4: true, HoldS: 3, PeerHoldS: 3, Ops: []c17Op{
			set(routes[0]), set(routes...), set(routes[0], c17Route{Prefix: "10.7.1.0/24", LocalPref: 200}), set(routes[1]), set(), set(routes...)}},
		// the capability wins: wrong number in the capability twice, then the right one with AS_TRANS in the field
		{Class: "normal", MyASN: 64512, PeerASN: 65001, PeerAS4: true, HoldS: 90, PeerHoldS: 90,
			Conns: []c17ConnScript{{OpenStyle: "wrong-cap"}, {OpenStyle: "wrong-field"}, {OpenStyle: "cap-wins"}}, Ops: []c17Op{set(routes...)}},
		// reset in the middle of the first UPDATE, then in the middle of the re-send, changes in between
		{Class: "normal", MyASN: 64512, PeerASN: 64513, PeerAS4: false, HoldS: 90, PeerHoldS: 90,
			Conns: []c17ConnScript{{OpenStyle: "plain", Fault: "drop-after-bytes", K: 19 + 30, RST: true}, {OpenStyle: "plain", Fault: "drop-after-msgs", K: 2}},
			Ops:   []c17Op{set(routes...), set(routes[1]), set(routes...)}},
		// iBGP: the peer drops an idle connection, then drops again right after the KEEPALIVE of the next one
		{Class: "normal", MyASN: 65536, PeerASN: 65536, PeerAS4: true, HoldS: 3, PeerHoldS: 90,
			Conns: []c17ConnScript{{OpenStyle: "plain", Fault: "drop-idle", IdleMs: 40}, {OpenStyle: "plain", Fault: "drop-after-msgs", K: 1, RST: true}},
			Ops:   []c17Op{set(routes...), {Gap: "sleep", GapMs: 90, Kind: "directed", Routes: routes[:1]}, set(routes[1], c17Route{Prefix: "10.7.0.1/32", LocalPref: 300})}},
		// everything is requested and taken back while the peer still sits on its OPEN reply: the table
		// the peer builds once the session is up must be empty / hold the last set only
		{Class: "normal", MyASN: 64512, PeerASN: 64513, PeerAS4: true, HoldS: 90, PeerHoldS: 90,
			Conns: []c17ConnScript{{OpenStyle: "plain", HoldOpenMs: 300}}, Ops: []c17Op{set(routes[0]), set()}},
		{Class: "normal", MyASN: 64512, PeerASN: 64512, PeerAS4: true, HoldS: 90, PeerHoldS: 90,
			Conns: []c17ConnScript{{OpenStyle: "plain", HoldOpenMs: 300}}, Ops: []c17Op{set(), set(routes...), set(), set(routes[1]), set()}},
		{Class: "normal", MyASN: 64512, PeerASN: 64513, PeerAS4: false, HoldS: 90, PeerHoldS: 90,
			Conns: []c17ConnScript{{OpenStyle: "plain", HoldOpenMs: 300}}, Ops: []c17Op{set(routes...), set(), set(routes[0])}},
		// the first connection is dropped before anything was requested; while the session waits to
		// reconnect a route is requested and taken back: the second connection must carry nothing
		{Class: "normal", MyASN: 64512, PeerASN: 64513, PeerAS4: true, HoldS: 90, PeerHoldS: 90,
			Conns: []c17ConnScript{{OpenStyle: "plain", Fault: "drop-idle", IdleMs: 10}, {OpenStyle: "plain"}},
			Ops:   []c17Op{{Gap: "sleep", GapMs: 200, Kind: "directed", Routes: routes[:1]}, set()}},
		// the first two attempts are refused (unexpected AS): the session sleeps a second before the third;
		// in that window a route is requested and taken back
		{Class: "normal", MyASN: 64512, PeerASN: 64513, PeerAS4: true, HoldS: 90, PeerHoldS: 90,
			Conns: []c17ConnScript{{OpenStyle: "wrong-field"}, {OpenStyle: "wrong-field"}, {OpenStyle: "plain"}},
			Ops:   []c17Op{{Gap: "sleep", GapMs: 250, Kind: "directed", Routes: routes[:1]}, set()}},
		{Class: "normal", MyASN: 64512, PeerASN: 64512, PeerAS4: true, HoldS: 90, PeerHoldS: 90,
			Conns: []c17ConnScript{{OpenStyle: "wrong-cap"}, {OpenStyle: "wrong-cap"}, {OpenStyle: "plain"}},
			Ops:   []c17Op{{Gap: "sleep", GapMs: 250, Kind: "directed", Routes: routes}, set(routes[1]), set()}},
		{Class: "normal", MyASN: 64512, PeerASN: 64512, PeerAS4: true, HoldS: 90, PeerHoldS: 90,
			Conns: []c17ConnScript{{OpenStyle: "plain", Fault: "drop-idle", IdleMs: 10}, {OpenStyle: "plain"}},
			Ops:   []c17Op{{Gap: "sleep", GapMs: 200, Kind: "directed", Routes: routes}, set(), set(routes[1]), set()}},
		// the peer loses its four-octet capability between two connections (and gains it back): the AS_PATH
		// of every connection is in the form that connection's OPEN asked for
		{Class: "normal", MyASN: 64512, PeerASN: 64513, PeerAS4: false, HoldS: 90, PeerHoldS: 90,
			Conns: []c17ConnScript{{OpenStyle: "plain", AS4: "yes", Fault: "drop-after-msgs", K: 2}, {OpenStyle: "plain", AS4: "no", Fault: "drop-after-msgs", K: 2}, {OpenStyle: "plain", AS4: "yes", Fault: "drop-after-msgs", K: 2}, {OpenStyle: "plain", AS4: "no"}},
			Ops:   []c17Op{set(routes...)}},
		{Class: "normal", MyASN: 65535, PeerASN: 65001, PeerAS4: true, HoldS: 90, PeerHoldS: 90,
			Conns: []c17ConnScript{{OpenStyle: "cap-wins", Fault: "drop-idle", IdleMs: 30}, {OpenStyle: "plain", AS4: "no"}},
			Ops:   []c17Op{set(routes...), {Gap: "sleep", GapMs: 120, Kind: "directed", Routes: routes[:1]}}},
		// a peer configured with a four-octet number that says AS_TRANS and carries no capability is AS 23456: refused
		{Class: "normal", MyASN: 64512, PeerASN: 65537, PeerAS4: true, HoldS: 90, PeerHoldS: 90,
			Conns: []c17ConnScript{{OpenStyle: "as-trans-no-cap"}, {OpenStyle: "plain"}}, Ops: []c17Op{set(routes...)}},
		{Class: "normal", MyASN: 4200000001, PeerASN: 4200000001, PeerAS4: true, HoldS: 90, PeerHoldS: 90,
			Conns: []c17ConnScript{{OpenStyle: "as-trans-no-cap"}, {OpenStyle: "cap-wins"}}, Ops: []c17Op{set(routes[0])}},
		// flip-back: after a pause long enough for the requested set to be on the wire the set changes (grows,
		// is emptied, changes an attribute) and, in the very next call, is back to exactly what the peer holds
		{Class: "normal", MyASN: 64512, PeerASN: 64513, PeerAS4: true, HoldS: 90, PeerHoldS: 90, Ops: []c17Op{
			set(routes[0]), wait(routes...), now(routes[0]), wait(), now(routes[0]), wait(c17Route{Prefix: "10.7.0.1/32", LocalPref: 250}), now(routes[0])}},
		{Class: "normal", MyASN: 64512, PeerASN: 64512, PeerAS4: true, HoldS: 90, PeerHoldS: 90, Ops: []c17Op{
			set(routes...), wait(routes[1]), now(routes...), wait(routes[0]), now(routes...), wait(routes[0], routes[1], c17Route{Prefix: "10.7.2.0/24"}), now(routes...)}},
		// a refused Set (valid routes in front of the refused one) is the last call; then the peer drops the
		// idle connection: the re-sent table is the last ACCEPTED set
		{Class: "normal", MyASN: 64512, PeerASN: 64513, PeerAS4: true, HoldS: 90, PeerHoldS: 90,
			Conns: []c17ConnScript{{OpenStyle: "plain", Fault: "drop-idle", IdleMs: 150}, {OpenStyle: "plain"}},
			Ops:   []c17Op{set(routes...), {Gap: "sleep", GapMs: 20, Kind: "invalid-after-valid", Invalid: "64-communities", Routes: []c17Route{{Prefix: "10.7.0.5/32", LocalPref: 100}}}}},
		{Class: "normal", MyASN: 64512, PeerASN: 64512, PeerAS4: true, HoldS: 90, PeerHoldS: 90,
			Conns: []c17ConnScript{{OpenStyle: "plain", Fault: "drop-idle", IdleMs: 150, RST: true}, {OpenStyle: "plain"}},
			Ops:   []c17Op{set(routes...), {Gap: "sleep", GapMs: 20, Kind: "invalid", Invalid: "v6-prefix"}}},
		// communities replaced by as many, all a little higher / lower
		{Class: "normal", MyASN: 64512, PeerASN: 64513, PeerAS4: true, HoldS: 90, PeerHoldS: 90,
			Ops: []c17Op{set(c17Route{Prefix: "10.7.1.0/24", LocalPref: 100, Comms: []uint32{65000<<16 | 100, 65000<<16 | 300}}),
				set(c17Route{Prefix: "10.7.1.0/24", LocalPref: 100, Comms: []uint32{65000<<16 | 200, 65000<<16 | 400}}),
				set(c17Route{Prefix: "10.7.1.0/24", LocalPref: 100, Comms: []uint32{65000<<16 | 100, 65000<<16 | 300}})}},
		// the peer resets the connection while the speaker is between the announcements of a large set
		// and the withdrawal that follows at once: a write of either kind may be the one that fails
		func() *c17Scenario {
			var big []c17Route
			for _, u := range c17Universe {
				big = append(big, c17Route{Prefix: u, LocalPref: 100})
			}
			return &c17Scenario{Class: "normal", MyASN: 64512, PeerASN: 64512, PeerAS4: true, HoldS: 90, PeerHoldS: 90,
				Conns: []c17ConnScript{{OpenStyle: "plain", Fault: "drop-after-msgs", K: 1 + len(big), RST: true}, {OpenStyle: "plain", Fault: "drop-after-msgs", K: len(big), RST: true}, {OpenStyle: "plain"}},
				Ops:   []c17Op{{Gap: "none", Kind: "directed", Routes: big}, {Gap: "none", Kind: "directed", Routes: big[:2]}, {Gap: "sleep", GapMs: 3, Kind: "directed", Routes: big}, {Gap: "none", Kind: "directed", Routes: big[3:5]}}}
		}(),
		func() *c17Scenario {
			var big []c17Route
			for _, u := range c17Universe {
				big = append(big, c17Route{Prefix: u, LocalPref: 200, Comms: []uint32{65000<<16 | 7}})
			}
			return &c17Scenario{Class: "normal", MyASN: 64512, PeerASN: 64513, PeerAS4: false, HoldS: 90, PeerHoldS: 90,
				Conns: []c17ConnScript{{OpenStyle: "plain", Fault: "drop-after-bytes", K: 19 + len(big)*52 - 5, RST: true}, {OpenStyle: "plain", Fault: "drop-after-msgs", K: 2 + len(big), RST: true}, {OpenStyle: "plain"}},
				Ops:   []c17Op{{Gap: "none", Kind: "directed", Routes: big}, {Gap: "none", Kind: "directed", Routes: nil}, {Gap: "yield", Kind: "directed", Routes: big}, {Gap: "none", Kind: "directed", Routes: big[:1]}}}
		}(),
		// the peer accepts the OPEN and hangs up at once, several times in a row: the connection may be
		// gone before the sender has started on it
		{Class: "normal", MyASN: 64512, PeerASN: 64513, PeerAS4: true, HoldS: 90, PeerHoldS: 90,
			Conns: []c17ConnScript{{OpenStyle: "plain", Fault: "drop-after-msgs", K: 0, RST: true}, {OpenStyle: "plain", Fault: "drop-after-msgs", K: 0}, {OpenStyle: "plain", Fault: "drop-after-msgs", K: 0, RST: true}, {OpenStyle: "plain", Fault: "drop-after-msgs", K: 0}, {OpenStyle: "plain", Fault: "drop-after-msgs", K: 0, RST: true}, {OpenStyle: "plain"}},
			Ops:   []c17Op{set(routes...)}},
		{Class: "normal", MyASN: 64512, PeerASN: 64512, PeerAS4: true, HoldS: 3, PeerHoldS: 3,
			Conns: []c17ConnScript{{OpenStyle: "cap-wins", Fault: "drop-after-msgs", K: 0}, {OpenStyle: "plain", Fault: "drop-after-msgs", K: 0, RST: true}, {OpenStyle: "plain", Fault: "drop-after-msgs", K: 0}, {OpenStyle: "plain", Fault: "drop-after-msgs", K: 0, RST: true}, {OpenStyle: "plain"}},
			Ops:   []c17Op{{Gap: "sleep", GapMs: 40, Kind: "directed", Routes: routes}, set(routes[0])}},
		// the session is bound to a configured source address
		{Class: "normal", MyASN: 64512, PeerASN: 64513, PeerAS4: true, HoldS: 90, PeerHoldS: 90, SourceAddr: true, Ops: []c17Op{set(routes...), set(routes[0])}},
		{Class: "normal", MyASN: 64512, PeerASN: 64512, PeerAS4: false, HoldS: 90, PeerHoldS: 30, SourceAddr: true, Ops: []c17Op{set(routes...)}},
		// Close while the peer sits on its OPEN reply
		{Class: "normal", MyASN: 64512, PeerASN: 64513, PeerAS4: true, HoldS: 90, PeerHoldS: 90, CloseEarly: true, CloseDelayMs: 20,
			Conns: []c17ConnScript{{OpenStyle: "plain", HoldOpenMs: 250}}, Ops: []c17Op{set(routes...)}},
	}
	return ds
}

// ---------------------------------------------------------------- entry point

var c17StdoutOnce sync.Once

func TestVerif_C17(t *testing.T) {
	// readOpen prints every OPEN it parses to stdout; send that to /dev/null for the whole process
	// (never restored: sessions may still be running when the test function returns).
	c17StdoutOnce.Do(func() {
		if null, err := os.OpenFile(os.DevNull, os.O_WRONLY, 0); err == nil {
			os.Stdout = null
		}
	})
	rule := "scenario = caller script of Set calls (grow, shrink, empty, attribute-only, identical, duplicate prefixes, rejected calls; gaps 0 / yield / 1-120 ms) x per-connection peer script " +
		"(held OPEN reply, unexpected AS in field or capability, drop idle / after k messages / after k octets with FIN or RST, stop reading and resume, drop before the OPEN reply) x iBGP/eBGP x 2-/4-octet peer; " +
		"8 scenarios per case in parallel; non-trivial = converged scenario with >= 1 fired fault or >= 3 Sets, distinct by (class, session kind, connections, faults, scripts, Set kinds)"
	vfMain(t, "C17", vfSizes{Quick: 3, Thorough: 40}, rule, func(c *vfCase) {
		var scs []*c17Scenario
		if c.Idx == 0 {
			scs = vfc17Directed()
		} else {
			for i := 0; i < c17Parallel-1; i++ {
				scs = append(scs, vfc17GenScenario(c.R.Fork(), 0))
			}
			scs = append(scs, vfc17BigScenario(c.R.Fork(), 0))
		}
		var wg sync.WaitGroup
		for i, sc := range scs {
			sc.ID = c.Idx*100 + i
			wg.Add(1)
			go func(sc *c17Scenario) {
				defer wg.Done()
				defer func() {
					if pv := recover(); pv != nil {
						c.Violation("panic:harness-or-session", fmt.Sprintf("scenario %d panicked: %v", sc.ID, pv), vfc17Lite(sc))
					}
				}()
				vfc17RunScenario(c, sc)
			}(sc)
		}
		wg.Wait()
	})
}
