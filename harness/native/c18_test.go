//go:build verif

package native

// C18, native-session side: "computing the configuration twice from the same snapshot yields equal
// values, so an unrelated event never looks like a configuration change". The reconcilers decide that
// with reflect.DeepEqual between the configuration they keep and a fresh parse; the kept value shares
// its pointers (hold time, keepalive time, connect time) with every consumer it was handed to. A
// consumer that writes through one of them makes the kept value differ from every later parse. The
// speaker box runs a recording session manager, so the native session is observed here: real sessions
// against the scripted peer of C17 (which proposes a lower or higher hold time, drops connections,
// refuses OPENs), and at the end of every scenario what the session parameters point to must still be
// what the configuration said.

import (
	"fmt"
	"sync"
	"testing"
	"time"

	"go.universe.tf/metallb/internal/bgp"
)

func TestVerif_C18(t *testing.T) {
	rule := "native sessions are created from parameters whose pointer fields stand for the parsed configuration (config.Peer.HoldTime etc.), run against the scripted peer of C17 (hold times 0/3/30/90/240 s proposed by the peer, connection drops, refused OPENs), and closed; afterwards every value the parameters point to must be unchanged; non-trivial = distinct (configured hold time, peer hold time, connections)"
	vfMain(t, "C18", vfSizes{Quick: 2, Thorough: 12}, rule, func(c *vfCase) {
		var mu sync.Mutex
		c.OnlyPrefix = "consumer-writes-into-configuration:"
		c17ParamProbe = func(c *vfCase, sc *c17Scenario, params *bgp.SessionParameters, holdNow time.Duration) {
			mu.Lock()
			defer mu.Unlock()
			c.Eval()
			c.Count("native-sessions-checked-for-parameter-writes")
			want := time.Duration(sc.HoldS) * time.Second
			if holdNow != want || params.HoldTime == nil || *params.HoldTime != want {
				c.Violation("consumer-writes-into-configuration:native-session:HoldTime", fmt.Sprintf("scenario %d: the session was created with hold time %s (a pointer into the parsed configuration); after the session ran against a peer proposing %d s the pointed-to value is %s: the configuration the reconciler keeps no longer equals a fresh parse, every later event re-applies it and re-syncs all Services", sc.ID, want, sc.PeerHoldS, holdNow), vfc17Lite(sc))
			}
			c.Nontrivial(fmt.Sprintf("hold=%d|peerhold=%d|conns=%d", sc.HoldS, sc.PeerHoldS, len(sc.Conns)))
		}
		defer func() { c17ParamProbe = nil }()
		var scs []*c17Scenario
		id := c.Idx * 100
		for _, ph := range []int{3, 30, 240, 0} {
			for _, h := range []int{90, 180} {
				sc := vfc17GenScenario(c.R.Fork(), id)
				sc.Class, sc.HoldS, sc.PeerHoldS = "normal", h, ph
				sc.MyASN, sc.PeerASN, sc.PeerAS4 = 64512, 64513, true
				sc.CloseEarly = false
				for i := range sc.Conns {
					sc.Conns[i].AS4 = ""
					if sc.Conns[i].OpenStyle == "as-trans-no-cap" {
						sc.Conns[i].OpenStyle = "wrong-field"
					}
				}
				id++
				scs = append(scs, sc)
			}
		}
		var wg sync.WaitGroup
		for _, sc := range scs {
			wg.Add(1)
			go func(sc *c17Scenario) {
				defer wg.Done()
				defer func() {
					if pv := recover(); pv != nil {
						c.Violation("panic:harness-or-session", fmt.Sprintf("scenario %d panicked: %v", sc.ID, pv), vfc17Lite(sc))
					}
				}()
				vfc17RunScenario(c, sc)
			}(sc)
		}
		wg.Wait()
		if c.WantSample() {
			c.Sample(map[string]any{"variant": "native-session-parameters", "scenarios": len(scs)})
		}
	})
}
