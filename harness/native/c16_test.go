//go:build verif

package native

import (
	"bytes"
	"fmt"
	"io"
	"net"
	"os"
	"runtime/debug"
	"sort"
	"strings"
	"testing"
	"time"

	"go.universe.tf/metallb/internal/bgp"
	"go.universe.tf/metallb/internal/bgp/community"
)

// C16 — native BGP messages: everything the speaker writes is decoded by the independent RFC 4271
// decoder of harness/lib/rfc4271.go and compared with the intended content; readOpen is fed valid,
// structurally mutated and random inputs through a byte-counting reader that carries sentinel
// octets after the message, each call under recover() and a watchdog.

// ---------------------------------------------------------------- readOpen under recover + watchdog

type c16Reader struct {
	data  []byte
	pos   int
	chunk int // > 0: at most this many octets per Read (short reads, as on a socket)
}

func (r *c16Reader) Read(p []byte) (int, error) {
	if len(p) == 0 {
		return 0, nil
	}
	if r.pos >= len(r.data) {
		return 0, io.EOF
	}
	n := len(p)
	if r.chunk > 0 && n > r.chunk {
		n = r.chunk
	}
	n = copy(p[:n], r.data[r.pos:])
	r.pos += n
	return n, nil
}

type c16Job struct {
	data  []byte
	chunk int
}

type c16Out struct {
	res      *openResult
	err      error
	consumed int
	panicked bool
	panicVal string
	stack    string
}

type c16Worker struct {
	in  chan c16Job
	out chan c16Out
}

func vfc16NewWorker() *c16Worker {
	w := &c16Worker{in: make(chan c16Job), out: make(chan c16Out, 1)}
	go func() {
		for j := range w.in {
			w.out <- vfc16CallReadOpen(j)
		}
	}()
	return w
}

func vfc16CallReadOpen(j c16Job) (out c16Out) {
	rd := &c16Reader{data: j.data, chunk: j.chunk}
	defer func() {
		if p := recover(); p != nil {
			out.panicked = true
			out.panicVal = fmt.Sprint(p)
			out.stack = string(debug.Stack())
		}
		out.consumed = rd.pos
	}()
	out.res, out.err = readOpen(rd)
	return out
}

type c16Env struct {
	w      *c16Worker
	canary *vfCanary
}

const c16HangTimeout = 10 * time.Second

// run executes readOpen on the worker goroutine. hung=true: it did not return within the timeout
// (twice the timeout when the canary saw the process starved).
func (e *c16Env) run(c *vfCase, j c16Job) (out c16Out, hung bool) {
	e.w.in <- j
	for attempt := 0; ; attempt++ {
		e.canary.Reset()
		tm := time.NewTimer(c16HangTimeout)
		select {
		case out = <-e.w.out:
			tm.Stop()
			return out, false
		case <-tm.C:
		}
		if e.canary.MaxGap() > 250*time.Millisecond && attempt < 2 {
			continue // the process was starved: give it another period
		}
		// abandon the stuck goroutine, continue with a fresh worker
		e.w = vfc16NewWorker()
		return out, true
	}
}

// ---------------------------------------------------------------- OPEN inputs

type c16Open struct {
	msg       []byte
	paramOffs []int
	capOffs   []int
	asn       uint32
	hold      int
	as4       bool
	ncaps     int
	grouping  string
	codes     []int
}

var c16ASNs = []uint32{1, 2, 255, 256, 23455, 23456, 23457, 32767, 32768, 64512, 65534, 65535, 65536, 65537, 131072,
	1<<31 - 1, 1 << 31, 4200000000, 1<<32 - 2, 1<<32 - 1}

func vfc16RandASN(r *vfRand) uint32 {
	switch r.Intn(4) {
	case 0:
		return uint32(r.Range(1, 65535))
	case 1:
		return uint32(r.U64()>>32) | 1
	default:
		return vfPick(r, c16ASNs)
	}
}

func vfc16RandHold(r *vfRand) int {
	switch r.Intn(5) {
	case 0:
		return 0
	case 1:
		return 3
	case 2:
		return vfPick(r, []int{4, 9, 30, 90, 180, 240, 65535})
	default:
		return r.Range(3, 65535)
	}
}

func vfc16RandCap(r *vfRand) vfBGPCap {
	switch r.Intn(12) {
	case 0, 1:
		return vfBGPCapMPValue(1, 1)
	case 2, 3:
		return vfBGPCapMPValue(2, 1)
	case 4:
		return vfBGPCapMPValue(vfPick(r, []int{1, 2, 25, 16388}), vfPick(r, []int{2, 4, 70, 128, 133}))
	case 5:
		return vfBGPCap{Code: 2} // route refresh
	case 6:
		return vfBGPCap{Code: vfPick(r, []byte{70, 128, 6})} // enhanced route refresh, old cisco route refresh, extended message
	case 7: // graceful restart: flags/time + 0..2 tuples
		v := []byte{byte(r.Intn(256)) & 0xcf, byte(r.Intn(256))}
		for i := r.Intn(3); i > 0; i-- {
			v = append(v, 0, byte(r.Range(1, 2)), 1, byte(r.Intn(2))<<7)
		}
		return vfBGPCap{Code: 64, Value: v}
	case 8: // add-path
		return vfBGPCap{Code: 69, Value: []byte{0, byte(r.Range(1, 2)), 1, byte(r.Range(1, 3))}}
	case 9: // FQDN
		h := []byte("rtr" + fmt.Sprint(r.Intn(1000)))
		d := []byte(vfPick(r, []string{"", "lab", "example.net"}))
		v := append([]byte{byte(len(h))}, h...)
		v = append(v, byte(len(d)))
		v = append(v, d...)
		return vfBGPCap{Code: 73, Value: v}
	case 10: // role
		return vfBGPCap{Code: 9, Value: []byte{byte(r.Intn(5))}}
	default: // unassigned / private code with arbitrary content
		v := make([]byte, r.Intn(9))
		for i := range v {
			v[i] = byte(r.U64())
		}
		return vfBGPCap{Code: byte(r.Range(130, 254)), Value: v}
	}
}

func vfc16BuildOpen(r *vfRand, asn uint32, as4 bool, hold int, extras []vfBGPCap, grouping int) c16Open {
	asn16 := int(asn)
	if asn > 0xffff {
		asn16 = vfBGPASTrans
		as4 = true
	}
	caps := append([]vfBGPCap(nil), extras...)
	if as4 {
		caps = append(caps, vfBGPCapAS4Value(asn))
		if r != nil && len(caps) > 1 { // the four-octet capability anywhere in the list
			k := r.Intn(len(caps))
			caps[k], caps[len(caps)-1] = caps[len(caps)-1], caps[k]
		}
	}
	var id [4]byte
	if r != nil {
		v := uint32(r.U64()) | 1
		id = [4]byte{byte(v >> 24), byte(v >> 16), byte(v >> 8), byte(v)}
	} else {
		id = [4]byte{10, 0, 0, 1}
	}
	s := vfBGPOpenSpec{Version: 4, ASN16: asn16, HoldTime: hold, RouterID: id}
	o := c16Open{asn: asn, hold: hold, as4: as4, ncaps: len(caps)}
	switch {
	case len(caps) == 0:
		o.grouping = "none"
	case grouping == 0:
		o.grouping = "one-param"
		s.Params = []vfBGPParamSpec{{Type: 2, Caps: caps}}
	case grouping == 1:
		o.grouping = "param-per-cap"
		for _, cp := range caps {
			s.Params = append(s.Params, vfBGPParamSpec{Type: 2, Caps: []vfBGPCap{cp}})
		}
	default:
		o.grouping = "split"
		cut := 1
		if r != nil && len(caps) > 1 {
			cut = r.Range(1, len(caps)-1)
		}
		if cut >= len(caps) {
			s.Params = []vfBGPParamSpec{{Type: 2, Caps: caps}}
		} else {
			s.Params = []vfBGPParamSpec{{Type: 2, Caps: caps[:cut]}, {Type: 2, Caps: caps[cut:]}}
		}
	}
	for _, cp := range caps {
		o.codes = append(o.codes, int(cp.Code))
	}
	o.msg, o.paramOffs, o.capOffs = vfBGPEncodeOpen(s)
	return o
}

func vfc16GenOpen(r *vfRand) c16Open {
	asn := vfc16RandASN(r)
	as4 := r.Bool()
	n := r.Intn(5)
	var extras []vfBGPCap
	for i := 0; i < n; i++ {
		extras = append(extras, vfc16RandCap(r))
	}
	return vfc16BuildOpen(r, asn, as4, vfc16RandHold(r), extras, r.Intn(3))
}

func vfc16Sentinel(r *vfRand) ([]byte, string) {
	switch r.Intn(5) {
	case 0: // the KEEPALIVE a real peer sends right after its OPEN, twice
		k := vfBGPEncodeKeepalive()
		return append(append([]byte(nil), k...), k...), "keepalive"
	case 1: // looks like more capability options: an over-reader keeps going and changes its result
		var s []byte
		for i := 0; i < 6; i++ {
			s = append(s, 2, 6, 1, 4, 0, byte(1+i%2), 0, 1)
		}
		return s, "options"
	case 2:
		return bytes.Repeat([]byte{0}, 48), "zeros"
	case 3:
		return bytes.Repeat([]byte{0xa5}, 48), "a5"
	default:
		s := make([]byte, 48)
		for i := range s {
			s[i] = byte(r.U64())
		}
		return s, "random"
	}
}

func vfc16SetLen16(b []byte, off, v int) {
	if off+1 < len(b) {
		b[off], b[off+1] = byte(v>>8), byte(v)
	}
}

// vfc16Mutate applies 1..3 structure-aware mutations. eof=true: nothing follows the (truncated) data.
func vfc16Mutate(r *vfRand, o c16Open) (data []byte, kinds []string, eof bool) {
	data = append([]byte(nil), o.msg...)
	n := 1 + r.Intn(3)
	for i := 0; i < n; i++ {
		L := len(data)
		switch k := r.Intn(13); k {
		case 0: // message length field
			v := vfPick(r, []int{L - 1, L + 1, L - 2, L + 2, 19, 20, 28, 29, 30, 36, 37, 0, 18, 4096, 4097, 65535, r.Intn(65536), L + r.Intn(40)})
			if v < 0 {
				v = 0
			}
			vfc16SetLen16(data, 16, v)
			kinds = append(kinds, "msg-length")
		case 1: // optional parameters length
			if L > 28 {
				data[28] = byte(vfPick(r, []int{int(data[28]) - 1, int(data[28]) + 1, 0, 255, r.Intn(256), int(data[28]) + 2}))
				kinds = append(kinds, "optparm-length")
			}
		case 2:
			if len(o.paramOffs) > 0 {
				off := vfPick(r, o.paramOffs)
				if off < L {
					data[off] = byte(vfPick(r, []int{int(data[off]) - 1, int(data[off]) + 1, 0, 255, r.Intn(256)}))
					kinds = append(kinds, "param-length")
				}
			}
		case 3:
			if len(o.capOffs) > 0 {
				off := vfPick(r, o.capOffs)
				if off < L {
					data[off] = byte(vfPick(r, []int{int(data[off]) - 1, int(data[off]) + 1, 0, 255, r.Intn(256), 3, 4, 5}))
					kinds = append(kinds, "cap-length")
				}
			}
		case 4: // truncation
			if L > 0 {
				data = data[:r.Intn(L)]
				eof = r.Bool()
				kinds = append(kinds, "truncate")
			}
		case 5: // trailing octets inside the announced length, optional-parameter length not adjusted
			extra := r.Range(1, 12)
			for j := 0; j < extra; j++ {
				data = append(data, byte(r.U64()))
			}
			vfc16SetLen16(data, 16, len(data))
			kinds = append(kinds, "trailing-in-message")
		case 6: // trailing octets with both outer lengths adjusted (garbage where an option should start)
			if L > 28 {
				extra := r.Range(1, 12)
				tail := vfPick(r, [][]byte{{2}, {2, 0}, {2, 2, 2, 0}, {2, 1, 65}, {2, 6, 65, 4, 0, 0, 0}, {2, 6, 1, 4, 0, 1, 0, 1}, {1, 0}, {255, 255}, nil})
				if tail == nil {
					for j := 0; j < extra; j++ {
						tail = append(tail, byte(r.U64()))
					}
				}
				data = append(data, tail...)
				vfc16SetLen16(data, 16, len(data))
				data[28] = byte(int(data[28]) + len(tail))
				kinds = append(kinds, "trailing-in-options")
			}
		case 7:
			if L > 0 {
				p := r.Intn(L)
				if r.Bool() {
					data[p] ^= 1 << uint(r.Intn(8))
				} else {
					data[p] = byte(r.U64())
				}
				kinds = append(kinds, "flip")
			}
		case 8:
			if L > 18 {
				data[18] = vfPick(r, []byte{0, 2, 3, 3, 4, 5, 255})
				kinds = append(kinds, "type")
			}
		case 9:
			if L > 15 {
				data[r.Intn(16)] = byte(r.Intn(255))
				kinds = append(kinds, "marker")
			}
		case 10:
			if L > 24 {
				if r.Bool() {
					data[19] = vfPick(r, []byte{0, 1, 3, 5, 255})
					kinds = append(kinds, "version")
				} else {
					data[22], data[23] = 0, byte(r.Range(1, 2))
					kinds = append(kinds, "hold-time")
				}
			}
		case 11: // insert or delete an octet without adjusting lengths
			if L > 20 {
				p := r.Range(19, L-1)
				if r.Bool() {
					data = append(data[:p], append([]byte{byte(r.U64())}, data[p:]...)...)
					kinds = append(kinds, "insert")
				} else {
					data = append(data[:p], data[p+1:]...)
					kinds = append(kinds, "delete")
				}
			}
		default: // optional parameter type
			if len(o.paramOffs) > 0 {
				off := vfPick(r, o.paramOffs) - 1
				if off < L {
					data[off] = vfPick(r, []byte{0, 1, 3, 255})
					kinds = append(kinds, "param-type")
				}
			}
		}
	}
	if len(kinds) == 0 {
		kinds = []string{"none"}
	}
	return data, kinds, eof
}

func vfc16Random(r *vfRand) ([]byte, string) {
	rnd := func(n int) []byte {
		b := make([]byte, n)
		for i := range b {
			b[i] = byte(r.U64())
		}
		return b
	}
	switch r.Intn(4) {
	case 0:
		return rnd(r.Intn(81)), "bytes"
	case 1: // valid marker, random rest
		return append(bytes.Repeat([]byte{0xff}, 16), rnd(r.Intn(64))...), "marker+bytes"
	case 2: // valid header of type OPEN with a length near the real one
		n := r.Intn(60)
		b := append(bytes.Repeat([]byte{0xff}, 16), 0, 0, 1)
		b = append(b, rnd(n)...)
		vfc16SetLen16(b, 16, len(b)+r.Range(-3, 3))
		return b, "header+bytes"
	default: // valid header and fixed part, random options
		n := r.Intn(40)
		b := append(bytes.Repeat([]byte{0xff}, 16), 0, 0, 1, 4)
		b = append(b, rnd(8)...)
		b[22], b[23] = 0, 90
		b = append(b, byte(n))
		b = append(b, rnd(n)...)
		vfc16SetLen16(b, 16, len(b))
		return b, "fixed+random-options"
	}
}

// vfc16FeedOpen runs readOpen on msg (+ sentinel unless eof) and judges the outcome.
// class is "valid", "mutated" or "random"; desc goes into violation details.
func vfc16FeedOpen(c *vfCase, env *c16Env, class string, msg []byte, eof bool, desc map[string]any) {
	r := c.R
	data := append([]byte(nil), msg...)
	sentName := "none"
	if !eof {
		s, name := vfc16Sentinel(r)
		data = append(data, s...)
		sentName = name
	}
	chunk := vfPick(r, []int{0, 0, 0, 1, 2, 3, 7})
	out, hung := env.run(c, c16Job{data: data, chunk: chunk})
	c.Count("open-inputs:" + class)
	detail := func() map[string]any {
		d := map[string]any{"class": class, "input_hex": vfHex(msg), "message_octets": len(msg), "sentinel": sentName,
			"read_chunk": chunk, "consumed": out.consumed}
		for k, v := range desc {
			d[k] = v
		}
		if out.err != nil {
			d["readOpen_error"] = out.err.Error()
		}
		if out.res != nil {
			d["readOpen_result"] = fmt.Sprintf("%+v", *out.res)
		}
		return d
	}
	c.Eval()
	if hung {
		if env.canary.MaxGap() > 250*time.Millisecond {
			c.Inconclusive("readOpen did not return in time while the process was starved")
			return
		}
		c.Violation("open:read-hangs", fmt.Sprintf("readOpen did not return within %s on a %d-octet input", c16HangTimeout, len(msg)), detail())
		return
	}
	if out.panicked {
		d := detail()
		d["stack"] = vfTrimStack(out.stack)
		c.Violation("panic:"+vfPanicSite(out.stack), "readOpen panicked: "+out.panicVal, d)
		return
	}
	// consumption bound: the announced message length (the header itself is 19 octets)
	announced := -1
	if len(data) >= 18 {
		announced = vfBE16(data[16:18])
		bound := announced
		if bound < vfBGPHeaderLen {
			bound = vfBGPHeaderLen
		}
		if out.consumed > bound {
			kind := "other"
			if len(data) > 18 {
				switch data[18] {
				case vfBGPOpen:
					kind = "open"
				case vfBGPNotification:
					kind = "notification-shorter-than-21"
				}
			}
			c.Violation("open:consumes-beyond-length:"+kind,
				fmt.Sprintf("readOpen consumed %d octets of a message announcing length %d", out.consumed, announced), detail())
		}
	}
	outcome := "rejected"
	if out.err == nil && out.res != nil {
		outcome = "accepted"
	}
	if out.err == nil && out.res == nil {
		c.Violation("open:nil-result-without-error", "readOpen returned (nil, nil)", detail())
		return
	}
	c.Count("open-outcome:" + class + ":" + outcome)

	// a well-formed OPEN must be understood
	if announced < 0 || announced > len(msg) {
		return
	}
	m, derr := vfBGPDecode(msg[:announced], false)
	if derr != nil || m.Type != vfBGPOpen {
		return
	}
	o := m.Open
	if !o.OnlyCapabilityParams() || o.ASN() == 0 || o.ASN16 == 0 || o.RouterID == [4]byte{} {
		c.Count("open-wellformed-not-demanded")
		return
	}
	for _, v := range o.AS4 {
		if v != o.AS4[0] {
			c.Count("open-wellformed-not-demanded")
			return
		}
	}
	c.Eval()
	c.Count("open-wellformed-judged:" + class)
	codes := []string{}
	for _, cp := range o.Caps {
		codes = append(codes, fmt.Sprint(cp.Code))
	}
	c.Nontrivial(fmt.Sprintf("open|%s|len=%d|params=%d|caps=%s|as4=%v|hold=%s|asn=%s", class, announced, len(o.Params),
		strings.Join(codes, ","), o.HasAS4, vfc16HoldClass(o.HoldTime), vfc16ASNClass(o.ASN())))
	if out.err != nil {
		if announced < 37 {
			c.Violation("open:short-message-rejected",
				fmt.Sprintf("well-formed OPEN of %d octets (%d optional parameters) rejected: %v", announced, len(o.Params), out.err), detail())
		} else {
			c.Violation("open:well-formed-rejected",
				fmt.Sprintf("well-formed OPEN of %d octets rejected: %v", announced, out.err), detail())
		}
		return
	}
	res := out.res
	if res.asn != o.ASN() {
		c.Violation("open:wrong-asn", fmt.Sprintf("OPEN with AS field %d and four-octet capability %v understood as AS %d", o.ASN16, o.AS4, res.asn), detail())
	}
	if res.holdTime != time.Duration(o.HoldTime)*time.Second {
		c.Violation("open:wrong-hold-time", fmt.Sprintf("hold time %d understood as %s", o.HoldTime, res.holdTime), detail())
	}
	if res.fbasn != o.HasAS4 {
		c.Violation("open:wrong-as4-capability", fmt.Sprintf("four-octet capability present=%v understood as %v", o.HasAS4, res.fbasn), detail())
	}
	reservedSet := false
	for _, mp := range o.MP {
		if mp.Reserved != 0 {
			reservedSet = true
		}
	}
	if reservedSet {
		c.Count("open-mp-reserved-octet-set-not-judged")
	} else if res.mp4 != o.HasMP(1, 1) || res.mp6 != o.HasMP(2, 1) {
		c.Violation("open:wrong-mp-capabilities", fmt.Sprintf("multiprotocol capabilities %+v understood as mp4=%v mp6=%v", o.MP, res.mp4, res.mp6), detail())
	}
	if c.WantSample() && class == "valid" && len(o.Caps) >= 2 {
		c.Sample(map[string]any{"kind": "readOpen", "input_hex": vfHex(msg), "asn": o.ASN(), "hold": o.HoldTime, "caps": codes, "result": fmt.Sprintf("%+v", *res)})
	}
}

func vfc16HoldClass(h int) string {
	switch {
	case h == 0:
		return "0"
	case h == 3:
		return "3"
	case h == 65535:
		return "max"
	}
	return "n"
}

func vfc16ASNClass(a uint32) string {
	switch {
	case a == vfBGPASTrans:
		return "as-trans"
	case a == 65535:
		return "65535"
	case a == 65536:
		return "65536"
	case a == 1<<32-1:
		return "max"
	case a < 65535:
		return "2-octet"
	}
	return "4-octet"
}

// ---------------------------------------------------------------- messages written by the speaker

// vfc16Guard runs f; a panic becomes a violation instead of ending the case.
func vfc16Guard(c *vfCase, what string, detail any, f func()) (ok bool) {
	defer func() {
		if p := recover(); p != nil {
			st := string(debug.Stack())
			c.Violation("panic:"+vfPanicSite(st), fmt.Sprintf("%s panicked: %v", what, p), map[string]any{"input": detail, "stack": vfTrimStack(st)})
			ok = false
		}
	}()
	f()
	return true
}

type c16Upd struct {
	ASN       uint32   `json:"asn"`
	IBGP      bool     `json:"ibgp"`
	FBASN     bool     `json:"peer_has_4_octet_as"`
	NextHop   [4]byte  `json:"next_hop"`
	Addr      [4]byte  `json:"prefix_address_bits"`
	Len       int      `json:"prefix_length"`
	IP16      bool     `json:"ip_in_16_octet_form"`
	LocalPref uint32   `json:"local_pref"`
	Comms     []uint32 `json:"communities"`
	Large     bool     `json:"has_large_community"`
}

func vfc16Community(v uint32) community.BGPCommunity {
	cm, err := community.New(fmt.Sprintf("%d:%d", v>>16, v&0xffff))
	if err != nil {
		panic(err)
	}
	return cm
}

func vfc16MaskedPrefix(addr [4]byte, l int) vfBGPPrefix {
	p := vfBGPPrefix{Len: l, Addr: addr}
	p.Addr = p.Masked()
	return p
}

// one decoded message out of the bytes a send function wrote
func vfc16DecodeSingle(c *vfCase, what string, wire []byte, as4 bool, detail any) *vfBGPMsg {
	msgs, err := vfBGPSplit(wire)
	if err != nil {
		c.Violation(what+":malformed:"+vfc16Code(err), fmt.Sprintf("%s wrote %d octets that do not frame: %v", what, len(wire), err), detail)
		return nil
	}
	if len(msgs) != 1 {
		c.Violation(what+":message-count", fmt.Sprintf("%s wrote %d messages", what, len(msgs)), detail)
		return nil
	}
	m, err := vfBGPDecode(msgs[0], as4)
	if err != nil {
		c.Violation(what+":malformed:"+vfc16Code(err), fmt.Sprintf("%s wrote a malformed message: %v", what, err), detail)
		return nil
	}
	return m
}

func vfc16CheckUpdate(c *vfCase, in c16Upd) {
	ip := net.IP(append([]byte(nil), in.Addr[:]...))
	if in.IP16 {
		ip = ip.To16()
	}
	adv := &bgp.Advertisement{Prefix: &net.IPNet{IP: ip, Mask: net.CIDRMask(in.Len, 32)}, LocalPref: in.LocalPref}
	for _, v := range in.Comms {
		adv.Communities = append(adv.Communities, vfc16Community(v))
	}
	if in.Large {
		lc, _ := community.New("large:1:2:3")
		adv.Communities = append(adv.Communities, lc)
	}
	var buf bytes.Buffer
	var err error
	d := func(extra ...any) map[string]any {
		m := map[string]any{"input": in, "wire_hex": vfHex(buf.Bytes())}
		if err != nil {
			m["error"] = err.Error()
		}
		for i := 0; i+1 < len(extra); i += 2 {
			m[fmt.Sprint(extra[i])] = extra[i+1]
		}
		return m
	}
	if !vfc16Guard(c, "sendUpdate", in, func() {
		err = sendUpdate(&buf, in.ASN, in.IBGP, in.FBASN, net.IP(in.NextHop[:]), adv)
	}) {
		return
	}
	c.Eval()
	c.Count("updates-sent")
	unrepresentable := !in.IBGP && !in.FBASN && in.ASN > 0xffff
	outOfContract := in.Large || len(in.Comms) > 63
	if err != nil {
		if buf.Len() != 0 {
			c.Violation("update:error-after-partial-write", fmt.Sprintf("sendUpdate returned %v after writing %d octets", err, buf.Len()), d())
			return
		}
		switch {
		case unrepresentable:
			c.Count("update-refused:4-octet-as-to-2-octet-peer")
		case outOfContract:
			c.Count("update-refused:unsupported-communities")
		default:
			c.Violation("update:unexpected-error", fmt.Sprintf("sendUpdate failed on a representable route: %v", err), d())
		}
		return
	}
	m := vfc16DecodeSingle(c, "update", buf.Bytes(), in.FBASN, d())
	if m == nil {
		return
	}
	if m.Type != vfBGPUpdate {
		c.Violation("update:wrong-type", fmt.Sprintf("sendUpdate wrote a message of type %d", m.Type), d())
		return
	}
	c.Count("decoded:update")
	u := m.Update
	if outOfContract {
		return // anything well-formed is acceptable here
	}
	if len(u.Withdrawn) != 0 {
		c.Violation("update:withdrawn-not-empty", fmt.Sprintf("announcement carries %d withdrawn routes", len(u.Withdrawn)), d())
	}
	want := vfc16MaskedPrefix(in.Addr, in.Len)
	if len(u.NLRI) != 1 {
		c.Violation("update:nlri-count", fmt.Sprintf("announcement of %s carries %d NLRI entries", want, len(u.NLRI)), d())
	} else if u.NLRI[0].Len != want.Len || u.NLRI[0].Masked() != want.Addr {
		c.Violation("update:nlri-prefix-mismatch", fmt.Sprintf("announcement of %s decodes to %s", want, u.NLRI[0]), d())
	} else if u.NLRI[0].Trailing {
		c.Count("update-nlri-trailing-bits-set")
	}
	if !u.HasOrigin || u.Origin != 0 {
		c.Violation("update:origin-not-igp", fmt.Sprintf("ORIGIN present=%v value=%d", u.HasOrigin, u.Origin), d())
	}
	path := u.FlatASPath()
	switch {
	case in.IBGP:
		if len(u.ASPath) != 0 {
			c.Violation("update:as-path-not-empty-for-ibgp", fmt.Sprintf("iBGP announcement with AS_PATH %v", path), d())
		}
	default:
		wantAS := in.ASN
		if unrepresentable {
			wantAS = vfBGPASTrans
		}
		if len(u.ASPath) != 1 || u.ASPath[0].Type != 2 || len(path) != 1 || path[0] != wantAS {
			c.Violation("update:as-path-wrong-for-ebgp", fmt.Sprintf("eBGP announcement by AS %d (peer 4-octet capable: %v) carries AS_PATH %+v", in.ASN, in.FBASN, u.ASPath), d())
		}
	}
	if !u.HasNextHop || u.NextHop != in.NextHop {
		c.Violation("update:next-hop-mismatch", fmt.Sprintf("NEXT_HOP %v, intended %v", u.NextHop, in.NextHop), d())
	}
	switch {
	case in.IBGP && !u.HasLocalPref:
		c.Violation("update:local-pref-missing-for-ibgp", "iBGP announcement without LOCAL_PREF", d())
	case in.IBGP && u.LocalPref != in.LocalPref:
		c.Violation("update:local-pref-value", fmt.Sprintf("LOCAL_PREF %d, intended %d", u.LocalPref, in.LocalPref), d())
	case !in.IBGP && u.HasLocalPref:
		c.Violation("update:local-pref-on-ebgp", fmt.Sprintf("eBGP announcement carries LOCAL_PREF %d", u.LocalPref), d())
	}
	if !vfEqualU32(vfSortedU32(u.Communities), vfSortedU32(in.Comms)) {
		c.Violation("update:communities-mismatch", fmt.Sprintf("%d communities intended, decoded %v", len(in.Comms), u.Communities), d())
	}
	for _, a := range u.Attrs {
		switch a.Type {
		case vfBGPAttrOrigin, vfBGPAttrASPath, vfBGPAttrNextHop, vfBGPAttrLocalPref, vfBGPAttrCommunities:
		default:
			c.Violation("update:unexpected-attribute", fmt.Sprintf("attribute type %d was not requested", a.Type), d())
		}
	}
	c.Nontrivial(fmt.Sprintf("upd|len=%d|ibgp=%v|as4=%v|asn=%s|comms=%d|ip16=%v", in.Len, in.IBGP, in.FBASN, vfc16ASNClass(in.ASN), len(in.Comms), in.IP16))
	if c.WantSample() && len(in.Comms) > 0 && in.Len%8 != 0 {
		c.Sample(map[string]any{"kind": "sendUpdate", "input": in, "wire_hex": vfHex(buf.Bytes()), "decoded_nlri": u.NLRI[0].String(),
			"decoded_as_path": path, "decoded_communities": u.Communities})
	}
}

func vfc16CheckWithdraw(c *vfCase, pfx []vfBGPPrefix, ip16 bool) {
	var nets []*net.IPNet
	var want []string
	for _, p := range pfx {
		ip := net.IP(append([]byte(nil), p.Addr[:]...))
		if ip16 {
			ip = ip.To16()
		}
		nets = append(nets, &net.IPNet{IP: ip, Mask: net.CIDRMask(p.Len, 32)})
		want = append(want, p.String())
	}
	var buf bytes.Buffer
	var err error
	in := map[string]any{"prefixes": want}
	if !vfc16Guard(c, "sendWithdraw", in, func() { err = sendWithdraw(&buf, nets) }) {
		return
	}
	c.Eval()
	c.Count("withdraws-sent")
	wireHex := vfHex(buf.Bytes())
	if len(wireHex) > 1200 {
		wireHex = wireHex[:1200] + fmt.Sprintf("... (%d octets)", buf.Len())
	}
	if len(want) > 80 {
		in["prefixes"] = fmt.Sprintf("%d prefixes, first: %v", len(want), want[:4])
	}
	d := map[string]any{"input": in, "wire_hex": wireHex}
	large := len(pfx) > 64 // beyond the sizes of the statement's main quantifier: an error without output is acceptable
	if err != nil {
		if large && buf.Len() == 0 {
			c.Count("withdraw-refused:too-many-prefixes")
			return
		}
		c.Violation("withdraw:unexpected-error", fmt.Sprintf("sendWithdraw of %d prefixes failed: %v", len(pfx), err), d)
		return
	}
	// one message, or several (a speaker may split a long list): each a well-formed UPDATE carrying only withdrawn routes
	msgs, serr := vfBGPSplit(buf.Bytes())
	if serr != nil {
		if vfBGPErrCode(serr) == "header:length-range" && len(buf.Bytes()) >= 18 && vfBE16(buf.Bytes()[16:18]) > vfBGPMaxLen {
			c.Violation("withdraw:message-longer-than-4096-octets", fmt.Sprintf("sendWithdraw of %d prefixes wrote one message of %d octets (maximum BGP message size is 4096)", len(pfx), vfBE16(buf.Bytes()[16:18])), d)
			return
		}
		c.Violation("withdraw:malformed:"+vfc16Code(serr), fmt.Sprintf("sendWithdraw wrote %d octets that do not frame: %v", buf.Len(), serr), d)
		return
	}
	if len(msgs) == 0 {
		c.Violation("withdraw:message-count", "sendWithdraw wrote nothing and reported success", d)
		return
	}
	var got []string
	for _, raw := range msgs {
		m, derr := vfBGPDecode(raw, false)
		if derr != nil {
			c.Violation("withdraw:malformed:"+vfc16Code(derr), fmt.Sprintf("sendWithdraw wrote a malformed message: %v", derr), d)
			return
		}
		if m.Type != vfBGPUpdate {
			c.Violation("withdraw:wrong-type", fmt.Sprintf("sendWithdraw wrote a message of type %d", m.Type), d)
			return
		}
		c.Count("decoded:withdraw")
		u := m.Update
		for _, p := range u.Withdrawn {
			got = append(got, p.String())
		}
		if len(u.Attrs) != 0 || len(u.NLRI) != 0 {
			c.Violation("withdraw:carries-announcement", fmt.Sprintf("withdraw message carries %d attributes and %d NLRI entries", len(u.Attrs), len(u.NLRI)), d)
		}
	}
	sort.Strings(got)
	sort.Strings(want)
	if strings.Join(got, " ") != strings.Join(want, " ") {
		if len(got) <= 80 {
			d["decoded"] = got
		}
		c.Violation("withdraw:prefix-mismatch", fmt.Sprintf("withdraw of %d prefixes decodes to %d prefixes that differ", len(want), len(got)), d)
	}
	c.Nontrivial(fmt.Sprintf("wdr|n=%d|ip16=%v", len(pfx), ip16))
}

func vfc16CheckSendOpen(c *vfCase, asn uint32, id [4]byte, holdS int, id16 bool) {
	rid := net.IP(append([]byte(nil), id[:]...))
	if id16 {
		rid = rid.To16()
	}
	in := map[string]any{"asn": asn, "router_id": id, "hold_s": holdS}
	var buf bytes.Buffer
	var err error
	if !vfc16Guard(c, "sendOpen", in, func() { err = sendOpen(&buf, asn, rid, time.Duration(holdS)*time.Second) }) {
		return
	}
	c.Eval()
	c.Count("opens-sent")
	d := map[string]any{"input": in, "wire_hex": vfHex(buf.Bytes())}
	if err != nil {
		c.Violation("open-sent:unexpected-error", fmt.Sprintf("sendOpen failed: %v", err), d)
		return
	}
	m := vfc16DecodeSingle(c, "open-sent", buf.Bytes(), false, d)
	if m == nil {
		return
	}
	if m.Type != vfBGPOpen {
		c.Violation("open-sent:wrong-type", fmt.Sprintf("sendOpen wrote a message of type %d", m.Type), d)
		return
	}
	c.Count("decoded:open")
	o := m.Open
	want16 := int(asn)
	if asn > 0xffff {
		want16 = vfBGPASTrans
		if !o.HasAS4 {
			c.Violation("open-sent:as4-capability-missing", fmt.Sprintf("AS %d announced without the four-octet capability", asn), d)
		}
	}
	if o.ASN16 != want16 {
		c.Violation("open-sent:as-field", fmt.Sprintf("AS %d: fixed AS field %d, want %d", asn, o.ASN16, want16), d)
	}
	for _, v := range o.AS4 {
		if v != asn {
			c.Violation("open-sent:as4-capability-value", fmt.Sprintf("AS %d: four-octet capability carries %d", asn, v), d)
		}
	}
	if o.HoldTime != holdS {
		c.Violation("open-sent:hold-time", fmt.Sprintf("hold time %d s sent as %d", holdS, o.HoldTime), d)
	}
	if o.RouterID != id {
		c.Violation("open-sent:router-id", fmt.Sprintf("router id %v sent as %v", id, o.RouterID), d)
	}
	c.Nontrivial(fmt.Sprintf("sendopen|asn=%s|hold=%s", vfc16ASNClass(asn), vfc16HoldClass(holdS)))
}

func vfc16CheckKeepalive(c *vfCase) {
	var buf bytes.Buffer
	var err error
	if !vfc16Guard(c, "sendKeepalive", nil, func() { err = sendKeepalive(&buf) }) {
		return
	}
	c.Eval()
	d := map[string]any{"wire_hex": vfHex(buf.Bytes())}
	if err != nil {
		c.Violation("keepalive:unexpected-error", err.Error(), d)
		return
	}
	m := vfc16DecodeSingle(c, "keepalive", buf.Bytes(), false, d)
	if m == nil {
		return
	}
	if m.Type != vfBGPKeepalive {
		c.Violation("keepalive:wrong-type", fmt.Sprintf("sendKeepalive wrote a message of type %d", m.Type), d)
		return
	}
	c.Count("decoded:keepalive")
}

// ---------------------------------------------------------------- generators for the send side

func vfc16Addr(r *vfRand, i int) [4]byte {
	fixed := [][4]byte{{0, 0, 0, 0}, {255, 255, 255, 255}, {170, 85, 170, 85}, {85, 170, 85, 170}, {128, 0, 0, 0}, {0, 0, 0, 1},
		{10, 0, 0, 0}, {192, 168, 1, 255}, {1, 2, 3, 4}, {127, 255, 255, 254}, {224, 0, 0, 251}, {100, 64, 0, 129}}
	if i >= 0 && i < len(fixed) {
		return fixed[i]
	}
	v := uint32(r.U64())
	return [4]byte{byte(v >> 24), byte(v >> 16), byte(v >> 8), byte(v)}
}

func vfc16Comms(r *vfRand, n int) []uint32 {
	special := []uint32{0, 0xffffffff, 0x0000ffff, 0xffff0000, 0xffffff01, 0xffffff02, 0xffffff03, 0x00010000, 0x80000000, 0x7fffffff}
	out := make([]uint32, 0, n)
	for i := 0; i < n; i++ {
		if r.Chance(1, 4) {
			out = append(out, vfPick(r, special))
		} else {
			out = append(out, uint32(r.U64()))
		}
	}
	return out
}

func vfc16RandUpd(r *vfRand) c16Upd {
	in := c16Upd{ASN: vfc16RandASN(r), IBGP: r.Bool(), FBASN: r.Bool(), NextHop: vfc16Addr(r, -1), Addr: vfc16Addr(r, r.Intn(24)),
		Len: r.Intn(33), IP16: r.Chance(1, 4), LocalPref: uint32(r.U64())}
	if r.Chance(1, 3) {
		in.LocalPref = vfPick(r, []uint32{0, 1, 100, 1<<32 - 1})
	}
	if r.Bool() { // the speaker passes masked prefixes; unmasked ones are legal input too
		in.Addr = vfc16MaskedPrefix(in.Addr, in.Len).Addr
	}
	switch r.Intn(4) {
	case 0:
	case 1:
		in.Comms = vfc16Comms(r, r.Range(1, 3))
	default:
		in.Comms = vfc16Comms(r, r.Intn(64))
	}
	return in
}

// ---------------------------------------------------------------- entry point

const (
	c16Directed      = 5    // directed matrices, case indices 0..4 of every shard
	c16OpensPerChunk = 1000 // OPEN inputs per random case
)

func TestVerif_C16(t *testing.T) {
	// readOpen prints every OPEN it parses to stdout; keep that out of the logs.
	if null, err := os.OpenFile(os.DevNull, os.O_WRONLY, 0); err == nil {
		saved := os.Stdout
		os.Stdout = null
		defer func() { os.Stdout = saved; null.Close() }()
	}
	env := &c16Env{w: vfc16NewWorker(), canary: vfStartCanary()}
	defer env.canary.Stop()
	rule := "sendOpen/sendKeepalive/sendUpdate/sendWithdraw output decoded by an independent RFC 4271 decoder (prefix lengths 0..32 x 64 address patterns x iBGP/eBGP x 2-/4-octet peer, " +
		"AS numbers around 1, 23456, 65535/65536, 2^32-1, 0..63 communities, withdraws of 0..64 prefixes); readOpen on valid (0..4 capabilities +/- four-octet AS, hold 0 or >= 3, 0..n optional parameters), " +
		"structurally mutated and random inputs with trailing sentinel octets under recover + watchdog; " +
		"non-trivial = a round trip or a well-formed OPEN judged, distinct by (message kind, prefix length, session kind, AS class, community count / capability list, length, grouping)"
	// quick: 4 shards x 50 x 1000 = 200 000 OPEN inputs; thorough: 16 shards x 2000 x 1000
	vfMain(t, "C16", vfSizes{Quick: c16Directed + 50, Thorough: c16Directed + 2000}, rule, func(c *vfCase) {
		r := c.R
		switch c.Idx {
		case 0: // every prefix length x 64 address patterns x iBGP/eBGP x peer capability
			for l := 0; l <= 32; l++ {
				for i := 0; i < 64; i++ {
					addr := vfc16Addr(r, i)
					if i%2 == 0 {
						addr = vfc16MaskedPrefix(addr, l).Addr
					}
					for k := 0; k < 4; k++ {
						vfc16CheckUpdate(c, c16Upd{ASN: 64512, IBGP: k&1 == 1, FBASN: k&2 == 2, NextHop: [4]byte{10, 20, 30, 40}, Addr: addr, Len: l,
							IP16: i%8 == 3, LocalPref: uint32(100 + i), Comms: vfc16Comms(r, i%3)})
					}
				}
			}
		case 1: // AS numbers across the 2-/4-octet boundary: UPDATE and OPEN
			for _, asn := range c16ASNs {
				for k := 0; k < 4; k++ {
					for _, l := range []int{0, 1, 7, 8, 9, 24, 31, 32} {
						vfc16CheckUpdate(c, c16Upd{ASN: asn, IBGP: k&1 == 1, FBASN: k&2 == 2, NextHop: [4]byte{192, 0, 2, 1},
							Addr: vfc16MaskedPrefix([4]byte{203, 0, 113, 255}, l).Addr, Len: l, LocalPref: 200, Comms: vfc16Comms(r, 2)})
					}
				}
				for _, h := range []int{0, 3, 4, 90, 180, 65535} {
					vfc16CheckSendOpen(c, asn, vfc16Addr(r, r.Intn(12)+1), h, h%2 == 0)
				}
			}
			vfc16CheckKeepalive(c)
		case 2: // 0..63 communities (64 and a large community as out-of-contract probes: error or well-formed)
			for n := 0; n <= 64; n++ {
				for k := 0; k < 4; k++ {
					vfc16CheckUpdate(c, c16Upd{ASN: vfPick(r, []uint32{64512, 65535, 4200000000}), IBGP: k&1 == 1, FBASN: true, NextHop: [4]byte{10, 0, 0, 1},
						Addr: [4]byte{198, 51, 100, 0}, Len: 24 + k*2, LocalPref: uint32(n), Comms: vfc16Comms(r, n)})
				}
			}
			vfc16CheckUpdate(c, c16Upd{ASN: 64512, IBGP: true, FBASN: true, NextHop: [4]byte{10, 0, 0, 1}, Addr: [4]byte{198, 51, 100, 0}, Len: 24, Comms: vfc16Comms(r, 2), Large: true})
		case 3: // withdraws of 0..64 prefixes, every prefix length
			for n := 0; n <= 64; n++ {
				var ps []vfBGPPrefix
				for i := 0; i < n; i++ {
					ps = append(ps, vfBGPPrefix{Len: (i*7 + n) % 33, Addr: vfc16Addr(r, -1)})
				}
				vfc16CheckWithdraw(c, ps, n%5 == 1)
			}
			for l := 0; l <= 32; l++ {
				vfc16CheckWithdraw(c, []vfBGPPrefix{{Len: l, Addr: vfc16Addr(r, l%12)}}, false)
			}
			// the speaker puts every prefix that one change removes into a single UPDATE: sizes around the
			// 4096-octet message limit (814 x /32 = 4093 octets, 815 x /32 = 4098) and beyond the 16-bit length
			for _, n := range []int{200, 814, 815, 816, 1200, 4000, 13200} {
				var ps []vfBGPPrefix
				for i := 0; i < n; i++ {
					ps = append(ps, vfBGPPrefix{Len: 32, Addr: [4]byte{10, byte(i >> 16), byte(i >> 8), byte(i)}})
				}
				vfc16CheckWithdraw(c, ps, false)
			}
		case 4: // directed well-formed OPENs, starting with the minimal 29-octet one
			extras := [][]vfBGPCap{
				nil,
				{vfBGPCapMPValue(1, 1)},
				{vfBGPCapMPValue(2, 1)},
				{vfBGPCapMPValue(1, 1), vfBGPCapMPValue(2, 1)},
				{{Code: 2}},
				{{Code: 2}, {Code: 70}},
				{{Code: 2}, {Code: 70}, {Code: 128}},
				{{Code: 2}, {Code: 70}, {Code: 128}, {Code: 6}},
				{vfBGPCapMPValue(1, 1), vfBGPCapMPValue(2, 1), {Code: 2}, {Code: 64, Value: []byte{0x40, 120}}},
				{{Code: 73, Value: []byte{1, 'r', 0}}},
				{{Code: 9, Value: []byte{3}}},
				{vfBGPCapMPValue(1, 2), vfBGPCapMPValue(25, 70)},
			}
			for _, asn := range c16ASNs {
				for _, as4 := range []bool{false, true} {
					for _, h := range []int{0, 3, 90, 65535} {
						for _, ex := range extras {
							for g := 0; g < 2; g++ {
								o := vfc16BuildOpen(nil, asn, as4, h, ex, g)
								vfc16FeedOpen(c, env, "valid", o.msg, false, map[string]any{"grouping": o.grouping, "capability_codes": o.codes, "directed": true})
							}
						}
					}
				}
			}
		default:
			for i := 0; i < c16OpensPerChunk; i++ {
				switch k := r.Intn(8); {
				case k < 2:
					o := vfc16GenOpen(r)
					vfc16FeedOpen(c, env, "valid", o.msg, r.Chance(1, 8), map[string]any{"grouping": o.grouping, "capability_codes": o.codes})
				case k < 6:
					o := vfc16GenOpen(r)
					data, kinds, eof := vfc16Mutate(r, o)
					for _, kd := range kinds {
						c.Count("open-mutation:" + kd)
					}
					vfc16FeedOpen(c, env, "mutated", data, eof, map[string]any{"mutations": kinds, "base_hex": vfHex(o.msg)})
				default:
					data, kind := vfc16Random(r)
					vfc16FeedOpen(c, env, "random", data, r.Chance(1, 4), map[string]any{"random_kind": kind})
				}
			}
			for i := 0; i < 40; i++ {
				vfc16CheckUpdate(c, vfc16RandUpd(r))
			}
			for i := 0; i < 3; i++ {
				var ps []vfBGPPrefix
				for n := r.Intn(65); n > 0; n-- {
					ps = append(ps, vfBGPPrefix{Len: r.Intn(33), Addr: vfc16Addr(r, -1)})
				}
				vfc16CheckWithdraw(c, ps, r.Chance(1, 4))
			}
			vfc16CheckSendOpen(c, vfc16RandASN(r), vfc16Addr(r, -1), vfc16RandHold(r), r.Bool())
			vfc16CheckKeepalive(c)
		}
	})
}

// vfc16Code is the decoder's error code without its message-kind prefix.
func vfc16Code(err error) string {
	code := vfBGPErrCode(err)
	for _, p := range []string{"update:", "open:", "keepalive:"} {
		code = strings.TrimPrefix(code, p)
	}
	return code
}
