//go:build verif

package allocator

import (
	"sort"
)

// VerifAlloc is a copy of one service's allocation as the allocator recorded it.
type VerifAlloc struct {
	Pool       string
	IPs        []string
	Ports      []string
	SharingKey string
	BackendKey string
}

// VerifSnapshot is a deep copy of the allocator's bookkeeping (verification builds only).
type VerifSnapshot struct {
	Allocated       map[string]VerifAlloc
	SharingKeyForIP map[string][2]string          // ip -> (sharing, backend)
	PortsInUse      map[string]map[string]string  // ip -> port -> svc
	ServicesOnIP    map[string][]string           // ip -> sorted svcs
	PoolIPsInUse    map[string]map[string]int
	PoolIPV4InUse   map[string]map[string]int
	PoolIPV6InUse   map[string]map[string]int
	PoolNames       []string
	Counters        map[string]PoolCounters
}

// VerifSnapshot copies the state. Empty inner maps are dropped so that two states that differ only
// in left-over empty maps compare equal.
func (a *Allocator) VerifSnapshot() VerifSnapshot {
	s := VerifSnapshot{
		Allocated:       map[string]VerifAlloc{},
		SharingKeyForIP: map[string][2]string{},
		PortsInUse:      map[string]map[string]string{},
		ServicesOnIP:    map[string][]string{},
		PoolIPsInUse:    map[string]map[string]int{},
		PoolIPV4InUse:   map[string]map[string]int{},
		PoolIPV6InUse:   map[string]map[string]int{},
		Counters:        map[string]PoolCounters{},
	}
	for svc, al := range a.allocated {
		va := VerifAlloc{Pool: al.pool, SharingKey: al.key.sharing, BackendKey: al.key.backend}
		for _, ip := range al.ips {
			va.IPs = append(va.IPs, ip.String())
		}
		for _, p := range al.ports {
			va.Ports = append(va.Ports, p.String())
		}
		sort.Strings(va.Ports)
		s.Allocated[svc] = va
	}
	for ip, k := range a.sharingKeyForIP {
		if k != nil {
			s.SharingKeyForIP[ip] = [2]string{k.sharing, k.backend}
		}
	}
	for ip, m := range a.portsInUse {
		if len(m) == 0 {
			continue
		}
		c := map[string]string{}
		for p, svc := range m {
			c[p.String()] = svc
		}
		s.PortsInUse[ip] = c
	}
	for ip, m := range a.servicesOnIP {
		var l []string
		for svc, ok := range m {
			if ok {
				l = append(l, svc)
			}
		}
		if len(l) == 0 {
			continue
		}
		sort.Strings(l)
		s.ServicesOnIP[ip] = l
	}
	cp := func(src map[string]map[string]int, dst map[string]map[string]int) {
		for pool, m := range src {
			if len(m) == 0 {
				continue
			}
			c := map[string]int{}
			for ip, n := range m {
				c[ip] = n
			}
			dst[pool] = c
		}
	}
	cp(a.poolIPsInUse, s.PoolIPsInUse)
	cp(a.poolIPV4InUse, s.PoolIPV4InUse)
	cp(a.poolIPV6InUse, s.PoolIPV6InUse)
	if a.pools != nil {
		for n := range a.pools.ByName {
			s.PoolNames = append(s.PoolNames, n)
		}
	}
	sort.Strings(s.PoolNames)
	a.countersMutex.RLock()
	for n, c := range a.poolToCounters {
		s.Counters[n] = c
	}
	a.countersMutex.RUnlock()
	return s
}

// VerifRebuild builds a fresh allocator holding the same pools and the surviving assignments of a,
// the way the bookkeeping would be rebuilt from scratch (internal assign, pool looked up afresh).
func (a *Allocator) VerifRebuild() *Allocator {
	f := New(func(string) {})
	f.SetPools(a.pools)
	svcs := make([]string, 0, len(a.allocated))
	for svc := range a.allocated {
		svcs = append(svcs, svc)
	}
	sort.Strings(svcs)
	for _, svc := range svcs {
		al := a.allocated[svc]
		p := poolFor(f.pools.ByName, al.ips)
		if p == nil {
			continue
		}
		na := &alloc{pool: p.Name, ips: al.ips, ports: append([]Port(nil), al.ports...), key: al.key}
		f.assign(svc, na)
	}
	return f
}
