//go:build verif

package allocator

import (
	"fmt"
	"math/big"
	"net"
	"strings"
	"testing"

	metallbv1beta1 "go.universe.tf/metallb/api/v1beta1"
	"go.universe.tf/metallb/internal/config"
	"go.universe.tf/metallb/internal/ipfamily"
	corev1 "k8s.io/api/core/v1"
	"k8s.io/apimachinery/pkg/labels"
	"k8s.io/utils/ptr"
)

// ---------------------------------------------------------------- universe

type allocSvc struct {
	key  string
	obj  *corev1.Service
	fam  ipfamily.Family
	keyS string // sharing key
	keyB string // backend key
}

var allocPortPalette = []corev1.ServicePort{
	{Protocol: corev1.ProtocolTCP, Port: 80}, {Protocol: corev1.ProtocolTCP, Port: 443},
	{Protocol: corev1.ProtocolUDP, Port: 53}, {Protocol: corev1.ProtocolTCP, Port: 8080},
}

func allocGenSvc(r *vfRand, i int) *allocSvc {
	s := &corev1.Service{}
	s.Name = fmt.Sprintf("s%d", i)
	s.Namespace = vfPick(r, []string{"ns1", "ns1", "ns2", "ns3"})
	switch r.Intn(3) {
	case 0:
		s.Labels = map[string]string{"tier": "web"}
	case 1:
		s.Labels = map[string]string{"tier": "db"}
	}
	s.Spec.Type = corev1.ServiceTypeLoadBalancer
	allocMutateSvc(r, s, true)
	return allocSvcOf(s)
}

// allocMutateSvc (re)draws the mutable parts of the spec.
func allocMutateSvc(r *vfRand, s *corev1.Service, all bool) {
	if all || r.Chance(1, 2) {
		n := vfPick(r, []int{1, 1, 2, 3})
		ps := vfShuffled(r, allocPortPalette)[:n]
		s.Spec.Ports = append([]corev1.ServicePort(nil), ps...)
	}
	if all || r.Chance(1, 2) {
		k := vfPick(r, []string{"", "k1", "k1", "k1", "k2"})
		s.Annotations = map[string]string{}
		if k != "" {
			s.Annotations["metallb.io/allow-shared-ip"] = k
		}
	}
	if all || r.Chance(1, 3) {
		if r.Chance(1, 3) {
			s.Spec.ExternalTrafficPolicy = corev1.ServiceExternalTrafficPolicyTypeLocal
			s.Spec.Selector = map[string]string{"app": vfPick(r, []string{"x", "x", "y"})}
		} else {
			s.Spec.ExternalTrafficPolicy = corev1.ServiceExternalTrafficPolicyTypeCluster
			s.Spec.Selector = map[string]string{"app": vfPick(r, []string{"x", "y"})}
		}
	}
	if all {
		switch r.Intn(8) {
		case 0, 1, 2, 3:
			s.Spec.ClusterIPs = []string{"172.16.0.1"}
			s.Spec.IPFamilies = []corev1.IPFamily{corev1.IPv4Protocol}
		case 4:
			s.Spec.ClusterIPs = []string{"fd00::1"}
			s.Spec.IPFamilies = []corev1.IPFamily{corev1.IPv6Protocol}
		case 5, 6:
			s.Spec.ClusterIPs = []string{"172.16.0.1", "fd00::1"}
			s.Spec.IPFamilies = []corev1.IPFamily{corev1.IPv4Protocol, corev1.IPv6Protocol}
		default:
			s.Spec.ClusterIPs = []string{"fd00::1", "172.16.0.1"}
			s.Spec.IPFamilies = []corev1.IPFamily{corev1.IPv6Protocol, corev1.IPv4Protocol}
		}
		if len(s.Spec.ClusterIPs) == 2 {
			s.Spec.IPFamilyPolicy = ptr.To(vfPick(r, []corev1.IPFamilyPolicy{corev1.IPFamilyPolicyPreferDualStack, corev1.IPFamilyPolicyRequireDualStack}))
		} else if r.Chance(1, 4) {
			s.Spec.IPFamilyPolicy = ptr.To(corev1.IPFamilyPolicyPreferDualStack)
		}
	}
}

func allocSvcOf(s *corev1.Service) *allocSvc {
	a := &allocSvc{key: s.Namespace + "/" + s.Name, obj: s}
	a.fam, _ = ipfamily.ForService(s)
	a.keyS = s.Annotations["metallb.io/allow-shared-ip"]
	// the controller derives the backend key like this (k8salloc cannot be imported here: cycle)
	if s.Spec.ExternalTrafficPolicy == corev1.ServiceExternalTrafficPolicyTypeLocal {
		a.keyB = labels.Set(s.Spec.Selector).String()
	}
	return a
}

func allocPorts(s *corev1.Service) []Port {
	var out []Port
	for _, p := range s.Spec.Ports {
		out = append(out, Port{Proto: string(p.Protocol), Port: int(p.Port)})
	}
	return out
}

// ---------------------------------------------------------------- engine

type allocMonitors struct {
	c01, c02, c11, c07 bool
}

type allocEngine struct {
	c      *vfCase
	r      *vfRand
	mon    allocMonitors
	a      *Allocator
	nss    []corev1.Namespace
	poolCR []metallbv1beta1.IPAddressPool
	model  map[string]*vfMPool
	svcs   []*allocSvc
	// spec each service had at its last successful call (what the allocator recorded)
	recorded map[string]*corev1.Service
	cbCount  int
	big      bool
}

func (e *allocEngine) setPools(crs []metallbv1beta1.IPAddressPool) bool {
	cfg, err := config.For(config.ClusterResources{Pools: crs, Namespaces: e.nss}, config.DontValidate)
	if err != nil {
		e.c.Logf("pool set rejected: %v", err)
		e.c.Count("poolset-rejected")
		return false
	}
	e.a.SetPools(cfg.Pools)
	e.poolCR = crs
	e.model = vfModelPools(crs, e.nss)
	for k := range e.recorded {
		if e.a.allocated[k] == nil {
			delete(e.recorded, k)
		}
	}
	return true
}

func (e *allocEngine) world(except string) *vfWorld {
	w := &vfWorld{Pools: e.model, Holdings: map[string]*vfHolding{}}
	for svc, al := range e.a.allocated {
		if svc == except {
			continue
		}
		rec := e.recorded[svc]
		if rec == nil {
			continue
		}
		req := vfSvcRequirement(rec)
		h := &vfHolding{Req: &req}
		for _, ip := range al.ips {
			c, _, _ := vfCanonIP(ip.String())
			h.IPs = append(h.IPs, c)
		}
		w.Holdings[svc] = h
	}
	return w
}

func allocIPStrings(ips []net.IP) []string {
	var out []string
	for _, ip := range ips {
		c, _, ok := vfCanonIP(ip.String())
		if !ok {
			c = ip.String()
		}
		out = append(out, c)
	}
	return out
}

func (e *allocEngine) candidateIPs() []string {
	var out []string
	for _, n := range vfSortedKeys(e.model) {
		p := e.model[n]
		for _, iv := range p.Set {
			if new(big.Int).Sub(iv.Hi, iv.Lo).Cmp(big.NewInt(64)) > 0 {
				out = append(out, vfAddrString(iv.Fam, iv.Lo), vfAddrString(iv.Fam, new(big.Int).Add(iv.Lo, big.NewInt(1))), vfAddrString(iv.Fam, iv.Hi))
				continue
			}
			out = append(out, (vfIvalSet{iv}).Addrs(64)...)
		}
	}
	out = append(out, "10.99.0.1", "fc00:99::1")
	return out
}

func (e *allocEngine) step(i int) {
	r := e.r
	s := vfPick(r, e.svcs)
	if r.Chance(1, 5) {
		// spec mutation (ports / key / policy); takes effect at the next call for that service
		ns := s.obj.DeepCopy()
		allocMutateSvc(r, ns, false)
		*s = *allocSvcOf(ns)
		e.c.Logf("%d: mutate %s ports=%v key=%q backend=%q", i, s.key, allocPorts(s.obj), s.keyS, s.keyB)
	}
	pre := e.a.VerifSnapshot()
	preWorld := e.world(s.key)
	_, had := pre.Allocated[s.key]
	op := r.Intn(20)
	switch {
	case op < 5: // Allocate
		ips, err := e.a.Allocate(s.key, s.obj, s.fam, allocPorts(s.obj), s.keyS, s.keyB)
		e.c.Logf("%d: Allocate %s fam=%s -> %v %v", i, s.key, s.fam, ips, err)
		e.c.Count("op:Allocate")
		e.afterAlloc("Allocate", s, had, pre, preWorld, "", ips, err)
	case op < 8: // AllocateFromPool
		pn := vfPick(r, append(vfSortedKeys(e.model), "ghost"))
		ips, err := e.a.AllocateFromPool(s.key, s.obj, s.fam, pn, allocPorts(s.obj), s.keyS, s.keyB)
		e.c.Logf("%d: AllocateFromPool %s pool=%s -> %v %v", i, s.key, pn, ips, err)
		e.c.Count("op:AllocateFromPool")
		e.afterAlloc("AllocateFromPool", s, had, pre, preWorld, pn, ips, err)
	case op < 13: // Assign explicit
		cands := e.candidateIPs()
		var ips []net.IP
		n := vfPick(r, []int{1, 1, 1, 2, 2, 3})
		for j := 0; j < n; j++ {
			ips = append(ips, net.ParseIP(vfPick(r, cands)))
		}
		if al := e.a.allocated[s.key]; al != nil && r.Chance(1, 3) {
			ips = al.ips // idempotent re-assign, as convergeBalancer does
		}
		err := e.a.Assign(s.key, s.obj, ips, allocPorts(s.obj), s.keyS, s.keyB)
		e.c.Logf("%d: Assign %s %v -> %v", i, s.key, ips, err)
		e.c.Count("op:Assign")
		if err == nil {
			e.recorded[s.key] = s.obj.DeepCopy()
			e.c.Count("assign-ok")
			if e.mon.c02 {
				e.checkPlacement("Assign", s, allocIPStrings(ips), false)
			}
		} else {
			e.c.Count("assign-refused")
			if strings.Contains(err.Error(), "already in use") || strings.Contains(err.Error(), "sharing key") {
				e.c.Count("refused-sharing-attempts")
			}
			e.unchangedOnError("Assign", pre)
		}
	case op < 15: // additional family (precondition as in the controller: exactly one address held)
		al := e.a.allocated[s.key]
		if al == nil || len(al.ips) != 1 {
			return
		}
		ip, err := e.a.AllocateFromPoolForAdditionalFamily(s.key, s.obj, al.ips[0], al.pool, allocPorts(s.obj), s.keyS, s.keyB)
		e.c.Logf("%d: AdditionalFamily %s existing=%s pool=%s -> %v %v", i, s.key, al.ips[0], al.pool, ip, err)
		e.c.Count("op:AdditionalFamily")
		if err == nil {
			e.recorded[s.key] = s.obj.DeepCopy()
			e.c.Count("additional-family-ok")
			if e.mon.c02 {
				now := allocIPStrings(e.a.allocated[s.key].ips)
				e.c.Eval()
				if len(now) != 2 || vfPoolOf(e.model, now) != pre.Allocated[s.key].Pool {
					e.c.Violation("additional-family:other-pool", fmt.Sprintf("%s gained %v: addresses %v are not a pair from pool %s", s.key, ip, now, pre.Allocated[s.key].Pool), nil)
				}
				e.checkPlacement("AdditionalFamily", s, now, false)
			}
		} else {
			e.unchangedOnError("AdditionalFamily", pre)
		}
	case op < 18: // Unassign
		e.a.Unassign(s.key)
		e.c.Logf("%d: Unassign %s", i, s.key)
		e.c.Count("op:Unassign")
		delete(e.recorded, s.key)
		if had && e.mon.c11 {
			e.probeReleased(s, pre)
		}
	default: // SetPools
		var crs []metallbv1beta1.IPAddressPool
		switch r.Intn(4) {
		case 0: // brand new layout
			crs = vfGenPools(r, e.big, []string{"p1", "p2", "p3", "p4"})
		case 1: // rename / re-group: same blocks, other names or merged
			crs = vfRegroupPools(r, e.poolCR)
		case 2: // flag flips
			crs = vfFlipPools(r, e.poolCR)
		default: // drop one pool
			crs = append([]metallbv1beta1.IPAddressPool(nil), e.poolCR...)
			if len(crs) > 1 {
				k := r.Intn(len(crs))
				crs = append(crs[:k], crs[k+1:]...)
			}
		}
		overlapped := false
		if e.mon.c11 && len(crs) > 0 && r.Chance(1, 5) {
			// one pool lists an address twice (an entry repeated as a range / a range inside its own block): the
			// loader refuses that; should it ever accept, the counters must still count every address once
			crs = append([]metallbv1beta1.IPAddressPool(nil), crs...)
			k := r.Intn(len(crs))
			cp := *crs[k].DeepCopy()
			if m := vfModelPool(cp, e.nss); len(m.Set) > 0 {
				iv := m.Set[r.Intn(len(m.Set))]
				lo := vfAddrString(iv.Fam, iv.Lo)
				hi := lo
				if iv.Hi.Cmp(iv.Lo) > 0 && r.Bool() {
					hi = vfAddrString(iv.Fam, new(big.Int).Add(iv.Lo, big.NewInt(1)))
				}
				cp.Spec.Addresses = append(cp.Spec.Addresses, lo+"-"+hi)
				crs[k] = cp
				overlapped = true
			}
		}
		ok := e.setPools(crs)
		e.c.Logf("%d: SetPools ok=%v %s", i, ok, vfPoolDump(crs))
		e.c.Count("op:SetPools")
		if overlapped {
			e.c.Count(map[bool]string{true: "op:SetPools:pool-listing-an-address-twice-accepted", false: "op:SetPools:pool-listing-an-address-twice-refused"}[ok])
		}
	}
	e.afterStep(i)
}

func (e *allocEngine) unchangedOnError(op string, pre VerifSnapshot) {
	// A refused call must leave no trace (C11: no ghost reservation from a failed attempt).
	if !e.mon.c11 {
		return
	}
	post := e.a.VerifSnapshot()
	e.c.Eval()
	if d := allocSnapDiff(pre, post, false); d != "" {
		e.c.Violation("failed-call-changed-state:"+op, fmt.Sprintf("%s returned an error but the bookkeeping changed: %s", op, d), nil)
	}
}

// afterAlloc judges the result of Allocate / AllocateFromPool.
func (e *allocEngine) afterAlloc(op string, s *allocSvc, had bool, pre VerifSnapshot, preWorld *vfWorld, reqPool string, ips []net.IP, err error) {
	req := vfSvcRequirement(s.obj)
	if err != nil {
		e.c.Count("alloc-failed")
		e.unchangedOnError(op, pre)
		if e.mon.c07 && !had {
			// allocation may fail only when the admissible set is truly empty
			q := req
			if op == "AllocateFromPool" {
				q.ReqPool = reqPool
			}
			e.c.Eval()
			if ok, witness := preWorld.existsAdmissible(&q); ok {
				e.c.Violation("allocation-failed-although-admissible:"+op, fmt.Sprintf("%s for %s (ns %s labels %v families %v policy %s ports %v key %q) failed with %q although an admissible assignment exists (%s); pools: %s",
					op, s.key, q.Namespace, q.Labels, q.Families, q.Policy, vfSortedKeys(q.Ports), q.ShareKey, err.Error(), witness, vfPoolDump(e.poolCR)), nil)
			} else {
				e.c.Count("failed-allocations-with-empty-admissible-set")
				e.c.Nontrivial(fmt.Sprintf("%s|%v|%s|%s|held=%d", op, q.Families, q.Policy, q.ReqPool, len(pre.Allocated)))
			}
		}
		return
	}
	e.recorded[s.key] = s.obj.DeepCopy()
	got := allocIPStrings(ips)
	if had {
		e.c.Count("alloc-kept-existing")
		if e.mon.c02 {
			e.c.Eval()
			if !vfSameSet(got, pre.Allocated[s.key].IPs) {
				e.c.Violation("allocate:existing-allocation-replaced", fmt.Sprintf("%s on %s which already held %v returned %v", op, s.key, pre.Allocated[s.key].IPs, got), nil)
			}
		}
		return
	}
	e.c.Count("alloc-fresh-ok")
	if !e.mon.c02 {
		return
	}
	e.c.Nontrivial(fmt.Sprintf("%s|%v|%s|%s|%v|held=%d", op, got, req.Namespace, req.Policy, req.Families, len(pre.Allocated)))
	e.checkPlacement(op, s, got, true)
	pn := vfPoolOf(e.model, got)
	if pn == "" || pn == "*" {
		return
	}
	p := e.model[pn]
	if op == "AllocateFromPool" {
		e.c.Count("event:explicit-pool")
		e.c.Eval()
		if pn != reqPool {
			e.c.Violation("requested-pool:other-pool", fmt.Sprintf("AllocateFromPool(%s) for %s returned %v from pool %s", reqPool, s.key, got, pn), nil)
		}
		return
	}
	// automatic allocation
	e.c.Eval()
	if !p.AutoAssign {
		e.c.Violation("auto:from-autoassign-false-pool", fmt.Sprintf("Allocate for %s drew %v from pool %s which has autoAssign=false", s.key, got, pn), nil)
	}
	// pinned before unpinned, ascending priority
	type cand struct {
		p  *vfMPool
		ok bool
	}
	var pinned []cand
	anyFalseHigher := false
	for _, n := range vfSortedKeys(e.model) {
		q := e.model[n]
		if !q.AutoAssign && q.HasAlloc && q.Admits(req.Namespace, req.Labels) && preWorld.poolSatisfies(q, &req, true) {
			anyFalseHigher = true
		}
		if !q.HasAlloc || !q.AutoAssign || !q.Admits(req.Namespace, req.Labels) {
			continue
		}
		pinned = append(pinned, cand{q, preWorld.poolSatisfies(q, &req, true)})
	}
	if anyFalseHigher {
		e.c.Count("event:autoassign-false-pool-had-free-address")
	}
	dualPrefer := len(req.Families) == 2 && req.Policy == vfPolPrefer
	if p.HasAlloc {
		e.c.Count("event:pinned")
		for _, cd := range pinned {
			if cd.ok && vfRank(cd.p) < vfRank(p) {
				e.c.Count("event:lower-rank-pool-had-address")
				if !dualPrefer {
					e.c.Violation("auto:priority-inverted", fmt.Sprintf("Allocate for %s chose pinned pool %s (priority %d) although pinned pool %s (priority %d) had an admissible address", s.key, pn, p.Priority, cd.p.Name, cd.p.Priority), nil)
				} else if preWorld.poolGivesFamiliesOf(cd.p, &req, got, true) {
					e.c.Violation("auto:priority-inverted:prefer-dual-stack", fmt.Sprintf("Allocate for PreferDualStack %s gave %v from pinned pool %s (priority %d) although pinned pool %s (priority %d) had available addresses of the same families", s.key, got, pn, p.Priority, cd.p.Name, cd.p.Priority), nil)
				}
			}
		}
	} else {
		e.c.Count("event:unpinned")
		for _, cd := range pinned {
			if cd.ok {
				// PreferDualStack falls through to unpinned pools only if no pinned pool offers any family
				e.c.Violation("auto:unpinned-before-pinned", fmt.Sprintf("Allocate for %s chose unpinned pool %s although pinned pool %s had an admissible address", s.key, pn, cd.p.Name), nil)
			}
		}
	}
}

// checkPlacement: addresses lie in exactly one pool, usable, pool admits the service, family rule.
func (e *allocEngine) checkPlacement(op string, s *allocSvc, got []string, family bool) {
	req := vfSvcRequirement(s.obj)
	e.c.Eval()
	pn := vfPoolOf(e.model, got)
	if pn == "" || pn == "*" {
		e.c.Violation("placement:not-in-one-pool", fmt.Sprintf("%s gave %s the addresses %v which lie in %q pools", op, s.key, got, pn), nil)
		return
	}
	p := e.model[pn]
	if rec := e.a.allocated[s.key]; rec != nil && rec.pool != pn {
		e.c.Violation("placement:recorded-pool-wrong", fmt.Sprintf("%s: allocator records pool %s for %v which belong to %s", op, rec.pool, got, pn), nil)
	}
	for _, ip := range got {
		if !p.ContainsUsable(ip) {
			e.c.Violation("placement:buggy-address", fmt.Sprintf("%s gave %s the address %s of avoid-buggy pool %s", op, s.key, ip, pn), nil)
		}
	}
	if !p.Admits(req.Namespace, req.Labels) {
		sig := "placement:pool-does-not-admit"
		if p.NsSelOnly && len(p.Namespaces) == 0 {
			sig = "placement:pool-does-not-admit:namespace-selector-matches-nothing"
		}
		if op == "Allocate" {
			// the known weakness (a selector matching no namespace reads as "no restriction") is only
			// reachable through an explicit request naming the pool or one of its addresses
			sig = "placement:automatic-allocation-from-pool-that-does-not-admit"
		}
		e.c.Violation(sig, fmt.Sprintf("%s gave %s (ns %s labels %v) addresses %v of pool %s which does not admit it", op, s.key, req.Namespace, req.Labels, got, pn), nil)
	}
	if family {
		if ok, why := vfFamilyRule(&req, got); !ok {
			e.c.Violation("placement:family-rule", fmt.Sprintf("%s gave %s (cluster families %v policy %s) the addresses %v: %s", op, s.key, req.Families, req.Policy, got, why), nil)
		}
	}
}

func (e *allocEngine) probeReleased(s *allocSvc, pre VerifSnapshot) {
	before := e.a.VerifSnapshot()
	for _, ip := range pre.Allocated[s.key].IPs {
		if len(before.ServicesOnIP[ip]) > 0 {
			continue // still shared by others
		}
		pn := vfPoolOf(e.model, []string{ip})
		if pn == "" || pn == "*" {
			continue
		}
		p := e.model[pn]
		probe := s.obj.DeepCopy()
		probe.Name = "probe"
		probe.Annotations = nil
		if !p.Admits(probe.Namespace, probe.Labels) || !p.ContainsUsable(ip) {
			continue
		}
		e.c.Eval()
		e.c.Count("releases-probed")
		err := e.a.Assign("probe/probe", probe, []net.IP{net.ParseIP(ip)}, []Port{{Proto: "TCP", Port: 1}}, "", "")
		if err != nil {
			e.c.Violation("release:address-not-reusable", fmt.Sprintf("address %s released by %s cannot be assigned to a fresh service: %v", ip, s.key, err), nil)
			continue
		}
		e.a.Unassign("probe/probe")
		after := e.a.VerifSnapshot()
		if d := allocSnapDiff(before, after, false); d != "" {
			e.c.Violation("release:probe-left-trace", "assign+unassign of a probe service changed the bookkeeping: "+d, nil)
		}
	}
}

// afterStep runs the step monitors on the allocator's memory.
func (e *allocEngine) afterStep(i int) {
	snap := e.a.VerifSnapshot()
	stateKey := fmt.Sprintf("%v|%v", snap.Allocated, snap.PoolNames)
	e.c.Distinct("states", stateKey)
	if e.mon.c01 {
		e.checkExclusivity(snap)
	}
	if e.mon.c11 {
		e.checkAccounting(snap)
	}
}

// allocSnap converts the in-package snapshot to the shared monitor type.
func allocSnap(v VerifSnapshot) vfSnap {
	s := vfSnap{Allocated: map[string]vfSnapAlloc{}, SharingKeyForIP: v.SharingKeyForIP, PortsInUse: v.PortsInUse, ServicesOnIP: v.ServicesOnIP,
		PoolIPsInUse: v.PoolIPsInUse, PoolIPV4InUse: v.PoolIPV4InUse, PoolIPV6InUse: v.PoolIPV6InUse, PoolNames: v.PoolNames, Counters: map[string][4]int64{}}
	for k, a := range v.Allocated {
		s.Allocated[k] = vfSnapAlloc{Pool: a.Pool, IPs: a.IPs, Ports: a.Ports, SharingKey: a.SharingKey, BackendKey: a.BackendKey}
	}
	for k, c := range v.Counters {
		s.Counters[k] = [4]int64{c.AssignedIPv4, c.AssignedIPv6, c.AvailableIPv4, c.AvailableIPv6}
	}
	return s
}

func allocSnapDiff(a, b VerifSnapshot, ignoreCounters bool) string {
	return vfSnapDiff(allocSnap(a), allocSnap(b), ignoreCounters)
}

func (e *allocEngine) checkExclusivity(snap VerifSnapshot) {
	rec := map[string]*vfSvcReq{}
	for k, o := range e.recorded {
		r := vfSvcRequirement(o)
		rec[k] = &r
	}
	vfCheckExclusivity(e.c, allocSnap(snap), rec)
}

func (e *allocEngine) checkAccounting(snap VerifSnapshot) {
	vfCheckRebuild(e.c, allocSnap(snap), allocSnap(e.a.VerifRebuild().VerifSnapshot()))
	vfCheckCounters(e.c, allocSnap(snap), e.model)
}

func allocRun(t *testing.T, prop string, mon allocMonitors, sizes vfSizes, rule string) {
	vfMain(t, prop, sizes, rule, func(c *vfCase) {
		e := &allocEngine{c: c, r: c.R, mon: mon, nss: vfGenNamespaces(), recorded: map[string]*corev1.Service{}}
		e.a = New(func(string) { e.cbCount++ })
		e.big = mon.c11 && c.R.Chance(1, 2)
		for !e.setPools(vfGenPools(c.R, e.big, []string{"p1", "p2", "p3", "p4"})) {
		}
		c.Logf("pools: %s", vfPoolDump(e.poolCR))
		n := c.R.Range(3, 6)
		for i := 0; i < n; i++ {
			e.svcs = append(e.svcs, allocGenSvc(c.R, i+1))
		}
		e.afterStep(-1)
		steps := 40
		for i := 0; i < steps; i++ {
			e.step(i)
		}
		c.Count("histories")
		if c.WantSample() && c.Idx > 3 {
			tr := c.Trace()
			if len(tr) > 14 {
				tr = tr[:14]
			}
			c.Sample(map[string]any{"history_prefix": tr})
		}
	})
}

const allocRule = "allocator API histories (40 operations over 3-6 services and 1-4 tiny pools: Assign / Allocate / AllocateFromPool / additional family / Unassign / SetPools incl. rename, re-group, flag flips); "

func TestVerif_C01(t *testing.T) {
	allocRun(t, "C01", allocMonitors{c01: true}, vfSizes{Quick: 750, Thorough: 20000},
		allocRule+"non-trivial = distinct constellation (keys, backends, ports) of >= 2 services sharing one address, observed after an operation")
}

func TestVerif_C02(t *testing.T) {
	allocRun(t, "C02", allocMonitors{c02: true}, vfSizes{Quick: 750, Thorough: 20000},
		allocRule+"non-trivial = distinct allocation event (mode, chosen pool class, competing pools)")
}

func TestVerif_C11(t *testing.T) {
	allocRun(t, "C11", allocMonitors{c11: true}, vfSizes{Quick: 750, Thorough: 20000},
		allocRule+"pool layouts incl. /31 /32 on .0/.255, avoid-buggy, /64 and shorter IPv6 prefixes combined with others; non-trivial = distinct (pool layout) whose counters were checked")
}

func TestVerif_C07(t *testing.T) {
	allocRun(t, "C07", allocMonitors{c07: true}, vfSizes{Quick: 750, Thorough: 20000},
		allocRule+"every failed Allocate / AllocateFromPool of a service without allocation is judged by the brute-force admissibility oracle; non-trivial = distinct failed allocation whose admissible set the oracle found empty")
}
