//go:build verif

package allocator

import (
	"fmt"
	"math"
	"math/big"
	"net"
	"reflect"
	"sort"
	"strings"
	"testing"

	metallbv1beta1 "go.universe.tf/metallb/api/v1beta1"
	"go.universe.tf/metallb/internal/config"
	"go.universe.tf/metallb/internal/ipfamily"
	corev1 "k8s.io/api/core/v1"
	metav1 "k8s.io/apimachinery/pkg/apis/meta/v1"
	"k8s.io/apimachinery/pkg/labels"
	"k8s.io/utils/ptr"
)

// ---------------------------------------------------------------- universe

var allocBlocksSmall = []string{
	"10.0.0.0/30", "10.0.0.4/31", "10.0.0.8-10.0.0.10", "10.0.1.254-10.0.2.1", "10.0.3.0/32", "10.0.3.255/32",
	"10.0.4.0/29", "10.0.5.255-10.0.6.0", "10.0.7.7/32",
	"fc00::/126", "fc00::10-fc00::12", "fc00:1::/127", "fc00:2::5/128",
}

var allocBlocksBig = []string{
	"fc00:a::/64", "fc00:b::/48", "fc00:c::/66", "fc00:d::/67", "10.8.0.0/16", "10.9.0.0/23", "10.10.0.128/25",
	"10.11.0.0/25", "fc00:e::/96", "fc00:f::-fc00:f::ffff:ffff:ffff:ffff", "10.12.0.0-10.12.3.255",
}

func allocNamespaces() []corev1.Namespace {
	mk := func(n string, l map[string]string) corev1.Namespace {
		return corev1.Namespace{ObjectMeta: metav1.ObjectMeta{Name: n, Labels: l}}
	}
	return []corev1.Namespace{mk("ns1", map[string]string{"team": "a"}), mk("ns2", map[string]string{"team": "b"}), mk("ns3", nil)}
}

type allocUniverse struct {
	pools []metallbv1beta1.IPAddressPool
	nss   []corev1.Namespace
}

// allocGenPools cuts 1..4 pools from the block palettes (every block used at most once).
func allocGenPools(r *vfRand, withBig bool, names []string) []metallbv1beta1.IPAddressPool {
	blocks := vfShuffled(r, allocBlocksSmall)
	if withBig {
		big := vfShuffled(r, allocBlocksBig)
		blocks = append(big[:r.Range(1, 4)], blocks...)
		vfShuffle(r, blocks)
	}
	n := r.Range(1, len(names))
	var out []metallbv1beta1.IPAddressPool
	bi := 0
	for i := 0; i < n && bi < len(blocks); i++ {
		p := metallbv1beta1.IPAddressPool{ObjectMeta: metav1.ObjectMeta{Name: names[i], Namespace: "metallb-system"}}
		k := vfPick(r, []int{1, 1, 2, 2, 3})
		for j := 0; j < k && bi < len(blocks); j++ {
			p.Spec.Addresses = append(p.Spec.Addresses, blocks[bi])
			bi++
		}
		p.Spec.AvoidBuggyIPs = r.Chance(1, 3)
		if r.Chance(1, 4) {
			p.Spec.AutoAssign = ptr.To(false)
		}
		if r.Chance(1, 2) {
			at := &metallbv1beta1.ServiceAllocation{Priority: vfPick(r, []int{0, 0, 1, 2, 3})}
			switch r.Intn(6) {
			case 0:
				at.Namespaces = vfSubset(r, []string{"ns1", "ns2", "ns3"}, 1, 2)
			case 1:
				at.NamespaceSelectors = []metav1.LabelSelector{{MatchLabels: map[string]string{"team": vfPick(r, []string{"a", "b"})}}}
			case 2:
				at.ServiceSelectors = []metav1.LabelSelector{{MatchLabels: map[string]string{"tier": vfPick(r, []string{"web", "db"})}}}
			case 3:
				at.Namespaces = []string{vfPick(r, []string{"ns1", "ns2"})}
				at.ServiceSelectors = []metav1.LabelSelector{{MatchLabels: map[string]string{"tier": "web"}}}
			case 4:
				// priority only: pinned to every service
			default:
				at.Namespaces = []string{"ns1", "ns2", "ns3"}
			}
			p.Spec.AllocateTo = at
		}
		out = append(out, p)
	}
	return out
}

type allocSvc struct {
	key  string
	obj  *corev1.Service
	fam  ipfamily.Family
	keyS string // sharing key
	keyB string // backend key
}

var allocPortPalette = []corev1.ServicePort{
	{Protocol: corev1.ProtocolTCP, Port: 80}, {Protocol: corev1.ProtocolTCP, Port: 443},
	{Protocol: corev1.ProtocolUDP, Port: 53}, {Protocol: corev1.ProtocolTCP, Port: 8080},
}

func allocGenSvc(r *vfRand, i int) *allocSvc {
	s := &corev1.Service{}
	s.Name = fmt.Sprintf("s%d", i)
	s.Namespace = vfPick(r, []string{"ns1", "ns1", "ns2", "ns3"})
	switch r.Intn(3) {
	case 0:
		s.Labels = map[string]string{"tier": "web"}
	case 1:
		s.Labels = map[string]string{"tier": "db"}
	}
	s.Spec.Type = corev1.ServiceTypeLoadBalancer
	allocMutateSvc(r, s, true)
	return allocSvcOf(s)
}

// allocMutateSvc (re)draws the mutable parts of the spec.
func allocMutateSvc(r *vfRand, s *corev1.Service, all bool) {
	if all || r.Chance(1, 2) {
		n := vfPick(r, []int{1, 1, 2, 3})
		ps := vfShuffled(r, allocPortPalette)[:n]
		s.Spec.Ports = append([]corev1.ServicePort(nil), ps...)
	}
	if all || r.Chance(1, 2) {
		k := vfPick(r, []string{"", "k1", "k1", "k1", "k2"})
		s.Annotations = map[string]string{}
		if k != "" {
			s.Annotations["metallb.io/allow-shared-ip"] = k
		}
	}
	if all || r.Chance(1, 3) {
		if r.Chance(1, 3) {
			s.Spec.ExternalTrafficPolicy = corev1.ServiceExternalTrafficPolicyTypeLocal
			s.Spec.Selector = map[string]string{"app": vfPick(r, []string{"x", "x", "y"})}
		} else {
			s.Spec.ExternalTrafficPolicy = corev1.ServiceExternalTrafficPolicyTypeCluster
			s.Spec.Selector = map[string]string{"app": vfPick(r, []string{"x", "y"})}
		}
	}
	if all {
		switch r.Intn(8) {
		case 0, 1, 2, 3:
			s.Spec.ClusterIPs = []string{"172.16.0.1"}
			s.Spec.IPFamilies = []corev1.IPFamily{corev1.IPv4Protocol}
		case 4:
			s.Spec.ClusterIPs = []string{"fd00::1"}
			s.Spec.IPFamilies = []corev1.IPFamily{corev1.IPv6Protocol}
		case 5, 6:
			s.Spec.ClusterIPs = []string{"172.16.0.1", "fd00::1"}
			s.Spec.IPFamilies = []corev1.IPFamily{corev1.IPv4Protocol, corev1.IPv6Protocol}
		default:
			s.Spec.ClusterIPs = []string{"fd00::1", "172.16.0.1"}
			s.Spec.IPFamilies = []corev1.IPFamily{corev1.IPv6Protocol, corev1.IPv4Protocol}
		}
		if len(s.Spec.ClusterIPs) == 2 {
			s.Spec.IPFamilyPolicy = ptr.To(vfPick(r, []corev1.IPFamilyPolicy{corev1.IPFamilyPolicyPreferDualStack, corev1.IPFamilyPolicyRequireDualStack}))
		} else if r.Chance(1, 4) {
			s.Spec.IPFamilyPolicy = ptr.To(corev1.IPFamilyPolicyPreferDualStack)
		}
	}
}

func allocSvcOf(s *corev1.Service) *allocSvc {
	a := &allocSvc{key: s.Namespace + "/" + s.Name, obj: s}
	a.fam, _ = ipfamily.ForService(s)
	a.keyS = s.Annotations["metallb.io/allow-shared-ip"]
	// the controller derives the backend key like this (k8salloc cannot be imported here: cycle)
	if s.Spec.ExternalTrafficPolicy == corev1.ServiceExternalTrafficPolicyTypeLocal {
		a.keyB = labels.Set(s.Spec.Selector).String()
	}
	return a
}

func allocPorts(s *corev1.Service) []Port {
	var out []Port
	for _, p := range s.Spec.Ports {
		out = append(out, Port{Proto: string(p.Protocol), Port: int(p.Port)})
	}
	return out
}

// ---------------------------------------------------------------- engine

type allocMonitors struct {
	c01, c02, c11 bool
}

type allocEngine struct {
	c      *vfCase
	r      *vfRand
	mon    allocMonitors
	a      *Allocator
	nss    []corev1.Namespace
	poolCR []metallbv1beta1.IPAddressPool
	model  map[string]*vfMPool
	svcs   []*allocSvc
	// spec each service had at its last successful call (what the allocator recorded)
	recorded map[string]*corev1.Service
	cbCount  int
	big      bool
}

func (e *allocEngine) setPools(crs []metallbv1beta1.IPAddressPool) bool {
	cfg, err := config.For(config.ClusterResources{Pools: crs, Namespaces: e.nss}, config.DontValidate)
	if err != nil {
		e.c.Logf("pool set rejected: %v", err)
		e.c.Count("poolset-rejected")
		return false
	}
	e.a.SetPools(cfg.Pools)
	e.poolCR = crs
	e.model = vfModelPools(crs, e.nss)
	for k := range e.recorded {
		if e.a.allocated[k] == nil {
			delete(e.recorded, k)
		}
	}
	return true
}

func (e *allocEngine) world(except string) *vfWorld {
	w := &vfWorld{Pools: e.model, Holdings: map[string]*vfHolding{}}
	for svc, al := range e.a.allocated {
		if svc == except {
			continue
		}
		rec := e.recorded[svc]
		if rec == nil {
			continue
		}
		req := vfSvcRequirement(rec)
		h := &vfHolding{Req: &req}
		for _, ip := range al.ips {
			c, _, _ := vfCanonIP(ip.String())
			h.IPs = append(h.IPs, c)
		}
		w.Holdings[svc] = h
	}
	return w
}

func allocIPStrings(ips []net.IP) []string {
	var out []string
	for _, ip := range ips {
		c, _, ok := vfCanonIP(ip.String())
		if !ok {
			c = ip.String()
		}
		out = append(out, c)
	}
	return out
}

func (e *allocEngine) candidateIPs() []string {
	var out []string
	for _, n := range vfSortedKeys(e.model) {
		p := e.model[n]
		for _, iv := range p.Set {
			if new(big.Int).Sub(iv.Hi, iv.Lo).Cmp(big.NewInt(64)) > 0 {
				out = append(out, vfAddrString(iv.Fam, iv.Lo), vfAddrString(iv.Fam, new(big.Int).Add(iv.Lo, big.NewInt(1))), vfAddrString(iv.Fam, iv.Hi))
				continue
			}
			out = append(out, (vfIvalSet{iv}).Addrs(64)...)
		}
	}
	out = append(out, "10.99.0.1", "fc00:99::1")
	return out
}

func (e *allocEngine) step(i int) {
	r := e.r
	s := vfPick(r, e.svcs)
	if r.Chance(1, 5) {
		// spec mutation (ports / key / policy); takes effect at the next call for that service
		ns := s.obj.DeepCopy()
		allocMutateSvc(r, ns, false)
		*s = *allocSvcOf(ns)
		e.c.Logf("%d: mutate %s ports=%v key=%q backend=%q", i, s.key, allocPorts(s.obj), s.keyS, s.keyB)
	}
	pre := e.a.VerifSnapshot()
	preWorld := e.world(s.key)
	_, had := pre.Allocated[s.key]
	op := r.Intn(20)
	switch {
	case op < 5: // Allocate
		ips, err := e.a.Allocate(s.key, s.obj, s.fam, allocPorts(s.obj), s.keyS, s.keyB)
		e.c.Logf("%d: Allocate %s fam=%s -> %v %v", i, s.key, s.fam, ips, err)
		e.c.Count("op:Allocate")
		e.afterAlloc("Allocate", s, had, pre, preWorld, "", ips, err)
	case op < 8: // AllocateFromPool
		pn := vfPick(r, append(vfSortedKeys(e.model), "ghost"))
		ips, err := e.a.AllocateFromPool(s.key, s.obj, s.fam, pn, allocPorts(s.obj), s.keyS, s.keyB)
		e.c.Logf("%d: AllocateFromPool %s pool=%s -> %v %v", i, s.key, pn, ips, err)
		e.c.Count("op:AllocateFromPool")
		e.afterAlloc("AllocateFromPool", s, had, pre, preWorld, pn, ips, err)
	case op < 13: // Assign explicit
		cands := e.candidateIPs()
		var ips []net.IP
		n := vfPick(r, []int{1, 1, 1, 2, 2, 3})
		for j := 0; j < n; j++ {
			ips = append(ips, net.ParseIP(vfPick(r, cands)))
		}
		if al := e.a.allocated[s.key]; al != nil && r.Chance(1, 3) {
			ips = al.ips // idempotent re-assign, as convergeBalancer does
		}
		err := e.a.Assign(s.key, s.obj, ips, allocPorts(s.obj), s.keyS, s.keyB)
		e.c.Logf("%d: Assign %s %v -> %v", i, s.key, ips, err)
		e.c.Count("op:Assign")
		if err == nil {
			e.recorded[s.key] = s.obj.DeepCopy()
			e.c.Count("assign-ok")
			if e.mon.c02 {
				e.checkPlacement("Assign", s, allocIPStrings(ips), false)
			}
		} else {
			e.c.Count("assign-refused")
			if strings.Contains(err.Error(), "already in use") || strings.Contains(err.Error(), "sharing key") {
				e.c.Count("refused-sharing-attempts")
			}
			e.unchangedOnError("Assign", pre)
		}
	case op < 15: // additional family (precondition as in the controller: exactly one address held)
		al := e.a.allocated[s.key]
		if al == nil || len(al.ips) != 1 {
			return
		}
		ip, err := e.a.AllocateFromPoolForAdditionalFamily(s.key, s.obj, al.ips[0], al.pool, allocPorts(s.obj), s.keyS, s.keyB)
		e.c.Logf("%d: AdditionalFamily %s existing=%s pool=%s -> %v %v", i, s.key, al.ips[0], al.pool, ip, err)
		e.c.Count("op:AdditionalFamily")
		if err == nil {
			e.recorded[s.key] = s.obj.DeepCopy()
			e.c.Count("additional-family-ok")
			if e.mon.c02 {
				now := allocIPStrings(e.a.allocated[s.key].ips)
				e.c.Eval()
				if len(now) != 2 || vfPoolOf(e.model, now) != pre.Allocated[s.key].Pool {
					e.c.Violation("additional-family:other-pool", fmt.Sprintf("%s gained %v: addresses %v are not a pair from pool %s", s.key, ip, now, pre.Allocated[s.key].Pool), nil)
				}
				e.checkPlacement("AdditionalFamily", s, now, false)
			}
		} else {
			e.unchangedOnError("AdditionalFamily", pre)
		}
	case op < 18: // Unassign
		e.a.Unassign(s.key)
		e.c.Logf("%d: Unassign %s", i, s.key)
		e.c.Count("op:Unassign")
		delete(e.recorded, s.key)
		if had && e.mon.c11 {
			e.probeReleased(s, pre)
		}
	default: // SetPools
		var crs []metallbv1beta1.IPAddressPool
		switch r.Intn(4) {
		case 0: // brand new layout
			crs = allocGenPools(r, e.big, []string{"p1", "p2", "p3", "p4"})
		case 1: // rename / re-group: same blocks, other names or merged
			crs = allocRegroup(r, e.poolCR)
		case 2: // flag flips
			crs = allocFlip(r, e.poolCR)
		default: // drop one pool
			crs = append([]metallbv1beta1.IPAddressPool(nil), e.poolCR...)
			if len(crs) > 1 {
				k := r.Intn(len(crs))
				crs = append(crs[:k], crs[k+1:]...)
			}
		}
		ok := e.setPools(crs)
		e.c.Logf("%d: SetPools ok=%v %s", i, ok, allocPoolDump(crs))
		e.c.Count("op:SetPools")
	}
	e.afterStep(i)
}

func allocPoolDump(crs []metallbv1beta1.IPAddressPool) string {
	var parts []string
	for _, p := range crs {
		at := ""
		if p.Spec.AllocateTo != nil {
			at = fmt.Sprintf(" allocTo{prio=%d ns=%v nssel=%d svcsel=%d}", p.Spec.AllocateTo.Priority, p.Spec.AllocateTo.Namespaces, len(p.Spec.AllocateTo.NamespaceSelectors), len(p.Spec.AllocateTo.ServiceSelectors))
		}
		aa := true
		if p.Spec.AutoAssign != nil {
			aa = *p.Spec.AutoAssign
		}
		parts = append(parts, fmt.Sprintf("%s%v avoid=%v auto=%v%s", p.Name, p.Spec.Addresses, p.Spec.AvoidBuggyIPs, aa, at))
	}
	return strings.Join(parts, " | ")
}

func allocRegroup(r *vfRand, crs []metallbv1beta1.IPAddressPool) []metallbv1beta1.IPAddressPool {
	var all []string
	for _, p := range crs {
		all = append(all, p.Spec.Addresses...)
	}
	names := vfShuffled(r, []string{"p1", "p2", "p3", "p4", "q1", "q2"})
	n := r.Range(1, 3)
	out := make([]metallbv1beta1.IPAddressPool, n)
	for i := range out {
		out[i] = metallbv1beta1.IPAddressPool{ObjectMeta: metav1.ObjectMeta{Name: names[i], Namespace: "metallb-system"}}
	}
	for i, a := range all {
		k := i % n
		if r.Chance(1, 3) {
			k = r.Intn(n)
		}
		out[k].Spec.Addresses = append(out[k].Spec.Addresses, a)
	}
	var res []metallbv1beta1.IPAddressPool
	for _, p := range out {
		if len(p.Spec.Addresses) > 0 {
			res = append(res, p)
		}
	}
	return res
}

func allocFlip(r *vfRand, crs []metallbv1beta1.IPAddressPool) []metallbv1beta1.IPAddressPool {
	out := make([]metallbv1beta1.IPAddressPool, len(crs))
	for i := range crs {
		out[i] = *crs[i].DeepCopy()
		if r.Chance(1, 2) {
			out[i].Spec.AvoidBuggyIPs = !out[i].Spec.AvoidBuggyIPs
		}
		if r.Chance(1, 3) {
			out[i].Spec.AutoAssign = ptr.To(r.Bool())
		}
		if r.Chance(1, 3) {
			if out[i].Spec.AllocateTo == nil {
				out[i].Spec.AllocateTo = &metallbv1beta1.ServiceAllocation{Priority: r.Intn(3), Namespaces: []string{vfPick(r, []string{"ns1", "ns2"})}}
			} else {
				out[i].Spec.AllocateTo = nil
			}
		}
	}
	return out
}

func (e *allocEngine) unchangedOnError(op string, pre VerifSnapshot) {
	// A refused call must leave no trace (C11: no ghost reservation from a failed attempt).
	if !e.mon.c11 {
		return
	}
	post := e.a.VerifSnapshot()
	e.c.Eval()
	if d := allocSnapDiff(pre, post, false); d != "" {
		e.c.Violation("failed-call-changed-state:"+op, fmt.Sprintf("%s returned an error but the bookkeeping changed: %s", op, d), nil)
	}
}

// afterAlloc judges the result of Allocate / AllocateFromPool.
func (e *allocEngine) afterAlloc(op string, s *allocSvc, had bool, pre VerifSnapshot, preWorld *vfWorld, reqPool string, ips []net.IP, err error) {
	req := vfSvcRequirement(s.obj)
	if err != nil {
		e.c.Count("alloc-failed")
		e.unchangedOnError(op, pre)
		return
	}
	e.recorded[s.key] = s.obj.DeepCopy()
	got := allocIPStrings(ips)
	if had {
		e.c.Count("alloc-kept-existing")
		if e.mon.c02 {
			e.c.Eval()
			if !vfSameSet(got, pre.Allocated[s.key].IPs) {
				e.c.Violation("allocate:existing-allocation-replaced", fmt.Sprintf("%s on %s which already held %v returned %v", op, s.key, pre.Allocated[s.key].IPs, got), nil)
			}
		}
		return
	}
	e.c.Count("alloc-fresh-ok")
	if !e.mon.c02 {
		return
	}
	e.c.Nontrivial(fmt.Sprintf("%s|%v|%s|%s|%v|held=%d", op, got, req.Namespace, req.Policy, req.Families, len(pre.Allocated)))
	e.checkPlacement(op, s, got, true)
	pn := vfPoolOf(e.model, got)
	if pn == "" || pn == "*" {
		return
	}
	p := e.model[pn]
	if op == "AllocateFromPool" {
		e.c.Count("event:explicit-pool")
		e.c.Eval()
		if pn != reqPool {
			e.c.Violation("requested-pool:other-pool", fmt.Sprintf("AllocateFromPool(%s) for %s returned %v from pool %s", reqPool, s.key, got, pn), nil)
		}
		return
	}
	// automatic allocation
	e.c.Eval()
	if !p.AutoAssign {
		e.c.Violation("auto:from-autoassign-false-pool", fmt.Sprintf("Allocate for %s drew %v from pool %s which has autoAssign=false", s.key, got, pn), nil)
	}
	// pinned before unpinned, ascending priority
	type cand struct {
		p  *vfMPool
		ok bool
	}
	var pinned []cand
	anyFalseHigher := false
	for _, n := range vfSortedKeys(e.model) {
		q := e.model[n]
		if !q.AutoAssign && q.HasAlloc && q.Admits(req.Namespace, req.Labels) && preWorld.poolSatisfies(q, &req, true) {
			anyFalseHigher = true
		}
		if !q.HasAlloc || !q.AutoAssign || !q.Admits(req.Namespace, req.Labels) {
			continue
		}
		pinned = append(pinned, cand{q, preWorld.poolSatisfies(q, &req, true)})
	}
	if anyFalseHigher {
		e.c.Count("event:autoassign-false-pool-had-free-address")
	}
	dualPrefer := len(req.Families) == 2 && req.Policy == vfPolPrefer
	if p.HasAlloc {
		e.c.Count("event:pinned")
		for _, cd := range pinned {
			if cd.ok && vfRank(cd.p) < vfRank(p) {
				e.c.Count("event:lower-rank-pool-had-address")
				if !dualPrefer {
					e.c.Violation("auto:priority-inverted", fmt.Sprintf("Allocate for %s chose pinned pool %s (priority %d) although pinned pool %s (priority %d) had an admissible address", s.key, pn, p.Priority, cd.p.Name, cd.p.Priority), nil)
				}
			}
		}
	} else {
		e.c.Count("event:unpinned")
		for _, cd := range pinned {
			if cd.ok {
				// PreferDualStack falls through to unpinned pools only if no pinned pool offers any family
				e.c.Violation("auto:unpinned-before-pinned", fmt.Sprintf("Allocate for %s chose unpinned pool %s although pinned pool %s had an admissible address", s.key, pn, cd.p.Name), nil)
			}
		}
	}
}

// checkPlacement: addresses lie in exactly one pool, usable, pool admits the service, family rule.
func (e *allocEngine) checkPlacement(op string, s *allocSvc, got []string, family bool) {
	req := vfSvcRequirement(s.obj)
	e.c.Eval()
	pn := vfPoolOf(e.model, got)
	if pn == "" || pn == "*" {
		e.c.Violation("placement:not-in-one-pool", fmt.Sprintf("%s gave %s the addresses %v which lie in %q pools", op, s.key, got, pn), nil)
		return
	}
	p := e.model[pn]
	if rec := e.a.allocated[s.key]; rec != nil && rec.pool != pn {
		e.c.Violation("placement:recorded-pool-wrong", fmt.Sprintf("%s: allocator records pool %s for %v which belong to %s", op, rec.pool, got, pn), nil)
	}
	for _, ip := range got {
		if !p.ContainsUsable(ip) {
			e.c.Violation("placement:buggy-address", fmt.Sprintf("%s gave %s the address %s of avoid-buggy pool %s", op, s.key, ip, pn), nil)
		}
	}
	if !p.Admits(req.Namespace, req.Labels) {
		sig := "placement:pool-does-not-admit"
		if p.NsSelOnly && len(p.Namespaces) == 0 {
			sig = "placement:pool-does-not-admit:namespace-selector-matches-nothing"
		}
		e.c.Violation(sig, fmt.Sprintf("%s gave %s (ns %s labels %v) addresses %v of pool %s which does not admit it", op, s.key, req.Namespace, req.Labels, got, pn), nil)
	}
	if family {
		if ok, why := vfFamilyRule(&req, got); !ok {
			e.c.Violation("placement:family-rule", fmt.Sprintf("%s gave %s (cluster families %v policy %s) the addresses %v: %s", op, s.key, req.Families, req.Policy, got, why), nil)
		}
	}
}

func (e *allocEngine) probeReleased(s *allocSvc, pre VerifSnapshot) {
	before := e.a.VerifSnapshot()
	for _, ip := range pre.Allocated[s.key].IPs {
		if len(before.ServicesOnIP[ip]) > 0 {
			continue // still shared by others
		}
		pn := vfPoolOf(e.model, []string{ip})
		if pn == "" || pn == "*" {
			continue
		}
		p := e.model[pn]
		probe := s.obj.DeepCopy()
		probe.Name = "probe"
		probe.Annotations = nil
		if !p.Admits(probe.Namespace, probe.Labels) || !p.ContainsUsable(ip) {
			continue
		}
		e.c.Eval()
		e.c.Count("releases-probed")
		err := e.a.Assign("probe/probe", probe, []net.IP{net.ParseIP(ip)}, []Port{{Proto: "TCP", Port: 1}}, "", "")
		if err != nil {
			e.c.Violation("release:address-not-reusable", fmt.Sprintf("address %s released by %s cannot be assigned to a fresh service: %v", ip, s.key, err), nil)
			continue
		}
		e.a.Unassign("probe/probe")
		after := e.a.VerifSnapshot()
		if d := allocSnapDiff(before, after, false); d != "" {
			e.c.Violation("release:probe-left-trace", "assign+unassign of a probe service changed the bookkeeping: "+d, nil)
		}
	}
}

func allocSnapDiff(a, b VerifSnapshot, ignoreCounters bool) string {
	type f struct {
		name string
		x, y any
	}
	fs := []f{
		{"allocated", a.Allocated, b.Allocated}, {"sharingKeyForIP", a.SharingKeyForIP, b.SharingKeyForIP},
		{"portsInUse", a.PortsInUse, b.PortsInUse}, {"servicesOnIP", a.ServicesOnIP, b.ServicesOnIP},
		{"poolIPsInUse", a.PoolIPsInUse, b.PoolIPsInUse}, {"poolIPV4InUse", a.PoolIPV4InUse, b.PoolIPV4InUse},
		{"poolIPV6InUse", a.PoolIPV6InUse, b.PoolIPV6InUse},
	}
	if !ignoreCounters {
		fs = append(fs, f{"counters", a.Counters, b.Counters})
	}
	for _, x := range fs {
		if !reflect.DeepEqual(x.x, x.y) {
			return fmt.Sprintf("%s: %v != %v", x.name, x.x, x.y)
		}
	}
	return ""
}

func allocDiffField(d string) string {
	if i := strings.Index(d, ":"); i > 0 {
		return d[:i]
	}
	return d
}

// afterStep runs the step monitors on the allocator's memory.
func (e *allocEngine) afterStep(i int) {
	snap := e.a.VerifSnapshot()
	stateKey := fmt.Sprintf("%v|%v", snap.Allocated, snap.PoolNames)
	e.c.Distinct("states", stateKey)
	if e.mon.c01 {
		e.checkExclusivity(snap)
	}
	if e.mon.c11 {
		e.checkAccounting(snap)
	}
}

func (e *allocEngine) checkExclusivity(snap VerifSnapshot) {
	byIP := map[string][]string{}
	for svc, al := range snap.Allocated {
		for _, ip := range al.IPs {
			byIP[ip] = append(byIP[ip], svc)
		}
	}
	shared := false
	for _, ip := range vfSortedKeys(byIP) {
		hs := byIP[ip]
		sort.Strings(hs)
		e.c.Eval()
		if len(hs) >= 2 {
			shared = true
			var desc []string
			for _, h := range hs {
				al := snap.Allocated[h]
				desc = append(desc, fmt.Sprintf("%s/%s/%v", al.SharingKey, al.BackendKey, al.Ports))
			}
			e.c.Nontrivial("share:" + strings.Join(desc, "+"))
		}
		for x := 0; x < len(hs); x++ {
			for y := x + 1; y < len(hs); y++ {
				a, b := snap.Allocated[hs[x]], snap.Allocated[hs[y]]
				why := ""
				switch {
				case a.SharingKey == "" || b.SharingKey == "":
					why = "no-sharing-key"
				case a.SharingKey != b.SharingKey:
					why = "different-sharing-keys"
				case a.BackendKey != b.BackendKey:
					why = "different-backends"
				default:
					for _, p := range a.Ports {
						for _, q := range b.Ports {
							if p == q {
								why = "overlapping-ports"
							}
						}
					}
				}
				if why != "" {
					e.c.Violation("exclusivity:"+why, fmt.Sprintf("address %s is held by %s (key %q backend %q ports %v) and %s (key %q backend %q ports %v)",
						ip, hs[x], a.SharingKey, a.BackendKey, a.Ports, hs[y], b.SharingKey, b.BackendKey, b.Ports), nil)
				}
				// spec-level reading through the recorded Service objects
				ra, rb := e.recorded[hs[x]], e.recorded[hs[y]]
				if ra != nil && rb != nil {
					qa, qb := vfSvcRequirement(ra), vfSvcRequirement(rb)
					if !vfShareOK(&qa, &qb) {
						e.c.Violation("share:"+vfShareWhyNot(&qa, &qb), fmt.Sprintf("address %s shared by %s and %s whose specs may not share", ip, hs[x], hs[y]), nil)
					}
				}
			}
		}
		// coherence of the four maps for this address
		want := map[string]string{}
		for _, h := range hs {
			for _, p := range snap.Allocated[h].Ports {
				want[p] = h
			}
		}
		if !reflect.DeepEqual(want, mapOrEmpty(snap.PortsInUse[ip])) && len(hs) > 0 {
			// overlapping ports are reported above; report map incoherence only when owners are unambiguous
			e.c.Violation("incoherent:portsInUse", fmt.Sprintf("address %s: portsInUse=%v but holders declare %v", ip, snap.PortsInUse[ip], want), nil)
		}
		if !reflect.DeepEqual(hs, snap.ServicesOnIP[ip]) {
			e.c.Violation("incoherent:servicesOnIP", fmt.Sprintf("address %s: servicesOnIP=%v but holders are %v", ip, snap.ServicesOnIP[ip], hs), nil)
		}
		if k, ok := snap.SharingKeyForIP[ip]; !ok {
			e.c.Violation("incoherent:sharingKeyForIP-missing", fmt.Sprintf("address %s held by %v has no recorded sharing key", ip, hs), nil)
		} else {
			for _, h := range hs {
				al := snap.Allocated[h]
				if len(hs) > 1 && (al.SharingKey != k[0] || al.BackendKey != k[1]) {
					e.c.Violation("incoherent:sharingKeyForIP", fmt.Sprintf("address %s records key %v but holder %s has (%q,%q)", ip, k, h, al.SharingKey, al.BackendKey), nil)
				}
			}
		}
	}
	for ip := range snap.ServicesOnIP {
		if len(byIP[ip]) == 0 {
			e.c.Violation("incoherent:ghost-servicesOnIP", fmt.Sprintf("address %s has servicesOnIP=%v but nobody holds it", ip, snap.ServicesOnIP[ip]), nil)
		}
	}
	for ip := range snap.PortsInUse {
		if len(byIP[ip]) == 0 {
			e.c.Violation("incoherent:ghost-portsInUse", fmt.Sprintf("address %s has portsInUse=%v but nobody holds it", ip, snap.PortsInUse[ip]), nil)
		}
	}
	for ip := range snap.SharingKeyForIP {
		if len(byIP[ip]) == 0 {
			e.c.Violation("incoherent:ghost-sharingKey", fmt.Sprintf("address %s keeps a sharing key but nobody holds it", ip), nil)
		}
	}
	if shared {
		e.c.Count("step-checks-with-shared-address")
	}
}

func mapOrEmpty(m map[string]string) map[string]string {
	if m == nil {
		return map[string]string{}
	}
	return m
}

func (e *allocEngine) checkAccounting(snap VerifSnapshot) {
	// (i) equals what a fresh allocator would rebuild
	fresh := e.a.VerifRebuild().VerifSnapshot()
	e.c.Eval()
	if d := allocSnapDiff(snap, fresh, false); d != "" {
		e.c.Violation("rebuild-differs:"+allocDiffField(d), "allocator bookkeeping differs from a fresh rebuild of the surviving assignments: "+d, nil)
	}
	if len(snap.ServicesOnIP) > 0 {
		for _, l := range snap.ServicesOnIP {
			if len(l) > 1 {
				e.c.Count("rebuild-compared-with-shared-address")
				break
			}
		}
	}
	// (ii) counters
	for _, pn := range snap.PoolNames {
		p := e.model[pn]
		if p == nil {
			continue
		}
		ctr := e.a.CountersForPool(pn)
		used4, used6 := map[string]bool{}, map[string]bool{}
		for _, al := range snap.Allocated {
			for _, ip := range al.IPs {
				if !p.Contains(ip) {
					continue
				}
				if _, f, _ := vfCanonIP(ip); f == 4 {
					used4[ip] = true
				} else {
					used6[ip] = true
				}
			}
		}
		layout := allocLayoutClass(p)
		e.c.Eval()
		e.c.Distinct("pool-layouts", strings.Join(p.Strs, ";")+fmt.Sprint(p.AvoidBuggy))
		e.c.Count("counter-checks:" + layout)
		e.c.Nontrivial(fmt.Sprintf("%v|%v|%d|%d", p.Strs, p.AvoidBuggy, len(used4), len(used6)))
		if ctr.AssignedIPv4 < 0 || ctr.AssignedIPv6 < 0 || ctr.AvailableIPv4 < 0 || ctr.AvailableIPv6 < 0 {
			e.c.Violation("counters:negative:"+layout, fmt.Sprintf("pool %s %v avoidBuggy=%v reports %+v", pn, p.Strs, p.AvoidBuggy, ctr), nil)
			continue
		}
		if ctr.AssignedIPv4 != int64(len(used4)) || ctr.AssignedIPv6 != int64(len(used6)) {
			e.c.Violation("counters:assigned-wrong", fmt.Sprintf("pool %s reports assigned v4=%d v6=%d but %d / %d distinct addresses are in use", pn, ctr.AssignedIPv4, ctr.AssignedIPv6, len(used4), len(used6)), nil)
		}
		for _, fam := range []int{4, 6} {
			exact, astro := p.UsableCount(fam)
			got := ctr.AssignedIPv4 + ctr.AvailableIPv4
			if fam == 6 {
				got = ctr.AssignedIPv6 + ctr.AvailableIPv6
			}
			okExact := exact.IsInt64() && exact.Int64() == got
			okSat := astro && got == math.MaxInt64
			if !exact.IsInt64() && !astro {
				okSat = got == math.MaxInt64
			}
			if !okExact && !okSat {
				e.c.Violation("counters:total-wrong:"+layout, fmt.Sprintf("pool %s %v avoidBuggy=%v family %d: assigned+available=%d, usable addresses=%s (astronomical=%v)", pn, p.Strs, p.AvoidBuggy, fam, got, exact, astro), nil)
			}
		}
	}
}

func allocLayoutClass(p *vfMPool) string {
	cls := "plain"
	for _, s := range p.Strs {
		switch {
		case strings.HasPrefix(s, "::ffff:"):
			return "ipv4-mapped"
		case strings.HasSuffix(s, "/64") || strings.HasSuffix(s, "/48") || strings.HasSuffix(s, "/66") || strings.Contains(s, "ffff:ffff:ffff:ffff"):
			cls = "astronomical-ipv6"
		case (strings.HasSuffix(s, ".0/32") || strings.HasSuffix(s, ".255/32")) && p.AvoidBuggy && cls == "plain":
			cls = "single-buggy-address"
		case strings.HasSuffix(s, "/31") || strings.HasSuffix(s, "/32") || strings.HasSuffix(s, "/127") || strings.HasSuffix(s, "/128"):
			if cls == "plain" {
				cls = "tiny-block"
			}
		}
	}
	if cls == "astronomical-ipv6" && len(p.Strs) > 1 {
		cls = "astronomical-ipv6+other"
	}
	return cls
}

func allocRun(t *testing.T, prop string, mon allocMonitors, sizes vfSizes, rule string) {
	vfMain(t, prop, sizes, rule, func(c *vfCase) {
		e := &allocEngine{c: c, r: c.R, mon: mon, nss: allocNamespaces(), recorded: map[string]*corev1.Service{}}
		e.a = New(func(string) { e.cbCount++ })
		e.big = mon.c11 && c.R.Chance(1, 2)
		for !e.setPools(allocGenPools(c.R, e.big, []string{"p1", "p2", "p3", "p4"})) {
		}
		c.Logf("pools: %s", allocPoolDump(e.poolCR))
		n := c.R.Range(3, 6)
		for i := 0; i < n; i++ {
			e.svcs = append(e.svcs, allocGenSvc(c.R, i+1))
		}
		e.afterStep(-1)
		steps := 40
		for i := 0; i < steps; i++ {
			e.step(i)
		}
		c.Count("histories")
		if c.WantSample() && c.Idx > 3 {
			tr := c.Trace()
			if len(tr) > 14 {
				tr = tr[:14]
			}
			c.Sample(map[string]any{"history_prefix": tr})
		}
	})
}

const allocRule = "allocator API histories (40 operations over 3-6 services and 1-4 tiny pools: Assign / Allocate / AllocateFromPool / additional family / Unassign / SetPools incl. rename, re-group, flag flips); "

func TestVerif_C01(t *testing.T) {
	allocRun(t, "C01", allocMonitors{c01: true}, vfSizes{Quick: 750, Thorough: 20000},
		allocRule+"non-trivial = distinct constellation (keys, backends, ports) of >= 2 services sharing one address, observed after an operation")
}

func TestVerif_C02(t *testing.T) {
	allocRun(t, "C02", allocMonitors{c02: true}, vfSizes{Quick: 750, Thorough: 20000},
		allocRule+"non-trivial = distinct allocation event (mode, chosen pool class, competing pools)")
}

func TestVerif_C11(t *testing.T) {
	allocRun(t, "C11", allocMonitors{c11: true}, vfSizes{Quick: 750, Thorough: 20000},
		allocRule+"pool layouts incl. /31 /32 on .0/.255, avoid-buggy, /64 and shorter IPv6 prefixes combined with others; non-trivial = distinct (pool layout) whose counters were checked")
}
