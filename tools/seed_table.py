#!/usr/bin/env python3
"""seed_table.py — markdown table of /verif/seeded/RESULTS.json (written by sweep_seeds.py) for DESIGN.md."""
import json, glob, os
res = json.load(open("/verif/seeded/RESULTS.json"))
print("| seed | change | caught by | signature(s) |")
print("|---|---|---|---|")
for p in sorted(glob.glob("/verif/seeded/*/meta.json")):
    m = json.load(open(p))
    if m.get("discarded"):
        continue
    r = res.get(m["id"])
    if not r:
        print("| %s | %s | (not swept) | |" % (m["id"], m["breaks"][:110]))
        continue
    by = r["caught_by"]
    sig = "; ".join("`%s`" % s for s in r["checks"][by]["signatures"][:2]) if by else ""
    note = by or "**missed**"
    if not by and r.get("expected_miss"):
        note = "not caught (out of reach: %s)" % r["expected_miss"]
    if by and by != m["property"]:
        note = "%s (sister check; own check silent)" % by
    print("| %s | %s | %s | %s |" % (m["id"], m["breaks"][:110].replace("|", "/"), note, sig.replace("|", "\\|")))
