#!/usr/bin/env python3
"""update_design_table.py — replaces the seeded-break table of DESIGN.md (7.6) by the output of seed_table.py."""
import subprocess, re
t = subprocess.check_output(["python3", "/verif/tools/seed_table.py"], text=True)
p = "/verif/DESIGN.md"
s = open(p).read()
a = s.index("| seed | change | caught by | signature(s) |")
b = s.index("(`caught by` other than the seed's own property", a)
s = s[:a] + t + "\n" + s[b:]
open(p, "w").write(s)
print("table rows:", t.count("\n") - 2)
