#!/usr/bin/env python3
"""Prints the prompt given to an independent 'break' sub-agent for one property (property text only)."""
import json, sys
pid = sys.argv[1]
round2 = len(sys.argv) > 2 and sys.argv[2] == "--round2"
round3 = len(sys.argv) > 2 and sys.argv[2] == "--round3"
wt = "/tmp/brk-%s" % pid
for l in open('/verif/properties.jsonl'):
    p = json.loads(l)
    if p['id'] == pid:
        break
else:
    sys.exit("no such property")
ROUND2 = ""
if round2:
    ROUND2 = ("This is a SECOND round: an earlier round already produced the obvious breaks (direct edits of the central comparison, validation or loop of the main function the property is about). Look further from the centre: helper functions, event plumbing and re-sync requests, caches / short-circuit optimisations ('nothing changed, skip'), error and retry paths, cleanup on delete / rename / reconfiguration, rarely used options and option combinations, state kept across reconnects or restarts, aliasing of shared slices / maps, value-vs-pointer receivers, lock scope. Prefer changes whose effect shows only after a particular sequence of events.\n\n")
if round3:
    ROUND2 = ("This is a THIRD round. Earlier rounds already produced: direct edits of the central comparison / validation / loop; 'nothing changed, skip' caches and short-circuits; a rejected call leaving partial state behind; state that sticks across reconnects; narrowed or reordered locks and value receivers; aliasing of shared slices and maps (including a consumer writing into the shared configuration); map-iteration order leaking into results; a lost 're-sync everything' request; annotation precedence slips; one-sided comparisons of sorted lists. Do NOT repeat those. Look for other kinds: the interaction of two components that each look right alone (controller and allocator, speaker and session manager / announcer, reconciler and handler, parser and consumer); boundary values (empty sets, single element, maximum sizes, first/last address of a range, prefix lengths 0/31/32/127/128, ASN and port limits); rarely used API fields and their combinations; behaviour under injected failures (API write conflicts, refused connections, failing reloads) and what is kept or lost when they stop; timers, back-off and ordering of asynchronous notifications; deletion and re-creation of an object under the same name; a status / metrics / reporting path that feeds back into a decision. Each change must still pass the whole existing suite.\n\n")
print(f"""You are given one semantic property of MetalLB (bare-metal Kubernetes LoadBalancer: controller with an IP-pool allocator, speaker with native BGP / FRR config generation / ARP-NDP layer-2 announcer; Go) and your own scratch git worktree of its repository at {wt}. Work ONLY inside {wt} (never touch /repo, never read or touch /verif).

PROPERTY {p['id']}: {p['title']}
Statement: {p['statement']}
Quantified over ({', '.join(p['quantifier']['over'])}): {p['quantifier']['text']}

TASK: produce changes to MetalLB's non-test source code that BREAK this property while the code still compiles and the EXISTING test suite still passes — the kind of realistic bug a developer could introduce (refactoring slip, off-by-one, wrong comparison, missing case, dropped or narrowed lock, reordered steps, forgotten cleanup, early return). Each change must need something SPECIFIC to manifest: a particular interleaving, a crash or fault at a particular point, a multi-step sequence of operations, an unusual input, or two cooperating sites that each look fine alone — NOT something ordinary use (or the simplest happy-path call) would expose at once. Aim for 3 different changes with different mechanisms / different clauses of the statement, each as an independent patch against the unmodified worktree.

For each change provide a demonstration: a Go test file (in the relevant package of the worktree) or small program that FAILS with the change applied and PASSES on the unmodified worktree. 

Procedure per change k = 1,2,3: edit the source in the worktree; run the existing tests of every package that could be affected AND their dependents (at least `go test -vet=off -count=1 ./internal/... ./controller/... ./speaker/... ./api/...` from {wt}; the package internal/bgp/frr needs Docker for some tests: those that already fail/skip on the unmodified tree do not count) and confirm they still pass; write the demonstration test and confirm it fails with the change and passes without (save your change with `git diff > /tmp/<your own name>.diff`, `git checkout -- .`, and re-apply with `git apply`; NEVER use `git stash`: the stash is shared by every worktree of this repository and other people work in sibling worktrees); then save under {wt}/_out/{{k}}/: `patch.diff` (output of `git diff` for the source change only, NOT including the demo), the demo file(s), and `notes.md` (which clause of the statement it breaks, what it needs in order to manifest, exact commands you ran and their results). Then `git checkout -- .` (keep _out and untracked demo copies out of the source tree) before starting the next change.

Environment: no network. Use `export GOFLAGS=-mod=mod GOPROXY=off` and do NOT set GOSUMDB or GOTOOLCHAIN (both break the build here). The default `go` works from inside the worktree. Keep it efficient: read the code the property is about, pick subtle spots, do not rewrite large pieces.

{ROUND2}Final reply: a short list of the changes (one paragraph each: file/function changed, what breaks, what is needed to manifest, demo command), and any change you tried that the existing tests caught (so it was discarded).""")
