#!/usr/bin/env python3
"""import_seed.py <prop> <k> <seed id> <demo pkg dir> <needs> <breaks> — copies /tmp/brk-<prop>/_out/<k> to /verif/seeded/<id>"""
import json, os, shutil, glob, re, sys
prop, k, sid, pkgdir, needs, breaks = sys.argv[1:7]
src = "/tmp/brk-%s/_out/%s" % (prop, k)
dst = "/verif/seeded/%s" % sid
os.makedirs(dst, exist_ok=True)
shutil.copy(src + "/patch.diff", dst + "/patch.diff")
demos = sorted(os.path.basename(f) for f in glob.glob(src + "/*_test.go"))
extra = sorted(os.path.basename(f) for f in glob.glob("/tmp/brk-%s/_out/*_test.go" % prop))  # shared helpers
for d in demos:
    shutil.copy(src + "/" + d, dst + "/" + d)
for d in extra:
    shutil.copy("/tmp/brk-%s/_out/%s" % (prop, d), dst + "/" + d)
if os.path.exists(src + "/notes.md"):
    shutil.copy(src + "/notes.md", dst + "/notes.md")
names = []
for d in demos:
    names += re.findall(r"func (Test\w+)\(", open(dst + "/" + d).read())
# common prefix of the demo test names
pref = os.path.commonprefix(names) if names else "Test"
meta = {"id": sid, "property": prop, "breaks": breaks, "needs_to_manifest": needs,
        "demo_pkg_dir": pkgdir, "demo_files": demos + extra,
        "demo_cmd": "go test -vet=off -count=1 -run '^%s' ./%s/" % (pref, pkgdir),
        "origin": "independent sub-agent given only the property text and a scratch worktree"}
json.dump(meta, open(dst + "/meta.json", "w"), indent=1)
print(sid, demos + extra, meta["demo_cmd"])
