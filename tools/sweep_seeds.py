#!/usr/bin/env python3
"""sweep_seeds.py [seed id ...] — runs, for every seeded break under /verif/seeded (or the ones named), the
quick check of the seed's property against a scratch worktree of /repo HEAD with the patch applied
(tools/try_patch.sh). A seed its own check does not catch is also tried against the sister checks listed in
its meta.json ("check_with"). Results go to /verif/seeded/RESULTS.json (seed -> check -> exit, signatures)
and are summarised on stdout. /repo is never modified; every worktree is removed."""
import json, os, re, subprocess, sys, glob, time

os.chdir("/verif")
ids = sys.argv[1:] or sorted(os.path.basename(os.path.dirname(p)) for p in glob.glob("seeded/*/meta.json"))
res_p = "seeded/RESULTS.json"
results = json.load(open(res_p)) if os.path.exists(res_p) else {}
head = subprocess.check_output(["git", "-C", "/repo", "rev-parse", "--short", "HEAD"], text=True).strip()

def run(prop, patch):
    t0 = time.time()
    r = subprocess.run(["tools/try_patch.sh", prop, patch], stdout=subprocess.PIPE, stderr=subprocess.STDOUT, text=True)
    sigs = []
    for m in re.finditer(r"^\s*violation \[([^\]]+)\]", r.stdout, re.M):
        if m.group(1) not in sigs:
            sigs.append(m.group(1))
    return {"exit": r.returncode, "signatures": sigs[:8], "wall_s": round(time.time() - t0, 1)}

for sid in ids:
    meta = json.load(open("seeded/%s/meta.json" % sid))
    if meta.get("discarded"):
        continue
    patch = os.path.abspath("seeded/%s/patch.diff" % sid)
    out = {"repo_head": head, "checks": {}}
    caught = None
    for prop in [meta["property"]] + meta.get("check_with", []):
        o = run(prop, patch)
        out["checks"][prop] = o
        if o["exit"] == 1 and o["signatures"]:
            caught = prop
            break
    out["caught_by"] = caught
    if not caught and meta.get("expected_miss"):
        out["expected_miss"] = meta["expected_miss"]
    results[sid] = out
    json.dump(results, open(res_p, "w"), indent=1, sort_keys=True)
    print("%-8s %-7s %s" % (sid, "caught:" + caught if caught else "MISSED", "; ".join(out["checks"][caught]["signatures"][:3]) if caught else out["checks"]), flush=True)
missed = [s for s in ids if s in results and not results[s]["caught_by"] and not results[s].get("expected_miss")]
print("seeds: %d  missed: %s" % (len(ids), missed))
sys.exit(1 if missed else 0)
