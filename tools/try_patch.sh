#!/bin/bash
# usage: try_patch.sh <property id> <patch.diff> [tier]  — runs the check against a scratch worktree of
# /repo HEAD with the patch applied (so that /repo itself is not disturbed), then removes the worktree.
id=$1; patch=$2; tier=${3:-quick}
wt=/tmp/seedtest-$id-$$
git -C /repo worktree add -q --detach $wt HEAD || exit 3
if ! git -C $wt apply "$patch"; then echo "PATCH DOES NOT APPLY"; git -C /repo worktree remove --force $wt; exit 3; fi
cd /verif && VERIF_REPO=$wt ./vcheck $id --tier $tier --no-evidence 2>&1 | grep -v "observed" | sed "s|$wt|/repo|g"
rc=${PIPESTATUS[0]}
git -C /repo worktree remove --force $wt
echo "exit=$rc"
exit $rc
