#!/usr/bin/env python3
"""confirm_seed.py <seed dir> — confirms a seeded break in a scratch worktree of /repo HEAD:
  1. the demonstration passes on the unmodified tree,
  2. the patch applies and everything builds,
  3. the demonstration fails with the patch,
  4. the repository's pinned baseline tests (module root) still pass with the patch.
Writes the outcome into <seed dir>/meta.json ("confirmed": {...}). The worktree is removed afterwards."""
import json, os, subprocess, sys, shutil, tempfile, glob

seed = os.path.abspath(sys.argv[1])
meta_p = os.path.join(seed, "meta.json")
meta = json.load(open(meta_p))
env = dict(os.environ, GOFLAGS="-mod=mod", GOPROXY="off")
env.pop("GOSUMDB", None); env.pop("GOTOOLCHAIN", None)
wt = tempfile.mkdtemp(prefix="seedconfirm-", dir="/tmp")
os.rmdir(wt)
def sh(cmd, **kw):
    return subprocess.run(cmd, shell=True, cwd=kw.get("cwd", wt), env=env, stdout=subprocess.PIPE, stderr=subprocess.STDOUT, text=True)
subprocess.check_call(["git", "-C", "/repo", "worktree", "add", "-q", "--detach", wt, "HEAD"])
res = {"repo_head": subprocess.check_output(["git", "-C", "/repo", "rev-parse", "--short", "HEAD"], text=True).strip()}
try:
    demo_dir = meta["demo_pkg_dir"]
    os.makedirs(os.path.join(wt, demo_dir), exist_ok=True)
    fdir = lambda f: meta.get("demo_file_dirs", {}).get(f, demo_dir)  # a demonstration may span packages
    for f in meta["demo_files"]:
        shutil.copy(os.path.join(seed, f), os.path.join(wt, fdir(f), f))
    demo_cmd = meta["demo_cmd"]
    if meta.get("demo_overlay"):  # {file in the tree: replacement kept in the seed directory} (e.g. a Docker-less TestMain)
        ov = {"Replace": {os.path.join(wt, k): os.path.join(seed, v) for k, v in meta["demo_overlay"].items()}}
        json.dump(ov, open(wt + "/.seed_overlay.json", "w"))
        demo_cmd = demo_cmd.replace("go test ", "go test -overlay=%s/.seed_overlay.json " % wt, 1)
    r = sh(demo_cmd)
    res["demo_passes_without_patch"] = r.returncode == 0
    res["demo_without_tail"] = r.stdout[-600:]
    r = sh("git apply %s" % os.path.join(seed, "patch.diff"))
    res["patch_applies"] = r.returncode == 0
    r = sh("go build ./... && go vet ./%s" % demo_dir if False else "go build ./...")
    res["builds"] = r.returncode == 0
    r = sh(demo_cmd)
    res["demo_fails_with_patch"] = r.returncode != 0
    res["demo_with_tail"] = r.stdout[-1200:]
    # baseline with the patch, demo removed
    for f in meta["demo_files"]:
        os.remove(os.path.join(wt, fdir(f), f))
    r = sh("go test -json -vet=off -count=1 -timeout 25m ./... 2>&1")
    status = {}
    for line in r.stdout.splitlines():
        try:
            e = json.loads(line)
        except ValueError:
            continue
        if e.get("Test") and e.get("Action") in ("pass", "fail", "skip"):
            status["%s::%s" % (e["Package"], e["Test"])] = e["Action"]
    base = json.load(open("/root/.vp/BASELINE.json"))
    want = [t for t in base["stable_pass"] if t.startswith("go.universe.tf/metallb/")]
    notpass = [t for t in want if status.get(t) != "pass"]
    res["baseline_tests_expected"] = len(want)
    res["baseline_not_passing_with_patch"] = notpass[:20]
    res["baseline_passes_with_patch"] = len(notpass) == 0
finally:
    subprocess.call(["git", "-C", "/repo", "worktree", "remove", "--force", wt])
res["ok"] = all(res.get(k) for k in ("demo_passes_without_patch", "patch_applies", "builds", "demo_fails_with_patch", "baseline_passes_with_patch"))
meta["confirmed"] = res
json.dump(meta, open(meta_p, "w"), indent=1)
print(seed, "OK" if res["ok"] else "NOT CONFIRMED", {k: v for k, v in res.items() if isinstance(v, bool)})
sys.exit(0 if res["ok"] else 1)
