#!/bin/bash
# Runs the repository's pinned baseline suite with the verification guard (build tag "verif") OFF.
# Nothing of /verif is compiled in: the harness lives outside /repo and is only injected with
# `go test -tags verif -overlay ...` by /verif/vcheck.
export GOFLAGS=-mod=mod GOPROXY=off
mods=". ./e2etest ./website/themes/hugo-theme-relearn"
if [ -f /w/out/gomods.txt ]; then mods=$(cat /w/out/gomods.txt); fi
rc=0
for m in $mods; do
  [ -f /repo/$m/go.mod ] || continue
  MF="-mod=mod"
  gw=$(cd /repo/$m && go env GOWORK 2>/dev/null)
  if [ -n "$gw" ] && [ "$gw" != off ]; then MF=""; fi
  (cd /repo/$m && GOFLAGS= GOPROXY=off go test $MF -json -vet=off -count=1 -timeout 25m ./...)
  rc=$?
done
# like the pinned baseline command, the exit status is that of the last module; the verdicts are in the
# JSON stream (TestManager of internal/k8s/controllers fails in BASELINE.json as well: always_fail)
exit $rc
