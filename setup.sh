#!/bin/bash
# Offline setup: pre-builds every harness test binary once so that the Go build cache is warm.
cd "$(dirname "$0")"
python3 gen_manifest.py >/dev/null || exit 1
rc=0
for id in $(python3 -c "from manifest_meta import CLAIMED; print(' '.join(sorted(CLAIMED)))"); do
  ./vcheck $id --build-only || rc=1
done
exit $rc
