# Static configuration of the checks: harnessed packages and per-property runs.

PACKAGES = {
    # key -> dir under /repo, package clause, lib files (harness/lib) compiled into the test binary,
    # hook_deps: other package keys whose hook_*.go files must be overlaid as well
    "config": {"dir": "internal/config", "name": "config", "libs": ["ipset.go"]},
    "controllers": {"dir": "internal/k8s/controllers", "name": "controllers", "libs": []},
    "native": {"dir": "internal/bgp/native", "name": "native", "libs": ["rfc4271.go"]},
    "allocator": {"dir": "internal/allocator", "name": "allocator", "libs": ["ipset.go", "allocmodel.go", "allocchecks.go", "allocgen.go"]},
    "controller": {"dir": "controller", "name": "main", "libs": ["ipset.go", "allocmodel.go", "allocchecks.go", "allocgen.go", "boxkernel.go"], "hook_deps": ["allocator"]},
    "speaker": {"dir": "speaker", "name": "main", "libs": ["ipset.go"], "hook_deps": ["layer2"]},
    "layer2": {"dir": "internal/layer2", "name": "layer2", "libs": []},
    "frr": {"dir": "internal/bgp/frr", "name": "frr", "libs": ["frrinterp.go"]},
    "frrk8s": {"dir": "internal/bgp/frrk8s", "name": "frr", "libs": ["frrinterp.go"], "hook_deps": ["frr"]},
}


def run(pkg, test, race=False, shards=(1, 16), timeout=(600, 3000), files=None):
    r = {"pkg": pkg, "test": test, "race": race,
         "shards": {"quick": shards[0], "thorough": shards[1]},
         "timeout": {"quick": timeout[0], "thorough": timeout[1]}}
    if files:
        r["files"] = files   # prefixes of harness/<pkg>/*_test.go files compiled in (default: <id>, shared)
    return r


# Every property has an entry here so that its harness can be built and run with ./vcheck; only the
# ids listed in manifest_meta.CLAIMED are registered in MANIFEST.json.
PROPS = {
    "C01": {"level": "exploration", "runs": [run("allocator", "TestVerif_C01", shards=(4, 16), files=["alloc", "shared"]),
                                             run("controller", "TestVerif_C01", shards=(4, 16), files=["box", "shared"])]},
    "C02": {"level": "exploration", "runs": [run("allocator", "TestVerif_C02", shards=(4, 16), files=["alloc", "shared"]),
                                             run("controller", "TestVerif_C02", shards=(4, 16), files=["box", "shared"])]},
    "C03": {"level": "exploration", "runs": [run("controller", "TestVerif_C03", shards=(4, 16), files=["box", "shared"])]},
    "C04": {"level": "exploration", "runs": [run("speaker", "TestVerif_C04", shards=(4, 16), files=["c04", "direct", "shared"])]},
    "C05": {"level": "exploration", "runs": [run("speaker", "TestVerif_C05", shards=(4, 16), files=["sbox", "shared"])]},
    "C06": {"level": "fault_enumeration", "runs": [run("controller", "TestVerif_C06", shards=(4, 16), files=["box", "shared"])]},
    "C07": {"level": "exploration", "runs": [run("controller", "TestVerif_C07", shards=(4, 16), files=["box", "shared"])]},
    "C08": {
        "level": "exploration",
        "runs": [run("config", "TestVerif_C08", shards=(4, 16))],
        "thresholds": {"quick": {"accepted": 1000, "accepted-with-2+-pools": 300, "rejected-for-overlap": 300,
                                 "accepted-pool-with-bgpadv": 100}},
        "assumptions": ["the oracle's reading of the address notations (netip parser, IPv4-mapped normalised to IPv4)",
                        "only accepted configurations are judged; over-rejection is never reported"],
    },
    "C09": {"level": "exploration", "runs": [run("speaker", "TestVerif_C09", shards=(4, 16), files=["sbox", "shared"])]},
    "C10": {"level": "exploration", "runs": [run("speaker", "TestVerif_C10", shards=(4, 16), files=["c10", "direct", "shared"])]},
    "C11": {"level": "exploration", "runs": [run("allocator", "TestVerif_C11", shards=(4, 16), files=["alloc", "shared"]),
                                             run("controller", "TestVerif_C11", shards=(4, 16), files=["box", "shared"])]},
    "C12": {"level": "exploration", "runs": [run("speaker", "TestVerif_C12", shards=(4, 16), files=["c12", "direct", "shared"])]},
    "C13": {"level": "exploration", "runs": [run("layer2", "TestVerif_C13", race=True, shards=(4, 16))]},
    "C14": {"level": "translation_validation", "runs": [run("frr", "TestVerif_C14", shards=(4, 16), files=["c14", "shared"])]},
    "C15": {"level": "translation_validation", "runs": [run("frrk8s", "TestVerif_C15", shards=(4, 16))]},
    "C16": {"level": "exploration", "runs": [run("native", "TestVerif_C16", shards=(4, 16), files=["c16", "shared"])]},
    "C17": {"level": "fault_enumeration", "runs": [run("native", "TestVerif_C17", race=True, shards=(4, 16), files=["c17", "shared"])]},
    "C18": {"level": "exploration", "runs": [run("controllers", "TestVerif_C18", shards=(4, 16))]},
    "C19": {"level": "fault_enumeration", "runs": [run("frr", "TestVerif_C19", race=True, shards=(4, 16)),
                                                   run("controllers", "TestVerif_C19", race=True, shards=(2, 8))]},
    "C20": {"level": "exploration", "runs": [run("controller", "TestVerif_C20", race=True, shards=(2, 16), files=["c20", "box", "shared"]),
                                             run("speaker", "TestVerif_C20", race=True, shards=(2, 16), files=["c20", "sbox", "shared"])]},
}
