# Static configuration of the checks: harnessed packages and per-property runs.

PACKAGES = {
    # key -> dir under /repo, package clause, lib files (harness/lib) compiled into the test binary,
    # hook_deps: other package keys whose hook_*.go files must be overlaid as well
    "config": {"dir": "internal/config", "name": "config", "libs": ["ipset.go"]},
    "controllers": {"dir": "internal/k8s/controllers", "name": "controllers", "libs": []},
    "native": {"dir": "internal/bgp/native", "name": "native", "libs": []},
    "allocator": {"dir": "internal/allocator", "name": "allocator", "libs": ["ipset.go"]},
    "controller": {"dir": "controller", "name": "main", "libs": ["ipset.go"], "hook_deps": ["allocator"]},
    "speaker": {"dir": "speaker", "name": "main", "libs": ["ipset.go"], "hook_deps": ["layer2"]},
    "layer2": {"dir": "internal/layer2", "name": "layer2", "libs": []},
    "frr": {"dir": "internal/bgp/frr", "name": "frr", "libs": []},
    "frrk8s": {"dir": "internal/bgp/frrk8s", "name": "frrk8s", "libs": [], "hook_deps": ["frr"]},
}


def run(pkg, test, race=False, shards=(1, 16), timeout=(600, 3000)):
    return {"pkg": pkg, "test": test, "race": race,
            "shards": {"quick": shards[0], "thorough": shards[1]},
            "timeout": {"quick": timeout[0], "thorough": timeout[1]}}


PROPS = {
    "C08": {
        "level": "exploration",
        "runs": [run("config", "TestVerif_C08", shards=(4, 16))],
        "thresholds": {"quick": {"accepted": 1000, "accepted-with-2+-pools": 300, "rejected-for-overlap": 300,
                                 "accepted-pool-with-bgpadv": 100}},
        "assumptions": ["the oracle's reading of the address notations (netip parser, IPv4-mapped normalised to IPv4)",
                        "only accepted configurations are judged; over-rejection is never reported"],
    },
}
