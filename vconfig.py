# Static configuration of the checks: harnessed packages and per-property runs.

PACKAGES = {
    # key -> dir under /repo, package clause, lib files (harness/lib) compiled into the test binary,
    # hook_deps: other package keys whose hook_*.go files must be overlaid as well
    "config": {"dir": "internal/config", "name": "config", "libs": ["ipset.go"]},
    "controllers": {"dir": "internal/k8s/controllers", "name": "controllers", "libs": []},
    "native": {"dir": "internal/bgp/native", "name": "native", "libs": ["rfc4271.go"]},
    "allocator": {"dir": "internal/allocator", "name": "allocator", "libs": ["ipset.go", "allocmodel.go", "allocchecks.go", "allocgen.go"]},
    "controller": {"dir": "controller", "name": "main", "libs": ["ipset.go", "allocmodel.go", "allocchecks.go", "allocgen.go", "boxkernel.go"], "hook_deps": ["allocator"]},
    "speaker": {"dir": "speaker", "name": "main", "libs": ["ipset.go", "allocmodel.go", "boxkernel.go"], "hook_deps": ["layer2"]},
    "layer2": {"dir": "internal/layer2", "name": "layer2", "libs": []},
    "frr": {"dir": "internal/bgp/frr", "name": "frr", "libs": ["frrinterp.go"]},
    "frrk8s": {"dir": "internal/bgp/frrk8s", "name": "frr", "libs": ["frrinterp.go"], "hook_deps": ["frr"]},
}


def run(pkg, test, race=False, shards=(1, 16), timeout=(600, 3000), files=None):
    r = {"pkg": pkg, "test": test, "race": race,
         "shards": {"quick": shards[0], "thorough": shards[1]},
         "timeout": {"quick": timeout[0], "thorough": timeout[1]}}
    if files:
        r["files"] = files   # prefixes of harness/<pkg>/*_test.go files compiled in (default: <id>, shared)
    return r


# Every property has an entry here so that its harness can be built and run with ./vcheck; only the
# ids listed in manifest_meta.CLAIMED are registered in MANIFEST.json.
PROPS = {
    "C01": {"level": "exploration", "runs": [run("allocator", "TestVerif_C01", shards=(4, 16), files=["alloc", "shared"]),
                                             run("controller", "TestVerif_C01", shards=(4, 16), files=["box", "shared"])],
            "thresholds": {"quick": {"step-checks-with-shared-address": 1500, "refused-sharing-attempts": 300, "quiescent-shared-addresses": 60, "histories": 3000}},
            "assumptions": ["the box reproduces controller-runtime semantics that matter (per-reconciler queues with de-duplication, one worker each, error -> retry, reload key) and the API server's optimistic concurrency on status writes; MetalLB-internal map iteration order is not controlled, so a replay may take another but equally valid path", "the reference model of allocation rules is written from the property statements (harness/lib/allocmodel.go)"]},
    "C02": {"level": "exploration", "runs": [run("allocator", "TestVerif_C02", shards=(4, 16), files=["alloc", "shared"]),
                                             run("controller", "TestVerif_C02", shards=(4, 16), files=["box", "shared"])],
            "thresholds": {"quick": {"event:explicit-pool": 800, "event:explicit-addresses": 50, "event:pinned": 900, "event:unpinned": 1800, "event:autoassign-false-pool-had-free-address": 200, "placements-judged": 2500}},
            "assumptions": ["the box reproduces controller-runtime semantics that matter (per-reconciler queues with de-duplication, one worker each, error -> retry, reload key) and the API server's optimistic concurrency on status writes; MetalLB-internal map iteration order is not controlled, so a replay may take another but equally valid path", "the reference model of allocation rules is written from the property statements (harness/lib/allocmodel.go)"]},
    "C03": {"level": "exploration", "runs": [run("controller", "TestVerif_C03", shards=(4, 16), files=["box", "shared"])],
            "thresholds": {"quick": {"innocent-service-windows": 3000, "innocent-service-windows-with-foreign-events": 2000, "resyncs-checked-for-zero-writes": 100}},
            "assumptions": ["the box reproduces controller-runtime semantics that matter (per-reconciler queues with de-duplication, one worker each, error -> retry, reload key) and the API server's optimistic concurrency on status writes; MetalLB-internal map iteration order is not controlled, so a replay may take another but equally valid path", "the reference model of allocation rules is written from the property statements (harness/lib/allocmodel.go)"]},
    "C04": {"level": "exploration", "runs": [run("speaker", "TestVerif_C04", shards=(4, 16), files=["c04", "direct", "shared"])],
            "thresholds": {"quick": {"views-eligible-2+": 70000, "views-eligible-0": 300000, "views-eligible-1": 150000, "sibling-services-both-elect": 90000}},
            "assumptions": ["the view (nodes, speaker list, pool advertisements, endpoint slices) is an input; memberlist itself is not exercised", "exhaustive only for the bounded space named in DESIGN C04 (thorough tier)"]},
    "C05": {"level": "exploration", "runs": [run("speaker", "TestVerif_C05", shards=(4, 16), files=["sbox", "shared"])],
            "thresholds": {"quick": {"quiescent-points": 1500, "quiescent-points-with-expected-routes": 150, "step-checks-with-routes": 700, "bgp-service:announced": 500, "sessions-created": 100}},
            "assumptions": ["the box reproduces the watch predicates and queue semantics of the Service / Config / Node reconcilers; the membership view (speaker list) is an input; the BGP backend is a recording SessionManager, the layer-2 backend the real announcer over in-memory responders", "the generator plays the controller (writes Service statuses); every history keeps the configuration resources valid"]},
    "C06": {"level": "fault_enumeration", "runs": [run("controller", "TestVerif_C06", shards=(4, 16), files=["box", "shared"])],
            "thresholds": {"quick": {"crashes-executed": 150, "crash-kind:before-status-write": 15, "crash-kind:after-status-write": 15, "crash-kind:in-service-reconcile": 60, "crash-kind:in-pool-reconcile": 25, "failed-writes-injected": 300, "recorded-services-that-must-keep-their-addresses": 90}},
            "assumptions": ["the box reproduces controller-runtime semantics that matter (per-reconciler queues with de-duplication, one worker each, error -> retry, reload key) and the API server's optimistic concurrency on status writes; MetalLB-internal map iteration order is not controlled, so a replay may take another but equally valid path", "the reference model of allocation rules is written from the property statements (harness/lib/allocmodel.go)"]},
    "C07": {"level": "exploration", "runs": [run("controller", "TestVerif_C07", shards=(4, 16), files=["box", "shared"])],
            "thresholds": {"quick": {"quiescent-points-with-pending-service": 2500, "pending-with-empty-admissible-set": 6000}},
            "assumptions": ["the box reproduces controller-runtime semantics that matter (per-reconciler queues with de-duplication, one worker each, error -> retry, reload key) and the API server's optimistic concurrency on status writes; MetalLB-internal map iteration order is not controlled, so a replay may take another but equally valid path", "the reference model of allocation rules is written from the property statements (harness/lib/allocmodel.go)", "sharing is demanded only for pairs every reading allows (both Cluster, or both Local with identical selectors)"]},
    "C08": {
        "level": "exploration",
        "runs": [run("config", "TestVerif_C08", shards=(4, 16))],
        "thresholds": {"quick": {"accepted": 1000, "accepted-with-2+-pools": 300, "rejected-for-overlap": 300,
                                 "accepted-pool-with-bgpadv": 100}},
        "assumptions": ["the oracle's reading of the address notations (netip parser, IPv4-mapped normalised to IPv4)",
                        "only accepted configurations are judged; over-rejection is never reported"],
    },
    "C09": {"level": "exploration", "runs": [run("speaker", "TestVerif_C09", shards=(4, 16), files=["sbox", "shared"])],
            "thresholds": {"quick": {"fresh-comparisons": 1000, "quiescent-points-with-announcements": 230, "withdrawals-to-nothing": 30}},
            "assumptions": ["the box reproduces the watch predicates and queue semantics of the Service / Config / Node reconcilers; the membership view (speaker list) is an input; the BGP backend is a recording SessionManager, the layer-2 backend the real announcer over in-memory responders", "the generator plays the controller (writes Service statuses); every history keeps the configuration resources valid", "the reference (freshly started) speaker hears of the nodes before configuration and services; the start-order dependence of the real speaker is a known finding"]},
    "C10": {"level": "exploration", "runs": [run("speaker", "TestVerif_C10", shards=(4, 16), files=["c10", "direct", "shared"])],
            "thresholds": {"quick": {"decision:announce:Cluster": 120000, "decision:announce:Local": 80000, "decision:refuse:noLocalEndpoints": 70000, "decision:refuse:nodeLabeledExcludeBalancers": 100000, "layouts-with-conflicting-repeated-address": 600000}},
            "assumptions": ["under the Local policy the same endpoint address on different nodes with conflicting conditions is ambiguous in the statement: counted, not judged"]},
    "C11": {"level": "exploration", "runs": [run("allocator", "TestVerif_C11", shards=(4, 16), files=["alloc", "shared"]),
                                             run("controller", "TestVerif_C11", shards=(4, 16), files=["box", "shared"])],
            "thresholds": {"quick": {"releases-probed": 1800, "rebuild-compared-with-shared-address": 1500, "counter-checks:astronomical-ipv6+other": 1500, "counter-checks:single-buggy-address": 3000, "counter-checks:tiny-block": 20000}},
            "assumptions": ["the box reproduces controller-runtime semantics that matter (per-reconciler queues with de-duplication, one worker each, error -> retry, reload key) and the API server's optimistic concurrency on status writes; MetalLB-internal map iteration order is not controlled, so a replay may take another but equally valid path", "the reference model of allocation rules is written from the property statements (harness/lib/allocmodel.go)"]},
    "C12": {"level": "exploration", "runs": [run("speaker", "TestVerif_C12", shards=(4, 16), files=["c12", "direct", "shared"])],
            "thresholds": {"quick": {"announcer-changed:owner-loss": 25000, "announcer-changed:newcomer-wins": 16000, "announcer-kept": 50000, "removal:speaker-death": 5000, "removal:lost-local-endpoint": 5000, "permutations-compared": 17000}},
            "assumptions": ["the argmin clause (sha256 of node#address) is taken from the mechanism anchor and the layer-2 concept documentation"]},
    "C13": {"level": "exploration", "runs": [run("layer2", "TestVerif_C13", race=True, shards=(4, 16))],
            "thresholds": {"quick": {"contended-operations": 10000, "contended-requests": 3500, "histories-with-contended-request": 1400, "frames-captured": 34000}},
            "assumptions": ["porcupine v1.3.0 decides linearizability of the recorded histories; the sequential model is the harness's own", "NDP is covered through the shouldAnnounce decision only (no real ndpResponder on a sandbox interface)"]},
    "C14": {"level": "translation_validation", "runs": [run("frr", "TestVerif_C14", shards=(4, 16), files=["c14", "shared"])],
            "thresholds": {"quick": {"programs": 1400, "programs-2+-neighbors-disjoint-requests": 400, "must-deny-evaluations": 4000, "merged-duplicates": 2000, "order-permutations-compared": 5000}},
            "assumptions": ["trusted base: the harness's reading of FRR route-map / prefix-list / network semantics (harness/lib/frrinterp.go, written from the FRR documentation); no FRR binary is available", "community lists are passed sorted, as the speaker does"]},
    "C15": {"level": "translation_validation", "runs": [run("frrk8s", "TestVerif_C15", shards=(4, 16))],
            "thresholds": {"quick": {"programs": 1400, "programs-2+-neighbors-disjoint-requests": 400, "must-deny-evaluations": 4000, "merged-duplicates": 2000, "order-permutations-compared": 5000, "crosscheck-programs": 1400}},
            "assumptions": ["SourceAddress propagation is not demanded (the golden files pin its absence)", "cross-check against the C14 interpretation of the FRR text rendered from the same sessions"]},
    "C16": {"level": "exploration", "runs": [run("native", "TestVerif_C16", shards=(4, 16), files=["c16", "shared"])],
            "thresholds": {"quick": {"decoded:update": 11000, "decoded:withdraw": 250, "decoded:open": 170, "decoded:keepalive": 50, "open-inputs:valid": 16000, "open-inputs:mutated": 25000, "open-inputs:random": 12000, "open-wellformed-judged:valid": 16000}},
            "assumptions": ["the harness's own RFC 4271/5492/4760/6793/1997 codec (harness/lib/rfc4271.go) is the reference decoder"]},
    "C17": {"level": "fault_enumeration", "runs": [run("native", "TestVerif_C17", race=True, shards=(4, 16), files=["c17", "shared"])],
            "thresholds": {"quick": {"scenarios": 25, "scenarios:converged": 17, "connections:established": 40, "faults:drop:idle": 3, "faults:drop:between-messages": 3, "faults:drop:inside-message": 4, "reconnect-resends-verified": 9, "withdraw-messages": 23, "wrong-asn-refusals-verified": 3, "close-windows-watched": 25}},
            "assumptions": ["bounded-progress restatement of convergence (20 s + canary-clean confirmation period); TCP-MD5 is not exercised", "the scripted peer uses the harness's own RFC 4271 codec"]},
    "C18": {"level": "exploration", "runs": [run("controllers", "TestVerif_C18", shards=(4, 16))],
            "thresholds": {"quick": {"snapshots-3+-objects-per-kind": 200, "permutations-compared": 10000, "repetitions-compared": 3800, "snapshots-2+-pools-one-namespace": 200, "snapshots-2+-pools-one-namespace-by-selector": 90, "snapshots-accepted": 140, "reconciles": 12000, "handler-calls": 900}},
            "assumptions": ["equality is reflect.DeepEqual, the reconcilers' own comparison; error texts are not compared"]},
    "C19": {"level": "fault_enumeration", "runs": [run("frr", "TestVerif_C19", race=True, shards=(4, 16)),
                                                   run("controllers", "TestVerif_C19", race=True, shards=(2, 8))],
            "thresholds": {"quick": {"applies": 750, "failed_applies": 170, "coalesced_bursts": 60, "submissions_during_apply": 150, "k8s_applies": 300, "k8s_failed_applies": 40, "k8s_coalesced_bursts": 30, "k8s_submissions_during_apply": 60}},
            "assumptions": ["bounded-progress restatement of eventually (100x the interval, starvation canary clean)", "reloadValidator's status file is not exercised; its re-apply requests are injected directly"]},
    "C20": {"level": "exploration", "runs": [run("controller", "TestVerif_C20", race=True, shards=(2, 16), files=["c20", "box", "shared"]),
                                             run("speaker", "TestVerif_C20", race=True, shards=(2, 16), files=["c20", "sbox", "shared"])]},
}
